/- Per-run obligation: row 0 of raid_gfcauchy is row 0 of the extended Cauchy generator -/
import GenTables
open SnapraidVerif SnapraidVerif.Raid SnapraidVerif.GF SnapraidVerif.GenTab
namespace SnapraidVerif.GenTabOk
theorem gfcauchy_row0 : genRowOk cauchy 0 (gfcauchy.getD 0 0) = true := by decide +kernel
theorem gfcauchy_len0 : gfcauchy.length = 6 := by decide +kernel
#print axioms gfcauchy_row0
end SnapraidVerif.GenTabOk
