/- Per-run obligations: the word-level bit tricks of /repo/raid/gf.h, as translated today,
multiply / divide every byte lane by 2 in GF(2^8)  (proved by bv_decide: adds one
`…._native.bv_decide.ax_*` axiom per theorem, declared in the trusted base) -/
import Std.Tactic.BVDecide
import GenGfh
import SnapraidVerif.Props.C02
open SnapraidVerif SnapraidVerif.GF SnapraidVerif.Props.C02
namespace SnapraidVerif.GenGfhOk

theorem xtime_bv (a : BitVec 8) : xtime a = (a <<< 1) ^^^ (if a.msb then 0x1d#8 else 0#8) := rfl
theorem d2_bv (a : BitVec 8) : d2byte a = (a >>> 1) ^^^ (if a.getLsbD 0 then 0x8e#8 else 0#8) := rfl

theorem x2_32_lanes (v : BitVec 32) :
    (GenGfh.x2_32 v).extractLsb' 0 8 = xtime (v.extractLsb' 0 8) ∧
    (GenGfh.x2_32 v).extractLsb' 8 8 = xtime (v.extractLsb' 8 8) ∧
    (GenGfh.x2_32 v).extractLsb' 16 8 = xtime (v.extractLsb' 16 8) ∧
    (GenGfh.x2_32 v).extractLsb' 24 8 = xtime (v.extractLsb' 24 8) := by
  simp only [xtime_bv, GenGfh.x2_32]; bv_decide

theorem d2_32_lanes (v : BitVec 32) :
    (GenGfh.d2_32 v).extractLsb' 0 8 = d2byte (v.extractLsb' 0 8) ∧
    (GenGfh.d2_32 v).extractLsb' 8 8 = d2byte (v.extractLsb' 8 8) ∧
    (GenGfh.d2_32 v).extractLsb' 16 8 = d2byte (v.extractLsb' 16 8) ∧
    (GenGfh.d2_32 v).extractLsb' 24 8 = d2byte (v.extractLsb' 24 8) := by
  simp only [d2_bv, GenGfh.d2_32]; bv_decide

theorem x2_64_lanes (v : BitVec 64) :
    (GenGfh.x2_64 v).extractLsb' 0 8 = xtime (v.extractLsb' 0 8) ∧
    (GenGfh.x2_64 v).extractLsb' 8 8 = xtime (v.extractLsb' 8 8) ∧
    (GenGfh.x2_64 v).extractLsb' 16 8 = xtime (v.extractLsb' 16 8) ∧
    (GenGfh.x2_64 v).extractLsb' 24 8 = xtime (v.extractLsb' 24 8) ∧
    (GenGfh.x2_64 v).extractLsb' 32 8 = xtime (v.extractLsb' 32 8) ∧
    (GenGfh.x2_64 v).extractLsb' 40 8 = xtime (v.extractLsb' 40 8) ∧
    (GenGfh.x2_64 v).extractLsb' 48 8 = xtime (v.extractLsb' 48 8) ∧
    (GenGfh.x2_64 v).extractLsb' 56 8 = xtime (v.extractLsb' 56 8) := by
  simp only [xtime_bv, GenGfh.x2_64]; bv_decide

theorem d2_64_lanes (v : BitVec 64) :
    (GenGfh.d2_64 v).extractLsb' 0 8 = d2byte (v.extractLsb' 0 8) ∧
    (GenGfh.d2_64 v).extractLsb' 8 8 = d2byte (v.extractLsb' 8 8) ∧
    (GenGfh.d2_64 v).extractLsb' 16 8 = d2byte (v.extractLsb' 16 8) ∧
    (GenGfh.d2_64 v).extractLsb' 24 8 = d2byte (v.extractLsb' 24 8) ∧
    (GenGfh.d2_64 v).extractLsb' 32 8 = d2byte (v.extractLsb' 32 8) ∧
    (GenGfh.d2_64 v).extractLsb' 40 8 = d2byte (v.extractLsb' 40 8) ∧
    (GenGfh.d2_64 v).extractLsb' 48 8 = d2byte (v.extractLsb' 48 8) ∧
    (GenGfh.d2_64 v).extractLsb' 56 8 = d2byte (v.extractLsb' 56 8) := by
  simp only [d2_bv, GenGfh.d2_64]; bv_decide

#print axioms x2_32_lanes
#print axioms d2_32_lanes
#print axioms x2_64_lanes
#print axioms d2_64_lanes
end SnapraidVerif.GenGfhOk
