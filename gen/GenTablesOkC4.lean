/- Per-run obligation: row 4 of raid_gfcauchy is row 4 of the extended Cauchy generator -/
import GenTables
open SnapraidVerif SnapraidVerif.Raid SnapraidVerif.GF SnapraidVerif.GenTab
namespace SnapraidVerif.GenTabOk
theorem gfcauchy_row4 : genRowOk cauchy 4 (gfcauchy.getD 4 0) = true := by decide +kernel
theorem gfcauchy_len4 : gfcauchy.length = 6 := by decide +kernel
#print axioms gfcauchy_row4
end SnapraidVerif.GenTabOk
