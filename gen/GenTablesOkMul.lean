/- Per-run obligations over the tables generated from /repo/raid/tables.c (part: products) -/
import GenTables
open SnapraidVerif SnapraidVerif.Raid SnapraidVerif.GF SnapraidVerif.GenTab
namespace SnapraidVerif.GenTabOk
theorem gfmul_basis : gfmul.basisOk = true := by decide +kernel
theorem gfmul_lin : gfmul.linOk = true := by decide +kernel
/-- every entry of `raid_gfmul` is the GF(2^8) product, polynomial 0x11d -/
theorem gfmul_ok (a b : B) : gfmul.get a.toNat b.toNat = (mul a b).toNat :=
  MulTable.ok _ gfmul_basis gfmul_lin a b
theorem mulpshufb_chk : mulPshufbOk gfmul gfmulpshufb = true := by decide +kernel
/-- `raid_gfmulpshufb[m][h][k] = m · nib h k` -/
theorem mulpshufb_ok (m : B) (h k : Nat) (hh : h < 2) (hk : k < 16) :
    byteAt (gfmulpshufb.row 32 m.toNat) (16*h + k) = (mul m (BitVec.ofNat 8 (nib h k))).toNat := by
  rw [mulPshufbOk_spec mulpshufb_chk m.toNat h k m.isLt hh hk]
  have hn : nib h k < 256 := by unfold nib; split <;> omega
  have := gfmul_ok m (BitVec.ofNat 8 (nib h k))
  simpa [Nat.mod_eq_of_lt hn] using this
theorem cauchypshufb_chk : cauchyPshufbOk gfcauchy gfmulpshufb gfcauchypshufb = true := by decide +kernel
#print axioms gfmul_ok
#print axioms mulpshufb_ok
#print axioms cauchypshufb_chk
end SnapraidVerif.GenTabOk
