/- Per-run obligation: row 3 of raid_gfcauchy is row 3 of the extended Cauchy generator -/
import GenTables
open SnapraidVerif SnapraidVerif.Raid SnapraidVerif.GF SnapraidVerif.GenTab
namespace SnapraidVerif.GenTabOk
theorem gfcauchy_row3 : genRowOk cauchy 3 (gfcauchy.getD 3 0) = true := by decide +kernel
theorem gfcauchy_len3 : gfcauchy.length = 6 := by decide +kernel
#print axioms gfcauchy_row3
end SnapraidVerif.GenTabOk
