/- Per-run obligation: raid_gfvandermonde is the power generator 1, 2^i, 2^-i -/
import GenTables
open SnapraidVerif SnapraidVerif.Raid SnapraidVerif.GF SnapraidVerif.GenTab
namespace SnapraidVerif.GenTabOk
theorem gfvandermonde_rows : (List.range 3).all (fun j => genRowOk power j (gfvandermonde.getD j 0)) = true := by
  decide +kernel
theorem gfvandermonde_len : gfvandermonde.length = 3 := by decide +kernel
#print axioms gfvandermonde_rows
end SnapraidVerif.GenTabOk
