/- Per-run obligation: row 1 of raid_gfcauchy is row 1 of the extended Cauchy generator -/
import GenTables
open SnapraidVerif SnapraidVerif.Raid SnapraidVerif.GF SnapraidVerif.GenTab
namespace SnapraidVerif.GenTabOk
theorem gfcauchy_row1 : genRowOk cauchy 1 (gfcauchy.getD 1 0) = true := by decide +kernel
theorem gfcauchy_len1 : gfcauchy.length = 6 := by decide +kernel
#print axioms gfcauchy_row1
end SnapraidVerif.GenTabOk
