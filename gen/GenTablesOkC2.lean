/- Per-run obligation: row 2 of raid_gfcauchy is row 2 of the extended Cauchy generator -/
import GenTables
open SnapraidVerif SnapraidVerif.Raid SnapraidVerif.GF SnapraidVerif.GenTab
namespace SnapraidVerif.GenTabOk
theorem gfcauchy_row2 : genRowOk cauchy 2 (gfcauchy.getD 2 0) = true := by decide +kernel
theorem gfcauchy_len2 : gfcauchy.length = 6 := by decide +kernel
#print axioms gfcauchy_row2
end SnapraidVerif.GenTabOk
