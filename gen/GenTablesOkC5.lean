/- Per-run obligation: row 5 of raid_gfcauchy is row 5 of the extended Cauchy generator -/
import GenTables
open SnapraidVerif SnapraidVerif.Raid SnapraidVerif.GF SnapraidVerif.GenTab
namespace SnapraidVerif.GenTabOk
theorem gfcauchy_row5 : genRowOk cauchy 5 (gfcauchy.getD 5 0) = true := by decide +kernel
theorem gfcauchy_len5 : gfcauchy.length = 6 := by decide +kernel
#print axioms gfcauchy_row5
end SnapraidVerif.GenTabOk
