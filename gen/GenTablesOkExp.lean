/- Per-run obligations over the tables generated from /repo/raid/tables.c (part: powers, inverses) -/
import GenTables
open SnapraidVerif SnapraidVerif.Raid SnapraidVerif.GF SnapraidVerif.GenTab
namespace SnapraidVerif.GenTabOk
theorem gfexp_chk : expOk gfexp = true := by decide +kernel
theorem gfexp_ok (i : Nat) (hi : i < 256) : byteAt gfexp i = (pow2 i).toNat := expOk_spec gfexp_chk i hi
theorem gfinv_chk : invOk gfinv = true := by decide +kernel
theorem gfinv_ok (a : B) : byteAt gfinv a.toNat = (inv a).toNat := invOk_spec gfinv_chk a
#print axioms gfexp_ok
#print axioms gfinv_ok
end SnapraidVerif.GenTabOk
