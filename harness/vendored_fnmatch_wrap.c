/* compiles /repo/cmdline/fnmatch.c (the vendored glibc fnmatch, normally elided when the
   platform is glibc) under the name vendored_fnmatch */
#define _GNU_SOURCE 1
#include <errno.h>
#include <fnmatch.h>
#include <ctype.h>
#include <string.h>
#include <stdlib.h>
#undef __GNU_LIBRARY__
#ifndef __P
#define __P(x) x
#endif
#define HAVE___STRCHRNUL 1
#define __strchrnul strchrnul
#include "cmdline/fnmatch.c"
