/*
 * LD_PRELOAD shim for the end-to-end harness: syscall log, fault injection, kill points, frozen clock.
 *
 *  VERIF_LOG=<file>     one line per state-changing call (and per failed-by-injection call):
 *                         <seq> <op> <path> [<path2>] off=<o> len=<n> ret=<r>
 *  VERIF_FAIL=<op>:<substr>:<k>:<errno>   fail the k-th (1-based) call of <op> whose path contains <substr>
 *                         ops: read pread write pwrite fsync open rename ftruncate fallocate unlink
 *  VERIF_FAIL_FROM=1    (with VERIF_FAIL) fail the k-th and every later matching call
 *  VERIF_FAIL_N=<n>     (with VERIF_FAIL) fail the k-th and the next n-1 matching calls
 *  VERIF_FAIL_SHORT=1  (with VERIF_FAIL=pread:...) the k-th matching pread is a legal SHORT read (half of the bytes), the
 *                        error hits the pread that continues it (a bad sector in the middle of a block)
 *  VERIF_CORRUPT=<substr>:<k>   silent write fault: the k-th write()/pwrite() on a path containing <substr>
 *                        stores one flipped bit (first byte) and reports success
 *  VERIF_KILL=<k>:<before|after|mid>      SIGKILL self at the k-th state-changing call
 *                         (mid: for write/pwrite perform half of the write first)
 *  VERIF_NOW=<t>        time()/clock_gettime(CLOCK_REALTIME)/gettimeofday return t
 *  VERIF_COUNT=<file>   at exit write "mutating=<n> fired=<n>"
 */
#define _GNU_SOURCE
#include <dlfcn.h>
#include <errno.h>
#include <fcntl.h>
#include <signal.h>
#include <stdarg.h>
#include <stdio.h>
#include <stdlib.h>
#include <string.h>
#include <sys/stat.h>
#include <sys/time.h>
#include <sys/types.h>
#include <time.h>
#include <unistd.h>
#include <pthread.h>

static int logfd = -1;
static long seq;
static long fail_k, fail_cnt, fail_errno, fail_from, fail_n = 1, fail_short, fired;
static char fail_op[32], fail_sub[256];
static long kill_k;
static int kill_when; /* 0 before 1 after 2 mid */
static long sig_k, sig_no; /* VERIF_SIGNAL=<k>:<signo>: deliver a signal (graceful stop) at the k-th state-changing call */
static long now_fixed;
static int inited;
static pthread_mutex_t mu = PTHREAD_MUTEX_INITIALIZER;
static char countpath[512];
static char corrupt_sub[256];
static long corrupt_k, corrupt_cnt;

#define REAL(name) static __typeof__(name) *real_##name; if (!real_##name) real_##name = dlsym(RTLD_NEXT, #name)

static void fini(void)
{
	if (countpath[0]) {
		FILE *f = fopen(countpath, "w");
		if (f) { fprintf(f, "mutating=%ld fired=%ld\n", seq, fired); fclose(f); }
	}
}

static void init(void)
{
	const char *e;
	if (inited) return;
	inited = 1;
	if ((e = getenv("VERIF_LOG")) != 0) {
		REAL(open);
		logfd = real_open(e, O_WRONLY | O_CREAT | O_APPEND, 0644);
	}
	if ((e = getenv("VERIF_FAIL")) != 0) {
		char buf[512]; char *p, *q;
		strncpy(buf, e, sizeof(buf) - 1); buf[sizeof(buf) - 1] = 0;
		p = strchr(buf, ':');
		if (p) { *p++ = 0; strncpy(fail_op, buf, sizeof(fail_op) - 1);
			q = strchr(p, ':');
			if (q) { *q++ = 0; strncpy(fail_sub, p, sizeof(fail_sub) - 1);
				fail_k = strtol(q, &q, 10);
				if (*q == ':') fail_errno = strtol(q + 1, 0, 10); else fail_errno = EIO; } }
	}
	if (getenv("VERIF_FAIL_FROM")) fail_from = 1;
	if (getenv("VERIF_FAIL_SHORT")) fail_short = 1;
	if ((e = getenv("VERIF_FAIL_N")) != 0 && atol(e) > 0) fail_n = atol(e);
	if ((e = getenv("VERIF_CORRUPT")) != 0) {
		const char *q = strrchr(e, ':');
		if (q && (size_t)(q - e) < sizeof(corrupt_sub)) { memcpy(corrupt_sub, e, q - e); corrupt_sub[q - e] = 0; corrupt_k = strtol(q + 1, 0, 10); }
	}
	if ((e = getenv("VERIF_KILL")) != 0) {
		char *q;
		kill_k = strtol(e, &q, 10);
		if (*q == ':') { ++q; kill_when = !strcmp(q, "after") ? 1 : !strcmp(q, "mid") ? 2 : 0; }
	}
	if ((e = getenv("VERIF_SIGNAL")) != 0) {
		char *q;
		sig_k = strtol(e, &q, 10);
		sig_no = (*q == ':') ? strtol(q + 1, 0, 10) : SIGINT;
	}
	if ((e = getenv("VERIF_NOW")) != 0) now_fixed = strtol(e, 0, 10);
	if ((e = getenv("VERIF_COUNT")) != 0) { strncpy(countpath, e, sizeof(countpath) - 1); atexit(fini); }
}

static const char *fdpath(int fd, char *buf, size_t n)
{
	char link[64];
	ssize_t r;
	snprintf(link, sizeof(link), "/proc/self/fd/%d", fd);
	r = readlink(link, buf, n - 1);
	if (r < 0) r = 0;
	buf[r] = 0;
	return buf;
}

static int interesting(const char *path)
{
	/* only the array's own files: the harness puts everything under a directory named "snapraid-verif." */
	return path && strstr(path, "snapraid-verif.") != 0 && (logfd < 0 || 1);
}

static void logline(const char *op, const char *p1, const char *p2, long long off, long long len, long long ret)
{
	char line[2300];
	int n;
	REAL(write);
	if (logfd < 0) return;
	n = snprintf(line, sizeof(line), "%ld %s %s%s%s off=%lld len=%lld ret=%lld\n", seq, op, p1 ? p1 : "-", p2 ? " " : "", p2 ? p2 : "", off, len, ret);
	if (n > 0) real_write(logfd, line, n);
}

/* returns 1 if this call has to fail (errno set) */
static int want_fail(const char *op, const char *path)
{
	int r = 0;
	if (!fail_k || strcmp(op, fail_op) != 0 || !path || !strstr(path, fail_sub)) return 0;
	pthread_mutex_lock(&mu);
	++fail_cnt;
	if ((fail_cnt >= fail_k && fail_cnt < fail_k + fail_n) || (fail_from && fail_cnt > fail_k)) { r = 1; ++fired; }
	pthread_mutex_unlock(&mu);
	if (r) errno = (int)fail_errno;
	return r;
}

/* returns 1 if this write has to be silently corrupted */
static int want_corrupt(const char *path, size_t n)
{
	int r = 0;
	if (!corrupt_k || !n || !path || !strstr(path, corrupt_sub)) return 0;
	pthread_mutex_lock(&mu);
	++corrupt_cnt;
	if (corrupt_cnt == corrupt_k) { r = 1; ++fired; }
	pthread_mutex_unlock(&mu);
	return r;
}

/* a state-changing call on an array file is about to happen: returns the kill action for it */
static int mutating(const char *path)
{
	int act = -1;
	if (!interesting(path)) return -1;
	pthread_mutex_lock(&mu);
	++seq;
	if (kill_k && seq == kill_k) act = kill_when;
	if (sig_k && seq == sig_k) { pthread_mutex_unlock(&mu); logline("SIGNAL", path, 0, 0, sig_no, 0); raise((int)sig_no); pthread_mutex_lock(&mu); }
	pthread_mutex_unlock(&mu);
	if (act == 0) { logline("KILL-before", path, 0, 0, 0, 0); raise(SIGKILL); }
	return act;
}

static void after(int act, const char *path)
{
	if (act == 1) { logline("KILL-after", path, 0, 0, 0, 0); raise(SIGKILL); }
}

/* ---- reads (fault injection only) ---- */
ssize_t read(int fd, void *buf, size_t n)
{
	char p[1024];
	REAL(read);
	init();
	if (fail_k && !strcmp(fail_op, "read") && want_fail("read", fdpath(fd, p, sizeof(p)))) { logline("FAIL-read", p, 0, 0, n, -1); return -1; }
	return real_read(fd, buf, n);
}

ssize_t pread64(int fd, void *buf, size_t n, off64_t off)
{
	char p[1024];
	REAL(pread64);
	init();
	if (fail_k && fail_short && !strcmp(fail_op, "pread")) {
		/* short read at the k-th matching call, error at the call after it */
		if (strstr(fdpath(fd, p, sizeof(p)), fail_sub)) {
			long c;
			pthread_mutex_lock(&mu); c = ++fail_cnt; pthread_mutex_unlock(&mu);
			if (c == fail_k && n > 1) return real_pread64(fd, buf, n / 2, off);
			if (c == fail_k + 1) { ++fired; logline("FAIL-pread", p, 0, off, n, -1); errno = (int)fail_errno; return -1; }
		}
		return real_pread64(fd, buf, n, off);
	}
	if (fail_k && !strcmp(fail_op, "pread") && want_fail("pread", fdpath(fd, p, sizeof(p)))) { logline("FAIL-pread", p, 0, off, n, -1); return -1; }
	return real_pread64(fd, buf, n, off);
}
ssize_t pread(int fd, void *buf, size_t n, off_t off) { return pread64(fd, buf, n, off); }

/* ---- writes ---- */
ssize_t write(int fd, const void *buf, size_t n)
{
	char p[1024];
	int act;
	ssize_t r;
	REAL(write);
	init();
	if (fd <= 2 || fd == logfd) return real_write(fd, buf, n);
	fdpath(fd, p, sizeof(p));
	if (!interesting(p)) return real_write(fd, buf, n);
	if (want_fail("write", p)) { logline("FAIL-write", p, 0, -1, n, -1); return -1; }
	act = mutating(p);
	if (act == 2) { r = real_write(fd, buf, n / 2); logline("KILL-mid-write", p, 0, -1, n / 2, r); raise(SIGKILL); }
	if (want_corrupt(p, n)) {
		char *tmp = malloc(n);
		memcpy(tmp, buf, n); tmp[0] ^= 0x04;
		r = real_write(fd, tmp, n); free(tmp);
		logline("CORRUPT-write", p, 0, -1, n, r);
	} else
	r = real_write(fd, buf, n);
	logline("write", p, 0, (long long)lseek(fd, 0, SEEK_CUR) - r, n, r);
	after(act, p);
	return r;
}

ssize_t pwrite64(int fd, const void *buf, size_t n, off64_t off)
{
	char p[1024];
	int act;
	ssize_t r;
	REAL(pwrite64);
	init();
	fdpath(fd, p, sizeof(p));
	if (!interesting(p)) return real_pwrite64(fd, buf, n, off);
	if (want_fail("pwrite", p)) { logline("FAIL-pwrite", p, 0, off, n, -1); return -1; }
	act = mutating(p);
	if (act == 2) { r = real_pwrite64(fd, buf, n / 2, off); logline("KILL-mid-pwrite", p, 0, off, n / 2, r); raise(SIGKILL); }
	if (want_corrupt(p, n)) {
		char *tmp = malloc(n);
		memcpy(tmp, buf, n); tmp[0] ^= 0x04;
		r = real_pwrite64(fd, tmp, n, off); free(tmp);
		logline("CORRUPT-pwrite", p, 0, off, n, r);
	} else
	r = real_pwrite64(fd, buf, n, off);
	logline("pwrite", p, 0, off, n, r);
	after(act, p);
	return r;
}
ssize_t pwrite(int fd, const void *buf, size_t n, off_t off) { return pwrite64(fd, buf, n, off); }

int fsync(int fd)
{
	char p[1024];
	int act, r;
	REAL(fsync);
	init();
	fdpath(fd, p, sizeof(p));
	if (!interesting(p)) return real_fsync(fd);
	if (want_fail("fsync", p)) { logline("FAIL-fsync", p, 0, 0, 0, -1); return -1; }
	act = mutating(p);
	r = real_fsync(fd);
	logline("fsync", p, 0, 0, 0, r);
	after(act, p);
	return r;
}

int fdatasync(int fd)
{
	char p[1024];
	int act, r;
	REAL(fdatasync);
	init();
	fdpath(fd, p, sizeof(p));
	if (!interesting(p)) return real_fdatasync(fd);
	act = mutating(p);
	r = real_fdatasync(fd);
	logline("fsync", p, 0, 0, 0, r);
	after(act, p);
	return r;
}

int close(int fd)
{
	char p[1024];
	int r;
	REAL(close);
	init();
	if (fd == logfd) return 0;
	fdpath(fd, p, sizeof(p));
	r = real_close(fd);
	if (interesting(p) && logfd >= 0) logline("close", p, 0, 0, 0, r);
	return r;
}

static int open_common(const char *path, int flags, mode_t mode, int is64)
{
	int r, act = -1;
	struct stat st;
	int creating;
	REAL(open); REAL(open64);
	init();
	if (!interesting(path)) return is64 ? real_open64(path, flags, mode) : real_open(path, flags, mode);
	if (want_fail("open", path)) { logline("FAIL-open", path, 0, 0, flags, -1); return -1; }
	creating = (flags & O_CREAT) && stat(path, &st) != 0;
	if (creating || (flags & O_TRUNC)) act = mutating(path);
	r = is64 ? real_open64(path, flags, mode) : real_open(path, flags, mode);
	if (creating || (flags & O_TRUNC)) logline(creating ? "create" : "open-trunc", path, 0, 0, flags, r);
	else if ((flags & O_ACCMODE) != O_RDONLY) logline("open-rw", path, 0, 0, flags, r);
	else if (strlen(path) > 4 && !strcmp(path + strlen(path) - 4, ".tmp")) logline("open-ro", path, 0, 0, flags, r);
	after(act, path);
	return r;
}

int open(const char *path, int flags, ...)
{
	mode_t mode = 0;
	if (flags & (O_CREAT | O_TMPFILE)) { va_list ap; va_start(ap, flags); mode = va_arg(ap, mode_t); va_end(ap); }
	return open_common(path, flags, mode, 0);
}
int open64(const char *path, int flags, ...)
{
	mode_t mode = 0;
	if (flags & (O_CREAT | O_TMPFILE)) { va_list ap; va_start(ap, flags); mode = va_arg(ap, mode_t); va_end(ap); }
	return open_common(path, flags, mode, 1);
}

#define PATH1(name, decl, callargs, pathexpr, extra_off, extra_len) \
	int name decl { int act, r; REAL(name); init(); \
		if (!interesting(pathexpr)) return real_##name callargs; \
		if (want_fail(#name, pathexpr)) { logline("FAIL-" #name, pathexpr, 0, extra_off, extra_len, -1); return -1; } \
		act = mutating(pathexpr); r = real_##name callargs; logline(#name, pathexpr, 0, extra_off, extra_len, r); after(act, pathexpr); return r; }

PATH1(unlink, (const char *path), (path), path, 0, 0)
PATH1(remove, (const char *path), (path), path, 0, 0)
PATH1(rmdir, (const char *path), (path), path, 0, 0)
PATH1(mkdir, (const char *path, mode_t mode), (path, mode), path, 0, mode)
PATH1(truncate, (const char *path, off_t len), (path, len), path, 0, len)

int rename(const char *a, const char *b)
{
	int act, r;
	REAL(rename);
	init();
	if (!interesting(a) && !interesting(b)) return real_rename(a, b);
	if (want_fail("rename", b)) { logline("FAIL-rename", a, b, 0, 0, -1); return -1; }
	act = mutating(b);
	r = real_rename(a, b);
	logline("rename", a, b, 0, 0, r);
	after(act, b);
	return r;
}

int symlink(const char *target, const char *path)
{
	int act, r;
	REAL(symlink);
	init();
	if (!interesting(path)) return real_symlink(target, path);
	act = mutating(path);
	r = real_symlink(target, path);
	logline("symlink", path, 0, 0, 0, r);
	after(act, path);
	return r;
}

int link(const char *a, const char *b)
{
	int act, r;
	REAL(link);
	init();
	if (!interesting(b)) return real_link(a, b);
	act = mutating(b);
	r = real_link(a, b);
	logline("link", b, a, 0, 0, r);
	after(act, b);
	return r;
}

int ftruncate64(int fd, off64_t len)
{
	char p[1024];
	int act, r;
	REAL(ftruncate64);
	init();
	fdpath(fd, p, sizeof(p));
	if (!interesting(p)) return real_ftruncate64(fd, len);
	if (want_fail("ftruncate", p)) { logline("FAIL-ftruncate", p, 0, 0, len, -1); return -1; }
	act = mutating(p);
	r = real_ftruncate64(fd, len);
	logline("ftruncate", p, 0, 0, len, r);
	after(act, p);
	return r;
}
int ftruncate(int fd, off_t len) { return ftruncate64(fd, len); }

int fallocate64(int fd, int mode, off64_t off, off64_t len)
{
	char p[1024];
	int act, r;
	REAL(fallocate64);
	init();
	fdpath(fd, p, sizeof(p));
	if (!interesting(p)) return real_fallocate64(fd, mode, off, len);
	if (want_fail("fallocate", p)) { logline("FAIL-fallocate", p, 0, off, len, -1); return -1; }
	act = mutating(p);
	r = real_fallocate64(fd, mode, off, len);
	logline("fallocate", p, 0, off, len, r);
	after(act, p);
	return r;
}
int fallocate(int fd, int mode, off_t off, off_t len) { return fallocate64(fd, mode, off, len); }

int posix_fallocate64(int fd, off64_t off, off64_t len)
{
	char p[1024];
	int act, r;
	REAL(posix_fallocate64);
	init();
	fdpath(fd, p, sizeof(p));
	if (!interesting(p)) return real_posix_fallocate64(fd, off, len);
	if (want_fail("fallocate", p)) { logline("FAIL-fallocate", p, 0, off, len, -1); return errno; }
	act = mutating(p);
	r = real_posix_fallocate64(fd, off, len);
	logline("fallocate", p, 0, off, len, r);
	after(act, p);
	return r;
}
int posix_fallocate(int fd, off_t off, off_t len) { return posix_fallocate64(fd, off, len); }

int futimens(int fd, const struct timespec t[2])
{
	char p[1024];
	int act, r;
	REAL(futimens);
	init();
	fdpath(fd, p, sizeof(p));
	if (!interesting(p)) return real_futimens(fd, t);
	act = mutating(p);
	r = real_futimens(fd, t);
	logline("utimens", p, 0, 0, t ? t[1].tv_nsec : 0, r);
	after(act, p);
	return r;
}

int utimensat(int dirfd, const char *path, const struct timespec t[2], int flags)
{
	int act, r;
	REAL(utimensat);
	init();
	if (!interesting(path)) return real_utimensat(dirfd, path, t, flags);
	act = mutating(path);
	r = real_utimensat(dirfd, path, t, flags);
	logline("utimens", path, 0, 0, t ? t[1].tv_nsec : 0, r);
	after(act, path);
	return r;
}

/* ---- clock ---- */
time_t time(time_t *t)
{
	REAL(time);
	init();
	if (now_fixed) { if (t) *t = now_fixed; return now_fixed; }
	return real_time(t);
}

int gettimeofday(struct timeval *tv, void *tz)
{
	REAL(gettimeofday);
	init();
	if (now_fixed && tv) { tv->tv_sec = now_fixed; tv->tv_usec = 0; return 0; }
	return real_gettimeofday(tv, tz);
}
