/*
 * leaf_harness: in-process correspondence harness for leaf logic of cmdline/ (C16, C17, C18, C20).
 * Linked against ALL objects of the snapraid binary built from /repo's working tree
 * (snapraid.c compiled with -Dmain=snapraid_main), plus the vendored cmdline/fnmatch.c compiled
 * with HAVE_FNMATCH=0 and renamed to vendored_fnmatch.
 *
 * Line protocol on stdin, one reply line per request; byte strings are hex encoded ("-" = empty).
 */
#include "portable.h"
#include "support.h"
#include "elem.h"
#include "state.h"
#include "parity.h"
#include "util.h"
#include "raid/raid.h"
#include "raid/cpu.h"

int vendored_fnmatch(const char *pattern, const char *string, int flags);

static int hexv(int c)
{
	if (c >= '0' && c <= '9') return c - '0';
	if (c >= 'a' && c <= 'f') return c - 'a' + 10;
	if (c >= 'A' && c <= 'F') return c - 'A' + 10;
	return -1;
}

/* decode hex into a NUL terminated buffer, returns length or -1 */
static int unhex(const char *h, unsigned char *out, int max)
{
	int n = 0;
	if (!strcmp(h, "-")) { out[0] = 0; return 0; }
	while (h[0] && h[1]) {
		if (n + 1 >= max || hexv(h[0]) < 0 || hexv(h[1]) < 0) return -1;
		out[n++] = hexv(h[0]) * 16 + hexv(h[1]);
		h += 2;
	}
	out[n] = 0;
	return n;
}

static void puthex(const unsigned char *p, size_t n)
{
	size_t i;
	if (n == 0) { fputs("-", stdout); return; }
	for (i = 0; i < n; ++i) printf("%02x", p[i]);
}

#define MAXTOK 4096
static char *tok[MAXTOK];
static int ntok;

static unsigned char big[1 << 22];
static unsigned char big2[1 << 16];

static void do_split(void)
{
	/* split DIR NSPLIT LIMIT BS T1 T2 ... : parity_create then parity_chsize to each target; `r` = reopen, `L<n>` = reopen with limit n */
	struct snapraid_parity parity;
	struct snapraid_parity_handle handle;
	int nsplit = atoi(tok[2]);
	long long limit = atoll(tok[3]);
	unsigned bs = atoi(tok[4]);
	int i, s, ret;
	memset(&parity, 0, sizeof(parity));
	memset(&handle, 0, sizeof(handle));
	parity.split_mac = nsplit;
	for (s = 0; s < nsplit; ++s) {
		snprintf(parity.split_map[s].path, sizeof(parity.split_map[s].path), "%s/par.%d", tok[1], s);
		parity.split_map[s].size = PARITY_SIZE_INVALID;
	}
	ret = parity_create(&handle, &parity, 0, 0, bs, limit);
	if (ret != 0) { printf("create-failed\n"); return; }
	for (i = 5; i < ntok; ++i) {
		int mod = 0;
		long long target = atoll(tok[i]);
		if (tok[i][0] == 'L') {
			/* the file systems of the splits now allow another size: reopen with the new limit */
			limit = atoll(tok[i] + 1);
			parity_close(&handle);
			memset(&handle, 0, sizeof(handle));
			ret = parity_create(&handle, &parity, 0, 0, bs, limit);
			printf("relimit=%d ", ret);
			continue;
		}
		if (tok[i][0] == 'r') {
			/* reopen: close and create again from the recorded sizes */
			parity_close(&handle);
			memset(&handle, 0, sizeof(handle));
			ret = parity_create(&handle, &parity, 0, 0, bs, limit);
			printf("reopen=%d ", ret);
			continue;
		}
		ret = parity_chsize(&handle, &parity, &mod, target, bs, 1, 1);
		printf("rc=%d", ret);
		for (s = 0; s < nsplit; ++s) {
			struct stat st;
			long long fsz = -1;
			if (fstat(handle.split_map[s].f, &st) == 0) fsz = st.st_size;
			printf(":%lld/%lld", (long long)handle.split_map[s].size, fsz);
		}
		printf(" ");
		if (ret != 0) {
			/* after a failure the handle sizes may be partly updated: restart from the recorded ones */
			parity_close(&handle);
			memset(&handle, 0, sizeof(handle));
			/* record what is on disk as the binary would on the next run (sizes in parity unchanged) */
			ret = parity_create(&handle, &parity, 0, 0, bs, limit);
			if (ret != 0) { printf("recreate-failed"); break; }
		}
	}
	printf("\n");
	parity_close(&handle);
}

static void do_filter(void)
{
	/* filter N r1..rN KIND DISKHEX SUBHEX ; rule = i:HEX | e:HEX | I:HEX | E:HEX (capital: disk rule) ; KIND f|d|e */
	tommy_list list;
	int n = atoi(tok[1]);
	int i, bad = 0, res;
	static unsigned char pat[PATH_MAX], disk[PATH_MAX], sub[PATH_MAX];
	struct snapraid_filter *reason = 0;
	tommy_list_init(&list);
	for (i = 0; i < n; ++i) {
		char *r = tok[2 + i];
		struct snapraid_filter *f;
		if (unhex(r + 2, pat, sizeof(pat)) < 0) { bad = 1; break; }
		if (r[0] == 'I' || r[0] == 'E') f = filter_alloc_disk(r[0] == 'I' ? 1 : -1, (char *)pat);
		else f = filter_alloc_file(r[0] == 'i' ? 1 : -1, (char *)pat);
		if (!f) { bad = 2; break; }
		tommy_list_insert_tail(&list, &f->node, f);
	}
	if (bad) { printf(bad == 2 ? "invalid-rule %d\n" : "bad-hex\n", i); tommy_list_foreach(&list, (tommy_foreach_func *)filter_free); return; }
	unhex(tok[3 + n], disk, sizeof(disk));
	unhex(tok[4 + n], sub, sizeof(sub));
	if (tok[2 + n][0] == 'f') res = filter_path(&list, &reason, (char *)disk, (char *)sub);
	else if (tok[2 + n][0] == 'd') res = filter_subdir(&list, &reason, (char *)disk, (char *)sub);
	else res = filter_emptydir(&list, &reason, (char *)disk, (char *)sub);
	printf("%d\n", res);
	tommy_list_foreach(&list, (tommy_foreach_func *)filter_free);
}

int main(void)
{
	static char line[1 << 23];
	static char esc[ESC_MAX + 16];
	raid_init();
	crc32c_init();
	while (fgets(line, sizeof(line), stdin)) {
		char *p = line;
		ntok = 0;
		while (ntok < MAXTOK) {
			while (*p == ' ') ++p;
			if (!*p || *p == '\n') break;
			tok[ntok++] = p;
			while (*p && *p != ' ' && *p != '\n') ++p;
			if (*p) *p++ = 0;
		}
		if (ntok == 0) { printf("empty\n"); continue; }
		if (!strcmp(tok[0], "esc_tag") && ntok == 2) {
			int n = unhex(tok[1], big, ESC_MAX / 2);
			if (n < 0) { printf("bad\n"); continue; }
			puthex((const unsigned char *)esc_tag((char *)big, esc), strlen(esc_tag((char *)big, esc)));
			printf("\n");
		} else if (!strcmp(tok[0], "esc_shell") && ntok == 2) {
			int n = unhex(tok[1], big, ESC_MAX / 2);
			const char *r;
			if (n < 0) { printf("bad\n"); continue; }
			r = esc_shell((char *)big, esc);
			puthex((const unsigned char *)r, strlen(r));
			printf("\n");
		} else if (!strcmp(tok[0], "fnm") && ntok == 4) {
			int fl = atoi(tok[1]);
			int a, b;
			if (unhex(tok[2], big, 4096) < 0 || unhex(tok[3], big2, 4096) < 0) { printf("bad\n"); continue; }
			a = fnmatch((char *)big, (char *)big2, fl);
			b = vendored_fnmatch((char *)big, (char *)big2, fl);
			printf("g=%d v=%d\n", a == 0, b == 0);
		} else if (!strcmp(tok[0], "filter") && ntok >= 5) {
			do_filter();
		} else if (!strcmp(tok[0], "crc") && ntok == 2) {
			int n = unhex(tok[1], big, sizeof(big));
			uint32_t g;
			if (n < 0) { printf("bad\n"); continue; }
			g = crc32c_gen(0, big, n);
			printf("gen=%u", g);
#if HAVE_SSE42
			if (raid_cpu_has_crc32()) printf(" x86=%u", crc32c_x86(0, big, n));
#endif
			/* chained in two parts, as the stream does */
			printf(" split=%u\n", crc32c_gen(crc32c_gen(0, big, n / 2), big + n / 2, n - n / 2));
		} else if (!strcmp(tok[0], "hash") && ntok == 4) {
			unsigned char seed[16 + 1], dig[16];
			int n;
			if (unhex(tok[2], seed, sizeof(seed)) != 16) { printf("bad-seed\n"); continue; }
			n = unhex(tok[3], big, sizeof(big));
			if (n < 0) { printf("bad\n"); continue; }
			memhash(atoi(tok[1]), seed, dig, big, n);
			puthex(dig, 16);
			printf("\n");
		} else if (!strcmp(tok[0], "split") && ntok >= 6) {
			do_split();
		} else {
			printf("bad-op\n");
		}
		fflush(stdout);
	}
	return 0;
}
