/*
 * raid_harness: in-process correspondence harness for raid/ (C02, C03, C16).
 *
 * Linked against the objects built from /repo/raid/ (current working tree).
 * The reference ("oracle") is NOT taken from the code under test: the GF(2^8) product
 * table, inverse table, power table and the generator matrices are computed by the Lean
 * driver from the mathematical definitions (SnapraidVerif.Raid.Gen) and loaded from a file.
 *
 * usage: raid_harness <oracle.txt> <outdir> <seed> <quick|thorough> <what: tables|gen|rec|all>
 * prints one summary line per test family ("RES family=... cases=... fail=...") and
 * writes <outdir>/<family>.fail.txt (replay description) for the first failure of a family,
 * <outdir>/genspec.req (requests for the Lean genSpec, with C answers in genspec.c_out)
 * and <outdir>/invert.req / invert.c_out.
 */
#include "internal.h"
#include "cpu.h"
#include "combo.h"
#include <stdio.h>
#include <sys/mman.h>
#include <unistd.h>

extern const uint8_t raid_gfmul[256][256];
extern const uint8_t raid_gfexp[256];
extern const uint8_t raid_gfinv[256];
extern const uint8_t raid_gfvandermonde[3][256];
extern const uint8_t raid_gfcauchy[6][256];
#ifdef CONFIG_X86
extern const uint8_t raid_gfcauchypshufb[251][4][2][16];
extern const uint8_t raid_gfmulpshufb[256][2][16];
#endif

/* ---- oracle (from Lean) ---- */
static uint8_t o_mul[256][256];
static uint8_t o_inv[256];
static uint8_t o_exp[256];
static uint8_t o_cauchy[6][251];
static uint8_t o_power[3][251];

static const char *outdir;
static int thorough;

/* SplitMix64 */
static uint64_t rng_state;
static uint64_t rnd64(void)
{
	uint64_t z = (rng_state += 0x9e3779b97f4a7c15ULL);
	z = (z ^ (z >> 30)) * 0xbf58476d1ce4e5b9ULL;
	z = (z ^ (z >> 27)) * 0x94d049bb133111ebULL;
	return z ^ (z >> 31);
}
static unsigned rnd(unsigned n) { return (unsigned)(rnd64() % n); }

static int hexv(int c)
{
	if (c >= '0' && c <= '9') return c - '0';
	if (c >= 'a' && c <= 'f') return c - 'a' + 10;
	return -1;
}

static int read_hex_line(FILE *f, uint8_t *dst, int n)
{
	int i;
	for (i = 0; i < n; ++i) {
		int a = fgetc(f), b = fgetc(f);
		if (hexv(a) < 0 || hexv(b) < 0) return -1;
		dst[i] = hexv(a) * 16 + hexv(b);
	}
	if (fgetc(f) != '\n') return -1;
	return 0;
}

static void load_oracle(const char *path)
{
	FILE *f = fopen(path, "r");
	int i;
	if (!f) { perror(path); exit(2); }
	for (i = 0; i < 256; ++i) if (read_hex_line(f, o_mul[i], 256)) goto bad;
	if (read_hex_line(f, o_inv, 256)) goto bad;
	if (read_hex_line(f, o_exp, 256)) goto bad;
	for (i = 0; i < 6; ++i) if (read_hex_line(f, o_cauchy[i], 251)) goto bad;
	for (i = 0; i < 3; ++i) if (read_hex_line(f, o_power[i], 251)) goto bad;
	fclose(f);
	return;
bad:
	fprintf(stderr, "bad oracle file\n");
	exit(2);
}

/* ---- guarded buffers: each block sits between two PROT_NONE pages ---- */
static long pagesz;
static uint8_t *guarded_alloc(size_t size)
{
	size_t body = (size + pagesz - 1) / pagesz * pagesz;
	uint8_t *m = mmap(0, body + 2 * pagesz, PROT_READ | PROT_WRITE, MAP_PRIVATE | MAP_ANONYMOUS, -1, 0);
	if (m == MAP_FAILED) { perror("mmap"); exit(2); }
	mprotect(m, pagesz, PROT_NONE);
	mprotect(m + pagesz + body, pagesz, PROT_NONE);
	/* put the block at the END of the body so an overrun hits the guard page at once */
	return m + pagesz + body - size;
}
static void guarded_free(uint8_t *p, size_t size)
{
	size_t body = (size + pagesz - 1) / pagesz * pagesz;
	munmap(p + size - body - pagesz, body + 2 * pagesz);
}

#define MAXB (251 + 6)

struct fam {
	const char *name;
	long cases;
	long fails;
	FILE *failf;
};

static void fam_fail_open(struct fam *fm)
{
	char path[1024];
	if (fm->failf) return;
	snprintf(path, sizeof(path), "%s/%s.fail.txt", outdir, fm->name);
	fm->failf = fopen(path, "w");
}

static void put_hex(FILE *f, const uint8_t *p, size_t n)
{
	size_t i;
	for (i = 0; i < n; ++i) fprintf(f, "%02x", p[i]);
}

static void fam_report(struct fam *fm)
{
	printf("RES family=%s cases=%ld fail=%ld\n", fm->name, fm->cases, fm->fails);
	if (fm->failf) fclose(fm->failf);
}

/* ---- table cross-check: C tables vs Lean definitions, entry by entry ---- */
static void test_tables(void)
{
	struct fam fm = { "tables", 0, 0, 0 };
	int a, b, j, i;
#define TFAIL(...) do { ++fm.fails; fam_fail_open(&fm); if (fm.fails <= 20) { fprintf(fm.failf, __VA_ARGS__); fputc('\n', fm.failf); } } while (0)
	for (a = 0; a < 256; ++a)
		for (b = 0; b < 256; ++b) {
			++fm.cases;
			if (raid_gfmul[a][b] != o_mul[a][b])
				TFAIL("table raid_gfmul[%d][%d] = 0x%02x, field product = 0x%02x", a, b, raid_gfmul[a][b], o_mul[a][b]);
		}
	for (a = 0; a < 256; ++a) {
		++fm.cases;
		if (raid_gfexp[a] != o_exp[a]) TFAIL("table raid_gfexp[%d] = 0x%02x, 2^i = 0x%02x", a, raid_gfexp[a], o_exp[a]);
		++fm.cases;
		if (raid_gfinv[a] != o_inv[a]) TFAIL("table raid_gfinv[%d] = 0x%02x, inverse = 0x%02x", a, raid_gfinv[a], o_inv[a]);
	}
	for (j = 0; j < 6; ++j)
		for (i = 0; i < 251; ++i) {
			++fm.cases;
			if (raid_gfcauchy[j][i] != o_cauchy[j][i]) TFAIL("table raid_gfcauchy[%d][%d] = 0x%02x, generator = 0x%02x", j, i, raid_gfcauchy[j][i], o_cauchy[j][i]);
		}
	for (j = 0; j < 3; ++j)
		for (i = 0; i < 251; ++i) {
			++fm.cases;
			if (raid_gfvandermonde[j][i] != o_power[j][i]) TFAIL("table raid_gfvandermonde[%d][%d] = 0x%02x, generator = 0x%02x", j, i, raid_gfvandermonde[j][i], o_power[j][i]);
		}
#ifdef CONFIG_X86
	for (a = 0; a < 256; ++a)
		for (j = 0; j < 2; ++j)
			for (b = 0; b < 16; ++b) {
				uint8_t x = j ? (b << 4) : b;
				++fm.cases;
				if (raid_gfmulpshufb[a][j][b] != o_mul[a][x]) TFAIL("table raid_gfmulpshufb[%d][%d][%d] = 0x%02x, expected 0x%02x", a, j, b, raid_gfmulpshufb[a][j][b], o_mul[a][x]);
			}
	for (i = 0; i < 251; ++i)
		for (a = 0; a < 4; ++a)
			for (j = 0; j < 2; ++j)
				for (b = 0; b < 16; ++b) {
					uint8_t x = j ? (b << 4) : b;
					++fm.cases;
					if (raid_gfcauchypshufb[i][a][j][b] != o_mul[o_cauchy[a + 2][i]][x]) TFAIL("table raid_gfcauchypshufb[%d][%d][%d][%d] = 0x%02x, expected 0x%02x", i, a, j, b, raid_gfcauchypshufb[i][a][j][b], o_mul[o_cauchy[a + 2][i]][x]);
				}
#endif
	fam_report(&fm);
}

/* ---- parity generation ---- */
typedef void gen_f(int nd, size_t size, void **vv);
struct genvar {
	const char *name;
	gen_f *f;
	int np;
	int power; /* 1: power (vandermonde) matrix */
	int need; /* 0 none, 1 sse2, 2 ssse3, 3 avx2 */
	int x64; /* needs x86_64 ext registers */
	int int8; /* uses raid_gfgen (mode dependent) */
};

static struct genvar genvars[] = {
	{ "gen1_int32", raid_gen1_int32, 1, 0, 0, 0, 0 },
	{ "gen1_int64", raid_gen1_int64, 1, 0, 0, 0, 0 },
	{ "gen2_int32", raid_gen2_int32, 2, 0, 0, 0, 0 },
	{ "gen2_int64", raid_gen2_int64, 2, 0, 0, 0, 0 },
	{ "genz_int32", raid_genz_int32, 3, 1, 0, 0, 0 },
	{ "genz_int64", raid_genz_int64, 3, 1, 0, 0, 0 },
	{ "gen3_int8", raid_gen3_int8, 3, 0, 0, 0, 1 },
	{ "gen4_int8", raid_gen4_int8, 4, 0, 0, 0, 1 },
	{ "gen5_int8", raid_gen5_int8, 5, 0, 0, 0, 1 },
	{ "gen6_int8", raid_gen6_int8, 6, 0, 0, 0, 1 },
#ifdef CONFIG_X86
#ifdef CONFIG_SSE2
	{ "gen1_sse2", raid_gen1_sse2, 1, 0, 1, 0, 0 },
	{ "gen2_sse2", raid_gen2_sse2, 2, 0, 1, 0, 0 },
	{ "genz_sse2", raid_genz_sse2, 3, 1, 1, 0, 0 },
#ifdef CONFIG_X86_64
	{ "gen2_sse2ext", raid_gen2_sse2ext, 2, 0, 1, 1, 0 },
	{ "genz_sse2ext", raid_genz_sse2ext, 3, 1, 1, 1, 0 },
#endif
#endif
#ifdef CONFIG_SSSE3
	{ "gen3_ssse3", raid_gen3_ssse3, 3, 0, 2, 0, 0 },
	{ "gen4_ssse3", raid_gen4_ssse3, 4, 0, 2, 0, 0 },
	{ "gen5_ssse3", raid_gen5_ssse3, 5, 0, 2, 0, 0 },
	{ "gen6_ssse3", raid_gen6_ssse3, 6, 0, 2, 0, 0 },
#ifdef CONFIG_X86_64
	{ "gen3_ssse3ext", raid_gen3_ssse3ext, 3, 0, 2, 1, 0 },
	{ "gen4_ssse3ext", raid_gen4_ssse3ext, 4, 0, 2, 1, 0 },
	{ "gen5_ssse3ext", raid_gen5_ssse3ext, 5, 0, 2, 1, 0 },
	{ "gen6_ssse3ext", raid_gen6_ssse3ext, 6, 0, 2, 1, 0 },
#endif
#endif
#ifdef CONFIG_AVX2
	{ "gen1_avx2", raid_gen1_avx2, 1, 0, 3, 0, 0 },
	{ "gen2_avx2", raid_gen2_avx2, 2, 0, 3, 0, 0 },
#ifdef CONFIG_X86_64
	{ "genz_avx2ext", raid_genz_avx2ext, 3, 1, 3, 1, 0 },
	{ "gen3_avx2ext", raid_gen3_avx2ext, 3, 0, 3, 1, 0 },
	{ "gen4_avx2ext", raid_gen4_avx2ext, 4, 0, 3, 1, 0 },
	{ "gen5_avx2ext", raid_gen5_avx2ext, 5, 0, 3, 1, 0 },
	{ "gen6_avx2ext", raid_gen6_avx2ext, 6, 0, 3, 1, 0 },
#endif
#endif
#endif
	{ 0, 0, 0, 0, 0, 0, 0 }
};

static int cpu_ok(int need)
{
#ifdef CONFIG_X86
	if (need == 1) return raid_cpu_has_sse2();
	if (need == 2) return raid_cpu_has_ssse3();
	if (need == 3) return raid_cpu_has_avx2();
#endif
	return need == 0;
}

static uint8_t coef(int power, int j, int i) { return power ? o_power[j][i] : o_cauchy[j][i]; }

/* expected parity from the Lean-computed field and matrix */
static void spec_gen(int power, int nd, int np, size_t size, uint8_t **data, uint8_t **par)
{
	int j, d;
	size_t i;
	for (j = 0; j < np; ++j) {
		memset(par[j], 0, size);
		for (d = 0; d < nd; ++d) {
			const uint8_t *T = o_mul[coef(power, j, d)];
			for (i = 0; i < size; ++i) par[j][i] ^= T[data[d][i]];
		}
	}
}

/* fill patterns: 0 = dense random, 1 = byte basis on disk `bd` (every value in every lane),
   2 = all 0xff, 3 = single random disk non-zero */
static void fill_data(int pattern, int bd, int nd, size_t size, uint8_t **data)
{
	int d;
	size_t i;
	for (d = 0; d < nd; ++d) {
		switch (pattern) {
		case 0:
			for (i = 0; i < size; ++i) data[d][i] = (uint8_t)rnd64();
			break;
		case 1:
			if (d == bd)
				for (i = 0; i < size; ++i) data[d][i] = (uint8_t)((i / 64) & 0xff);
			else
				memset(data[d], 0, size);
			break;
		case 2:
			memset(data[d], 0xff, size);
			break;
		default:
			if (d == bd)
				for (i = 0; i < size; ++i) data[d][i] = (uint8_t)rnd64();
			else
				memset(data[d], 0, size);
		}
	}
}

static FILE *genspec_req, *genspec_out;
static long genspec_n;

static void run_gen_case(struct fam *fm, struct genvar *gv, int nd, size_t size, int pattern, int bd, int sample)
{
	uint8_t *buf[MAXB], *copy[MAXB], *exp[6];
	void *v[MAXB];
	int np = gv->np, i, j, bad = 0;
	char why[256] = "";

	for (i = 0; i < nd + np; ++i) { buf[i] = guarded_alloc(size); v[i] = buf[i]; }
	for (i = 0; i < nd; ++i) copy[i] = malloc(size);
	for (j = 0; j < np; ++j) exp[j] = malloc(size);
	fill_data(pattern, bd, nd, size, buf);
	for (i = 0; i < nd; ++i) memcpy(copy[i], buf[i], size);
	for (j = 0; j < np; ++j) memset(buf[nd + j], 0xA5 ^ j, size); /* garbage in the parity */

	raid_mode(gv->power ? RAID_MODE_VANDERMONDE : RAID_MODE_CAUCHY);
	gv->f(nd, size, v);
	raid_mode(RAID_MODE_CAUCHY);

	spec_gen(gv->power, nd, np, size, copy, exp);
	++fm->cases;
	for (i = 0; i < nd && !bad; ++i)
		if (memcmp(copy[i], buf[i], size) != 0) { bad = 1; snprintf(why, sizeof(why), "data block %d modified", i); }
	for (j = 0; j < np && !bad; ++j)
		if (memcmp(exp[j], buf[nd + j], size) != 0) {
			size_t k;
			for (k = 0; k < size; ++k) if (exp[j][k] != buf[nd + j][k]) break;
			bad = 1;
			snprintf(why, sizeof(why), "parity %d differs from sum_i A[%d][i]*D_i at byte %zu: got 0x%02x expected 0x%02x", j, j, k, buf[nd + j][k], exp[j][k]);
		}
	if (bad) {
		++fm->fails;
		if (fm->fails == 1) {
			fam_fail_open(fm);
			fprintf(fm->failf, "function=raid_%s nd=%d np=%d size=%zu pattern=%d basis_disk=%d\nreason=%s\n", gv->name, nd, np, size, pattern, bd, why);
			for (i = 0; i < nd; ++i) { fprintf(fm->failf, "data[%d]=", i); put_hex(fm->failf, copy[i], size); fputc('\n', fm->failf); }
			for (j = 0; j < np; ++j) { fprintf(fm->failf, "got_parity[%d]=", j); put_hex(fm->failf, buf[nd + j], size); fputc('\n', fm->failf); }
			for (j = 0; j < np; ++j) { fprintf(fm->failf, "expected_parity[%d]=", j); put_hex(fm->failf, exp[j], size); fputc('\n', fm->failf); }
		}
	}
	/* a sample of cases is sent through the Lean genSpec itself */
	if (sample && genspec_req && nd * size <= 4096) {
		fprintf(genspec_req, "genspec %s %d %d %zu ", gv->power ? "power" : "cauchy", nd, np, size);
		for (i = 0; i < nd; ++i) put_hex(genspec_req, copy[i], size);
		fputc('\n', genspec_req);
		for (j = 0; j < np; ++j) { if (j) fputc(' ', genspec_out); put_hex(genspec_out, buf[nd + j], size); }
		fputc('\n', genspec_out);
		++genspec_n;
	}
	for (i = 0; i < nd + np; ++i) guarded_free(buf[i], size);
	for (i = 0; i < nd; ++i) free(copy[i]);
	for (j = 0; j < np; ++j) free(exp[j]);
}

static void test_gen(void)
{
	struct genvar *gv;
	static const int nds_quick[] = { 1, 2, 3, 4, 5, 8, 31, 32, 33, 64, 128, 250, 251, 0 };
	char path[1024];
	snprintf(path, sizeof(path), "%s/genspec.req", outdir); genspec_req = fopen(path, "w");
	snprintf(path, sizeof(path), "%s/genspec.c_out", outdir); genspec_out = fopen(path, "w");

	for (gv = genvars; gv->name; ++gv) {
		struct fam fm = { 0, 0, 0, 0 };
		char nm[64];
		int k, nd;
		snprintf(nm, sizeof(nm), "gen.%s", gv->name);
		fm.name = nm;
		if (!cpu_ok(gv->need)) { printf("SKIP family=%s reason=cpu\n", nm); continue; }
		for (nd = 1; nd <= 251; ++nd) {
			int inq = 0;
			for (k = 0; nds_quick[k]; ++k) if (nds_quick[k] == nd) inq = 1;
			if (!thorough && !inq) continue;
			/* dense random, several sizes */
			run_gen_case(&fm, gv, nd, 64, 0, 0, nd <= 8);
			run_gen_case(&fm, gv, nd, 128, 0, 0, 0);
			run_gen_case(&fm, gv, nd, 192, 0, 0, 0);
			run_gen_case(&fm, gv, nd, 4096, 0, 0, 0);
			run_gen_case(&fm, gv, nd, 64, 2, 0, 0);
			/* byte basis: every value 0..255 in every one of the 64 lanes, on each disk */
			if (thorough || nd <= 33 || nd >= 250) {
				int bd;
				for (bd = 0; bd < nd; ++bd) {
					if (!thorough && nd > 33 && bd > 2 && bd < nd - 3 && (bd % 16) != 0) continue;
					/* thorough: every disk for nd <= 16, otherwise the first and last three, every 32nd and a seeded one per 32 */
					if (thorough && nd > 16 && bd > 2 && bd < nd - 3 && (bd % 32) != 0 && (bd % 32) != (int)((nd * 7 + 3) % 32)) continue;
					run_gen_case(&fm, gv, nd, 256 * 64, 1, bd, 0);
				}
			} else {
				run_gen_case(&fm, gv, nd, 256 * 64, 1, rnd(nd), 0);
				run_gen_case(&fm, gv, nd, 256 * 64, 1, nd - 1, 0);
			}
			run_gen_case(&fm, gv, nd, 64, 3, rnd(nd), nd <= 16);
		}
		fam_report(&fm);
	}
	/* the dispatcher: raid_gen must behave as the specification too, for both modes */
	{
		struct fam fm = { "gen.dispatch", 0, 0, 0 };
		int mode, np, nd;
		for (mode = 0; mode < 2; ++mode)
			for (np = 1; np <= (mode ? 3 : 6); ++np)
				for (nd = 1; nd <= 251; nd += (thorough ? 1 : 17)) {
					struct genvar gvd = { "gen(dispatch)", 0, np, mode, 0, 0, 0 };
					gvd.f = raid_gen_ptr[np - 1];
					if (mode && np == 3) gvd.f = raid_genz_ptr;
					if (mode && np != 3) continue; /* power mode differs only for np = 3 */
					run_gen_case(&fm, &gvd, nd, 256, 0, 0, 0);
				}
		fam_report(&fm);
	}
	fclose(genspec_req); fclose(genspec_out);
	printf("INFO genspec_samples=%ld\n", genspec_n);
}

/* ---- recovery ---- */
typedef void rec_f(int nr, int *id, int *ip, int nd, size_t size, void **vv);
struct recset { const char *name; rec_f *r1, *r2, *rx; int need; };
static struct recset recsets[] = {
	{ "int8", raid_rec1_int8, raid_rec2_int8, raid_recX_int8, 0 },
#ifdef CONFIG_X86
#ifdef CONFIG_SSSE3
	{ "ssse3", raid_rec1_ssse3, raid_rec2_ssse3, raid_recX_ssse3, 2 },
#endif
#ifdef CONFIG_AVX2
	{ "avx2", raid_rec1_avx2, raid_rec2_avx2, raid_recX_avx2, 3 },
#endif
#endif
	{ 0, 0, 0, 0, 0 }
};

static void set_rec(struct recset *rs)
{
	raid_rec_ptr[0] = rs->r1;
	raid_rec_ptr[1] = rs->r2;
	raid_rec_ptr[2] = rs->rx;
	raid_rec_ptr[3] = rs->rx;
	raid_rec_ptr[4] = rs->rx;
	raid_rec_ptr[5] = rs->rx;
}

static uint8_t *zero_block;

/*
 * One recovery case.  api: 0 raid_rec(ir), 1 raid_data(id, ip).
 * For raid_data, `ip` = parities to use (nr of them, sorted), blocks in `lostp` (other parities)
 * are filled with garbage first: they are not "used" and must not matter (but raid_data may
 * overwrite no parity at all).
 */
static void run_rec_case(struct fam *fm, const char *setname, int power, int api, int nd, int np, size_t size,
	int nr, int *ir, int *ip_use, int n_garbage_par, int *garbage_par)
{
	uint8_t *buf[MAXB], *orig[MAXB], *before[MAXB];
	void *v[MAXB];
	int i, bad = 0;
	char why[256] = "";
	int listed[MAXB];

	memset(listed, 0, sizeof(listed));
	for (i = 0; i < nd + np; ++i) { buf[i] = guarded_alloc(size); v[i] = buf[i]; orig[i] = malloc(size); before[i] = malloc(size); }
	fill_data(0, 0, nd, size, buf);
	spec_gen(power, nd, np, size, buf, buf + nd);
	for (i = 0; i < nd + np; ++i) memcpy(orig[i], buf[i], size);

	raid_mode(power ? RAID_MODE_VANDERMONDE : RAID_MODE_CAUCHY);
	if (api == 0) {
		for (i = 0; i < nr; ++i) { size_t k; listed[ir[i]] = 1; for (k = 0; k < size; ++k) buf[ir[i]][k] = (uint8_t)rnd64(); }
		for (i = 0; i < nd + np; ++i) memcpy(before[i], buf[i], size);
		raid_rec(nr, ir, nd, np, size, v);
	} else {
		for (i = 0; i < nr; ++i) { size_t k; listed[ir[i]] = 1; for (k = 0; k < size; ++k) buf[ir[i]][k] = (uint8_t)rnd64(); }
		for (i = 0; i < n_garbage_par; ++i) { size_t k; for (k = 0; k < size; ++k) buf[nd + garbage_par[i]][k] = (uint8_t)rnd64(); }
		for (i = 0; i < nd + np; ++i) memcpy(before[i], buf[i], size);
		raid_data(nr, ir, ip_use, nd, size, v);
	}
	raid_mode(RAID_MODE_CAUCHY);

	++fm->cases;
	for (i = 0; i < nd + np && !bad; ++i) {
		if (v[i] != buf[i]) { bad = 1; snprintf(why, sizeof(why), "pointer vector entry %d not restored", i); break; }
		if (listed[i]) {
			if (memcmp(buf[i], orig[i], size) != 0) { bad = 1; snprintf(why, sizeof(why), "listed block %d not restored bit-exactly", i); }
		} else {
			if (memcmp(buf[i], before[i], size) != 0) { bad = 1; snprintf(why, sizeof(why), "unlisted block %d was modified", i); }
		}
	}
	if (bad) {
		++fm->fails;
		if (fm->fails == 1) {
			fam_fail_open(fm);
			fprintf(fm->failf, "function=%s decoder=%s mode=%s nd=%d np=%d size=%zu nr=%d\nreason=%s\nfailed_index=", api ? "raid_data" : "raid_rec", setname, power ? "power" : "cauchy", nd, np, size, nr, why);
			for (i = 0; i < nr; ++i) fprintf(fm->failf, "%d ", ir[i]);
			if (api) { fprintf(fm->failf, "\nparity_used="); for (i = 0; i < nr; ++i) fprintf(fm->failf, "%d ", ip_use[i]); }
			fputc('\n', fm->failf);
			for (i = 0; i < nd + np; ++i) { fprintf(fm->failf, "orig[%d]=", i); put_hex(fm->failf, orig[i], size); fputc('\n', fm->failf); }
			for (i = 0; i < nd + np; ++i) { fprintf(fm->failf, "before[%d]=", i); put_hex(fm->failf, before[i], size); fputc('\n', fm->failf); }
			for (i = 0; i < nd + np; ++i) { fprintf(fm->failf, "after[%d]=", i); put_hex(fm->failf, buf[i], size); fputc('\n', fm->failf); }
		}
	}
	for (i = 0; i < nd + np; ++i) { guarded_free(buf[i], size); free(orig[i]); free(before[i]); }
}

/* enumerate all strictly increasing nr-tuples of [0,n) with the library's own combo.h AND
   count them against the binomial (C03: combination_first/next visit each once) */
static long binom(int n, int k)
{
	long r = 1; int i;
	if (k > n) return 0;
	for (i = 1; i <= k; ++i) r = r * (n - k + i) / i;
	return r;
}

static void test_rec(void)
{
	struct recset *rs;
	for (rs = recsets; rs->name; ++rs) {
		struct fam fm = { 0, 0, 0, 0 };
		char nm[64];
		int mode;
		snprintf(nm, sizeof(nm), "rec.%s", rs->name);
		fm.name = nm;
		if (!cpu_ok(rs->need)) { printf("SKIP family=%s reason=cpu\n", nm); continue; }
		set_rec(rs);
		for (mode = 0; mode < 2; ++mode) {
			int npmax = mode ? 3 : 6;
			int nd, np, nr;
			/* exhaustive for small geometries: all np, all nr <= np, all index sets (data+parity mix) */
			int ndmax = thorough ? 8 : 5;
			for (nd = 1; nd <= ndmax; ++nd)
				for (np = 1; np <= npmax; ++np)
					for (nr = 1; nr <= np; ++nr) {
						int ir[6];
						if (nr > nd + np) continue;
						combination_first(nr, nd + np, ir);
						do {
							run_rec_case(&fm, rs->name, mode, 0, nd, np, 64, nr, ir, 0, 0, 0);
						} while (combination_next(nr, nd + np, ir));
						/* raid_data: all data index sets x all admissible parity subsets */
						if (nr <= nd) {
							int id[6];
							combination_first(nr, nd, id);
							do {
								int ip[6];
								combination_first(nr, np, ip);
								do {
									int g[6], ng = 0, p, q;
									for (p = 0; p < np; ++p) {
										int used = 0;
										for (q = 0; q < nr; ++q) if (ip[q] == p) used = 1;
										if (!used) g[ng++] = p;
									}
									run_rec_case(&fm, rs->name, mode, 1, nd, np, 64, nr, id, ip, ng, g);
								} while (combination_next(nr, np, ip));
							} while (combination_next(nr, nd, id));
						}
					}
			/* large geometries: seeded failure sets incl. indexes >= 32 and the last disk */
			{
				static const int nds[] = { 12, 33, 64, 100, 200, 250, 251, 0 };
				int k, rep, reps = thorough ? 60 : 8;
				for (k = 0; nds[k]; ++k)
					for (np = 1; np <= npmax; ++np)
						for (nr = 1; nr <= np; ++nr)
							for (rep = 0; rep < reps; ++rep) {
								int ir[6], n = 0, tot = nds[k] + np, i, j;
								/* random sorted distinct; bias: include last data disk or first parity sometimes */
								while (n < nr) {
									int c = (rep % 3 == 0 && n == 0) ? nds[k] - 1 : (int)rnd(tot);
									int dup = 0;
									for (i = 0; i < n; ++i) if (ir[i] == c) dup = 1;
									if (!dup) ir[n++] = c;
								}
								for (i = 0; i < n; ++i) for (j = i + 1; j < n; ++j) if (ir[j] < ir[i]) { int t = ir[i]; ir[i] = ir[j]; ir[j] = t; }
								run_rec_case(&fm, rs->name, mode, 0, nds[k], np, rep % 2 ? 64 : 256, nr, ir, 0, 0, 0);
								/* raid_data with random parity subset */
								if (nr <= nds[k]) {
									int id[6], ip[6], g[6], ng = 0, p, q;
									n = 0;
									while (n < nr) { int c = rnd(nds[k]), dup = 0; for (i = 0; i < n; ++i) if (id[i] == c) dup = 1; if (!dup) id[n++] = c; }
									for (i = 0; i < n; ++i) for (j = i + 1; j < n; ++j) if (id[j] < id[i]) { int t = id[i]; id[i] = id[j]; id[j] = t; }
									n = 0;
									while (n < nr) { int c = rnd(np), dup = 0; for (i = 0; i < n; ++i) if (ip[i] == c) dup = 1; if (!dup) ip[n++] = c; }
									for (i = 0; i < n; ++i) for (j = i + 1; j < n; ++j) if (ip[j] < ip[i]) { int t = ip[i]; ip[i] = ip[j]; ip[j] = t; }
									for (p = 0; p < np; ++p) { int used = 0; for (q = 0; q < nr; ++q) if (ip[q] == p) used = 1; if (!used) g[ng++] = p; }
									run_rec_case(&fm, rs->name, mode, 1, nds[k], np, 64, nr, id, ip, ng, g);
									/* follow-up with the same parities and a failure set that differs from the previous one
									   only by a multiple of 32 in one index: a decoder must not carry anything over from
									   the previous recovery (the two sets are equal modulo 32, modulo 64 for +64) */
									if (nr >= 2) {
										int sh;
										for (sh = 32; sh <= 64; sh += 32) {
											int id2[6], t, okk = 1;
											memcpy(id2, id, sizeof(id2));
											t = (int)rnd(nr);
											if (id2[t] + sh < nds[k]) id2[t] += sh; else if (id2[t] - sh >= 0) id2[t] -= sh; else okk = 0;
											for (i = 0; i < nr && okk; ++i) for (j = i + 1; j < nr; ++j) if (id2[i] == id2[j]) okk = 0;
											if (!okk) continue;
											for (i = 0; i < nr; ++i) for (j = i + 1; j < nr; ++j) if (id2[j] < id2[i]) { int tt = id2[i]; id2[i] = id2[j]; id2[j] = tt; }
											run_rec_case(&fm, rs->name, mode, 1, nds[k], np, 64, nr, id2, ip, ng, g);
										}
									}
								}
							}
			}
		}
		fam_report(&fm);
	}
	raid_init();
}


/* ---- recovery through every generator profile raid_init() can select ----
 * raid_rec* rebuild lost blocks with raid_delta_gen(), which calls the SELECTED generators with
 * the unused parity buffers aliased: the generators must therefore write the parities in
 * increasing order.  The profile of this CPU is what test_rec() exercises; here the function
 * pointers are set as raid_init() would on a CPU without SSE2 / with SSE2 only / with SSSE3 /
 * with AVX2, and every small erasure pattern is recovered through the public raid_data(). */
struct genprof { const char *name; const char *g[6]; const char *gz; int need; };
static struct genprof genprofs[] = {
	{ "portable", { "gen1_int64", "gen2_int64", "gen3_int8", "gen4_int8", "gen5_int8", "gen6_int8" }, "genz_int64", 0 },
	{ "portable32", { "gen1_int32", "gen2_int32", "gen3_int8", "gen4_int8", "gen5_int8", "gen6_int8" }, "genz_int32", 0 },
	{ "sse2", { "gen1_sse2", "gen2_sse2", "gen3_int8", "gen4_int8", "gen5_int8", "gen6_int8" }, "genz_sse2", 1 },
	{ "ssse3", { "gen1_sse2", "gen2_sse2ext", "gen3_ssse3ext", "gen4_ssse3ext", "gen5_ssse3ext", "gen6_ssse3ext" }, "genz_sse2ext", 2 },
	{ "ssse3-32", { "gen1_sse2", "gen2_sse2", "gen3_ssse3", "gen4_ssse3", "gen5_ssse3", "gen6_ssse3" }, "genz_sse2", 2 },
	{ "avx2", { "gen1_avx2", "gen2_avx2", "gen3_avx2ext", "gen4_avx2ext", "gen5_avx2ext", "gen6_avx2ext" }, "genz_avx2ext", 3 },
	{ 0, { 0, 0, 0, 0, 0, 0 }, 0, 0 }
};

static gen_f *find_gen(const char *name)
{
	struct genvar *gv;
	for (gv = genvars; gv->name; ++gv) if (!strcmp(gv->name, name)) return gv->f;
	return 0;
}

static void test_rec_genprofiles(void)
{
	struct genprof *gp;
	for (gp = genprofs; gp->name; ++gp) {
		struct fam fm = { 0, 0, 0, 0 };
		char nm[64];
		int i, mode, ok = 1;
		gen_f *g[6], *gz;
		snprintf(nm, sizeof(nm), "recgen.%s", gp->name);
		fm.name = nm;
		if (!cpu_ok(gp->need)) { printf("SKIP family=%s reason=cpu\n", nm); continue; }
		for (i = 0; i < 6; ++i) { g[i] = find_gen(gp->g[i]); if (!g[i]) ok = 0; }
		gz = find_gen(gp->gz); if (!gz) ok = 0;
		if (!ok) { printf("SKIP family=%s reason=variant-not-built\n", nm); continue; }
		raid_init();
		for (i = 0; i < 6; ++i) raid_gen_ptr[i] = g[i];
		raid_gen3_ptr = g[2];
		raid_genz_ptr = gz;
		for (mode = 0; mode < 2; ++mode) {
			int npmax = mode ? 3 : 6;
			int nd, np, nr;
			for (nd = 1; nd <= (thorough ? 5 : 3); ++nd)
				for (np = 1; np <= npmax; ++np)
					for (nr = 1; nr <= np && nr <= nd; ++nr) {
						int id[6];
						combination_first(nr, nd, id);
						do {
							int ip[6];
							combination_first(nr, np, ip);
							do {
								int gb[6], ng = 0, p, q;
								for (p = 0; p < np; ++p) {
									int used = 0;
									for (q = 0; q < nr; ++q) if (ip[q] == p) used = 1;
									if (!used) gb[ng++] = p;
								}
								run_rec_case(&fm, gp->name, mode, 1, nd, np, 192, nr, id, ip, ng, gb);
							} while (combination_next(nr, np, ip));
						} while (combination_next(nr, nd, id));
					}
		}
		fam_report(&fm);
	}
	raid_init();
}

/* ---- raid_check / raid_scan ---- */
static void test_check(void)
{
	struct fam fm = { "check", 0, 0, 0 };
	struct fam fc = { "combination", 0, 0, 0 };
	int nd, np, ncor, rep;
	/* combination_first/next enumerate every strictly increasing tuple exactly once */
	{
		int n, r;
		for (n = 1; n <= 12; ++n)
			for (r = 1; r <= 6 && r <= n; ++r) {
				int c[6], prev[6], first = 1, i;
				long cnt = 0; int ok = 1;
				combination_first(r, n, c);
				do {
					for (i = 0; i < r; ++i) { if (c[i] < 0 || c[i] >= n) ok = 0; if (i && c[i] <= c[i - 1]) ok = 0; }
					if (!first) { /* lexicographic strictly increasing */
						int cmp = 0;
						for (i = 0; i < r && !cmp; ++i) cmp = (c[i] > prev[i]) - (c[i] < prev[i]);
						if (cmp <= 0) ok = 0;
					}
					memcpy(prev, c, sizeof(prev)); first = 0; ++cnt;
				} while (combination_next(r, n, c));
				++fc.cases;
				if (!ok || cnt != binom(n, r)) {
					++fc.fails; fam_fail_open(&fc);
					fprintf(fc.failf, "combination r=%d n=%d visited=%ld expected=%ld ok=%d\n", r, n, cnt, binom(n, r), ok);
				}
			}
	}
	fam_report(&fc);

	for (nd = 1; nd <= (thorough ? 12 : 6); ++nd)
		for (np = 2; np <= 6; ++np)
			for (ncor = 0; ncor < np; ++ncor)
				for (rep = 0; rep < (thorough ? 12 : 4); ++rep) {
					size_t size = 64;
					uint8_t *buf[MAXB]; void *v[MAXB];
					int cor[6], i, j, n = 0, tot = nd + np, rc, ir[6], nr;
					if (ncor > tot) continue;
					for (i = 0; i < tot; ++i) { buf[i] = guarded_alloc(size); v[i] = buf[i]; }
					fill_data(0, 0, nd, size, buf);
					spec_gen(0, nd, np, size, buf, buf + nd);
					while (n < ncor) { int c = rnd(tot), dup = 0; for (i = 0; i < n; ++i) if (cor[i] == c) dup = 1; if (!dup) cor[n++] = c; }
					for (i = 0; i < n; ++i) for (j = i + 1; j < n; ++j) if (cor[j] < cor[i]) { int t = cor[i]; cor[i] = cor[j]; cor[j] = t; }
					/* really change every corrupted block (at one byte at least, keep others) */
					for (i = 0; i < ncor; ++i) { buf[cor[i]][rnd(size)] ^= 1 + rnd(255); if (rep & 1) { size_t k; for (k = 0; k < size; ++k) buf[cor[i]][k] ^= (uint8_t)rnd64(); buf[cor[i]][0] ^= 0; } }
					/* make sure each corrupted block differs: flip one more byte if it accidentally equals */
					/* (a) the true set is accepted */
					++fm.cases;
					rc = raid_check(ncor, cor, nd, np, size, v);
					if (rc != 0) {
						++fm.fails; fam_fail_open(&fm);
						if (fm.fails == 1) { fprintf(fm.failf, "raid_check rejected the true failure set: nd=%d np=%d corrupted=", nd, np); for (i = 0; i < ncor; ++i) fprintf(fm.failf, "%d ", cor[i]); fputc('\n', fm.failf); }
					}
					/* (b) any candidate leaving exactly one corrupted block unlisted is rejected,
					   when listed + that one <= np (stated condition of the property) */
					if (ncor >= 1) {
						int drop;
						for (drop = 0; drop < ncor; ++drop) {
							nr = 0;
							for (i = 0; i < ncor; ++i) if (i != drop) ir[nr++] = cor[i];
							++fm.cases;
							rc = raid_check(nr, ir, nd, np, size, v);
							if (rc == 0) {
								++fm.fails; fam_fail_open(&fm);
								if (fm.fails == 1) { fprintf(fm.failf, "raid_check accepted a set leaving corrupted block %d unlisted: nd=%d np=%d listed=", cor[drop], nd, np); for (i = 0; i < nr; ++i) fprintf(fm.failf, "%d ", ir[i]); fputc('\n', fm.failf); }
							}
						}
					}
					/* (c) raid_scan returns the smallest number and a set that contains... the true set when unique */
					{
						int sr[6];
						++fm.cases;
						rc = raid_scan(sr, nd, np, size, v);
						/* with ncor corrupted blocks and ncor < np, the minimal explanation has size ncor
						   unless a smaller set explains it, which by the MDS distance needs ncor + k >= np+1 */
						if (2 * ncor < np + 1) {
							int same = rc == ncor;
							for (i = 0; same && i < ncor; ++i) if (sr[i] != cor[i]) same = 0;
							if (!same) {
								++fm.fails; fam_fail_open(&fm);
								if (fm.fails == 1) { fprintf(fm.failf, "raid_scan returned %d (", rc); for (i = 0; i < rc && i < 6; ++i) fprintf(fm.failf, "%d ", sr[i]); fprintf(fm.failf, ") for true set size %d nd=%d np=%d\n", ncor, nd, np); }
							}
						}
					}
					for (i = 0; i < tot; ++i) guarded_free(buf[i], size);
				}
	fam_report(&fm);
}

/* ---- raid_invert vs the Lean model: requests written for the driver ---- */
static void test_invert(void)
{
	char path[1024];
	FILE *req, *out;
	int rep, n;
	long cnt = 0;
	snprintf(path, sizeof(path), "%s/invert.req", outdir); req = fopen(path, "w");
	snprintf(path, sizeof(path), "%s/invert.c_out", outdir); out = fopen(path, "w");
	for (n = 1; n <= 6; ++n)
		for (rep = 0; rep < (thorough ? 400 : 60); ++rep) {
			uint8_t M[36], M0[36], V[36];
			int rows[6], cols[6], i, j, k;
			/* a random n x n sub-matrix of the Lean-computed generator (rows, cols sorted) */
			k = 0; while (k < n) { int c = rnd(6), dup = 0; for (i = 0; i < k; ++i) if (rows[i] == c) dup = 1; if (!dup) rows[k++] = c; }
			k = 0; while (k < n) { int c = rnd(251), dup = 0; for (i = 0; i < k; ++i) if (cols[i] == c) dup = 1; if (!dup) cols[k++] = c; }
			for (i = 0; i < n; ++i) for (j = i + 1; j < n; ++j) { if (rows[j] < rows[i]) { int t = rows[i]; rows[i] = rows[j]; rows[j] = t; } if (cols[j] < cols[i]) { int t = cols[i]; cols[i] = cols[j]; cols[j] = t; } }
			for (i = 0; i < n; ++i) for (j = 0; j < n; ++j) M[i * n + j] = o_cauchy[rows[i]][cols[j]];
			memcpy(M0, M, sizeof(M));
			raid_invert(M, V, n);
			fprintf(req, "invert %d ", n); put_hex(req, M0, n * n); fputc('\n', req);
			put_hex(out, V, n * n); fputc('\n', out);
			++cnt;
		}
	fclose(req); fclose(out);
	printf("INFO invert_samples=%ld\n", cnt);
}

int main(int argc, char **argv)
{
	const char *what;
	if (argc < 6) { fprintf(stderr, "usage\n"); return 2; }
	pagesz = sysconf(_SC_PAGESIZE);
	load_oracle(argv[1]);
	outdir = argv[2];
	rng_state = strtoull(argv[3], 0, 10) * 0x9e3779b97f4a7c15ULL + 12345;
	thorough = strcmp(argv[4], "thorough") == 0;
	what = argv[5];
	raid_init();
	zero_block = guarded_alloc(65536);
	memset(zero_block, 0, 65536);
	raid_zero(zero_block);
#ifdef CONFIG_X86
	printf("INFO cpu sse2=%d ssse3=%d avx2=%d\n", raid_cpu_has_sse2(), raid_cpu_has_ssse3(), raid_cpu_has_avx2());
#endif
	if (!strcmp(what, "tables") || !strcmp(what, "all")) test_tables();
	if (!strcmp(what, "gen") || !strcmp(what, "all")) test_gen();
	if (!strcmp(what, "rec") || !strcmp(what, "all")) { test_rec(); test_rec_genprofiles(); test_check(); test_invert(); }
	return 0;
}
