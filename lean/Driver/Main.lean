/-
Line-protocol driver over the executable models (no Mathlib in anything imported here).
One request per line on stdin, one reply line per request on stdout.
-/
import SnapraidVerif.Raid.Spec
import SnapraidVerif.Codec.Content
import SnapraidVerif.Codec.Save
import SnapraidVerif.Array.ScrubPlan
import SnapraidVerif.Parity.Split
import SnapraidVerif.Filter.Rules
import SnapraidVerif.Esc.Esc
import SnapraidVerif.Hash.Murmur3
import SnapraidVerif.Hash.Spooky2
import SnapraidVerif.Props.C12
import SnapraidVerif.Array.Scan
import SnapraidVerif.Array.ScanSeq
import SnapraidVerif.Array.Shortcut
import SnapraidVerif.Ring.Model

open SnapraidVerif SnapraidVerif.GF SnapraidVerif.Raid SnapraidVerif.Codec

namespace Driver

def hexDigit (n : Nat) : Char := "0123456789abcdef".toList.getD n '0'
def hexByte (b : Nat) : String := String.ofList [hexDigit (b / 16), hexDigit (b % 16)]
def hexOfBytes (l : List B) : String := String.join (l.map fun b => hexByte b.toNat)

def hexVal (c : Char) : Option Nat :=
  if '0' ≤ c ∧ c ≤ '9' then some (c.toNat - '0'.toNat)
  else if 'a' ≤ c ∧ c ≤ 'f' then some (c.toNat - 'a'.toNat + 10)
  else if 'A' ≤ c ∧ c ≤ 'F' then some (c.toNat - 'A'.toNat + 10)
  else none

partial def parseHexAux : List Char → List B → Option (List B)
  | [], acc => some acc.reverse
  | [_], _ => none
  | a :: b :: rest, acc => match hexVal a, hexVal b with
    | some x, some y => parseHexAux rest (BitVec.ofNat 8 (16*x+y) :: acc)
    | _, _ => none

def parseHex (s : String) : Option (List B) := parseHexAux s.toList []

def parseHex8 (s : String) : Option (List UInt8) := (parseHex s).map fun l => l.map fun b => UInt8.ofNat b.toNat
def hex8 (l : List UInt8) : String := String.join (l.map fun b => hexByte b.toNat)

def kindStr : BlkKind → String
  | .blk => "b" | .chg => "g" | .rep => "p" | .new => "n"

def dumpRec : Rec → String
  | .blockSize v => s!"z {v}"
  | .blockMax v => s!"x {v}"
  | .hashSize v => s!"y {v}"
  | .hash k seed => s!"c {Char.ofNat k.toNat} {hex8 seed}"
  | .prevHash k seed => s!"C {Char.ofNat k.toNat} {hex8 seed}"
  | .map _ name pos tot free uuid => s!"M {hex8 name} {pos} {tot} {free} {hex8 uuid}"
  | .parityP l t f uuid => s!"P {l} {t} {f} :{hex8 uuid}:0"
  | .parityQ l t f sp => s!"Q {l} {t} {f} " ++ String.intercalate " " (sp.map fun x => s!"{hex8 x.path}:{hex8 x.uuid}:{x.size}")
  | .file m size sec nsec inode sub runs =>
    s!"f {m} {size} {sec} {nsec} {inode} {hex8 sub} " ++
      String.intercalate " " (runs.map fun r => s!"{kindStr r.kind}:{r.pos}:{r.count}:" ++ String.intercalate "," (r.hashes.map hex8))
  | .symlink m sub lt => s!"s {m} {hex8 sub} {hex8 lt}"
  | .hardlink m sub lt => s!"a {m} {hex8 sub} {hex8 lt}"
  | .dir m sub => s!"r {m} {hex8 sub}"
  | .hole m runs => s!"h {m} " ++ String.intercalate " " (runs.map fun r => match r with
      | .deleted hs => "o" ++ String.intercalate "," (hs.map hex8)
      | .skip n => s!"O{n}")
  | .info oldest runs => s!"i {oldest} " ++ String.intercalate " " (runs.map fun r => s!"{r.count}:{r.flag}:{r.time}")
  | .crc v => s!"N {v}"

def chunks (n : Nat) : Nat → List B → List (List B)
  | 0, _ => []
  | k+1, l => l.take n :: chunks n k (l.drop n)

def matrixOf (mode : String) : Option (Nat → Nat → B) :=
  if mode = "cauchy" then some cauchy else if mode = "power" then some power else none

/-- trace acceptor for the ring protocol: replays the hook's events on `Ring.step`; returns a verdict line -/
def ringAccept (N R W : Nat) (evs : List String) : String := Id.run do
  let M := 1000000000
  let mut s := Ring.init N
  let mut k := 0
  let mut spurious := 0
  let stepOr (s : Ring.St) (a : Ring.Act) : Option Ring.St := Ring.step N R W M s a
  -- caller-internal steps that produce no event
  let autoCompute (s : Ring.St) : Ring.St :=
    if s.pc == .collect && s.pend.isEmpty && !s.cwait then (match stepOr s .compute with | some t => t | none => s) else s
  for ev in evs do
    k := k + 1
    let f := ev.splitOn ","
    let num (i : Nat) : Nat := ((f.getD i "0").toNat?).getD 0
    let kind := f.getD 0 ""
    if kind == "S" || kind == "SP" || kind == "" then
      continue
    else if kind == "RN" then
      let mut t := autoCompute s
      if t.pc == .wcollect && W == 0 then
        t := (match stepOr t .writeNext with | some u => u | none => t)
      match stepOr t .readNext with
      | some u =>
        if Ring.ri N u != num 1 then return s!"reject {k} RN reader_index {num 1} model {Ring.ri N u}"
        s := u
      | none => return s!"reject {k} RN not enabled"
    else if kind == "C" then
      if Ring.ri N s != num 2 then return s!"reject {k} C slot {num 2} model {Ring.ri N s}"
      match stepOr s (.collect (num 1)) with
      | some u => s := u
      | none => return s!"reject {k} C {num 1} not enabled (worker still in the caller's slot, or not pending)"
    else if kind == "CB" then
      if s.cwait then spurious := spurious + 1
      else match stepOr s .cblock with
        | some u => s := u
        | none => return s!"reject {k} CB not enabled"
    else if kind == "WC" then
      let t := autoCompute s
      match stepOr t (.wcollect (num 1)) with
      | some u => s := u
      | none => return s!"reject {k} WC {num 1} not enabled"
    else if kind == "WB" then
      let t := autoCompute s
      if t.cwait then spurious := spurious + 1
      else match stepOr t .wblock with
        | some u => s := u
        | none => return s!"reject {k} WB not enabled"
    else if kind == "WN" then
      let t := autoCompute s
      if Ring.wi N t != num 1 then return s!"reject {k} WN writer_index {num 1} model {Ring.wi N t}"
      match stepOr t .writeNext with
      | some u => s := u
      | none => return s!"reject {k} WN not enabled"
    else if kind == "ST" then
      match stepOr s .stop with
      | some u => s := u
      | none => return s!"reject {k} ST not enabled"
    else if kind == "RA" then
      let r := num 1
      if (s.a r + 1) % N != num 2 then return s!"reject {k} RA {r} index {num 2} model {(s.a r + 1) % N}"
      let sig := if s.a r % N == Ring.ri N s then 1 else 0
      if sig != num 3 then return s!"reject {k} RA {r} signal {num 3} model {sig}"
      match stepOr s (.rAdvance r) with
      | some u => s := u
      | none => return s!"reject {k} RA {r} not enabled"
    else if kind == "RB" then
      let r := num 1
      if s.rwait r then spurious := spurious + 1
      else match stepOr s (.rBlock r) with
        | some u => s := u
        | none => return s!"reject {k} RB {r} not enabled"
    else if kind == "RX" then
      match stepOr s (.rExit (num 1)) with
      | some u => s := u
      | none => return s!"reject {k} RX {num 1} not enabled"
    else if kind == "WA" then
      let w := num 1
      if s.b w % N != num 2 then return s!"reject {k} WA {w} index {num 2} model {s.b w % N}"
      let sig := if (s.b w + N - 1) % N == (Ring.wi N s + 1) % N then 1 else 0
      if sig != num 3 then return s!"reject {k} WA {w} signal {num 3} model {sig}"
      match stepOr s (.wAdvance w) with
      | some u => s := u
      | none => return s!"reject {k} WA {w} not enabled"
    else if kind == "WK" then
      let w := num 1
      if s.wwait w then spurious := spurious + 1
      else match stepOr s (.wBlock w) with
        | some u => s := u
        | none => return s!"reject {k} WK {w} not enabled"
    else if kind == "WX" then
      match stepOr s (.wExit (num 1)) with
      | some u => s := u
      | none => return s!"reject {k} WX {num 1} not enabled"
    else return s!"reject {k} unknown event {kind}"
  let fin := s.pc == .stopped && (List.range R).all (fun r => s.rexit r) && (List.range W).all (fun w => s.wexit w)
  let wrote := (List.range W).all (fun w => s.wrote w == (List.range s.J).reverse)
  let took := s.took.all (fun t => t.2.2 == t.1)
  if !fin then return s!"reject {k} end of trace but not final"
  if !wrote then return s!"reject {k} some writer did not write every scheduled stripe in order"
  if !took then return s!"reject {k} caller took data of another stripe"
  return s!"ok events={k} spurious={spurious} I={s.I} J={s.J}"

def handle (toks : List String) : String :=
  match toks with
  | ["mulrow", a] => match a.toNat? with
    | some a => hexOfBytes ((List.range 256).map fun b => mul (BitVec.ofNat 8 a) (BitVec.ofNat 8 b))
    | none => "bad-op"
  | ["invtab"] => hexOfBytes ((List.range 256).map fun a => inv (BitVec.ofNat 8 a))
  | ["exptab"] => hexOfBytes ((List.range 256).map pow2)
  | ["genrow", mode, j] => match matrixOf mode, j.toNat? with
    | some A, some j => hexOfBytes ((List.range 251).map fun i => A j i)
    | _, _ => "bad-op"
  | ["genspec", mode, nd, np, size, hex] =>
    match matrixOf mode, nd.toNat?, np.toNat?, size.toNat?, parseHex hex with
    | some A, some nd, some np, some size, some bytes =>
      if bytes.length ≠ nd * size then "bad-len" else
      let data := chunks size nd bytes
      String.intercalate " " ((genSpec A np size data).map hexOfBytes)
    | _, _, _, _, _ => "bad-op"
  | ["invert", n, hex] =>
    match n.toNat?, parseHex hex with
    | some n, some bytes =>
      if bytes.length ≠ n * n then "bad-len" else
      match invert (chunks n n bytes) with
      | some V => hexOfBytes V.flatten
      | none => "singular"
    | _, _ => "bad-op"
  | ["content-dump", bs, hex] =>
    match bs.toNat?, parseHex8 hex with
    | some bs, some bytes =>
      match parse bs bytes with
      | none => "reject"
      | some p => s!"ok v={p.version} bs={p.ctx.blockSize} bmax={p.ctx.blockMax} hs={p.ctx.hashSize} | " ++
          String.intercalate " | " (p.recs.map dumpRec)
    | _, _ => "bad-op"
  | ["content-dump", _] => "reject"
  | ["content-reser", _] => "reject"
  | ["content-reser", bs, hex] =>
    match bs.toNat?, parseHex8 hex with
    | some bs, some bytes =>
      match parse bs bytes with
      | none => "reject"
      | some p => hex8 (reserialize p)
    | _, _ => "bad-op"
  | "scrub-plan" :: plan :: a1 :: a2 :: infos =>
    let parseInfo (t : String) : Option (Option Scrub.Info) :=
      if t = "-" then some none else
      match t.splitOn ":" with
      | [tm, fl] => match tm.toNat?, fl.toNat? with
        | some tm, some fl => some (some { time := tm, bad := fl / 2 % 2 == 1, rehash := fl / 4 % 2 == 1, justsynced := fl / 8 % 2 == 1 })
        | _, _ => none
      | _ => none
    let is := infos.map parseInfo
    if is.any (·.isNone) then "bad-op" else
    let is := is.filterMap id
    let pl : Option Scrub.Plan :=
      if plan = "full" then some .full else if plan = "new" then some .new else if plan = "bad" then some .bad
      else if plan = "even" then some .even
      else if plan = "auto" then (match a1.toNat?, a2.toNat? with | some c, some r => some (.auto c r) | _, _ => none)
      else none
    match pl with
    | none => "bad-op"
    | some pl =>
      let lim := Scrub.planLimits pl is
      s!"{lim.countlimit} {lim.timelimit} {lim.lastlimit} " ++ String.ofList ((Scrub.select pl is).map fun b => if b then '1' else '0')
  | "content-setinfo" :: bs :: hex :: oldest :: runs =>
    match bs.toNat?, parseHex8 hex, oldest.toNat? with
    | some bs, some bytes, some oldest =>
      let parseRun (t : String) : Option InfoRun := match t.splitOn ":" with
        | [c, f, tm] => match c.toNat?, f.toNat?, tm.toNat? with
          | some c, some f, some tm => some { count := c, flag := f, time := tm }
          | _, _, _ => none
        | _ => none
      let rs := runs.map parseRun
      if rs.any (·.isNone) then "bad-op" else
      match parse bs bytes with
      | none => "reject"
      | some p =>
        let recs := p.recs.map fun r => match r with
          | .info _ _ => Rec.info oldest (rs.filterMap id)
          | r => r
        hex8 (reserialize { p with recs := recs })
    | _, _, _ => "bad-op"
  | "split-find" :: off :: sizes =>
    match off.toNat?, sizes.mapM (·.toNat?) with
    | some off, some sizes => match Split.find sizes off with
      | some (i, o) => s!"{i} {o}"
      | none => "none"
    | _, _ => "bad-op"
  | "split-chsize" :: bs :: limit :: level :: size :: sps =>
    let parseSp (t : String) : Option Split.Sp := match t.splitOn "/" with
      | [a, b] => match a.toNat?, b.toNat? with
        | some a, some b => some { size := a, fsz := b }
        | _, _ => none
      | _ => none
    match bs.toNat?, limit.toNat?, level.toNat?, size.toNat?, sps.mapM parseSp with
    | some bs, some limit, some level, some size, some sps =>
      match Split.chsize bs ((List.range sps.length).map fun s => Split.testLimit limit s level) sps size with
      | some t => "ok " ++ String.intercalate " " (t.map fun x => s!"{x.size}/{x.fsz}")
      | none => "fail"
    | _, _, _, _, _ => "bad-op"
  | ["hash", kind, seed, h] =>
    (match parseHex8 seed, (if h = "-" then some [] else parseHex8 h) with
     | some sd, some b =>
       if kind = "1" then hex8 (Hash.murmur3 sd b) else if kind = "2" then hex8 (Hash.spooky2 sd b) else "bad-op"
     | _, _ => "bad-op")
  | ["effects-allowed", cmd, region] =>
    let c : Option Props.C12.Cmd := match cmd with
      | "status" => some .status | "diff" => some .diff | "list" => some .list | "dup" => some .dup
      | "check" => some .check | "devices" => some .devices | "scrub" => some .scrub | "sync" => some .sync
      | "fix" => some .fix | "pool" => some .pool | "touch" => some .touch | "rehash" => some .rehash | _ => none
    let r : Option Props.C12.Region := match region with
      | "data" => some .data | "parity" => some .parity | "content" => some .content | "pool" => some .pool
      | "lock" => some .lock | "log" => some .log | _ => none
    (match c, r with
     | some c, some r => if Props.C12.allowed c r then "1" else "0"
     | _, _ => "bad-op")
  | ["ring-accept", n, r, w, evs] =>
    (match n.toNat?, r.toNat?, w.toNat? with
     | some n, some r, some w => if n < 3 then "bad-op" else ringAccept n r w (evs.splitOn "|")
     | _, _, _ => "bad-op")
  | ["shortcut-sync", pre, spec] =>
    -- shortcut-sync <prehash 0|1> <stripe;stripe;…>, stripe = st:match,… with st in b|c|p and match in 0|1
    -- (does the data on disk hash to the recorded hash); reply: per stripe 1 = completed, 0 = stopped
    let parseB (t : String) : Option (Shortcut.Blk Nat × Nat) := match t.splitOn ":" with
      | [st, m] =>
        let d := if m = "1" then 1 else 2
        (match st with
         | "b" => some ({ st := .blk, hash := 1 }, d)
         | "c" => some ({ st := .chg, hash := 0 }, d)
         | "p" => some ({ st := .rep, hash := 1 }, d)
         | _ => none)
      | _ => none
    let stripes := (spec.splitOn ";").map (fun s => if s = "-" then some [] else (s.splitOn ",").mapM parseB)
    (match stripes.mapM id with
     | some ss =>
       let res := if pre = "1" then Shortcut.syncWithPrehash id ss else ss.map (Shortcut.parityWritten id)
       String.intercalate "" (res.map fun b => if b then "1" else "0")
     | none => "bad-op")
  | "scan-seq" :: useInode :: rest =>
    -- scan-seq <0|1> K <recorded…> O <copy sources on other disks…> P <present, in walk order…>
    -- recorded entry = pathhex:size:sec:nsec:inode:hashed, others = pathhex:size:sec:nsec:inode
    -- reply: one letter per present entry (e m r u c a o h), the number of recorded files not seen, the indexes of the
    -- recorded entries removed because they changed, the final path of every recorded entry (renamed on a move)
    let parseF (t : List String) : Option Scan.FileId := match t with
      | [p, a, b, c, d] => match (if p = "-" then some [] else parseHex8 p), a.toNat?, b.toNat?, c.toNat?, d.toNat? with
        | some p, some a, some b, some c, some d => some { path := p, size := a, sec := b, nsec := c, inode := d }
        | _, _, _, _, _ => none
      | _ => none
    let parseK (t : String) : Option (Scan.FileId × Bool) :=
      let f := t.splitOn ":"
      (parseF (f.take 5)).map fun x => (x, f.getD 5 "0" == "1")
    let afterK := rest.drop 1
    let known := afterK.takeWhile (· ≠ "O")
    let afterO := (afterK.dropWhile (· ≠ "O")).drop 1
    let others := afterO.takeWhile (· ≠ "P")
    let present := (afterO.dropWhile (· ≠ "P")).drop 1
    match known.mapM parseK, others.mapM (fun t => parseF (t.splitOn ":")), present.mapM (fun t => parseF (t.splitOn ":")) with
    | some k, some o, some p =>
      let r := ScanSeq.scanAll (useInode = "1") o (ScanSeq.initSt (useInode = "1") k) p
      let cls := r.2.map fun x => match x.cls with
        | .equal => "e" | .move => "m" | .restore => "r" | .change => "u" | .copy => "c" | .add => "a" | .copyOver => "o" | .hardlink => "h"
      let rem := (List.range r.1.n).filter fun i => (r.1.e i).removed
      let paths := (List.range r.1.n).map fun i => let h := hex8 (r.1.e i).id.path; if h.isEmpty then "-" else h
      String.intercalate "" cls ++ " " ++ toString (ScanSeq.removedCount r.1) ++ " " ++ String.intercalate "," (rem.map toString)
        ++ " " ++ String.intercalate "," paths
    | _, _, _ => "bad-op"
  | "scan-classify" :: useInode :: rest =>
    -- scan-classify <0|1> K <known…> C <copy sources…> P <present…>; entry = pathhex:size:sec:nsec:inode
    let parseE (t : String) : Option Scan.FileId := match t.splitOn ":" with
      | [p, a, b, c, d] => match (if p = "-" then some [] else parseHex8 p), a.toNat?, b.toNat?, c.toNat?, d.toNat? with
        | some p, some a, some b, some c, some d => some { path := p, size := a, sec := b, nsec := c, inode := d }
        | _, _, _, _, _ => none
      | _ => none
    let afterK := rest.drop 1
    let known := afterK.takeWhile (· ≠ "C")
    let afterC := (afterK.dropWhile (· ≠ "C")).drop 1
    let copies := afterC.takeWhile (· ≠ "P")
    let present := (afterC.dropWhile (· ≠ "P")).drop 1
    match known.mapM parseE, copies.mapM parseE, present.mapM parseE with
    | some k, some c, some p =>
      let cls := p.map fun x => match Scan.classify (useInode = "1") k c x with
        | .equal => "e" | .move => "m" | .restore => "r" | .change => "u" | .copy => "c" | .add => "a" | .copyOver => "o"
      String.intercalate "" cls
    | _, _, _ => "bad-op"
  | ["esc_tag", h] =>
    (match (if h = "-" then some [] else parseHex8 h) with
     | some b => let r := Esc.escTag b; if r.isEmpty then "-" else hex8 r
     | none => "bad-op")
  | ["esc_shell", h] =>
    (match (if h = "-" then some [] else parseHex8 h) with
     | some b => let r := Esc.escShell b; if r.isEmpty then "-" else hex8 r
     | none => "bad-op")
  | ["fnm", fl, pat, str] =>
    let dec (h : String) : Option (List UInt8) := if h = "-" then some [] else parseHex8 h
    match fl.toNat?, dec pat, dec str with
    | some fl, some p, some t => if Filter.fnm (fl % 2 == 1) p t then "1" else "0"
    | _, _, _ => "bad-op"
  | "filter" :: n :: rest =>
    let dec (h : String) : Option (List UInt8) := if h = "-" then some [] else parseHex8 h
    match n.toNat? with
    | none => "bad-op"
    | some n =>
      let rulesT := rest.take n
      let tail := rest.drop n
      match tail with
      | [kind, disk, sub] =>
        let parseRule (t : String) : Option (Option Filter.Rule) :=
          match t.toList with
          | k :: ':' :: h => match dec (String.ofList h) with
            | none => none
            | some pat =>
              if k = 'i' then some (Filter.allocFile true pat) else if k = 'e' then some (Filter.allocFile false pat)
              else if k = 'I' then some (Filter.allocDisk true pat) else if k = 'E' then some (Filter.allocDisk false pat)
              else none
          | _ => none
        let rs := rulesT.map parseRule
        if rs.any (·.isNone) then "bad-op" else
        let rs := rs.filterMap id
        match rs.findIdx? (·.isNone) with
        | some i => s!"invalid-rule {i}"
        | none =>
          let rules := rs.filterMap id
          match dec disk, dec sub with
          | some d, some sb =>
            let ex := if kind = "f" then Filter.filterPath rules d sb else if kind = "d" then Filter.filterSubdir rules d sb else Filter.filterEmptydir rules d sb
            if ex then "-1" else "0"
          | _, _ => "bad-op"
      | _ => "bad-op"
  | "save-accepts" :: ops =>
    let parsed := ops.map fun t =>
      match t.toList with
      | 'c' :: r => (String.ofList r).toNat?.map Save.SOp.create
      | 'f' :: r => (String.ofList r).toNat?.map Save.SOp.fsync
      | 'x' :: r => (String.ofList r).toNat?.map Save.SOp.close
      | 'v' :: r => (String.ofList r).toNat?.map Save.SOp.verify
      | 'r' :: r => (String.ofList r).toNat?.map Save.SOp.rename
      | 'w' :: r => match (String.ofList r).splitOn ":" with
        | [a, b] => match a.toNat?, b.toNat? with
          | some a, some b => some (Save.SOp.write a b)
          | _, _ => none
        | _ => none
      | _ => none
    if parsed.any (·.isNone) then "bad-op" else
    if Save.accepts (parsed.filterMap id) then "accepted" else "rejected"
  | ["crc32c", hex] =>
    match parseHex8 hex with
    | some bytes => toString (crc32c 0 bytes).toNat
    | none => "bad-op"
  | ["crc32c"] => toString (crc32c 0 []).toNat
  | _ => "bad-op"

partial def loop (h : IO.FS.Stream) (out : IO.FS.Stream) : IO Unit := do
  let line ← h.getLine
  if line.isEmpty then return ()
  let toks := (line.trimAscii.toString.splitOn " ").filter (· ≠ "")
  out.putStrLn (handle toks)
  loop h out

end Driver

def main : IO Unit := do
  let stdin ← IO.getStdin
  let stdout ← IO.getStdout
  Driver.loop stdin stdout
  stdout.flush
