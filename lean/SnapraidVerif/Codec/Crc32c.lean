/-
CRC-32C (Castagnoli, reflected polynomial 0x82F63B78) as used for the content file
(cmdline/util.h crc32c_*).  Core Lean only.
-/
namespace SnapraidVerif.Codec

/-- one bit step of the reflected CRC -/
def crcBit (c : UInt32) : UInt32 := if c &&& 1 = 1 then (c >>> 1) ^^^ 0x82F63B78 else c >>> 1

/-- table entry `CRC32C_0[x]` by definition: 8 bit steps of `x` -/
def crcTab (x : UInt32) : UInt32 := crcBit (crcBit (crcBit (crcBit (crcBit (crcBit (crcBit (crcBit x)))))))

/-- `crc32c_plain_char`: `T[(crc ^ c) & 0xff] ^ (crc >> 8)` -/
def crcStep (crc : UInt32) (b : UInt8) : UInt32 :=
  crcTab ((crc ^^^ b.toUInt32) &&& 0xff) ^^^ (crc >>> 8)

/-- `crc32c_gen_plain` on a byte list (the 4-byte slicing of the C code computes the same
    function; that equality is checked by the leaf harness, both CRC variants) -/
def crcPlain (crc : UInt32) (l : List UInt8) : UInt32 := l.foldl crcStep crc

/-- `crc32c(crc, ptr, size)`: xor with the IV before and after -/
def crc32c (crc : UInt32) (l : List UInt8) : UInt32 := crcPlain (crc ^^^ 0xffffffff) l ^^^ 0xffffffff

theorem crcPlain_append (c : UInt32) (a b : List UInt8) : crcPlain c (a ++ b) = crcPlain (crcPlain c a) b := by
  simp [crcPlain, List.foldl_append]

/-- chaining: `crc32c(crc32c(c, a), b) = crc32c(c, a ++ b)` (how the stream accumulates it) -/
theorem crc32c_append (c : UInt32) (a b : List UInt8) : crc32c (crc32c c a) b = crc32c c (a ++ b) := by
  unfold crc32c
  rw [crcPlain_append]
  congr 2
  rw [UInt32.xor_assoc]; simp

end SnapraidVerif.Codec
