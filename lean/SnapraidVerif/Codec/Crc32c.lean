/-
CRC-32C (Castagnoli, reflected polynomial 0x82F63B78) as used for the content file
(cmdline/util.h crc32c_*), in its defining bit-serial form.  Core Lean only.
The table / slicing-by-4 / SSE4.2 forms of the C code compute the same function: that is
checked against this definition by the leaf harness (both variants) and, for the tables, by a
per-run kernel obligation.
-/
namespace SnapraidVerif.Codec

abbrev W := BitVec 32

def crcPoly : W := 0x82F63B78#32

/-- one bit step of the reflected CRC -/
def crcBit (c : W) : W := if c.getLsbD 0 then (c >>> 1) ^^^ crcPoly else c >>> 1

/-- 8 bit steps; `crcTab x` for `x < 256` is the table entry `CRC32C_0[x]` -/
def crcTab (x : W) : W := crcBit (crcBit (crcBit (crcBit (crcBit (crcBit (crcBit (crcBit x)))))))

/-- one input byte: xor into the low byte, then 8 bit steps
    (equal to `CRC32C_0[(crc ^ c) & 0xff] ^ (crc >> 8)` of crc32c_plain_char) -/
def crcStep (crc : W) (b : UInt8) : W := crcTab (crc ^^^ BitVec.ofNat 32 b.toNat)

def crcPlain (crc : W) (l : List UInt8) : W := l.foldl crcStep crc

/-- `crc32c(crc, ptr, size)`: xor with the IV before and after -/
def crc32c (crc : W) (l : List UInt8) : W := crcPlain (crc ^^^ 0xffffffff#32) l ^^^ 0xffffffff#32

theorem crcPlain_append (c : W) (a b : List UInt8) : crcPlain c (a ++ b) = crcPlain (crcPlain c a) b := by
  simp [crcPlain, List.foldl_append]

/-- chaining: `crc32c(crc32c(c, a), b) = crc32c(c, a ++ b)` (how the stream accumulates it) -/
theorem crc32c_append (c : W) (a b : List UInt8) : crc32c (crc32c c a) b = crc32c c (a ++ b) := by
  unfold crc32c
  rw [crcPlain_append]
  congr 2
  rw [BitVec.xor_assoc]; simp

end SnapraidVerif.Codec
