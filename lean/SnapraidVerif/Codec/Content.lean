/-
The binary content file (cmdline/state.c: state_read_content / state_write_thread) as a
list of records: `parse` mirrors the reader record by record with its range checks,
`serialize` mirrors the writer.  Core Lean only.
-/
import SnapraidVerif.Codec.Varint
import SnapraidVerif.Codec.Crc32c
namespace SnapraidVerif.Codec

/-- sub-command of a run of file blocks: 'b' blk, 'g' chg, 'p' rep, 'n' deprecated new (no hash) -/
inductive BlkKind | blk | chg | rep | new
deriving DecidableEq, Repr

structure Run where
  kind : BlkKind
  pos : Nat
  count : Nat
  hashes : List Bytes      -- `count` hashes of hashSize bytes ('n': none)
deriving DecidableEq, Repr

inductive HoleRun
  | deleted (hashes : List Bytes)   -- 'o': run of deleted blocks with their hashes
  | skip (count : Nat)              -- 'O': used or empty positions
deriving DecidableEq, Repr

structure InfoRun where
  count : Nat
  flag : Nat       -- bit0 present, bit1 bad, bit2 rehash, bit3 justsynced
  time : Nat       -- relative to `oldest`; only meaningful when bit0 set
deriving DecidableEq, Repr

structure Split where
  path : Bytes
  uuid : Bytes
  size : Nat
deriving DecidableEq, Repr

inductive Rec
  | blockSize (v : Nat)                                   -- 'z'
  | blockMax (v : Nat)                                    -- 'x'
  | hashSize (v : Nat)                                    -- 'y'
  | hash (kind : UInt8) (seed : Bytes)                    -- 'c' + 'u'|'k'|'m' + 16 bytes
  | prevHash (kind : UInt8) (seed : Bytes)                -- 'C'
  | map (legacy : Bool) (name : Bytes) (pos total free : Nat) (uuid : Bytes)   -- 'M' / 'm'
  | parityP (level total free : Nat) (uuid : Bytes)       -- 'P'
  | parityQ (level total free : Nat) (splits : List Split) -- 'Q'
  | file (mapping size mtimeSec nsecEnc inode : Nat) (sub : Bytes) (runs : List Run)  -- 'f'
  | symlink (mapping : Nat) (sub linkto : Bytes)          -- 's'
  | hardlink (mapping : Nat) (sub linkto : Bytes)         -- 'a'
  | dir (mapping : Nat) (sub : Bytes)                     -- 'r'
  | hole (mapping : Nat) (runs : List HoleRun)            -- 'h'
  | info (oldest : Nat) (runs : List InfoRun)             -- 'i'
  | crc (v : Nat)                                         -- 'N' + 4 bytes LE
deriving DecidableEq, Repr

/-- reader context accumulated while parsing -/
structure Ctx where
  blockSize : Nat := 0      -- 0 = not yet known ("Zero blocksize" error for an 'f' record)
  blockMax : Nat := 0
  hashSize : Nat := 16
  mappingMax : Nat := 0
deriving Repr

def HASH_MAX : Nat := 16
def LEV_MAX : Nat := 6
def UUID_MAX : Nat := 128

def ch (c : Char) : UInt8 := UInt8.ofNat c.toNat

def kindChar : BlkKind → UInt8
  | .blk => ch 'b' | .chg => ch 'g' | .rep => ch 'p' | .new => ch 'n'

/-! ### serializer (state_write_thread) -/

def serRun (r : Run) : Bytes := [kindChar r.kind] ++ putVar r.pos ++ putVar r.count ++ r.hashes.flatten

def serHoleRun : HoleRun → Bytes
  | .deleted hs => putVar hs.length ++ [ch 'o'] ++ hs.flatten
  | .skip n => putVar n ++ [ch 'O']

def serInfoRun (r : InfoRun) : Bytes :=
  putVar r.count ++ putVar r.flag ++ (if r.flag % 2 = 1 then putVar r.time else [])

def serSplit (s : Split) : Bytes := putStr s.path ++ putStr s.uuid ++ putVar s.size

def serRec : Rec → Bytes
  | .blockSize v => [ch 'z'] ++ putVar v
  | .blockMax v => [ch 'x'] ++ putVar v
  | .hashSize v => [ch 'y'] ++ putVar v
  | .hash k seed => [ch 'c', k] ++ seed
  | .prevHash k seed => [ch 'C', k] ++ seed
  | .map legacy name pos total free uuid =>
    if legacy then [ch 'm'] ++ putStr name ++ putVar pos ++ putStr uuid
    else [ch 'M'] ++ putStr name ++ putVar pos ++ putVar total ++ putVar free ++ putStr uuid
  | .parityP l t f uuid => [ch 'P'] ++ putVar l ++ putVar t ++ putVar f ++ putStr uuid
  | .parityQ l t f splits => [ch 'Q'] ++ putVar l ++ putVar t ++ putVar f ++ putVar splits.length ++ (splits.map serSplit).flatten
  | .file m size sec nsec inode sub runs =>
    [ch 'f'] ++ putVar m ++ putVar size ++ putVar sec ++ putVar nsec ++ putVar inode ++ putStr sub ++ (runs.map serRun).flatten
  | .symlink m sub linkto => [ch 's'] ++ putVar m ++ putStr sub ++ putStr linkto
  | .hardlink m sub linkto => [ch 'a'] ++ putVar m ++ putStr sub ++ putStr linkto
  | .dir m sub => [ch 'r'] ++ putVar m ++ putStr sub
  | .hole m runs => [ch 'h'] ++ putVar m ++ (runs.map serHoleRun).flatten
  | .info oldest runs => [ch 'i'] ++ putVar oldest ++ (runs.map serInfoRun).flatten
  | .crc v => [ch 'N'] ++ putLe32 v

def header (version : Nat) : Bytes :=
  ("SNAPCNT".toList.map ch) ++ [UInt8.ofNat (48 + version), 10, 3, 0, 0]

def serBody (rs : List Rec) : Bytes := (rs.map serRec).flatten

/-- a complete content file: header, records, then 'N' and the CRC of everything before it -/
def serFile (version : Nat) (rs : List Rec) : Bytes :=
  let body := header version ++ serBody rs ++ [ch 'N']
  body ++ putLe32 (crc32c 0 body).toNat

/-! ### parser (state_read_content) -/

/-- number of blocks of a file of `size` bytes (elem.c:file_alloc) -/
def fileBlocks (size bs : Nat) : Nat := (size + bs - 1) / bs

/-- `n` hashes of `hs` bytes -/
def getHashes (hs : Nat) : Nat → Bytes → Option (List Bytes × Bytes)
  | 0, l => some ([], l)
  | n+1, l => match getRaw hs l with
    | none => none
    | some (h, r) => match getHashes hs n r with
      | none => none
      | some (t, r') => some (h :: t, r')

def kindOf (c : UInt8) : Option BlkKind :=
  if c = ch 'b' then some .blk else if c = ch 'g' then some .chg
  else if c = ch 'p' then some .rep else if c = ch 'n' then some .new else none

/-- runs of a file record until `idx` reaches `blocks`; fuel bounds the number of runs -/
def getRuns (ctx : Ctx) (blocks : Nat) : Nat → Nat → Bytes → Option (List Run × Bytes)
  | 0, _, _ => none
  | fuel+1, idx, l =>
    if idx ≥ blocks then some ([], l) else
    match l with
    | [] => none
    | c :: l1 =>
      match getb32 l1 with
      | none => none
      | some (pos, l2) => match getb32 l2 with
        | none => none
        | some (count, l3) =>
          if idx + count > blocks then none
          else if pos + count > ctx.blockMax then none
          else match kindOf c with
            | none => if count = 0 then
                -- an unknown sub-command is only detected when a block is filled
                match getRuns ctx blocks fuel idx l3 with
                | none => none
                | some (t, r) => some ({ kind := .blk, pos := pos, count := 0, hashes := [] } :: t, r)
              else none
            | some k =>
              match (if k = .new then some ([], l3) else getHashes ctx.hashSize count l3) with
              | none => none
              | some (hs, l4) => match getRuns ctx blocks fuel (idx + count) l4 with
                | none => none
                | some (t, r) => some ({ kind := k, pos := pos, count := count, hashes := hs } :: t, r)

def getHoleRuns (ctx : Ctx) : Nat → Nat → Bytes → Option (List HoleRun × Bytes)
  | 0, _, _ => none
  | fuel+1, pos, l =>
    if pos ≥ ctx.blockMax then some ([], l) else
    match getb32 l with
    | none => none
    | some (count, l1) =>
      if pos + count > ctx.blockMax then none else
      match l1 with
      | [] => none
      | c :: l2 =>
        if c = ch 'o' then
          match getHashes ctx.hashSize count l2 with
          | none => none
          | some (hs, l3) => match getHoleRuns ctx fuel (pos + count) l3 with
            | none => none
            | some (t, r) => some (.deleted hs :: t, r)
        else if c = ch 'O' then
          match getHoleRuns ctx fuel (pos + count) l2 with
          | none => none
          | some (t, r) => some (.skip count :: t, r)
        else none

def getInfoRuns (ctx : Ctx) : Nat → Nat → Bytes → Option (List InfoRun × Bytes)
  | 0, _, _ => none
  | fuel+1, pos, l =>
    if pos ≥ ctx.blockMax then some ([], l) else
    match getb32 l with
    | none => none
    | some (count, l1) =>
      if pos + count > ctx.blockMax then none else
      match getb32 l1 with
      | none => none
      | some (flag, l2) =>
        if flag % 2 = 1 then
          match getb32 l2 with
          | none => none
          | some (t, l3) => match getInfoRuns ctx fuel (pos + count) l3 with
            | none => none
            | some (tl, r) => some ({ count := count, flag := flag, time := t } :: tl, r)
        else match getInfoRuns ctx fuel (pos + count) l2 with
          | none => none
          | some (tl, r) => some ({ count := count, flag := flag, time := 0 } :: tl, r)

def getSplits : Nat → Bytes → Option (List Split × Bytes)
  | 0, l => some ([], l)
  | n+1, l => match getStr PATH_MAX l with
    | none => none
    | some (p, l1) => match getStr UUID_MAX l1 with
      | none => none
      | some (u, l2) => match getb64 l2 with
        | none => none
        | some (sz, l3) => match getSplits n l3 with
          | none => none
          | some (t, r) => some ({ path := p, uuid := u, size := sz } :: t, r)

def hashKindOk (k : UInt8) : Bool := k = ch 'u' || k = ch 'k' || k = ch 'm'

/-- one record; `consumed` is every byte read so far (for the 'N' record's CRC) -/
def getRec (ctx : Ctx) (consumedCrc : W) (l : Bytes) : Option (Rec × Ctx × Bytes) :=
  match l with
  | [] => none
  | c :: l0 =>
    if c = ch 'f' then
      match getb32 l0 with
      | none => none
      | some (m, l1) => if m ≥ ctx.mappingMax then none else
        match getb64 l1 with
        | none => none
        | some (size, l2) =>
          if ctx.blockSize = 0 then none
          else if size / ctx.blockSize > ctx.blockMax then none else
          match getb64 l2 with
          | none => none
          | some (sec, l3) => match getb32 l3 with
            | none => none
            | some (nsec, l4) => match getb64 l4 with
              | none => none
              | some (inode, l5) => match getStr PATH_MAX l5 with
                | none => none
                | some (sub, l6) => if sub.isEmpty then none else
                  match getRuns ctx (fileBlocks size ctx.blockSize) (l6.length + 1) 0 l6 with
                  | none => none
                  | some (runs, l7) => some (.file m size sec nsec inode sub runs, ctx, l7)
    else if c = ch 'i' then
      match getb32 l0 with
      | none => none
      | some (oldest, l1) => match getInfoRuns ctx (l1.length + 1) 0 l1 with
        | none => none
        | some (runs, l2) => some (.info oldest runs, ctx, l2)
    else if c = ch 'h' then
      match getb32 l0 with
      | none => none
      | some (m, l1) => if m ≥ ctx.mappingMax then none else
        match getHoleRuns ctx (l1.length + 1) 0 l1 with
        | none => none
        | some (runs, l2) => some (.hole m runs, ctx, l2)
    else if c = ch 's' ∨ c = ch 'a' then
      match getb32 l0 with
      | none => none
      | some (m, l1) => if m ≥ ctx.mappingMax then none else
        match getStr PATH_MAX l1 with
        | none => none
        | some (sub, l2) => if sub.isEmpty then none else
          match getStr PATH_MAX l2 with
          | none => none
          | some (lt, l3) =>
            if c = ch 's' then some (.symlink m sub lt, ctx, l3)
            else if lt.isEmpty then none else some (.hardlink m sub lt, ctx, l3)
    else if c = ch 'r' then
      match getb32 l0 with
      | none => none
      | some (m, l1) => if m ≥ ctx.mappingMax then none else
        match getStr PATH_MAX l1 with
        | none => none
        | some (sub, l2) => if sub.isEmpty then none else some (.dir m sub, ctx, l2)
    else if c = ch 'c' ∨ c = ch 'C' then
      match l0 with
      | [] => none
      | k :: l1 => if !hashKindOk k then none else
        match getRaw HASH_MAX l1 with
        | none => none
        | some (seed, l2) => some (if c = ch 'c' then .hash k seed else .prevHash k seed, ctx, l2)
    else if c = ch 'z' then
      match getb32 l0 with
      | none => none
      | some (v, l1) => if v = 0 then none else some (.blockSize v, { ctx with blockSize := v }, l1)
    else if c = ch 'y' then
      match getb32 l0 with
      | none => none
      | some (v, l1) => if v < 2 ∨ v > HASH_MAX then none else some (.hashSize v, { ctx with hashSize := v }, l1)
    else if c = ch 'x' then
      match getb32 l0 with
      | none => none
      | some (v, l1) => some (.blockMax v, { ctx with blockMax := v }, l1)
    else if c = ch 'm' ∨ c = ch 'M' then
      match getStr PATH_MAX l0 with
      | none => none
      | some (name, l1) => match getb32 l1 with
        | none => none
        | some (pos, l2) =>
          if c = ch 'M' then
            match getb32 l2 with
            | none => none
            | some (tot, l3) => match getb32 l3 with
              | none => none
              | some (free, l4) => match getStr UUID_MAX l4 with
                | none => none
                | some (uuid, l5) => some (.map false name pos tot free uuid, { ctx with mappingMax := ctx.mappingMax + 1 }, l5)
          else
            match getStr UUID_MAX l2 with
            | none => none
            | some (uuid, l3) => some (.map true name pos 0 0 uuid, { ctx with mappingMax := ctx.mappingMax + 1 }, l3)
    else if c = ch 'P' then
      match getb32 l0 with
      | none => none
      | some (lev, l1) => match getb32 l1 with
        | none => none
        | some (tot, l2) => match getb32 l2 with
          | none => none
          | some (free, l3) => match getStr UUID_MAX l3 with
            | none => none
            | some (uuid, l4) => if lev ≥ LEV_MAX then none else some (.parityP lev tot free uuid, ctx, l4)
    else if c = ch 'Q' then
      match getb32 l0 with
      | none => none
      | some (lev, l1) => match getb32 l1 with
        | none => none
        | some (tot, l2) => match getb32 l2 with
          | none => none
          | some (free, l3) => match getb32 l3 with
            | none => none
            | some (n, l4) => if lev ≥ LEV_MAX then none else
              if n > l4.length then none else   -- each split needs at least 3 bytes: cheap bound for the fuel
              match getSplits n l4 with
              | none => none
              | some (sp, l5) => some (.parityQ lev tot free sp, ctx, l5)
    else if c = ch 'N' then
      match getLe32 l0 with
      | none => none
      | some (stored, l1) =>
        if stored = consumedCrc.toNat then some (.crc stored, ctx, l1) else none
    else none

/-- CRC state after consuming `used` more bytes -/
def advCrc (crc : W) (before after : Bytes) : W :=
  crc32c crc (before.take (before.length - after.length))

def getRecs (ctx : Ctx) (crc : W) : Nat → Bytes → Option (List Rec × Ctx)
  | 0, _ => none
  | fuel+1, l =>
    match l with
    | [] => some ([], ctx)
    | c :: _ =>
      -- the CRC checked by an 'N' record covers everything up to and including the 'N'
      let crcN := crc32c crc [c]
      match getRec ctx crcN l with
      | none => none
      | some (r, ctx', rest) =>
        match getRecs ctx' (advCrc crc l rest) fuel rest with
        | none => none
        | some (t, c') => some (r :: t, c')

structure Parsed where
  version : Nat
  recs : List Rec
  ctx : Ctx
deriving Repr

def hasCrc : List Rec → Bool
  | [] => false
  | .crc _ :: _ => true
  | _ :: t => hasCrc t

/-- `state_read_content` up to (not including) the cross-checks against the configuration
    and `state_fscheck`.  `blockSize0` is the configured block size (0: none, take the file's). -/
def parse (blockSize0 : Nat) (l : Bytes) : Option Parsed :=
  if l.length < 12 then none else
  let h := l.take 12
  let body := l.drop 12
  let ver := if h = header 1 then some 1 else if h = header 2 then some 2 else if h = header 3 then some 3 else none
  match ver with
  | none => none
  | some v =>
    match getRecs { blockSize := blockSize0 } (crc32c 0 h) (body.length + 1) body with
    | none => none
    | some (rs, ctx) => if hasCrc rs then some { version := v, recs := rs, ctx := ctx } else none

/-- re-serialisation of a parsed file (what `test-rewrite` must reproduce when the state is
    already normalised): header + records, the CRC record recomputed -/
def reserialize (p : Parsed) : Bytes :=
  let rs := p.recs.filter fun r => match r with | .crc _ => false | _ => true
  serFile p.version rs

end SnapraidVerif.Codec
