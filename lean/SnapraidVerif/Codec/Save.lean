/-
The content-file save protocol (cmdline/state.c state_write_content / state_verify_content /
state_rename) as a trace acceptor over the state-changing calls the shim logs, with a
power-loss crash model: after a crash a file holds only the bytes written before its last
fsync.  Core Lean only.
-/
namespace SnapraidVerif.Save

/-- one logged call on copy `c` of the content file -/
inductive SOp where
  | create (c : Nat)            -- open(O_CREAT|O_EXCL) of <content>.tmp (after removing a stale one)
  | write (c : Nat) (n : Nat)   -- n bytes appended to <content>.tmp
  | fsync (c : Nat)
  | close (c : Nat)
  | verify (c : Nat)            -- <content>.tmp re-read and CRC-checked
  | rename (c : Nat)            -- rename(<content>.tmp, <content>)
deriving DecidableEq, Repr

structure Tmp where
  written : Nat := 0
  synced : Nat := 0       -- bytes durable (written before the last fsync)
  closed : Bool := false
  verified : Bool := false
deriving DecidableEq, Repr

/-- per copy: the temporary file if any, and whether <content> has been replaced -/
structure Copy where
  tmp : Option Tmp := none
  /-- `none`: still the old file; `some (durable, total)`: replaced by a tmp of `total` bytes of
      which `durable` would survive a power loss -/
  cur : Option (Nat × Nat) := none
deriving DecidableEq, Repr

abbrev St := Nat → Copy

def upd (s : St) (c : Nat) (v : Copy) : St := fun i => if i = c then v else s i

/-- protocol step; `none` = the trace violates the protocol -/
def step (s : St) : SOp → Option St
  | .create c => match (s c).tmp with
    | some _ => none
    | none => some (upd s c { (s c) with tmp := some {} })
  | .write c n => match (s c).tmp with
    | some t => if t.closed then none else some (upd s c { (s c) with tmp := some { t with written := t.written + n } })
    | none => none
  | .fsync c => match (s c).tmp with
    | some t => if t.closed then none else some (upd s c { (s c) with tmp := some { t with synced := t.written } })
    | none => none
  | .close c => match (s c).tmp with
    | some t => some (upd s c { (s c) with tmp := some { t with closed := true } })
    | none => none
  | .verify c => match (s c).tmp with
    | some t => if t.closed && t.synced == t.written then some (upd s c { (s c) with tmp := some { t with verified := true } }) else none
    | none => none
  | .rename c => match (s c).tmp with
    | some t => if t.closed && t.verified && t.synced == t.written then
        some (upd s c { tmp := none, cur := some (t.synced, t.written) }) else none
    | none => none

def run (s : St) : List SOp → Option St
  | [] => some s
  | op :: ops => match step s op with
    | none => none
    | some s' => run s' ops

def init : St := fun _ => {}

/-- the whole logged trace follows the protocol -/
def accepts (ops : List SOp) : Bool := (run init ops).isSome

/-- what a copy holds after a crash: the old file, or the complete new one -/
def Atomic (s : St) : Prop := ∀ c, (s c).cur = none ∨ ∃ n, (s c).cur = some (n, n)

theorem step_atomic (s s' : St) (op : SOp) (h : step s op = some s') (ha : Atomic s) : Atomic s' := by
  intro c
  cases op with
  | create c' =>
    simp only [step] at h
    split at h
    · simp at h
    · simp only [Option.some.injEq] at h; subst h
      by_cases hc : c = c' <;> simp [upd, hc, ha c'] <;> exact ha c
  | write c' n =>
    simp only [step] at h
    split at h
    · split at h
      · simp at h
      · simp only [Option.some.injEq] at h; subst h
        by_cases hc : c = c' <;> simp [upd, hc] <;> first | exact ha c' | exact ha c
    · simp at h
  | fsync c' =>
    simp only [step] at h
    split at h
    · split at h
      · simp at h
      · simp only [Option.some.injEq] at h; subst h
        by_cases hc : c = c' <;> simp [upd, hc] <;> first | exact ha c' | exact ha c
    · simp at h
  | close c' =>
    simp only [step] at h
    split at h
    · simp only [Option.some.injEq] at h; subst h
      by_cases hc : c = c' <;> simp [upd, hc] <;> first | exact ha c' | exact ha c
    · simp at h
  | verify c' =>
    simp only [step] at h
    split at h
    · split at h
      · simp only [Option.some.injEq] at h; subst h
        by_cases hc : c = c' <;> simp [upd, hc] <;> first | exact ha c' | exact ha c
      · simp at h
    · simp at h
  | rename c' =>
    simp only [step] at h
    split at h
    · rename_i t ht
      split at h
      · rename_i hcond
        simp only [Option.some.injEq] at h; subst h
        by_cases hc : c = c'
        · subst hc
          right
          simp only [Bool.and_eq_true, beq_iff_eq] at hcond
          exact ⟨t.written, by simp [upd, hcond.2]⟩
        · simp [upd, hc]; exact ha c
      · simp at h
    · simp at h

theorem run_atomic (s s' : St) (ops : List SOp) (h : run s ops = some s') (ha : Atomic s) : Atomic s' := by
  induction ops generalizing s with
  | nil => simp [run] at h; subst h; exact ha
  | cons op ops ih =>
    simp only [run] at h
    split at h
    · simp at h
    · rename_i s1 hs1
      exact ih s1 h (step_atomic s s1 op hs1 ha)

theorem run_prefix (s : St) (ops : List SOp) (k : Nat) (h : (run s ops).isSome) : (run s (ops.take k)).isSome := by
  induction ops generalizing s k with
  | nil => simpa using h
  | cons op ops ih =>
    cases k with
    | zero => simp [run]
    | succ k =>
      simp only [List.take_succ_cons, run] at h ⊢
      split at h
      · simp at h
      · rename_i s1 hs1
        exact ih s1 k h

/-- **C09 atomic replacement**: if the logged calls of a save follow the protocol, then after a
crash at ANY call index k (even with loss of everything not fsync'd) every copy is either
still the complete old file or the complete, verified new file. -/
theorem save_atomic (ops : List SOp) (h : accepts ops = true) (k : Nat) :
    ∃ s, run init (ops.take k) = some s ∧ Atomic s := by
  have hp := run_prefix init ops k (by simpa [accepts] using h)
  obtain ⟨s, hs⟩ := Option.isSome_iff_exists.mp hp
  exact ⟨s, hs, run_atomic init s _ hs (fun c => Or.inl rfl)⟩

/-- every rename in an accepted trace is preceded by fsync-after-last-write, close and verify
    of that copy's temporary file (this is what `step` demands of `.rename`) -/
theorem save_verified_before_rename (s s' : St) (c : Nat) (h : step s (.rename c) = some s') :
    ∃ t, (s c).tmp = some t ∧ t.closed = true ∧ t.verified = true ∧ t.synced = t.written := by
  simp only [step] at h
  split at h
  · rename_i t ht
    split at h
    · rename_i hcond
      simp only [Bool.and_eq_true, beq_iff_eq] at hcond
      exact ⟨t, ht, hcond.1.1, hcond.1.2, hcond.2⟩
    · simp at h
  · simp at h

/-- non-vacuity: the two-copy trace the binary produces is accepted -/
example : accepts [.create 0, .create 1, .write 0 367, .write 1 367, .write 0 4, .write 1 4, .fsync 0, .fsync 1,
    .close 0, .close 1, .verify 0, .verify 1, .rename 0, .rename 1] = true := by decide
/-- and a trace that syncs before the last write (the CRC trailer) is not -/
example : accepts [.create 0, .write 0 367, .fsync 0, .write 0 4, .close 0, .verify 0, .rename 0] = false := by decide

end SnapraidVerif.Save
