/-
Variable-length integers and strings of the content file (cmdline/stream.c:
sputb32/sgetb32, sputb64/sgetb64, sputbs/sgetbs, sputble32/sgetble32).  Core Lean only.
-/
namespace SnapraidVerif.Codec

abbrev Bytes := List UInt8

/-- `sputb32`/`sputb64`: 7 bits per byte, least significant group first, the LAST byte has
    bit 7 set -/
def putVar (v : Nat) : Bytes :=
  if v < 128 then [UInt8.ofNat (v + 128)]
  else UInt8.ofNat (v % 128) :: putVar (v / 128)
decreasing_by omega

/-- `sgetb32`/`sgetb64` without the final truncation: at most `n` bytes, `none` on end of
    input or when the `n`-th byte still has no terminator (the C code's `s >= 32/64` error) -/
def getVar : Nat → Bytes → Option (Nat × Bytes)
  | 0, _ => none
  | _+1, [] => none
  | n+1, b :: rest =>
    if 128 ≤ b.toNat then some (b.toNat - 128, rest)
    else match getVar n rest with
      | none => none
      | some (v, r) => some (b.toNat + 128 * v, r)

/-- `sgetb32`: at most 5 bytes, result truncated to 32 bits as the C arithmetic does -/
def getb32 (l : Bytes) : Option (Nat × Bytes) := (getVar 5 l).map fun (v, r) => (v % 2^32, r)
/-- `sgetb64`: at most 10 bytes, truncated to 64 bits -/
def getb64 (l : Bytes) : Option (Nat × Bytes) := (getVar 10 l).map fun (v, r) => (v % 2^64, r)

theorem getVar_putVar (n v : Nat) (rest : Bytes) (h : v < 128^(n+1)) :
    getVar (n+1) (putVar v ++ rest) = some (v, rest) := by
  induction n generalizing v with
  | zero =>
    have hv : v < 128 := by simpa using h
    unfold putVar
    rw [if_pos hv]
    simp only [List.cons_append, List.nil_append, getVar]
    have : (UInt8.ofNat (v + 128)).toNat = v + 128 := by
      simp [UInt8.toNat_ofNat']; omega
    rw [this, if_pos (by omega)]
    simp
  | succ n ih =>
    unfold putVar
    split
    · rename_i hv
      simp only [List.cons_append, List.nil_append, getVar]
      have : (UInt8.ofNat (v + 128)).toNat = v + 128 := by
        simp [UInt8.toNat_ofNat']; omega
      rw [this, if_pos (by omega)]
      simp
    · rename_i hv
      rw [List.cons_append]
      rw [getVar]
      have hb : (UInt8.ofNat (v % 128)).toNat = v % 128 := by
        simp [UInt8.toNat_ofNat']; omega
      have hlt : ¬ (128 ≤ (UInt8.ofNat (v % 128)).toNat) := by rw [hb]; omega
      rw [if_neg hlt]
      have hq : v / 128 < 128^(n+1) := by
        rw [Nat.pow_succ] at h
        exact Nat.div_lt_of_lt_mul (by rw [Nat.mul_comm]; exact h)
      rw [ih (v / 128) hq, hb]
      simp only [Option.some.injEq, Prod.mk.injEq, and_true]
      omega

/-- C10: every 32-bit value survives `sputb32`/`sgetb32` -/
theorem b32_roundtrip (v : Nat) (rest : Bytes) (h : v < 2^32) :
    getb32 (putVar v ++ rest) = some (v, rest) := by
  unfold getb32
  rw [getVar_putVar 4 v rest (by omega)]
  simp [Nat.mod_eq_of_lt h]

/-- C10: every 64-bit value survives `sputb64`/`sgetb64` -/
theorem b64_roundtrip (v : Nat) (rest : Bytes) (h : v < 2^64) :
    getb64 (putVar v ++ rest) = some (v, rest) := by
  unfold getb64
  rw [getVar_putVar 9 v rest (by omega)]
  simp [Nat.mod_eq_of_lt h]

/-- `PATH_MAX` of the platform the binary is built on (Linux) -/
def PATH_MAX : Nat := 4096

/-- `sputbs` -/
def putStr (s : Bytes) : Bytes := putVar s.length ++ s

/-- `sgetbs(f, buf, size)`: length, bound check `len + 1 > size`, then `len` raw bytes -/
def getStr (size : Nat) (l : Bytes) : Option (Bytes × Bytes) :=
  match getb32 l with
  | none => none
  | some (len, r) =>
    if len + 1 > size then none
    else if r.length < len then none
    else some (r.take len, r.drop len)

/-- C10: every byte string shorter than the buffer survives `sputbs`/`sgetbs` (the bytes are
    arbitrary: no escaping is involved; a NUL cannot occur in a C string) -/
theorem str_roundtrip (size : Nat) (s rest : Bytes) (h : s.length + 1 ≤ size) (h32 : s.length < 2^32) :
    getStr size (putStr s ++ rest) = some (s, rest) := by
  unfold getStr putStr
  rw [List.append_assoc, b32_roundtrip _ _ h32]
  simp only
  rw [if_neg (by omega)]
  rw [if_neg (by simp)]
  simp

/-- `sputble32` / `sgetble32`: 4 bytes little endian -/
def putLe32 (v : Nat) : Bytes :=
  [UInt8.ofNat (v % 256), UInt8.ofNat (v / 256 % 256), UInt8.ofNat (v / 65536 % 256), UInt8.ofNat (v / 16777216 % 256)]

def getLe32 : Bytes → Option (Nat × Bytes)
  | a :: b :: c :: d :: rest => some (a.toNat + 256 * b.toNat + 65536 * c.toNat + 16777216 * d.toNat, rest)
  | _ => none

theorem le32_roundtrip (v : Nat) (rest : Bytes) (h : v < 2^32) : getLe32 (putLe32 v ++ rest) = some (v, rest) := by
  simp only [putLe32, List.cons_append, List.nil_append, getLe32, UInt8.toNat_ofNat', Option.some.injEq, Prod.mk.injEq, and_true]
  omega

/-- raw fixed-size field (`sread`) -/
def getRaw (n : Nat) (l : Bytes) : Option (Bytes × Bytes) :=
  if l.length < n then none else some (l.take n, l.drop n)

theorem raw_roundtrip (s rest : Bytes) : getRaw s.length (s ++ rest) = some (s, rest) := by
  simp [getRaw]

end SnapraidVerif.Codec
