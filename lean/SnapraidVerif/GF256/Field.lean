/-
`Field` instance for GF(2^8) (Mathlib class) on top of the Mathlib-free model.
-/
import Mathlib.Algebra.Field.Defs
import Mathlib.Algebra.Field.Basic
import SnapraidVerif.GF256.Basic

namespace SnapraidVerif

open GF

@[ext] structure GF256 where
  val : B
deriving DecidableEq

namespace GF256

instance : Zero GF256 := ⟨⟨0#8⟩⟩
instance : One GF256 := ⟨⟨1#8⟩⟩
instance : Add GF256 := ⟨fun a b => ⟨a.val ^^^ b.val⟩⟩
instance : Neg GF256 := ⟨fun a => a⟩
instance : Mul GF256 := ⟨fun a b => ⟨GF.mul a.val b.val⟩⟩
instance : Inv GF256 := ⟨fun a => ⟨GF.inv a.val⟩⟩

@[simp] theorem zero_val : (0 : GF256).val = 0#8 := rfl
@[simp] theorem one_val : (1 : GF256).val = 1#8 := rfl
@[simp] theorem add_val (a b : GF256) : (a + b).val = a.val ^^^ b.val := rfl
@[simp] theorem neg_val (a : GF256) : (-a).val = a.val := rfl
@[simp] theorem mul_val (a b : GF256) : (a * b).val = GF.mul a.val b.val := rfl
@[simp] theorem inv_val (a : GF256) : (a⁻¹).val = GF.inv a.val := rfl

instance : Field GF256 where
  add_assoc a b c := by ext : 1; simp [BitVec.xor_assoc]
  zero_add a := by ext : 1; simp
  add_zero a := by ext : 1; simp
  add_comm a b := by ext : 1; simp [BitVec.xor_comm]
  neg_add_cancel a := by ext : 1; simp
  nsmul := nsmulRec
  zsmul := zsmulRec
  mul_assoc a b c := by ext : 1; simp [GF.mul_assoc]
  one_mul a := by ext : 1; simp [GF.one_mul]
  mul_one a := by ext : 1; simp [GF.mul_one]
  left_distrib a b c := by ext : 1; simp [GF.mul_xor_right]
  right_distrib a b c := by ext : 1; simp [GF.mul_xor_left]
  zero_mul a := by ext : 1; simp [GF.mul_zero_left]
  mul_zero a := by ext : 1; simp [GF.mul_zero_right]
  mul_comm a b := by ext : 1; simp [GF.mul_comm]
  exists_pair_ne := ⟨0, 1, by intro h; have := congrArg GF256.val h; simp at this⟩
  mul_inv_cancel a h := by
    ext : 1
    simp only [mul_val, inv_val, one_val]
    apply GF.mul_inv_cancel
    intro h0; apply h; ext : 1; simpa using h0
  inv_zero := by ext : 1; simp [GF.inv_zero]
  nnqsmul := _
  qsmul := _
  nnqsmul_def := fun _ _ => rfl
  qsmul_def := fun _ _ => rfl

/-- characteristic 2 -/
theorem add_self (a : GF256) : a + a = 0 := by ext : 1; simp

theorem neg_eq (a : GF256) : -a = a := rfl
theorem sub_eq_add' (a b : GF256) : a - b = a + b := by rw [sub_eq_add_neg]; rfl

def ofNat (n : Nat) : GF256 := ⟨BitVec.ofNat 8 n⟩

end GF256
end SnapraidVerif
