/-
GF(2^8) with polynomial 0x11d, as computed by raid/mktables.c:gfmul.
Core Lean only (no Mathlib): this file is linked into the driver executable.
-/
set_option linter.unusedSimpArgs false
namespace SnapraidVerif.GF

abbrev B := BitVec 8

/-- multiply by 2 (the `a <<= 1; if (msb) a ^= 0x1d` step of mktables.c:gfmul) -/
def xtime (a : B) : B := (a <<< 1) ^^^ (if a.msb then 0x1d#8 else 0#8)

/-- the shift-and-xor loop of mktables.c:gfmul, unrolled to the 8 bits of `b` -/
def mulAux : Nat → B → B → B → B
  | 0, _, _, acc => acc
  | n+1, a, b, acc => mulAux n (xtime a) (b >>> 1) (if b.getLsbD 0 then acc ^^^ a else acc)

def mul (a b : B) : B := mulAux 8 a b 0#8

theorem xtime_xor (a b : B) : xtime (a ^^^ b) = xtime a ^^^ xtime b := by
  unfold xtime
  have : (a ^^^ b).msb = (a.msb ^^ b.msb) := by simp
  rw [this, BitVec.shiftLeft_xor_distrib]
  cases a.msb <;> cases b.msb
  · simp
  · simp; ac_rfl
  · simp; ac_rfl
  · have h : ∀ x y : B, (x ^^^ 0x1d#8) ^^^ (y ^^^ 0x1d#8) = x ^^^ y := by
      intro x y
      have : (x ^^^ 0x1d#8) ^^^ (y ^^^ 0x1d#8) = x ^^^ y ^^^ (0x1d#8 ^^^ 0x1d#8) := by ac_rfl
      rw [this]; simp
    simp [h]

theorem mulAux_left (n : Nat) (a a' b acc acc' : B) :
    mulAux n (a ^^^ a') b (acc ^^^ acc') = mulAux n a b acc ^^^ mulAux n a' b acc' := by
  induction n generalizing a a' b acc acc' with
  | zero => rfl
  | succ n ih =>
    simp only [mulAux, xtime_xor]
    cases b.getLsbD 0
    · simpa using ih ..
    · have : acc ^^^ acc' ^^^ (a ^^^ a') = (acc ^^^ a) ^^^ (acc' ^^^ a') := by ac_rfl
      simp only [if_true, this]; exact ih ..

theorem mulAux_right (n : Nat) (a b b' acc acc' : B) :
    mulAux n a (b ^^^ b') (acc ^^^ acc') = mulAux n a b acc ^^^ mulAux n a b' acc' := by
  induction n generalizing a b b' acc acc' with
  | zero => rfl
  | succ n ih =>
    simp only [mulAux]
    have hs : (b ^^^ b') >>> 1 = b >>> 1 ^^^ b' >>> 1 := by
      ext i; simp
    have hb : (b ^^^ b').getLsbD 0 = (b.getLsbD 0 ^^ b'.getLsbD 0) := by simp
    rw [hs, hb]
    cases b.getLsbD 0 <;> cases b'.getLsbD 0 <;> simp
    · exact ih ..
    · have : acc ^^^ acc' ^^^ a = acc ^^^ (acc' ^^^ a) := by ac_rfl
      rw [this]; exact ih ..
    · have : acc ^^^ acc' ^^^ a = (acc ^^^ a) ^^^ acc' := by ac_rfl
      rw [this]; exact ih ..
    · have : acc ^^^ acc' = (acc ^^^ a) ^^^ (acc' ^^^ a) := by
        have : (acc ^^^ a) ^^^ (acc' ^^^ a) = acc ^^^ acc' ^^^ (a ^^^ a) := by ac_rfl
        rw [this]; simp
      rw [this]; exact ih ..

theorem mul_xor_left (a a' b : B) : mul (a ^^^ a') b = mul a b ^^^ mul a' b := by
  have := mulAux_left 8 a a' b 0 0; simpa [mul] using this
theorem mul_xor_right (a b b' : B) : mul a (b ^^^ b') = mul a b ^^^ mul a b' := by
  have := mulAux_right 8 a b b' 0 0; simpa [mul] using this

theorem mul_zero_left (b : B) : mul 0#8 b = 0#8 := by
  have := mul_xor_left 0#8 0#8 b; simpa using this
theorem mul_zero_right (a : B) : mul a 0#8 = 0#8 := by
  have := mul_xor_right a 0#8 0#8; simpa using this

/-- basis byte `2^k` -/
def e (k : Nat) : B := 1#8 <<< k
def dk (a : B) (k : Nat) : B := if a.getLsbD k then e k else 0#8

theorem decomp (a : B) :
    a = dk a 0 ^^^ dk a 1 ^^^ dk a 2 ^^^ dk a 3 ^^^ dk a 4 ^^^ dk a 5 ^^^ dk a 6 ^^^ dk a 7 := by
  have h : ∀ n, n < 256 → (BitVec.ofNat 8 n) = dk (BitVec.ofNat 8 n) 0 ^^^ dk (BitVec.ofNat 8 n) 1
      ^^^ dk (BitVec.ofNat 8 n) 2 ^^^ dk (BitVec.ofNat 8 n) 3 ^^^ dk (BitVec.ofNat 8 n) 4
      ^^^ dk (BitVec.ofNat 8 n) 5 ^^^ dk (BitVec.ofNat 8 n) 6 ^^^ dk (BitVec.ofNat 8 n) 7 := by
    decide +kernel
  have := h a.toNat a.isLt
  simpa using this

/-- an xor-additive map that vanishes on the 8 basis bytes vanishes everywhere -/
theorem lin_ext (f : B → B) (hf : ∀ x y, f (x ^^^ y) = f x ^^^ f y)
    (h : ∀ k, k < 8 → f (e k) = 0#8) (a : B) : f a = 0#8 := by
  have f0 : f 0#8 = 0#8 := by have := hf 0#8 0#8; simpa using this
  have hd : ∀ k, k < 8 → f (dk a k) = 0#8 := by
    intro k hk; unfold dk; split
    · exact h k hk
    · exact f0
  rw [decomp a]
  simp only [hf]
  simp [hd]

theorem mul_comm (a b : B) : mul a b = mul b a := by
  have key : ∀ a b, mul a b ^^^ mul b a = 0#8 := by
    intro a b
    refine lin_ext (fun a => mul a b ^^^ mul b a) ?_ ?_ a
    · intro x y; simp only [mul_xor_left, mul_xor_right]; ac_rfl
    · intro k hk
      refine lin_ext (fun b => mul (e k) b ^^^ mul b (e k)) ?_ ?_ b
      · intro x y; simp only [mul_xor_left, mul_xor_right]; ac_rfl
      · intro j hj
        have : ∀ k, k < 8 → ∀ j, j < 8 → mul (e k) (e j) ^^^ mul (e j) (e k) = 0#8 := by decide
        exact this k hk j hj
  exact BitVec.xor_eq_zero_iff.mp (key a b)

theorem mul_assoc (a b c : B) : mul (mul a b) c = mul a (mul b c) := by
  have key : ∀ a b c, mul (mul a b) c ^^^ mul a (mul b c) = 0#8 := by
    intro a b c
    refine lin_ext (fun a => mul (mul a b) c ^^^ mul a (mul b c)) ?_ ?_ a
    · intro x y; simp only [mul_xor_left, mul_xor_right]; ac_rfl
    · intro i hi
      refine lin_ext (fun b => mul (mul (e i) b) c ^^^ mul (e i) (mul b c)) ?_ ?_ b
      · intro x y; simp only [mul_xor_left, mul_xor_right]; ac_rfl
      · intro j hj
        refine lin_ext (fun c => mul (mul (e i) (e j)) c ^^^ mul (e i) (mul (e j) c)) ?_ ?_ c
        · intro x y; simp only [mul_xor_left, mul_xor_right]; ac_rfl
        · intro k hk
          have : ∀ i, i < 8 → ∀ j, j < 8 → ∀ k, k < 8 →
              mul (mul (e i) (e j)) (e k) ^^^ mul (e i) (mul (e j) (e k)) = 0#8 := by
            decide +kernel
          exact this i hi j hj k hk
  exact BitVec.xor_eq_zero_iff.mp (key a b c)

theorem mul_one (a : B) : mul a 1#8 = a := by
  have key : ∀ a, mul a 1#8 ^^^ a = 0#8 := by
    intro a
    refine lin_ext (fun a => mul a 1#8 ^^^ a) ?_ ?_ a
    · intro x y; simp only [mul_xor_left]; ac_rfl
    · decide
  exact BitVec.xor_eq_zero_iff.mp (key a)

theorem one_mul (a : B) : mul 1#8 a = a := by rw [mul_comm, mul_one]

theorem two_mul (a : B) : mul 2#8 a = xtime a := by
  have key : ∀ a, mul 2#8 a ^^^ xtime a = 0#8 := by
    intro a
    refine lin_ext (fun a => mul 2#8 a ^^^ xtime a) ?_ ?_ a
    · intro x y; simp only [mul_xor_right, xtime_xor]; ac_rfl
    · decide
  exact BitVec.xor_eq_zero_iff.mp (key a)

def pow (a : B) : Nat → B
  | 0 => 1#8
  | n+1 => mul (pow a n) a

def sq (a : B) : B := mul a a

/-- inverse as `a^254 = a^2·a^4·a^8·a^16·a^32·a^64·a^128` (0 ↦ 0) -/
def inv (a : B) : B :=
  let a2 := sq a; let a4 := sq a2; let a8 := sq a4; let a16 := sq a8
  let a32 := sq a16; let a64 := sq a32; let a128 := sq a64
  mul a2 (mul a4 (mul a8 (mul a16 (mul a32 (mul a64 a128)))))

theorem inv_zero : inv 0#8 = 0#8 := by decide +kernel

theorem mul_inv_cancel (a : B) (h : a ≠ 0#8) : mul a (inv a) = 1#8 := by
  have key : ∀ n, n < 256 → BitVec.ofNat 8 n ≠ 0#8 →
      mul (BitVec.ofNat 8 n) (inv (BitVec.ofNat 8 n)) = 1#8 := by decide +kernel
  have := key a.toNat a.isLt
  simp only [BitVec.ofNat_toNat, BitVec.setWidth_eq] at this
  exact this h

theorem pow_add (a : B) (m n : Nat) : pow a (m + n) = mul (pow a m) (pow a n) := by
  induction n with
  | zero => simp [pow, mul_one]
  | succ n ih => rw [← Nat.add_assoc]; simp only [pow, ih, mul_assoc]

end SnapraidVerif.GF
