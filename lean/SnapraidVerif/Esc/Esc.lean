/-
Escaping of names in reports (cmdline/support.c): esc_tag for the -l log, esc_shell (POSIX
branch) for the standard output.  Core Lean only.
-/
namespace SnapraidVerif.Esc

abbrev S := List UInt8

def NL : UInt8 := 10
def CR : UInt8 := 13
def COLON : UInt8 := 58
def BSL : UInt8 := 92

/-- esc_tag: newline → `\n`, CR → `\r`, colon → `\d`, backslash → `\\` -/
def escTag : S → S
  | [] => []
  | c :: s =>
    if c = NL then BSL :: 110 :: escTag s
    else if c = CR then BSL :: 114 :: escTag s
    else if c = COLON then BSL :: 100 :: escTag s
    else if c = BSL then BSL :: BSL :: escTag s
    else c :: escTag s

/-- the inverse used by log readers -/
def unescTag : S → S
  | [] => []
  | [c] => [c]
  | c :: d :: s =>
    if c = BSL then
      (if d = 110 then NL else if d = 114 then CR else if d = 100 then COLON else d) :: unescTag s
    else c :: unescTag (d :: s)

/-- characters esc_shell prefixes with a backslash (POSIX branch) -/
def shellSpecial (c : UInt8) : Bool :=
  [32, 126, 96, 35, 36, 38, 42, 40, 41, 92, 124, 91, 93, 123, 125, 59, 39, 34, 60, 62, 63].contains c

def escShell : S → S
  | [] => []
  | c :: s => if shellSpecial c then BSL :: c :: escShell s else c :: escShell s

/-- backslash removal (what a POSIX shell does with an unquoted word, newline aside) -/
def unescShell : S → S
  | [] => []
  | [c] => [c]
  | c :: d :: s => if c = BSL then d :: unescShell s else c :: unescShell (d :: s)

end SnapraidVerif.Esc
