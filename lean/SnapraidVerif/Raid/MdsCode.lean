/-
Consequences of "every square sub-matrix of the generator is invertible" for the systematic
code [I ; A]: uniqueness of erasure recovery and the minimum distance np+1 (C03).
-/
import Mathlib.LinearAlgebra.Matrix.ToLinearEquiv
import Mathlib.Data.Finset.Sort
import Mathlib.Algebra.BigOperators.Fin

namespace SnapraidVerif.MdsCode
open Finset Matrix

variable {K : Type*} [Field K] [DecidableEq K] {np nd : ℕ}

/-- all square sub-matrices (any k rows, any k columns) are non-singular -/
def AllMinorsNonsingular (A : Fin np → Fin nd → K) : Prop :=
  ∀ (k : ℕ) (r : Fin k → Fin np) (c : Fin k → Fin nd), Function.Injective r → Function.Injective c →
    (Matrix.of fun a b => A (r a) (c b)).det ≠ 0

/-- core: a vector supported on `F` that is killed by at least `|F|` rows is zero -/
theorem mds_core (A : Fin np → Fin nd → K) (hA : AllMinorsNonsingular A)
    (e : Fin nd → K) (F : Finset (Fin nd)) (hsupp : ∀ i, i ∉ F → e i = 0)
    (Z : Finset (Fin np)) (hcard : F.card ≤ Z.card) (hz : ∀ j ∈ Z, ∑ i, A j i * e i = 0) : e = 0 := by
  classical
  obtain ⟨Z', hZ'sub, hZ'card⟩ := Finset.exists_subset_card_eq hcard
  set w := F.card with hw
  let c := F.orderEmbOfFin hw.symm
  let r := Z'.orderEmbOfFin hZ'card
  have hdet := hA w (fun a => r a) (fun b => c b) r.injective c.injective
  have hkill : (Matrix.of fun a b => A (r a) (c b)) *ᵥ (fun b => e (c b)) = 0 := by
    funext a
    simp only [Matrix.mulVec, dotProduct, Matrix.of_apply, Pi.zero_apply]
    have hra : r a ∈ Z := hZ'sub (Finset.orderEmbOfFin_mem Z' hZ'card a)
    rw [← hz (r a) hra]
    have hF : ∑ i, A (r a) i * e i = ∑ i ∈ F, A (r a) i * e i := by
      symm
      apply Finset.sum_subset (Finset.subset_univ F)
      intro i _ hi
      rw [hsupp i hi, mul_zero]
    rw [hF]
    have hmap : Finset.map c.toEmbedding Finset.univ = F := Finset.map_orderEmbOfFin_univ F hw.symm
    conv_rhs => rw [← hmap]
    rw [Finset.sum_map]
    rfl
  have hv := Matrix.eq_zero_of_mulVec_eq_zero hdet hkill
  funext i
  by_cases hi : i ∈ F
  · have : i ∈ Finset.map c.toEmbedding Finset.univ := by
      rw [Finset.map_orderEmbOfFin_univ F hw.symm]; exact hi
    obtain ⟨b, _, hb⟩ := Finset.mem_map.mp this
    have := congrFun hv b
    simp only [Pi.zero_apply] at this
    rw [← hb]; exact this
  · exact hsupp i hi

/-- parity `j` of a data vector -/
def parity (A : Fin np → Fin nd → K) (D : Fin nd → K) (j : Fin np) : K := ∑ i, A j i * D i

/-- **Erasure recovery is unique**: data vectors that agree outside the failed set `F` and have
the same parity in at least `|F|` parity rows (the parities used for decoding) are equal.
Hence ANY procedure that outputs a vector consistent with the surviving blocks outputs the
original data, for every choice of the surviving parities used. -/
theorem rec_unique (A : Fin np → Fin nd → K) (hA : AllMinorsNonsingular A)
    (D D' : Fin nd → K) (F : Finset (Fin nd)) (R : Finset (Fin np)) (hcard : F.card ≤ R.card)
    (hout : ∀ i, i ∉ F → D i = D' i) (hpar : ∀ j ∈ R, parity A D j = parity A D' j) : D = D' := by
  have h := mds_core A hA (fun i => D i - D' i) F (fun i hi => by simp [hout i hi]) R hcard
    (fun j hj => by
      have := hpar j hj
      simp only [parity] at this
      simp only [mul_sub, Finset.sum_sub_distrib, this, sub_self])
  funext i
  have := congrFun h i
  simpa [sub_eq_zero] using this

/-- **Minimum distance np+1**: two different data vectors give stripes (data + parity) that
differ in at least np+1 blocks.  So if at most np blocks of a stripe are wrong/unknown in
total, no consistent stripe other than the true one exists: a candidate failure set that
leaves a really corrupted block unlisted cannot pass the consistency test. -/
theorem min_distance (A : Fin np → Fin nd → K) (hA : AllMinorsNonsingular A)
    (D D' : Fin nd → K) (hne : D ≠ D') :
    np + 1 ≤ (Finset.univ.filter fun i => D i ≠ D' i).card +
             (Finset.univ.filter fun j => parity A D j ≠ parity A D' j).card := by
  classical
  by_contra hlt
  rw [not_le] at hlt
  set F := Finset.univ.filter fun i => D i ≠ D' i with hF
  set N := Finset.univ.filter fun j => parity A D j ≠ parity A D' j with hN
  set Z := Finset.univ.filter fun j => parity A D j = parity A D' j with hZ
  have hZN : Z.card + N.card = np := by
    have := Finset.card_filter_add_card_filter_not (s := (Finset.univ : Finset (Fin np)))
      (fun j => parity A D j = parity A D' j)
    simpa [hZ, hN] using this
  have hcard : F.card ≤ Z.card := by omega
  apply hne
  apply rec_unique A hA D D' F Z hcard
  · intro i hi
    by_contra h
    exact hi (by simp [hF, h])
  · intro j hj
    simpa [hZ] using hj

end SnapraidVerif.MdsCode
