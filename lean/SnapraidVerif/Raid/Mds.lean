/-
Extended Cauchy matrices (a Cauchy matrix with an optional row of ones and arbitrary non-zero
row factors) are non-singular over any field.  Mathlib has no Cauchy determinant; the proof
is the kernel-vector / polynomial-root argument.
-/
import Mathlib.LinearAlgebra.Lagrange
import Mathlib.LinearAlgebra.Matrix.ToLinearEquiv
import Mathlib.Algebra.Polynomial.BigOperators

open Polynomial Finset

namespace SnapraidVerif.Mds

variable {K : Type*} [Field K] {n : ℕ}

/-- P = Σ_i c_i Π_{k≠i} (X + x_k) -/
noncomputable def cpoly (x c : Fin n → K) : K[X] :=
  ∑ i, C (c i) * ∏ k ∈ univ.erase i, (X + C (x k))

theorem cpoly_eval (x c : Fin n → K) (y : K) (hy : ∀ i, x i + y ≠ 0) :
    (cpoly x c).eval y = (∏ k, (y + x k)) * ∑ i, c i * (x i + y)⁻¹ := by
  unfold cpoly
  rw [eval_finsetSum, Finset.mul_sum]
  refine Finset.sum_congr rfl fun i _ => ?_
  rw [eval_mul, eval_C, eval_prod]
  simp only [eval_add, eval_X, eval_C]
  rw [← Finset.mul_prod_erase univ (fun k => y + x k) (mem_univ i)]
  have : y + x i ≠ 0 := by rw [add_comm]; exact hy i
  rw [add_comm (x i) y]
  field_simp

theorem term_natDegree_le (x c : Fin n → K) (i : Fin n) :
    (C (c i) * ∏ k ∈ univ.erase i, (X + C (x k))).natDegree ≤ n - 1 := by
  refine le_trans (natDegree_C_mul_le _ _) ?_
  refine le_trans (natDegree_prod_le _ _) ?_
  have : ∀ k ∈ univ.erase i, (X + C (x k)).natDegree = 1 := fun k _ => natDegree_X_add_C _
  rw [Finset.sum_congr rfl this]
  simp

theorem cpoly_natDegree_le (x c : Fin n → K) : (cpoly x c).natDegree ≤ n - 1 := by
  unfold cpoly
  exact natDegree_sum_le_of_forall_le _ _ (fun i _ => term_natDegree_le x c i)

theorem cpoly_coeff_top (x c : Fin n → K) : (cpoly x c).coeff (n - 1) = ∑ i, c i := by
  unfold cpoly
  rw [finsetSum_coeff]
  refine Finset.sum_congr rfl fun i _ => ?_
  rw [coeff_C_mul]
  have hm : (∏ k ∈ univ.erase i, (X + C (x k))).Monic := monic_prod_of_monic _ _ (fun k _ => monic_X_add_C _)
  have hd : (∏ k ∈ univ.erase i, (X + C (x k))).natDegree = n - 1 := by
    rw [natDegree_prod_of_monic _ _ (fun k _ => monic_X_add_C _)]
    simp
  rw [← hd, hm.coeff_natDegree, mul_one]

/-- entry of an extended Cauchy row: `none` is the row of ones -/
def entry (r : Option K) (xi : K) : K := match r with
  | none => 1
  | some y => (xi + y)⁻¹

theorem cpoly_eq_zero_imp (x c : Fin n → K) (hx : Function.Injective x)
    (h0 : cpoly x c = 0) : c = 0 := by
  funext i
  have h := congrArg (eval (-(x i))) h0
  unfold cpoly at h
  rw [eval_finsetSum, eval_zero] at h
  rw [Finset.sum_eq_single i] at h
  · rw [eval_mul, eval_C, eval_prod] at h
    rcases mul_eq_zero.mp h with h | h
    · exact h
    · exfalso
      rw [Finset.prod_eq_zero_iff] at h
      obtain ⟨k, hk, hk0⟩ := h
      simp only [eval_add, eval_X, eval_C] at hk0
      have : x k = x i := by
        have := neg_add_eq_zero.mp hk0
        exact this.symm
      exact (Finset.ne_of_mem_erase hk) (hx this)
  · intro j _ hji
    rw [eval_mul, eval_prod]
    have : ∏ k ∈ univ.erase j, eval (-(x i)) (X + C (x k)) = 0 := by
      apply Finset.prod_eq_zero (Finset.mem_erase.mpr ⟨hji.symm, mem_univ i⟩)
      simp
    rw [this, mul_zero]
  · intro h; exact absurd (mem_univ i) h

theorem ext_cauchy_kernel (x : Fin n → K) (hx : Function.Injective x)
    (rows : Fin n → Option K) (hr : Function.Injective rows)
    (hne : ∀ r y i, rows r = some y → x i + y ≠ 0)
    (c : Fin n → K) (h : ∀ r, ∑ i, c i * entry (rows r) (x i) = 0) : c = 0 := by
  classical
  apply cpoly_eq_zero_imp x c hx
  have hroot : ∀ r y, rows r = some y → (cpoly x c).eval y = 0 := by
    intro r y hry
    rw [cpoly_eval x c y (fun i => hne r y i hry)]
    have := h r
    rw [hry] at this
    simp only [entry] at this
    rw [this, mul_zero]
  -- the finset of finite parameters
  set s : Finset K := (univ.image rows).eraseNone with hs
  have hs_root : ∀ y ∈ s, (cpoly x c).eval y = 0 := by
    intro y hy
    rw [hs, Finset.mem_eraseNone, Finset.mem_image] at hy
    obtain ⟨r, _, hr'⟩ := hy
    exact hroot r y hr'
  have himg : #(univ.image rows) = n := by
    rw [Finset.card_image_of_injective _ hr]; simp
  by_cases hones : ∃ r, rows r = none
  · obtain ⟨r0, hr0⟩ := hones
    have hsum : ∑ i, c i = 0 := by
      have := h r0
      rw [hr0] at this
      simpa [entry] using this
    have hnone : (none : Option K) ∈ univ.image rows := Finset.mem_image.mpr ⟨r0, mem_univ _, hr0⟩
    have hcard : #s + 1 = n := by
      rw [← himg, Finset.card_eraseNone_eq_card_erase, Finset.card_erase_of_mem hnone]
      have : 0 < #(univ.image rows) := Finset.card_pos.mpr ⟨none, hnone⟩
      omega
    apply eq_zero_of_degree_lt_of_eval_finset_eq_zero s _ hs_root
    -- degree < n - 1
    have hn : n = #s + 1 := hcard.symm
    rw [degree_lt_iff_coeff_zero]
    intro m hm
    have hm' : #s ≤ m := by exact_mod_cast hm
    rcases Nat.eq_or_lt_of_le hm' with heq | hlt
    · rw [← heq]
      have : #s = n - 1 := by omega
      rw [this, cpoly_coeff_top, hsum]
    · apply coeff_eq_zero_of_natDegree_lt
      have := cpoly_natDegree_le x c
      omega
  · push Not at hones
    have hcard : #s = n := by
      rw [← himg, Finset.card_eraseNone_eq_card_erase]
      rw [Finset.erase_eq_of_notMem]
      intro hmem
      obtain ⟨r, _, hr'⟩ := Finset.mem_image.mp hmem
      exact hones r hr'
    apply eq_zero_of_degree_lt_of_eval_finset_eq_zero s _ hs_root
    rw [hcard]
    rcases Nat.eq_zero_or_pos n with h0 | hpos
    · subst h0
      have : cpoly x c = 0 := by unfold cpoly; simp
      rw [this]; simp
    · have := cpoly_natDegree_le x c
      calc (cpoly x c).degree ≤ (cpoly x c).natDegree := degree_le_natDegree
        _ < n := by exact_mod_cast (by omega : (cpoly x c).natDegree < n)

open Matrix in
theorem ext_cauchy_det_ne_zero (x : Fin n → K) (hx : Function.Injective x)
    (rows : Fin n → Option K) (hr : Function.Injective rows)
    (hne : ∀ r y i, rows r = some y → x i + y ≠ 0)
    (f : Fin n → K) (hf : ∀ r, f r ≠ 0) :
    (Matrix.of fun r i => f r * entry (rows r) (x i)).det ≠ 0 := by
  intro hdet
  obtain ⟨v, hv, hmul⟩ := (Matrix.exists_mulVec_eq_zero_iff).mpr hdet
  apply hv
  apply ext_cauchy_kernel x hx rows hr hne v
  intro r
  have := congrFun hmul r
  simp only [Matrix.mulVec, dotProduct, Matrix.of_apply, Pi.zero_apply] at this
  have h2 : f r * ∑ i, v i * entry (rows r) (x i) = 0 := by
    rw [Finset.mul_sum, ← this]
    exact Finset.sum_congr rfl fun i _ => by ring
  exact (mul_eq_zero.mp h2).resolve_left (hf r)


end SnapraidVerif.Mds
