/-
Generic lemmas that turn cheap kernel checks on the *generated* tables (packed rows, one
`Nat` literal per row, byte k at bits 8k..8k+7) into full statements about every entry.
Core Lean only.
-/
import SnapraidVerif.GF256.Basic
import SnapraidVerif.Raid.Gen
namespace SnapraidVerif.Raid
open GF

def byteAt (r : Nat) (k : Nat) : Nat := (r >>> (8*k)) &&& 255

theorem byteAt_xor (x y k : Nat) : byteAt (x ^^^ y) k = byteAt x k ^^^ byteAt y k := by
  unfold byteAt
  rw [Nat.shiftRight_xor_distrib, Nat.and_xor_distrib_right]

theorem byteAt_zero (k : Nat) : byteAt 0 k = 0 := by simp [byteAt]

theorem byteAt_lt (r k : Nat) : byteAt r k < 256 := by
  unfold byteAt; exact Nat.lt_of_le_of_lt Nat.and_le_right (by omega)

def pick (b : Bool) (r : Nat) : Nat := if b then r else 0

theorem byteAt_pick (c : Bool) (r k : Nat) : byteAt (pick c r) k = pick c (byteAt r k) := by
  cases c <;> simp [pick, byteAt_zero]

/-- a byte table given in 4096-byte chunks (chunk k = bytes 4096k … 4096k+4095, packed);
    big tables are chunked because Lean parses one huge literal in quadratic time -/
abbrev PTable := Nat → Nat

/-- row `idx` of `w` bytes (w divides 4096) -/
def PTable.row (t : PTable) (w idx : Nat) : Nat :=
  (t (idx*w / 4096) >>> (8 * (idx*w % 4096))) &&& (2^(8*w) - 1)

structure MulTable where
  /-- the 65536 bytes, entry [a][b] at byte 256·a + b -/
  tab : PTable

def MulTable.row (t : MulTable) (a : Nat) : Nat := t.tab.row 256 a
def MulTable.get (t : MulTable) (a b : Nat) : Nat := byteAt (t.row a) b

def combine8 (t : MulTable) (a : Nat) : Nat :=
  pick (a.testBit 0) (t.row 1) ^^^ pick (a.testBit 1) (t.row 2) ^^^ pick (a.testBit 2) (t.row 4)
  ^^^ pick (a.testBit 3) (t.row 8) ^^^ pick (a.testBit 4) (t.row 16) ^^^ pick (a.testBit 5) (t.row 32)
  ^^^ pick (a.testBit 6) (t.row 64) ^^^ pick (a.testBit 7) (t.row 128)

/-- kernel check 1: the 8 basis rows are right (2048 products) -/
def MulTable.basisOk (t : MulTable) : Bool :=
  (List.range 8).all fun k => (List.range 256).all fun b =>
    t.get (2^k) b == (mul (e k) (BitVec.ofNat 8 b)).toNat

/-- kernel check 2: every row is the xor of the basis rows selected by its index
    (256 big-integer xors) and the table has exactly 256 rows below 2^2048 -/
def MulTable.linOk (t : MulTable) : Bool :=
  (List.range 256).all fun a => t.row a == combine8 t a

theorem pick_toNat (c : Bool) (x : B) : pick c x.toNat = (if c then x else 0#8).toNat := by
  cases c <;> simp [pick]

theorem MulTable.ok (t : MulTable) (hb : t.basisOk = true) (hl : t.linOk = true) (a b : B) :
    t.get a.toNat b.toNat = (mul a b).toNat := by
  have hbasis : ∀ k, k < 8 → t.get (2^k) b.toNat = (mul (e k) b).toNat := by
    intro k hk
    unfold MulTable.basisOk at hb
    rw [List.all_eq_true] at hb
    have := hb k (by simpa using hk)
    rw [List.all_eq_true] at this
    have := this b.toNat (by simpa using b.isLt)
    simpa using this
  have hrow : t.row a.toNat = combine8 t a.toNat := by
    unfold MulTable.linOk at hl
    rw [List.all_eq_true] at hl
    have := hl a.toNat (by simpa using a.isLt)
    simpa using this
  unfold MulTable.get
  rw [hrow]
  unfold combine8
  simp only [byteAt_xor, byteAt_pick]
  have h0 : byteAt (t.row 1) b.toNat = (mul (e 0) b).toNat := hbasis 0 (by omega)
  have h1 : byteAt (t.row 2) b.toNat = (mul (e 1) b).toNat := hbasis 1 (by omega)
  have h2 : byteAt (t.row 4) b.toNat = (mul (e 2) b).toNat := hbasis 2 (by omega)
  have h3 : byteAt (t.row 8) b.toNat = (mul (e 3) b).toNat := hbasis 3 (by omega)
  have h4 : byteAt (t.row 16) b.toNat = (mul (e 4) b).toNat := hbasis 4 (by omega)
  have h5 : byteAt (t.row 32) b.toNat = (mul (e 5) b).toNat := hbasis 5 (by omega)
  have h6 : byteAt (t.row 64) b.toNat = (mul (e 6) b).toNat := hbasis 6 (by omega)
  have h7 : byteAt (t.row 128) b.toNat = (mul (e 7) b).toNat := hbasis 7 (by omega)
  rw [h0, h1, h2, h3, h4, h5, h6, h7]
  simp only [pick_toNat, ← BitVec.toNat_xor]
  refine congrArg BitVec.toNat ?_
  conv => rhs; rw [decomp a]
  simp only [mul_xor_left]
  have hd : ∀ k, mul (dk a k) b = if a.toNat.testBit k then mul (e k) b else 0#8 := by
    intro k
    unfold dk
    have : a.getLsbD k = a.toNat.testBit k := rfl
    rw [this]
    cases a.toNat.testBit k <;> simp [mul_zero_left]
  simp only [hd]

end SnapraidVerif.Raid

namespace SnapraidVerif.Raid
open GF

theorem all_range {n : Nat} {p : Nat → Bool} (h : (List.range n).all p = true) (i : Nat) (hi : i < n) :
    p i = true := by
  rw [List.all_eq_true] at h; exact h i (by simpa using hi)

/-- `raid_gfexp[i] = 2^i` for all 256 entries (entry 255 is 2^255 = 1) -/
def expOk (tbl : Nat) : Bool := (List.range 256).all fun i => byteAt tbl i == (pow2 i).toNat
/-- `raid_gfinv[a] = a^-1` (entry 0 is 0) -/
def invOk (tbl : Nat) : Bool := (List.range 256).all fun a => byteAt tbl a == (inv (BitVec.ofNat 8 a)).toNat
/-- one row of a generator table against the mathematical definition, 251 columns, rest zero -/
def genRowOk (A : Nat → Nat → B) (j : Nat) (row : Nat) : Bool :=
  ((List.range 251).all fun i => byteAt row i == (A j i).toNat) && row < 2^(8*251)

theorem expOk_spec {tbl : Nat} (h : expOk tbl = true) (i : Nat) (hi : i < 256) :
    byteAt tbl i = (pow2 i).toNat := by simpa using all_range h i hi
theorem invOk_spec {tbl : Nat} (h : invOk tbl = true) (a : B) :
    byteAt tbl a.toNat = (inv a).toNat := by simpa using all_range h a.toNat a.isLt
theorem genRowOk_spec {A : Nat → Nat → B} {j row : Nat} (h : genRowOk A j row = true) (i : Nat) (hi : i < 251) :
    byteAt row i = (A j i).toNat := by
  unfold genRowOk at h; rw [Bool.and_eq_true] at h
  simpa using all_range h.1 i hi

/-- low/high nibble operand of the PSHUFB tables: `nib 0 k = k`, `nib 1 k = k·16` (as a byte) -/
def nib (h k : Nat) : Nat := if h = 0 then k else 16 * k

/-- `raid_gfmulpshufb[m][h][k] = gfmul[m][nib h k]`, 8192 look-ups in the verified product table -/
def mulPshufbOk (t : MulTable) (tbl : PTable) : Bool :=
  (List.range 256).all fun m => (List.range 2).all fun h => (List.range 16).all fun k =>
    byteAt (tbl.row 32 m) (16*h + k) == t.get m (nib h k)

/-- `raid_gfcauchypshufb[d][p] = raid_gfmulpshufb[raid_gfcauchy[p+2][d]]` (both 32-byte rows) -/
def cauchyPshufbOk (cauchyTbl : List Nat) (mp : PTable) (tbl : PTable) : Bool :=
  (List.range 251).all fun d => (List.range 4).all fun p =>
    tbl.row 32 (4*d + p) == mp.row 32 (byteAt (cauchyTbl.getD (p+2) 0) d)

theorem mulPshufbOk_spec {t : MulTable} {tbl : PTable} (h : mulPshufbOk t tbl = true)
    (m hh k : Nat) (hm : m < 256) (hhh : hh < 2) (hk : k < 16) :
    byteAt (tbl.row 32 m) (16*hh + k) = t.get m (nib hh k) := by
  unfold mulPshufbOk at h
  have := all_range (all_range (all_range h m hm) hh hhh) k hk
  simpa using this

theorem cauchyPshufbOk_spec {c : List Nat} {mp tbl : PTable} (h : cauchyPshufbOk c mp tbl = true)
    (d p : Nat) (hd : d < 251) (hp : p < 4) :
    tbl.row 32 (4*d + p) = mp.row 32 (byteAt (c.getD (p+2) 0) d) := by
  unfold cauchyPshufbOk at h
  simpa using all_range (all_range h d hd) p hp

end SnapraidVerif.Raid
