/-
The alternate ("z") generator of SnapRAID, rows `1`, `2^i`, `2^{-i}` (raid/tables.c
`gfvandermonde`), has all square sub-matrices invertible for up to 255 data disks
(C03 for the z mode).
-/
import Mathlib.LinearAlgebra.Matrix.Determinant.Basic
import Mathlib.Data.Fintype.Card
import Mathlib.Logic.Equiv.Fin.Basic
import Mathlib.Tactic.FieldSimp
import Mathlib.Tactic.Ring
import Mathlib.Tactic.FinCases
import Mathlib.Tactic.LinearCombination
import SnapraidVerif.Raid.Cauchy

namespace SnapraidVerif.Raid
open GF

/-- the generator `g = 2` of the multiplicative group -/
def g : GF256 := ⟨2#8⟩

theorem g_inv : g⁻¹ = ⟨0x8e#8⟩ := by
  have h : g * ⟨0x8e#8⟩ = 1 := by ext : 1; decide +kernel
  exact (eq_inv_of_mul_eq_one_right h).symm ▸ rfl

theorem pow2_eq (i : Nat) : (⟨pow2 i⟩ : GF256) = g ^ i := by
  induction i with
  | zero => rfl
  | succ n ih =>
    rw [pow_succ, ← ih]
    ext : 1
    simp [pow2, g, GF.mul_comm]

theorem powz_eq (i : Nat) : (⟨powz i⟩ : GF256) = (g⁻¹) ^ i := by
  induction i with
  | zero => rfl
  | succ n ih =>
    rw [pow_succ, ← ih, g_inv]
    ext : 1
    simp [powz, GF.mul_comm]

theorem g_ne_zero : g ≠ 0 := by
  intro h; have := congrArg GF256.val h; revert this; decide

/-- the points `x_i = 2^i`, `i < 255`, are distinct -/
def xP (i : Fin 255) : GF256 := g ^ i.val

theorem xP_injective : Function.Injective xP := by
  intro a b h
  have h' : pow2 a = pow2 b := by
    have : (⟨pow2 a⟩ : GF256) = ⟨pow2 b⟩ := by rw [pow2_eq, pow2_eq]; exact h
    exact congrArg GF256.val this
  have := (List.nodup_iff_injective_getElem.mp pow2_inj_list)
  apply Fin.ext
  have hl : ((List.range 255).map pow2).length = 255 := by simp
  have := @this ⟨a.val, by rw [hl]; exact a.isLt⟩ ⟨b.val, by rw [hl]; exact b.isLt⟩ (by simpa using h')
  simpa using this

theorem xP_ne_zero (i : Fin 255) : xP i ≠ 0 := pow_ne_zero _ g_ne_zero

/-- row `j` of the generator as a function of the point -/
def rowP (j : Fin 3) (x : GF256) : GF256 :=
  if j.val = 0 then 1 else if j.val = 1 then x else x⁻¹

/-- the z generator as a matrix over the field -/
def Apower (j : Fin 3) (i : Fin 255) : GF256 := ⟨power j i⟩

theorem Apower_eq (j : Fin 3) (i : Fin 255) : Apower j i = rowP j (xP i) := by
  unfold Apower power rowP xP
  by_cases h0 : j.val = 0
  · simp [h0]; rfl
  · by_cases h1 : j.val = 1
    · simp [h1, pow2_eq]
    · simp [h0, h1, powz_eq, inv_pow]

theorem rowP_ne_zero (j : Fin 3) (x : GF256) (hx : x ≠ 0) : rowP j x ≠ 0 := by
  unfold rowP; split
  · exact one_ne_zero
  · split
    · exact hx
    · exact inv_ne_zero hx

private theorem char2 (a : GF256) : -a = a := rfl

/-- 2×2 minors -/
theorem det2_ne (a b : Fin 3) (hab : a ≠ b) (u v : GF256) (hu : u ≠ 0) (hv : v ≠ 0) (huv : u ≠ v) :
    rowP a u * rowP b v - rowP a v * rowP b u ≠ 0 := by
  have hsub : u - v ≠ 0 := sub_ne_zero.mpr huv
  have hvu : v - u ≠ 0 := sub_ne_zero.mpr (Ne.symm huv)
  have hsq : u * u - v * v ≠ 0 := by
    have e : u * u - v * v = (u - v) * (u - v) := by
      simp only [GF256.sub_eq_add']
      have : (u + v) * (u + v) = u * u + v * v + (u * v + u * v) := by ring
      rw [this, GF256.add_self, add_zero]
    rw [e]; exact mul_ne_zero hsub hsub
  have hinv : u⁻¹ - v⁻¹ ≠ 0 := fun h => huv (inv_injective (sub_eq_zero.mp h))
  have hinv' : v⁻¹ - u⁻¹ ≠ 0 := fun h => huv (inv_injective (sub_eq_zero.mp h)).symm
  have hmix : u * v⁻¹ - v * u⁻¹ ≠ 0 := by
    intro h
    apply hsq
    have h1 : u * v⁻¹ = v * u⁻¹ := sub_eq_zero.mp h
    have h2 : u * u = v * v := by
      have : u * v⁻¹ * (u * v) = v * u⁻¹ * (u * v) := by rw [h1]
      have e1 : u * v⁻¹ * (u * v) = u * u := by field_simp
      have e2 : v * u⁻¹ * (u * v) = v * v := by field_simp
      rw [e1, e2] at this; exact this
    rw [h2, sub_self]
  have hmix' : u⁻¹ * v - v⁻¹ * u ≠ 0 := by
    intro h
    apply hmix
    have : u * v⁻¹ - v * u⁻¹ = -(u⁻¹ * v - v⁻¹ * u) := by ring
    rw [this, h, neg_zero]
  match a, b, hab with
  | ⟨0, _⟩, ⟨0, _⟩, h => exact absurd rfl h
  | ⟨1, _⟩, ⟨1, _⟩, h => exact absurd rfl h
  | ⟨2, _⟩, ⟨2, _⟩, h => exact absurd rfl h
  | ⟨0, _⟩, ⟨1, _⟩, _ => simpa [rowP] using hvu
  | ⟨0, _⟩, ⟨2, _⟩, _ => simpa [rowP] using hinv'
  | ⟨1, _⟩, ⟨0, _⟩, _ => simpa [rowP] using hsub
  | ⟨1, _⟩, ⟨2, _⟩, _ => simpa [rowP] using hmix
  | ⟨2, _⟩, ⟨0, _⟩, _ => simpa [rowP] using hinv
  | ⟨2, _⟩, ⟨1, _⟩, _ => simpa [rowP] using hmix'

/-- the full 3×3 matrix on three distinct non-zero points, rows in natural order -/
theorem det3_ne (u v w : GF256) (hu : u ≠ 0) (hv : v ≠ 0) (hw : w ≠ 0)
    (huv : u ≠ v) (huw : u ≠ w) (hvw : v ≠ w) :
    (Matrix.of fun (a : Fin 3) (b : Fin 3) => rowP a (![u, v, w] b)).det ≠ 0 := by
  rw [Matrix.det_fin_three]
  simp [rowP]
  intro h
  have key : (v * w⁻¹ - w * v⁻¹ - u * w⁻¹ + w * u⁻¹ + u * v⁻¹ - v * u⁻¹) * (u * v * w)
      = -((u - v) * (u - w) * (v - w)) := by
    field_simp
    ring
  rw [h, zero_mul] at key
  have : (u - v) * (u - w) * (v - w) = 0 := by
    have := congrArg Neg.neg key
    simpa using this.symm
  rcases mul_eq_zero.mp this with h1 | h1
  · rcases mul_eq_zero.mp h1 with h2 | h2
    · exact huv (sub_eq_zero.mp h2)
    · exact huw (sub_eq_zero.mp h2)
  · exact hvw (sub_eq_zero.mp h1)

/-- C03 for the z generator: every square sub-matrix (any k rows of the 3, any k of up to 255
columns) is invertible -/
theorem power_mds {k : ℕ} (r : Fin k → Fin 3) (c : Fin k → Fin 255)
    (hr : Function.Injective r) (hc : Function.Injective c) :
    (Matrix.of fun a b => Apower (r a) (c b)).det ≠ 0 := by
  have hk : k ≤ 3 := by simpa using Fintype.card_le_of_injective r hr
  have hM : (Matrix.of fun a b => Apower (r a) (c b)) = Matrix.of fun a b => rowP (r a) (xP (c b)) := by
    apply Matrix.ext; intro a b; simp [Apower_eq]
  rw [hM]
  match k, r, c, hr, hc, hk with
  | 0, _, _, _, _, _ => simp
  | 1, r, c, _, _, _ =>
    rw [Matrix.det_unique]
    exact rowP_ne_zero _ _ (xP_ne_zero _)
  | 2, r, c, hr, hc, _ =>
    rw [Matrix.det_fin_two]
    simp only [Matrix.of_apply]
    exact det2_ne (r 0) (r 1) (fun h => absurd (hr h) (by decide)) (xP (c 0)) (xP (c 1)) (xP_ne_zero _) (xP_ne_zero _)
      (fun h => absurd (hc (xP_injective h)) (by decide))
  | 3, r, c, hr, hc, _ =>
    -- r is a permutation of the three rows
    have hbij : Function.Bijective r := (Finite.injective_iff_bijective).mp hr
    let σ : Equiv.Perm (Fin 3) := Equiv.ofBijective r hbij
    have hsub : (Matrix.of fun a b => rowP (r a) (xP (c b)))
        = (Matrix.of fun (a : Fin 3) (b : Fin 3) => rowP a (![xP (c 0), xP (c 1), xP (c 2)] b)).submatrix σ id := by
      apply Matrix.ext
      intro a b
      simp only [Matrix.of_apply, Matrix.submatrix_apply, id]
      have hσ : σ a = r a := rfl
      rw [hσ]
      congr 1
      fin_cases b <;> rfl
    rw [hsub, Matrix.det_permute]
    refine mul_ne_zero ?_ ?_
    · rcases Int.units_eq_one_or (Equiv.Perm.sign σ) with h | h <;> rw [h] <;> simp
    · exact det3_ne _ _ _ (xP_ne_zero _) (xP_ne_zero _) (xP_ne_zero _)
        (fun h => absurd (hc (xP_injective h)) (by decide))
        (fun h => absurd (hc (xP_injective h)) (by decide))
        (fun h => absurd (hc (xP_injective h)) (by decide))
  | n + 4, _, _, _, _, h => omega

end SnapraidVerif.Raid
