/-
Byte-level specification of parity generation (C02) and the executable model of
raid_invert (C03).  Core Lean only.
-/
import SnapraidVerif.Raid.Gen
namespace SnapraidVerif.Raid
open GF

/-- a block is a list of bytes; a stripe is the list of data blocks, disk 0 first -/
abbrev Block := List B

/-- xor of two blocks, position-wise -/
def bxor : Block → Block → Block
  | a :: as, b :: bs => (a ^^^ b) :: bxor as bs
  | _, _ => []

def bscale (c : B) (d : Block) : Block := d.map (mul c)

def bzero (n : Nat) : Block := List.replicate n 0#8

/-- parity `j` of the stripe: Σ_i A j i · D_i, computed block-wise starting at disk `i` -/
def genParity (A : Nat → Nat → B) (size : Nat) (j : Nat) : Nat → List Block → Block
  | _, [] => bzero size
  | i, d :: ds => bxor (bscale (A j i) d) (genParity A size j (i+1) ds)

/-- C02 specification: the `np` parity blocks of a stripe -/
def genSpec (A : Nat → Nat → B) (np size : Nat) (data : List Block) : List Block :=
  (List.range np).map fun j => genParity A size j 0 data

/-! ### raid_invert: Gauss-Jordan without pivoting on an n×n matrix (list of rows) -/

abbrev Mat := List (List B)

def identity (n : Nat) : Mat :=
  (List.range n).map fun i => (List.range n).map fun j => if i = j then 1#8 else 0#8

def rowScale (f : B) (r : List B) : List B := r.map (mul f)
def rowAxpy (f : B) (rk r : List B) : List B := List.zipWith (fun x y => y ^^^ mul f x) rk r

/-- one elimination step on both matrices for pivot `k`; `none` where the C code hits BUG_ON -/
def invertStep (k : Nat) (MV : Mat × Mat) : Option (Mat × Mat) :=
  let (M, V) := MV
  let mk := M.getD k []
  let piv := mk.getD k 0#8
  if piv = 0#8 then none else
  let f := inv piv
  let mk' := rowScale f mk
  let vk' := rowScale f (V.getD k [])
  let M' := (List.range M.length).map fun i =>
    if i = k then mk' else rowAxpy ((M.getD i []).getD k 0#8) mk' (M.getD i [])
  let V' := (List.range V.length).map fun i =>
    if i = k then vk' else rowAxpy ((M.getD i []).getD k 0#8) vk' (V.getD i [])
  some (M', V')

def invertLoop : Nat → Nat → Mat × Mat → Option (Mat × Mat)
  | 0, _, MV => some MV
  | fuel+1, k, MV => match invertStep k MV with
    | none => none
    | some MV' => invertLoop fuel (k+1) MV'

def invert (M : Mat) : Option Mat :=
  (invertLoop M.length 0 (M, identity M.length)).map (·.2)

end SnapraidVerif.Raid
