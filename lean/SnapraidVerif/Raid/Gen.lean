/-
Executable definition of the generator matrices, following raid/mktables.c
(set_cauchy / set_power).  Core Lean only.
-/
import SnapraidVerif.GF256.Basic
namespace SnapraidVerif.Raid
open GF

/-- `2^i` computed by repeated `gfmul(2, ·)` as in mktables.c -/
def pow2 : Nat → B
  | 0 => 1#8
  | n+1 => mul 2#8 (pow2 n)

/-- `x_i = 2^{-i}` -/
def xval (i : Nat) : B := inv (pow2 i)

/-- `y` parameter of row `j ≥ 1` of the generator (row 1: 0, row j ≥ 2: 2^(j-1)) -/
def yval (j : Nat) : B := if j ≤ 1 then 0#8 else pow2 (j - 1)

/-- raw Cauchy entry before normalisation -/
def rawCauchy (j i : Nat) : B := inv (xval i ^^^ yval j)

/-- normalising factor of row j (mktables.c: `gfinv[matrix[(j+2)*DISK]]`) -/
def rowFactor (j : Nat) : B := if j ≤ 1 then 1#8 else inv (rawCauchy j 0)

/-- entry (j,i) of the 6×251 extended Cauchy generator -/
def cauchy (j i : Nat) : B :=
  if j = 0 then 1#8 else mul (rowFactor j) (rawCauchy j i)

/-- entry (j,i) of the 3×251 power generator of the alternate (z) mode:
rows `1`, `2^i`, `(2^{-1})^i` with 2^{-1} = 0x8e -/
def powz : Nat → B
  | 0 => 1#8
  | n+1 => mul 0x8e#8 (powz n)

def power (j i : Nat) : B :=
  if j = 0 then 1#8 else if j = 1 then pow2 i else powz i

/-- parity j of a stripe of single bytes: Σ_i A j i · d_i -/
def dotBytes (A : Nat → Nat → B) (j : Nat) : Nat → List B → B
  | _, [] => 0#8
  | i, d :: ds => mul (A j i) d ^^^ dotBytes A j (i+1) ds

end SnapraidVerif.Raid
