/-
The concrete SnapRAID generator is an extended Cauchy matrix, hence every square
sub-matrix is invertible (C03, "equivalently" clause).
-/
import SnapraidVerif.Raid.Mds
import SnapraidVerif.Raid.Gen
import SnapraidVerif.GF256.Field

namespace SnapraidVerif.Raid
open GF Mds

def xK (i : Fin 251) : GF256 := ⟨xval i⟩
def rowParam (j : Fin 6) : Option GF256 := if j.val = 0 then none else some ⟨yval j⟩
def fK (j : Fin 6) : GF256 := ⟨rowFactor j⟩
/-- the generator as a matrix over the field -/
def Acauchy (j : Fin 6) (i : Fin 251) : GF256 := ⟨cauchy j i⟩

theorem pow2_inj_list : ((List.range 255).map pow2).Nodup := by decide +kernel

theorem xval_inj_list : ((List.range 251).map xval).Nodup := by decide +kernel

theorem xK_injective : Function.Injective xK := by
  intro a b h
  have h' : xval a = xval b := congrArg GF256.val h
  have := (List.nodup_iff_injective_getElem.mp xval_inj_list)
  apply Fin.ext
  have hl : ((List.range 251).map xval).length = 251 := by simp
  have := @this ⟨a.val, by rw [hl]; exact a.isLt⟩ ⟨b.val, by rw [hl]; exact b.isLt⟩ (by simpa using h')
  simpa using this

theorem rowParam_injective : Function.Injective rowParam := by
  have : ∀ a b : Fin 6, rowParam a = rowParam b → a = b := by decide +kernel
  exact fun a b => this a b

theorem sum_ne_zero_list :
    (List.range 251).all (fun i => (List.range 6).all fun j => j = 0 ∨ xval i ^^^ yval j ≠ 0#8) = true := by
  decide +kernel

theorem xK_add_ne (r : Fin 6) (y : GF256) (i : Fin 251) (h : rowParam r = some y) : xK i + y ≠ 0 := by
  unfold rowParam at h
  split at h
  · cases h
  · rename_i hr
    cases h
    intro h0
    have h0' : xval i ^^^ yval r = 0#8 := by simpa [xK] using congrArg GF256.val h0
    have := sum_ne_zero_list
    rw [List.all_eq_true] at this
    have := this i.val (by simp)
    rw [List.all_eq_true] at this
    have := this r.val (by simp)
    simp only [decide_eq_true_eq] at this
    rcases this with h1 | h1
    · exact hr h1
    · exact h1 h0'

theorem fK_ne_zero (r : Fin 6) : fK r ≠ 0 := by
  have : ∀ r : Fin 6, rowFactor r ≠ 0#8 := by decide +kernel
  intro h; exact this r (by simpa [fK] using congrArg GF256.val h)

theorem Acauchy_eq (j : Fin 6) (i : Fin 251) : Acauchy j i = fK j * entry (rowParam j) (xK i) := by
  ext : 1
  unfold Acauchy cauchy fK rowParam entry
  by_cases h : j.val = 0
  · simp [h, rowFactor, GF.one_mul]
  · simp [h, xK, rawCauchy]

/-- C03 ("equivalently every square sub-matrix of the generator matrix is invertible"),
for the 6×251 Cauchy generator: any k rows and any k columns, k arbitrary. -/
theorem cauchy_mds {k : ℕ} (r : Fin k → Fin 6) (c : Fin k → Fin 251)
    (hr : Function.Injective r) (hc : Function.Injective c) :
    (Matrix.of fun a b => Acauchy (r a) (c b)).det ≠ 0 := by
  have := ext_cauchy_det_ne_zero (fun b => xK (c b)) (xK_injective.comp hc)
    (fun a => rowParam (r a)) (rowParam_injective.comp hr)
    (fun a y b h => xK_add_ne (r a) y (c b) h) (fun a => fK (r a)) (fun a => fK_ne_zero (r a))
  convert this using 2
  ext a b
  simp [Acauchy_eq]

end SnapraidVerif.Raid
