/-
Correctness and totality of the executable model of `raid_invert` (raid/helper.c: Gauss-Jordan
elimination without pivoting, on the matrix of the failed columns × used parity rows):

* `invert_left_inverse`: whenever the model returns `some V`, `V * M = 1` over GF(2^8);
* `invert_total`: when every leading principal sub-matrix of `M` is non-singular, no pivot is
  zero (the C code's `BUG_ON(f == 0)` branch is never taken) and the model returns `some V`.

Both are for every size `n`, by invariants over the elimination steps.
-/
import Mathlib.LinearAlgebra.Matrix.ToLinearEquiv
import Mathlib.LinearAlgebra.Matrix.NonsingularInverse
import Mathlib.Algebra.BigOperators.Fin
import SnapraidVerif.GF256.Field
import SnapraidVerif.Raid.Spec
import SnapraidVerif.Raid.MdsCode

namespace SnapraidVerif.Raid
open GF Finset

/-- entry of a list matrix, `0` outside -/
def ent (M : Mat) (i j : Nat) : B := (M.getD i []).getD j 0#8

/-- the same entry as a field element -/
def E (M : Mat) (i j : Nat) : GF256 := ⟨ent M i j⟩

/-- an n×n list matrix -/
def WF (n : Nat) (M : Mat) : Prop := M.length = n ∧ ∀ i, i < n → (M.getD i []).length = n

theorem getD_map_range {α : Type} (n : Nat) (f : Nat → α) (i : Nat) (d : α) (h : i < n) :
    ((List.range n).map f).getD i d = f i := by
  simp [List.getD_eq_getElem?_getD, h]

theorem rowScale_getD (f : B) (r : List B) (j : Nat) : (rowScale f r).getD j 0#8 = mul f (r.getD j 0#8) := by
  unfold rowScale
  rw [List.getD_eq_getElem?_getD, List.getD_eq_getElem?_getD, List.getElem?_map]
  cases r[j]? with
  | none => simp [mul_zero_right]
  | some x => rfl

theorem rowScale_length (f : B) (r : List B) : (rowScale f r).length = r.length := by
  simp [rowScale]

theorem rowAxpy_length (f : B) (rk r : List B) : (rowAxpy f rk r).length = min rk.length r.length := by
  simp [rowAxpy]

theorem rowAxpy_getD (f : B) (rk r : List B) (j : Nat) (h1 : j < rk.length) (h2 : j < r.length) :
    (rowAxpy f rk r).getD j 0#8 = r.getD j 0#8 ^^^ mul f (rk.getD j 0#8) := by
  unfold rowAxpy
  simp [List.getD_eq_getElem?_getD, List.getElem?_zipWith, List.getElem?_eq_getElem h1, List.getElem?_eq_getElem h2]

theorem identity_wf (n : Nat) : WF n (identity n) := by
  constructor
  · simp [identity]
  · intro i hi
    unfold identity
    rw [getD_map_range n _ i [] hi]
    simp

theorem identity_ent (n i j : Nat) (hi : i < n) (hj : j < n) :
    E (identity n) i j = if i = j then 1 else 0 := by
  unfold E ent identity
  rw [getD_map_range n _ i [] hi, getD_map_range n _ j _ hj]
  split <;> rfl

section step
variable {n k : Nat} {M V M' V' : Mat}

/-- what one elimination step does, entry by entry, in field terms -/
theorem step_spec (hM : WF n M) (hV : WF n V) (hk : k < n) (h : invertStep k (M, V) = some (M', V')) :
    E M k k ≠ 0 ∧ WF n M' ∧ WF n V' ∧
    (∀ i j, i < n → j < n →
      E M' i j = if i = k then (E M k k)⁻¹ * E M k j else E M i j + E M i k * ((E M k k)⁻¹ * E M k j)) ∧
    (∀ i j, i < n → j < n →
      E V' i j = if i = k then (E M k k)⁻¹ * E V k j else E V i j + E M i k * ((E M k k)⁻¹ * E V k j)) := by
  unfold invertStep at h
  simp only at h
  split at h
  · cases h
  · rename_i hp
    simp only [Option.some.injEq, Prod.mk.injEq] at h
    obtain ⟨h1, h2⟩ := h
    have hMl := hM.1
    have hVl := hV.1
    refine ⟨?_, ?_, ?_, ?_, ?_⟩
    · intro h0
      apply hp
      have := congrArg GF256.val h0
      simpa [E, ent] using this
    · subst h1
      constructor
      · simp [hMl]
      · intro i hi
        rw [hMl, getD_map_range n _ i [] hi]
        split
        · rw [rowScale_length]; exact hM.2 k hk
        · rw [rowAxpy_length, rowScale_length, hM.2 k hk, hM.2 i hi]; simp
    · subst h2
      constructor
      · simp [hVl]
      · intro i hi
        rw [hVl, getD_map_range n _ i [] hi]
        split
        · rw [rowScale_length]; exact hV.2 k hk
        · rw [rowAxpy_length, rowScale_length, hV.2 k hk, hV.2 i hi]; simp
    · intro i j hi hj
      subst h1
      apply GF256.ext
      unfold E ent
      simp only
      rw [hMl, getD_map_range n _ i [] hi]
      by_cases hik : i = k
      · simp only [hik, if_true]
        rw [rowScale_getD]
        rfl
      · simp only [hik, if_false]
        rw [rowAxpy_getD _ _ _ _ (by rw [rowScale_length, hM.2 k hk]; exact hj) (by rw [hM.2 i hi]; exact hj)]
        rw [rowScale_getD]
        rfl
    · intro i j hi hj
      subst h2
      apply GF256.ext
      unfold E ent
      simp only
      rw [hVl, getD_map_range n _ i [] hi]
      by_cases hik : i = k
      · simp only [hik, if_true]
        rw [rowScale_getD]
        rfl
      · simp only [hik, if_false]
        rw [rowAxpy_getD _ _ _ _ (by rw [rowScale_length, hV.2 k hk]; exact hj) (by rw [hV.2 i hi]; exact hj)]
        rw [rowScale_getD]
        rfl

end step

/-- the invariant after `k` elimination steps started from `(A, identity)` -/
structure Inv (n k : Nat) (A : Nat → Nat → GF256) (M V : Mat) : Prop where
  wfM : WF n M
  wfV : WF n V
  /-- `V * A = M` -/
  prod : ∀ i j, i < n → j < n → ∑ l ∈ range n, E V i l * A l j = E M i j
  /-- the first `k` columns of `M` are unit columns -/
  unitM : ∀ i j, i < n → j < k → j < n → E M i j = if i = j then 1 else 0
  /-- the columns `≥ k` of `V` are still unit columns -/
  unitV : ∀ i l, i < n → k ≤ l → l < n → E V i l = if i = l then 1 else 0

theorem inv_init (n : Nat) (M : Mat) (hM : WF n M) : Inv n 0 (E M) M (identity n) where
  wfM := hM
  wfV := identity_wf n
  prod := by
    intro i j hi hj
    rw [Finset.sum_eq_single i]
    · rw [identity_ent n i i hi hi]; simp
    · intro l hl hne
      rw [identity_ent n i l hi (by simpa using hl)]
      simp [Ne.symm hne]
    · intro h; simp at h; omega
  unitM := by intro i j _ hj; omega
  unitV := by intro i l hi _ hl; exact identity_ent n i l hi hl

theorem inv_step {n k : Nat} {A : Nat → Nat → GF256} {M V M' V' : Mat} (hk : k < n)
    (hinv : Inv n k A M V) (h : invertStep k (M, V) = some (M', V')) : Inv n (k+1) A M' V' := by
  obtain ⟨hp, wM, wV, eM, eV⟩ := step_spec hinv.wfM hinv.wfV hk h
  refine ⟨wM, wV, ?_, ?_, ?_⟩
  · intro i j hi hj
    rw [eM i j hi hj]
    by_cases hik : i = k
    · simp only [hik, if_true]
      rw [← hinv.prod k j hk hj, Finset.mul_sum]
      apply Finset.sum_congr rfl
      intro l hl
      rw [eV k l hk (by simpa using hl)]
      simp only [if_true]
      ring
    · simp only [hik, if_false]
      rw [← hinv.prod i j hi hj, ← hinv.prod k j hk hj, Finset.mul_sum, Finset.mul_sum, ← Finset.sum_add_distrib]
      apply Finset.sum_congr rfl
      intro l hl
      rw [eV i l hi (by simpa using hl)]
      simp only [hik, if_false]
      ring
  · intro i j hi hj hjn
    rw [eM i j hi hjn]
    by_cases hjk : j = k
    · subst hjk
      by_cases hij : i = j
      · simp only [hij, if_true]
        exact inv_mul_cancel₀ hp
      · simp only [hij, if_false]
        rw [inv_mul_cancel₀ hp, _root_.mul_one]
        exact GF256.add_self _
    · have hjlt : j < k := by omega
      have hkj : E M k j = 0 := by
        rw [hinv.unitM k j hk hjlt hjn]; simp; omega
      rw [hkj]
      by_cases hik : i = k
      · simp only [hik, if_true, mul_zero]
        have : ¬ k = j := by omega
        simp [this]
      · simp only [hik, if_false, mul_zero, add_zero]
        exact hinv.unitM i j hi hjlt hjn
  · intro i l hi hkl hl
    rw [eV i l hi hl]
    have hkl' : E V k l = 0 := by
      rw [hinv.unitV k l hk (by omega) hl]; simp; omega
    rw [hkl']
    by_cases hik : i = k
    · simp only [hik, if_true, mul_zero]
      have : ¬ k = l := by omega
      simp [this]
    · simp only [hik, if_false, mul_zero, add_zero]
      exact hinv.unitV i l hi (by omega) hl

theorem inv_loop {n : Nat} {A : Nat → Nat → GF256} (fuel k : Nat) (M V M' V' : Mat) (hk : k + fuel = n)
    (hinv : Inv n k A M V) (h : invertLoop fuel k (M, V) = some (M', V')) : Inv n n A M' V' := by
  induction fuel generalizing k M V with
  | zero =>
    simp only [invertLoop, Option.some.injEq, Prod.mk.injEq] at h
    obtain ⟨rfl, rfl⟩ := h
    have : k = n := by omega
    subst this; exact hinv
  | succ f ih =>
    simp only [invertLoop] at h
    cases hs : invertStep k (M, V) with
    | none => rw [hs] at h; cases h
    | some MV =>
      obtain ⟨M1, V1⟩ := MV
      rw [hs] at h
      exact ih (k+1) M1 V1 (by omega) (inv_step (by omega) hinv hs) h

/-- field-valued matrix of a list matrix -/
def toMx (n : Nat) (M : Mat) : Matrix (Fin n) (Fin n) GF256 := fun i j => E M i j

/-- **raid_invert computes the inverse**: whenever the elimination ends (no zero pivot),
    the result is the two-sided inverse of the input, for every size -/
theorem invert_left_inverse (n : Nat) (M V : Mat) (hM : WF n M) (h : invert M = some V) :
    toMx n V * toMx n M = 1 ∧ toMx n M * toMx n V = 1 := by
  unfold invert at h
  rw [hM.1] at h
  cases hl : invertLoop n 0 (M, identity n) with
  | none => rw [hl] at h; cases h
  | some MV =>
    obtain ⟨M', V'⟩ := MV
    rw [hl] at h
    simp only [Option.map_some, Option.some.injEq] at h
    subst h
    have hinv := inv_loop n 0 M (identity n) M' V' (by omega) (inv_init n M hM) hl
    have hleft : toMx n V' * toMx n M = 1 := by
      funext i j
      rw [Matrix.mul_apply]
      have := hinv.prod i j i.isLt j.isLt
      rw [hinv.unitM i j i.isLt j.isLt j.isLt] at this
      show ∑ l : Fin n, E V' i l * E M l j = _
      rw [Fin.sum_univ_eq_sum_range (fun l => E V' i l * E M l j) n, this, Matrix.one_apply]
      simp [Fin.ext_iff]
    exact ⟨hleft, _root_.mul_eq_one_comm.mp hleft⟩

/-- recovering the data of the failed disks: multiplying the (reduced) parities by the computed
    inverse gives back exactly the data they were computed from -/
theorem invert_recovers (n : Nat) (M V : Mat) (hM : WF n M) (h : invert M = some V) (d : Fin n → GF256) :
    (toMx n V).mulVec ((toMx n M).mulVec d) = d := by
  rw [Matrix.mulVec_mulVec, (invert_left_inverse n M V hM h).1, Matrix.one_mulVec]

/-- every leading principal sub-matrix is non-singular -/
def LeadingNonsingular (n : Nat) (M : Mat) : Prop :=
  ∀ m, (hm : m ≤ n) → (Matrix.of fun (a b : Fin m) => E M a b).det ≠ 0

/-- a zero pivot at step `k` contradicts the non-singularity of the leading (k+1)-minor -/
theorem pivot_ne_zero {n k : Nat} {M0 M V : Mat} (hk : k < n) (hinv : Inv n k (E M0) M V)
    (hlead : LeadingNonsingular n M0) : E M k k ≠ 0 := by
  intro hz
  -- row k of V, cut to its first k+1 entries, is a non-zero left kernel vector of the leading minor
  let w : Fin (k+1) → GF256 := fun l => E V k l
  have hw : Matrix.vecMul w (Matrix.of fun (a b : Fin (k+1)) => E M0 a b) = 0 := by
    funext j
    simp only [Matrix.vecMul, dotProduct, Matrix.of_apply, Pi.zero_apply, w]
    have hj : (j : Nat) < n := by omega
    have hp := hinv.prod k j hk hj
    -- split the sum over range n at k+1: the tail vanishes because columns > k of V are unit columns
    have hsplit : ∑ l ∈ range n, E V k l * E M0 l j = ∑ l ∈ range (k+1), E V k l * E M0 l j := by
      symm
      apply Finset.sum_subset
      · intro l hl; simp at hl ⊢; omega
      · intro l hl hnl
        simp at hl hnl
        rw [hinv.unitV k l hk (by omega) hl]
        have : ¬ k = l := by omega
        simp [this]
    rw [Fin.sum_univ_eq_sum_range (fun l => E V k l * E M0 l j) (k+1), ← hsplit, hp]
    by_cases hjk : (j : Nat) = k
    · rw [hjk]; exact hz
    · rw [hinv.unitM k j hk (by omega) hj]
      have : ¬ k = (j : Nat) := fun h => hjk h.symm
      simp [this]
  have hdet := hlead (k+1) (by omega)
  have hw0 := Matrix.eq_zero_of_vecMul_eq_zero hdet hw
  have := congrFun hw0 ⟨k, by omega⟩
  simp only [w, Pi.zero_apply] at this
  rw [hinv.unitV k k hk (Nat.le_refl k) hk] at this
  simp at this

theorem loop_total {n : Nat} {M0 : Mat} (hlead : LeadingNonsingular n M0) (fuel k : Nat) (M V : Mat)
    (hk : k + fuel = n) (hinv : Inv n k (E M0) M V) : ∃ MV, invertLoop fuel k (M, V) = some MV := by
  induction fuel generalizing k M V with
  | zero => exact ⟨_, rfl⟩
  | succ f ih =>
    have hkn : k < n := by omega
    have hp := pivot_ne_zero hkn hinv hlead
    simp only [invertLoop]
    cases hs : invertStep k (M, V) with
    | none =>
      exfalso
      unfold invertStep at hs
      simp only at hs
      split at hs
      · rename_i h0
        apply hp
        apply GF256.ext
        simpa [E, ent] using h0
      · cases hs
    | some MV =>
      obtain ⟨M1, V1⟩ := MV
      exact ih (k+1) M1 V1 (by omega) (inv_step hkn hinv hs)

/-- **no BUG_ON**: on a matrix whose leading principal minors are non-singular the elimination
    never meets a zero pivot, so `raid_invert` returns the inverse -/
theorem invert_total (n : Nat) (M : Mat) (hM : WF n M) (hlead : LeadingNonsingular n M) :
    ∃ V, invert M = some V ∧ toMx n V * toMx n M = 1 := by
  obtain ⟨MV, h⟩ := loop_total hlead n 0 M (identity n) (by omega) (inv_init n M hM)
  have hi : invert M = some MV.2 := by
    unfold invert; rw [hM.1, h]; rfl
  exact ⟨MV.2, hi, (invert_left_inverse n M MV.2 hM hi).1⟩

/-! ### the matrix `raid_rec*` builds and inverts: used parity rows × failed data columns -/

def subMat {np nd : Nat} (A : Fin np → Fin nd → GF256) (k : Nat) (r : Fin k → Fin np) (c : Fin k → Fin nd) : Mat :=
  (List.finRange k).map fun a => (List.finRange k).map fun b => (A (r a) (c b)).val

theorem getD_map_finRange {α : Type} (n : Nat) (f : Fin n → α) (i : Nat) (d : α) (h : i < n) :
    ((List.finRange n).map f).getD i d = f ⟨i, h⟩ := by
  simp [List.getD_eq_getElem?_getD, h]

theorem subMat_wf {np nd : Nat} (A : Fin np → Fin nd → GF256) (k : Nat) (r : Fin k → Fin np) (c : Fin k → Fin nd) :
    WF k (subMat A k r c) := by
  constructor
  · simp [subMat]
  · intro i hi
    unfold subMat
    rw [getD_map_finRange k _ i [] hi]
    simp

theorem subMat_ent {np nd : Nat} (A : Fin np → Fin nd → GF256) (k : Nat) (r : Fin k → Fin np) (c : Fin k → Fin nd)
    (a b : Nat) (ha : a < k) (hb : b < k) : E (subMat A k r c) a b = A (r ⟨a, ha⟩) (c ⟨b, hb⟩) := by
  unfold E ent subMat
  rw [getD_map_finRange k _ a [] ha, getD_map_finRange k _ b _ hb]

/-- **the decoder is total and exact** on any generator all of whose square sub-matrices are
    non-singular: for every choice of `k` failed data columns `c` and `k` parity rows `r`, the
    Gauss-Jordan model meets no zero pivot, and multiplying the parities reduced to the failed
    columns by its result returns exactly the lost data -/
theorem decode_exact {np nd : Nat} (A : Fin np → Fin nd → GF256) (hA : MdsCode.AllMinorsNonsingular A)
    (k : Nat) (r : Fin k → Fin np) (c : Fin k → Fin nd) (hr : Function.Injective r) (hc : Function.Injective c) :
    ∃ V, invert (subMat A k r c) = some V ∧
      ∀ D : Fin nd → GF256, (toMx k V).mulVec (fun a => ∑ b, A (r a) (c b) * D (c b)) = fun b => D (c b) := by
  have hlead : LeadingNonsingular k (subMat A k r c) := by
    intro m hm
    have := hA m (fun a => r (Fin.castLE hm a)) (fun b => c (Fin.castLE hm b))
      (hr.comp (Fin.castLE_injective hm)) (hc.comp (Fin.castLE_injective hm))
    convert this using 2
    funext a b
    simp only [Matrix.of_apply]
    exact subMat_ent A k r c a b (by omega) (by omega)
  obtain ⟨V, hV, hone⟩ := invert_total k (subMat A k r c) (subMat_wf A k r c) hlead
  refine ⟨V, hV, ?_⟩
  intro D
  have hM : (fun a => ∑ b, A (r a) (c b) * D (c b)) = (toMx k (subMat A k r c)).mulVec (fun b => D (c b)) := by
    funext a
    simp only [Matrix.mulVec, dotProduct, toMx]
    apply Finset.sum_congr rfl
    intro b _
    rw [subMat_ent A k r c a b a.isLt b.isLt]
  rw [hM, Matrix.mulVec_mulVec, hone, Matrix.one_mulVec]

end SnapraidVerif.Raid
