/-
Include/exclude rules (cmdline/elem.c).  Core Lean only.
-/
import SnapraidVerif.Filter.Fnmatch
namespace SnapraidVerif.Filter

structure Rule where
  incl : Bool        -- direction > 0
  isDisk : Bool
  isPath : Bool
  isDir : Bool
  pattern : S           -- as stored (trailing slash removed; leading slash kept for path rules)
deriving DecidableEq, Repr

/-- the token scan of filter_alloc_file: (ok, firstSlashIndex?, lastSlashIndex?, tokenValid, tokenFilled) -/
structure Scan where
  first : Option Nat := none
  last : Option Nat := none
  valid : Bool := false
  filled : Bool := false
  bad : Bool := false

def scanStep (sc : Scan) (i : Nat) (c : UInt8) : Scan :=
  if sc.bad then sc else
  if c = SLASH then
    if !sc.valid && (sc.first.isSome || sc.filled) then { sc with bad := true }
    else { sc with valid := false, filled := false, first := (if sc.first.isSome then sc.first else some i), last := some i }
  else if c ≠ DOT then { sc with valid := true, filled := true }
  else { sc with filled := true }

def scanAll (p : S) : Scan := (p.zipIdx).foldl (fun sc (c, i) => scanStep sc i c) {}

/-- filter_alloc_file: `none` where the C code returns 0 (invalid rule) -/
def allocFile (incl : Bool) (pat : S) : Option Rule :=
  let sc := scanAll pat
  if sc.bad then none
  else if !sc.valid && (sc.first.isNone || sc.filled) then none
  else match sc.first, sc.last with
    | none, _ => some { incl, isDisk := false, isPath := false, isDir := false, pattern := pat }
    | some f, some l =>
      if f = l ∧ l + 1 = pat.length then
        some { incl, isDisk := false, isPath := false, isDir := true, pattern := pat.take l }
      else
        if pat.head? ≠ some SLASH then none
        else if l + 1 = pat.length then some { incl, isDisk := false, isPath := true, isDir := true, pattern := pat.take l }
        else some { incl, isDisk := false, isPath := true, isDir := false, pattern := pat }
    | some _, none => none

def allocDisk (incl : Bool) (pat : S) : Option Rule :=
  if pat.contains SLASH then none else some { incl, isDisk := true, isPath := false, isDir := false, pattern := pat }

/-- filter_apply: does the rule match this path prefix / component (of the given kind)? -/
def apply (r : Rule) (path name : S) (isDir : Bool) : Bool :=
  if r.isDir != isDir then false
  else if r.isPath then fnm true (r.pattern.drop 1) path
  else fnm false r.pattern name

/-- filter_recurse: every directory prefix (as a dir), then the element itself -/
def recurseFrom (r : Rule) (isDir : Bool) : S → S → S → Bool
  -- done: processed prefix (without trailing slash), name: current component so far, rest
  | donePath, name, [] => apply r (donePath ++ name) name isDir
  | donePath, name, c :: rest =>
    if c = SLASH then
      if apply r (donePath ++ name) name true then true
      else recurseFrom r isDir (donePath ++ name ++ [SLASH]) [] rest
    else recurseFrom r isDir donePath (name ++ [c]) rest

def recurse (r : Rule) (sub : S) (isDir : Bool) : Bool := recurseFrom r isDir [] [] sub

/-- filter_element: 0 = included, -1 = excluded -/
def element (rules : List Rule) (disk sub : S) (isDir defInclude : Bool) : Bool :=
  -- returns true when EXCLUDED
  let rec go (direction : Bool) : List Rule → Bool
    | [] => if defInclude then false else !direction
    | r :: rs =>
      let hit := if r.isDisk then fnm false r.pattern disk else recurse r sub isDir
      if hit then !r.incl
      else go (!r.incl) rs
  go true rules

def filterPath (rules : List Rule) (disk sub : S) : Bool := element rules disk sub false false
def filterSubdir (rules : List Rule) (disk sub : S) : Bool := element rules disk sub true true
def filterEmptydir (rules : List Rule) (disk sub : S) : Bool := element rules disk sub true false

end SnapraidVerif.Filter
