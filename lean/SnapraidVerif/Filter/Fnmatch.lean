/-
fnmatch(3) as snapraid uses it (flags 0 or FNM_PATHNAME; escapes enabled; no FNM_PERIOD), and
the include/exclude rule machinery of cmdline/elem.c (filter_alloc_file, filter_apply,
filter_recurse, filter_element).  Byte strings are `List UInt8`.  Core Lean only.
-/
namespace SnapraidVerif.Filter

abbrev S := List UInt8

def ch (c : Char) : UInt8 := UInt8.ofNat c.toNat
def SLASH : UInt8 := 47
def STAR : UInt8 := 42
def QM : UInt8 := 63
def LBR : UInt8 := 91
def RBR : UInt8 := 93
def BSL : UInt8 := 92
def BANG : UInt8 := 33
def CARET : UInt8 := 94
def DASH : UInt8 := 45
def DOT : UInt8 := 46

inductive Item where
  | one (c : UInt8)
  | range (a b : UInt8)
deriving DecidableEq, Repr

/-- one bracket element start: returns the (possibly escaped) literal byte and the rest;
    `none` = pattern ended (unterminated bracket or trailing backslash) -/
def brChar : S → Option (UInt8 × S)
  | [] => none
  | c :: p => if c = BSL then (match p with | [] => none | d :: p' => some (d, p')) else some (c, p)

/-- items of a bracket expression after the optional negation; `first`: a `]` here is literal.
    Returns items and the pattern after the closing `]`; `none` if unterminated. -/
def brItems : Nat → Bool → S → Option (List Item × S)
  | 0, _, _ => none
  | _+1, _, [] => none
  | fuel+1, first, c :: p =>
    if c = RBR ∧ !first then some ([], p) else
    match brChar (c :: p) with
    | none => none
    | some (a, p1) =>
      -- a range `a-b` unless the dash is the last char before `]`
      match p1 with
      | d :: e :: p2 =>
        if d = DASH ∧ e ≠ RBR then
          match brChar (e :: p2) with
          | none => none
          | some (b, p3) => (brItems fuel false p3).map fun r => (Item.range a b :: r.1, r.2)
        else (brItems fuel false p1).map fun r => (Item.one a :: r.1, r.2)
      | _ => (brItems fuel false p1).map fun r => (Item.one a :: r.1, r.2)

def itemMatches (c : UInt8) : Item → Bool
  | .one a => a == c
  | .range a b => a ≤ c && c ≤ b

/-- parse `[...]` (pattern AFTER the `[`): negation flag, items, rest -/
def parseBracket (p : S) : Option (Bool × List Item × S) :=
  match p with
  | c :: p' =>
    if c = BANG ∨ c = CARET then (brItems (p'.length + 1) true p').map fun r => (true, r.1, r.2)
    else (brItems (p.length + 1) true p).map fun r => (false, r.1, r.2)
  | [] => none

/-- fnmatch(pattern, string, pathname ? FNM_PATHNAME : 0) == 0 -/
def fnm (pathname : Bool) : S → S → Bool
  | [], [] => true
  | [], _ :: _ => false
  | c :: p, s =>
    if c = QM then
      match s with
      | [] => false
      | x :: s' => if pathname ∧ x = SLASH then false else fnm pathname p s'
    else if c = BSL then
      match p with
      | [] => false
      | d :: p' => (match s with | [] => false | x :: s' => if x = d then fnm pathname p' s' else false)
    else if c = STAR then
      fnm pathname p s ||
        (match s with
         | [] => false
         | x :: s' => if pathname ∧ x = SLASH then false else fnm pathname (c :: p) s')
    else if c = LBR then
      match parseBracket p with
      | none =>
        -- unterminated: `[` is an ordinary character
        (match s with | [] => false | x :: s' => if x = LBR then fnm pathname p s' else false)
      | some (neg, items, rest) =>
        if h : rest.length < p.length then
          match s with
          | [] => false
          | x :: s' =>
            if pathname ∧ x = SLASH then false
            else if (items.any (itemMatches x)) != neg then fnm pathname rest s' else false
        else false
    else
      match s with
      | [] => false
      | x :: s' => if x = c then fnm pathname p s' else false
termination_by p s => (p.length, s.length)
decreasing_by
  all_goals simp_wf
  all_goals first
    | (apply Prod.Lex.left; simp; done)
    | (apply Prod.Lex.left; simp; omega)
    | (apply Prod.Lex.left; omega)
    | (apply Prod.Lex.right; simp; done)
    | (apply Prod.Lex.right; omega)

end SnapraidVerif.Filter
