/-
The read-ahead / write-behind ring of cmdline/io.c (threaded mode, io_max = N ≥ 3 slots, R reader
workers, W writer workers) as a transition system whose atomic steps are the critical sections
under `io_mutex`.  Every guard is the modular index comparison the C code performs
(`(worker->index + 1) % io_max != io->reader_index` and friends); the state keeps the
*absolute* task counters the ring indices are the residues of, which is what the invariants
speak about.  Condition variables are modelled by explicit "sleeping" flags: a thread that
executes `cond_wait` sleeps until another thread's step signals or broadcasts, so a lost
wake-up would show as a reachable state with a sleeping thread nobody is going to wake.
Core Lean only.

Correspondence with the code (checked at run time by the trace acceptor in the driver):
  readNext    io_read_next_thread         collect r   io_task_read_thread returns worker r
  cblock      its thread_cond_wait        compute     caller owns all data of the slot
  wcollect w  io_parity_write_thread      wblock      its thread_cond_wait
  writeNext   io_write_next_thread        stop        io_stop_thread (done, two broadcasts)
  rAdvance r  io_reader_step success      rBlock r    its cond_wait      rExit r  returns 0
  wAdvance w  io_writer_step success      wBlock w    its cond_wait      wExit w  returns 0
-/
namespace SnapraidVerif.Ring

inductive PC where
  | idle      -- between io_write_next and the next io_read_next (also the initial state)
  | collect   -- after io_read_next: gathering the readers' results for the caller's slot
  | wcollect  -- data complete, parity computed in the slot: waiting for the writers to free the next slot
  | stopped   -- io_stop called
deriving DecidableEq, Repr

def upd {α : Type} (f : Nat → α) (i : Nat) (v : α) : Nat → α := fun j => if j = i then v else f j

@[simp] theorem upd_same {α : Type} (f : Nat → α) (i : Nat) (v : α) : upd f i v i = v := by simp [upd]
theorem upd_other {α : Type} (f : Nat → α) (i j : Nat) (v : α) (h : j ≠ i) : upd f i v j = f j := by simp [upd, h]

structure St where
  /-- io_read_next calls completed; io->reader_index = (I + N - 1) % N; the caller's stripe is I - 1 -/
  I : Nat
  /-- io_write_next calls completed; io->writer_index = J % N -/
  J : Nat
  /-- reader r works on its (a r)-th task; worker->index = a r % N -/
  a : Nat → Nat
  rwait : Nat → Bool
  rexit : Nat → Bool
  /-- writer w has taken b w tasks; worker->index = (b w + N - 1) % N -/
  b : Nat → Nat
  wwait : Nat → Bool
  wexit : Nat → Bool
  pc : PC
  /-- workers the caller has not yet collected in this phase (reader_list / writer_list) -/
  pend : List Nat
  /-- the caller sleeps on read_done (pc = collect) or write_done (pc = wcollect) -/
  cwait : Bool
  done : Bool
  /-- ghost: slot → stripe number scheduled for the readers in that slot -/
  sched : Nat → Nat
  /-- ghost: reader, slot → stripe number whose data the reader left in that slot's buffer -/
  res : Nat → Nat → Nat
  /-- ghost: slot → write task number scheduled in that slot -/
  wsched : Nat → Nat
  /-- ghost: writer → stripe numbers it wrote, latest first -/
  wrote : Nat → List Nat
  /-- ghost: (stripe, reader, stripe number found in the buffer) for every result the caller took, latest first -/
  took : List (Nat × Nat × Nat)

inductive Act where
  | readNext
  | collect (r : Nat)
  | cblock
  | compute
  | wcollect (w : Nat)
  | wblock
  | writeNext
  | stop
  | rAdvance (r : Nat)
  | rBlock (r : Nat)
  | rExit (r : Nat)
  | wAdvance (w : Nat)
  | wBlock (w : Nat)
  | wExit (w : Nat)
deriving DecidableEq, Repr

def init (N : Nat) : St where
  I := 0
  J := 0
  a := fun _ => 0
  rwait := fun _ => false
  rexit := fun _ => false
  b := fun _ => 0
  wwait := fun _ => false
  wexit := fun _ => false
  pc := .idle
  pend := []
  cwait := false
  done := false
  sched := fun k => if k + 1 < N then k else 0
  res := fun _ _ => 0
  wsched := fun _ => 0
  wrote := fun _ => []
  took := []

/-- io->reader_index -/
def ri (N : Nat) (s : St) : Nat := (s.I + N - 1) % N
/-- io->writer_index -/
def wi (N : Nat) (s : St) : Nat := s.J % N

/-- one atomic step; `none` = the guard of that critical section does not hold.  The caller's stripe
    number is `I - 1`; it processes a stripe only while that is below `M` -/
def step (N R W M : Nat) (s : St) : Act → Option St
  | .readNext =>
    if s.pc = .idle ∧ s.cwait = false ∧ s.I ≤ M then
      some { s with sched := upd s.sched (ri N s) (s.I + N - 1), I := s.I + 1, rwait := fun _ => false,
                    pend := List.range R, pc := .collect }
    else none
  | .collect r =>
    if s.pc = .collect ∧ s.cwait = false ∧ r ∈ s.pend ∧ s.a r % N ≠ ri N s ∧ s.I ≤ M then
      some { s with pend := s.pend.erase r, took := (s.I - 1, r, s.res r (ri N s)) :: s.took }
    else none
  | .cblock =>
    if s.pc = .collect ∧ s.cwait = false ∧ s.pend.any (fun r => s.a r % N == ri N s) ∧ s.I ≤ M then
      some { s with cwait := true }
    else none
  | .compute =>
    if s.pc = .collect ∧ s.cwait = false ∧ s.pend = [] ∧ s.I ≤ M then
      some { s with pc := .wcollect, pend := List.range W }
    else none
  | .wcollect w =>
    if s.pc = .wcollect ∧ s.cwait = false ∧ w ∈ s.pend ∧ (s.b w + N - 1) % N ≠ (wi N s + 1) % N then
      some { s with pend := s.pend.erase w }
    else none
  | .wblock =>
    if s.pc = .wcollect ∧ s.cwait = false ∧ s.pend.any (fun w => (s.b w + N - 1) % N == (wi N s + 1) % N) then
      some { s with cwait := true }
    else none
  | .writeNext =>
    if s.pc = .wcollect ∧ s.cwait = false ∧ s.pend = [] then
      some { s with wsched := upd s.wsched (wi N s) s.J, J := s.J + 1, wwait := fun _ => false, pc := .idle }
    else none
  | .stop =>
    if s.pc ≠ .stopped ∧ s.cwait = false then
      some { s with done := true, rwait := fun _ => false, wwait := fun _ => false, pc := .stopped, pend := [] }
    else none
  | .rAdvance r =>
    if r < R ∧ s.rexit r = false ∧ s.rwait r = false ∧ s.done = false ∧ (s.a r + 1) % N ≠ ri N s then
      some { s with res := upd s.res r (upd (s.res r) (s.a r % N) (s.sched (s.a r % N))),
                    a := upd s.a r (s.a r + 1),
                    cwait := if s.a r % N = ri N s ∧ s.pc = .collect then false else s.cwait }
    else none
  | .rBlock r =>
    if r < R ∧ s.rexit r = false ∧ s.rwait r = false ∧ s.done = false ∧ (s.a r + 1) % N = ri N s then
      some { s with rwait := upd s.rwait r true }
    else none
  | .rExit r =>
    if r < R ∧ s.rexit r = false ∧ s.rwait r = false ∧ s.done = true then
      some { s with rexit := upd s.rexit r true }
    else none
  | .wAdvance w =>
    if w < W ∧ s.wexit w = false ∧ s.wwait w = false ∧ s.b w % N ≠ wi N s then
      some { s with wrote := upd s.wrote w (s.wsched (s.b w % N) :: s.wrote w),
                    b := upd s.b w (s.b w + 1),
                    cwait := if (s.b w + N - 1) % N = (wi N s + 1) % N ∧ s.pc = .wcollect then false else s.cwait }
    else none
  | .wBlock w =>
    if w < W ∧ s.wexit w = false ∧ s.wwait w = false ∧ s.done = false ∧ s.b w % N = wi N s then
      some { s with wwait := upd s.wwait w true }
    else none
  | .wExit w =>
    if w < W ∧ s.wexit w = false ∧ s.wwait w = false ∧ s.done = true ∧ s.b w % N = wi N s then
      some { s with wexit := upd s.wexit w true }
    else none

/-- run a schedule; `none` as soon as one step is not enabled -/
def run (N R W M : Nat) (s : St) : List Act → Option St
  | [] => some s
  | x :: xs => match step N R W M s x with
    | some s' => run N R W M s' xs
    | none => none

/-- `M` = number of stripes to process (the caller leaves its loop when io_read_next returns a
    position ≥ block_max, and may stop earlier on a signal or error) -/
def Reachable (N R W M : Nat) (s : St) : Prop := ∃ acts, run N R W M (init N) acts = some s

/-- everything finished: io_stop returned (all workers joined) -/
def final (R W : Nat) (s : St) : Prop :=
  s.pc = .stopped ∧ (∀ r, r < R → s.rexit r = true) ∧ (∀ w, w < W → s.wexit w = true)

end SnapraidVerif.Ring
