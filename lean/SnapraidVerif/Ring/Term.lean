/-
Termination of the ring protocol: a progress measure that every atomic step increases by at
least one and that is bounded in terms of the number of stripes, slots and workers.  Hence
every schedule is finite; together with `no_deadlock` every maximal schedule ends in the
final state (io_stop returned).
-/
import SnapraidVerif.Ring.Inv
namespace SnapraidVerif.Ring

def sumTo : Nat → (Nat → Nat) → Nat
  | 0, _ => 0
  | n + 1, f => sumTo n f + f n

theorem sumTo_upd_ge (n i v : Nat) (f : Nat → Nat) (h : n ≤ i) : sumTo n (upd f i v) = sumTo n f := by
  induction n with
  | zero => rfl
  | succ k ih =>
    simp only [sumTo]
    rw [ih (by omega), upd_other _ _ _ _ (by omega)]

theorem sumTo_upd_lt (n i v : Nat) (f : Nat → Nat) (h : i < n) : sumTo n (upd f i v) + f i = sumTo n f + v := by
  induction n with
  | zero => omega
  | succ k ih =>
    simp only [sumTo]
    by_cases hk : i = k
    · subst hk
      rw [sumTo_upd_ge _ _ _ _ (Nat.le_refl _), upd_same]; omega
    · have := ih (by omega)
      rw [upd_other _ _ _ _ (fun h' => hk h'.symm)]; omega

theorem sumTo_le (n c : Nat) (f : Nat → Nat) (h : ∀ i, i < n → f i ≤ c) : sumTo n f ≤ n * c := by
  induction n with
  | zero => simp [sumTo]
  | succ k ih =>
    simp only [sumTo]
    have h1 := ih (fun i hi => h i (by omega))
    have h2 := h k (by omega)
    rw [Nat.succ_mul]; omega

theorem sumTo_zero (n : Nat) : sumTo n (fun _ => 0) = 0 := by
  induction n with
  | zero => rfl
  | succ k ih => simp [sumTo, ih]

def bn (b : Bool) : Nat := if b then 1 else 0

@[simp] theorem bn_true : bn true = 1 := rfl
@[simp] theorem bn_false : bn false = 0 := rfl

theorem bn_le (b : Bool) : bn b ≤ 1 := by cases b <;> simp [bn]

theorem bn_upd (f : Nat → Bool) (i : Nat) (v : Bool) : (fun j => bn (upd f i v j)) = upd (fun j => bn (f j)) i (bn v) := by
  funext j; simp only [upd]; split <;> rfl

def rank (W : Nat) : PC → Nat
  | .wcollect => W + 1
  | _ => 0

theorem rank_stopped (W : Nat) : rank W .stopped = 0 := rfl

/-- the progress measure (without the pending-list term) -/
def psi (R W : Nat) (s : St) : Nat :=
  (2 * R + 1) * s.I + (2 * W + 2) * s.J + 2 * sumTo R s.a + 2 * sumTo W s.b
  + sumTo R (fun r => bn (s.rwait r)) + sumTo W (fun w => bn (s.wwait w)) + bn s.cwait + rank W s.pc
  + 2 * sumTo R (fun r => bn (s.rexit r)) + 2 * sumTo W (fun w => bn (s.wexit w)) + (R + 2 * W + 3) * bn s.done

variable {N R W M : Nat} {s s' : St}

theorem flags_le (n : Nat) (f : Nat → Bool) : sumTo n (fun r => bn (f r)) ≤ n := by
  have := sumTo_le n 1 (fun r => bn (f r)) (fun i _ => bn_le _)
  omega

/-- every step makes progress: psi - |pend| grows by at least one -/
theorem step_progress (act : Act) (h : Inv N R W s) (hs : step N R W M s act = some s') :
    psi R W s + s'.pend.length + 1 ≤ psi R W s' + s.pend.length := by
  cases act with
  | readNext =>
    simp only [step] at hs; split at hs
    case isFalse => cases hs
    rename_i hg; obtain ⟨hpc, hcw, _⟩ := hg; cases hs
    have h1 := flags_le R s.rwait
    simp only [psi, hpc, rank, List.length_range, bn_false, sumTo_zero, Nat.mul_add, Nat.mul_one]
    omega
  | collect r =>
    simp only [step] at hs; split at hs
    case isFalse => cases hs
    rename_i hg; obtain ⟨hpc, hcw, hmem, _, _⟩ := hg; cases hs
    have := List.length_erase_of_mem hmem
    have hpos : 0 < s.pend.length := List.length_pos_of_mem hmem
    simp only [psi]
    omega
  | cblock =>
    simp only [step] at hs; split at hs
    case isFalse => cases hs
    rename_i hg; obtain ⟨hpc, hcw, _, _⟩ := hg; cases hs
    simp only [psi, hcw, bn_true, bn_false]
    omega
  | compute =>
    simp only [step] at hs; split at hs
    case isFalse => cases hs
    rename_i hg; obtain ⟨hpc, hcw, hnil, _⟩ := hg; cases hs
    simp only [psi, hpc, rank, hnil, List.length_range, List.length_nil]
    omega
  | wcollect w =>
    simp only [step] at hs; split at hs
    case isFalse => cases hs
    rename_i hg; obtain ⟨hpc, hcw, hmem, _⟩ := hg; cases hs
    have := List.length_erase_of_mem hmem
    have hpos : 0 < s.pend.length := List.length_pos_of_mem hmem
    simp only [psi]
    omega
  | wblock =>
    simp only [step] at hs; split at hs
    case isFalse => cases hs
    rename_i hg; obtain ⟨hpc, hcw, _⟩ := hg; cases hs
    simp only [psi, hcw, bn_true, bn_false]
    omega
  | writeNext =>
    simp only [step] at hs; split at hs
    case isFalse => cases hs
    rename_i hg; obtain ⟨hpc, hcw, hnil⟩ := hg; cases hs
    have h1 := flags_le W s.wwait
    simp only [psi, hpc, rank, hnil, bn_false, sumTo_zero, Nat.mul_add, Nat.mul_one, List.length_nil]
    omega
  | stop =>
    simp only [step] at hs; split at hs
    case isFalse => cases hs
    rename_i hg; obtain ⟨hpc, hcw⟩ := hg; cases hs
    have h1 := flags_le R s.rwait
    have h2 := flags_le W s.wwait
    have hd : s.done = false := by
      cases hx : s.done with
      | false => rfl
      | true => exact absurd (h.doneIff.mp hx) hpc
    have hr : rank W s.pc ≤ W + 1 := by cases s.pc <;> simp [rank]
    simp only [psi, hd, hcw, rank_stopped, bn_true, bn_false, sumTo_zero, List.length_nil, Nat.mul_one, Nat.mul_zero]
    omega
  | rAdvance r =>
    simp only [step] at hs; split at hs
    case isFalse => cases hs
    rename_i hg; obtain ⟨hr, _, _, _, _⟩ := hg; cases hs
    have h1 := sumTo_upd_lt R r (s.a r + 1) s.a hr
    have h2 : bn s.cwait ≤ bn (if s.a r % N = ri N s ∧ s.pc = PC.collect then false else s.cwait) + 1 := by
      split
      · have := bn_le s.cwait; simp only [bn_false]; omega
      · omega
    simp only [psi]
    omega
  | rBlock r =>
    simp only [step] at hs; split at hs
    case isFalse => cases hs
    rename_i hg; obtain ⟨hr, _, hwt, _, _⟩ := hg; cases hs
    have h1 := sumTo_upd_lt R r 1 (fun j => bn (s.rwait j)) hr
    simp only [psi, bn_upd, bn_true]
    rw [hwt, bn_false] at h1
    omega
  | rExit r =>
    simp only [step] at hs; split at hs
    case isFalse => cases hs
    rename_i hg; obtain ⟨hr, hex, _, _⟩ := hg; cases hs
    have h1 := sumTo_upd_lt R r 1 (fun j => bn (s.rexit j)) hr
    simp only [psi, bn_upd, bn_true]
    rw [hex, bn_false] at h1
    omega
  | wAdvance w =>
    simp only [step] at hs; split at hs
    case isFalse => cases hs
    rename_i hg; obtain ⟨hw, _, _, _⟩ := hg; cases hs
    have h1 := sumTo_upd_lt W w (s.b w + 1) s.b hw
    have h2 : bn s.cwait ≤ bn (if (s.b w + N - 1) % N = (wi N s + 1) % N ∧ s.pc = PC.wcollect then false else s.cwait) + 1 := by
      split
      · have := bn_le s.cwait; simp only [bn_false]; omega
      · omega
    simp only [psi]
    omega
  | wBlock w =>
    simp only [step] at hs; split at hs
    case isFalse => cases hs
    rename_i hg; obtain ⟨hw, _, hwt, _, _⟩ := hg; cases hs
    have h1 := sumTo_upd_lt W w 1 (fun j => bn (s.wwait j)) hw
    simp only [psi, bn_upd, bn_true]
    rw [hwt, bn_false] at h1
    omega
  | wExit w =>
    simp only [step] at hs; split at hs
    case isFalse => cases hs
    rename_i hg; obtain ⟨hw, hex, _, _, _⟩ := hg; cases hs
    have h1 := sumTo_upd_lt W w 1 (fun j => bn (s.wexit j)) hw
    simp only [psi, bn_upd, bn_true]
    rw [hex, bn_false] at h1
    omega


theorem step_J_le (act : Act) (h : Inv N R W s) (hs : step N R W M s act = some s') (hJ : s.J ≤ s.I) : s'.J ≤ s'.I := by
  cases act with
  | readNext =>
    simp only [step] at hs; split at hs
    case isFalse => cases hs
    cases hs; simp only; omega
  | writeNext =>
    simp only [step] at hs; split at hs
    case isFalse => cases hs
    rename_i hg; cases hs
    have := h.ijBusy (Or.inr hg.1); simp only; omega
  | collect _ | cblock | compute | wcollect _ | wblock | stop | rAdvance _ | rBlock _ | rExit _ | wAdvance _ | wBlock _ | wExit _ =>
    simp only [step] at hs; split at hs
    case isFalse => cases hs
    cases hs; exact hJ

/-- explicit bound of the progress measure -/
def bound (N R W M : Nat) : Nat :=
  (2 * R + 1) * (M + 1) + (2 * W + 2) * (M + 1) + 2 * (R * (M + N)) + 2 * (W * (M + 1)) + R + W + 1 + (W + 1)
  + 2 * R + 2 * W + (R + 2 * W + 3)

theorem psi_le_bound (h : Inv N R W s) (hI : s.I ≤ M + 1) (hJ : s.J ≤ s.I) : psi R W s ≤ bound N R W M := by
  have h1 : (2 * R + 1) * s.I ≤ (2 * R + 1) * (M + 1) := Nat.mul_le_mul_left _ hI
  have h2 : (2 * W + 2) * s.J ≤ (2 * W + 2) * (M + 1) := Nat.mul_le_mul_left _ (by omega)
  have h3 : sumTo R s.a ≤ R * (M + N) := sumTo_le R (M + N) s.a (fun r hr => by have := h.rhi r hr; omega)
  have h4 : sumTo W s.b ≤ W * (M + 1) := sumTo_le W (M + 1) s.b (fun w hw => by have := h.wlo w hw; omega)
  have h5 := flags_le R s.rwait
  have h6 := flags_le W s.wwait
  have h7 := bn_le s.cwait
  have h8 : rank W s.pc ≤ W + 1 := by cases s.pc <;> simp [rank]
  have h9 := flags_le R s.rexit
  have h10 := flags_le W s.wexit
  have h11 : (R + 2 * W + 3) * bn s.done ≤ R + 2 * W + 3 := by
    have := Nat.mul_le_mul_left (R + 2 * W + 3) (bn_le s.done); omega
  simp only [psi, bound]
  omega

/-- a schedule of length n raises the measure by at least n -/
theorem run_progress (hN : 3 ≤ N) (acts : List Act) (s0 s1 : St) (h : Inv N R W s0) (hr : run N R W M s0 acts = some s1) :
    psi R W s0 + s1.pend.length + acts.length ≤ psi R W s1 + s0.pend.length := by
  induction acts generalizing s0 with
  | nil => simp [run] at hr; subst hr; simp
  | cons x xs ih =>
    simp only [run] at hr
    cases hx : step N R W M s0 x with
    | none => simp [hx] at hr
    | some sm =>
      simp only [hx] at hr
      have h1 := step_progress x h hx
      have h2 := ih sm (inv_step hN x h hx) hr
      simp only [List.length_cons]
      omega

theorem run_J_le (hN : 3 ≤ N) (acts : List Act) (s0 s1 : St) (h : Inv N R W s0) (hJ : s0.J ≤ s0.I)
    (hr : run N R W M s0 acts = some s1) : s1.J ≤ s1.I := by
  induction acts generalizing s0 with
  | nil => simp [run] at hr; subst hr; exact hJ
  | cons x xs ih =>
    simp only [run] at hr
    cases hx : step N R W M s0 x with
    | none => simp [hx] at hr
    | some sm =>
      simp only [hx] at hr
      exact ih sm (inv_step hN x h hx) (step_J_le x h hx hJ) hr

/-- every schedule is finite: no schedule from the initial state is longer than `bound` -/
theorem schedule_length_le_bound (hN : 3 ≤ N) (acts : List Act) (s : St) (hr : run N R W M (init N) acts = some s) :
    acts.length ≤ bound N R W M := by
  have hinv0 := inv_init N R W hN
  have hinv := inv_run hN acts (init N) s hinv0 hr
  have hp := run_progress hN acts (init N) s hinv0 hr
  have hI := bound_I s ⟨acts, hr⟩
  have hJ := run_J_le hN acts (init N) s hinv0 (by simp [init]) hr
  have hb := psi_le_bound (M := M) hinv hI hJ
  have h0 : (init N).pend.length = 0 := by simp [init]
  omega

end SnapraidVerif.Ring
