/-
Invariant of the ring protocol and its preservation by every atomic step, for every number of
slots N ≥ 3, readers R, writers W and every schedule.
-/
import SnapraidVerif.Ring.Model
namespace SnapraidVerif.Ring

theorem mod_eq_of_window {N a b : Nat} (hab : a ≤ b) (h : b < a + N) (he : a % N = b % N) : a = b := by
  have h1 : (b - a) % N = 0 := Nat.sub_mod_eq_zero_of_mod_eq he.symm
  have h2 : (b - a) < N := by omega
  have h3 : b - a = 0 := by
    rw [Nat.mod_eq_of_lt h2] at h1; exact h1
  omega

theorem mod_ne_of_window {N a b : Nat} (hab : a < b) (h : b < a + N) : a % N ≠ b % N := by
  intro he; have := mod_eq_of_window (Nat.le_of_lt hab) h he; omega

/-- the caller's slot `(I + N - 1) % N` against an index `x` of the window `[I-1, I+N-2]` -/
theorem ring_eq_iff {N I x : Nat} (hN : 2 ≤ N) (h1 : I ≤ x + 1) (h2 : x + 2 ≤ I + N) :
    x % N = (I + N - 1) % N ↔ x + 1 = I := by
  constructor
  · intro he
    by_cases hc : x + 1 = I
    · exact hc
    · exfalso
      have : x = I + N - 1 := mod_eq_of_window (by omega) (by omega) he
      omega
  · intro he
    have : I + N - 1 = x + N := by omega
    rw [this, Nat.add_mod_right]

/-- a reader's next index against the caller's slot: equal exactly when the reader is N-1 tasks ahead -/
theorem ring_next_eq_iff {N I x : Nat} (hN : 2 ≤ N) (h1 : I ≤ x + 1) (h2 : x + 2 ≤ I + N) :
    (x + 1) % N = (I + N - 1) % N ↔ x + 2 = I + N := by
  constructor
  · intro he
    have : x + 1 = I + N - 1 := mod_eq_of_window (by omega) (by omega) he
    omega
  · intro he
    have : x + 1 = I + N - 1 := by omega
    rw [this]

/-- a writer's next index `b % N` against `writer_index = J % N` -/
theorem wring_eq_iff {N J b : Nat} (h1 : b ≤ J) (h2 : J < b + N) : b % N = J % N ↔ b = J :=
  ⟨fun he => mod_eq_of_window h1 h2 he, fun he => by rw [he]⟩

/-- a writer's current index `(b + N - 1) % N` against the slot the caller uses next, `(J % N + 1) % N` -/
theorem wring_busy_iff {N J b : Nat} (hN : 3 ≤ N) (h1 : b ≤ J) (h2 : J ≤ b + (N - 2)) :
    (b + N - 1) % N = (J % N + 1) % N ↔ b + (N - 2) = J := by
  have hmod : (J % N + 1) % N = (J + 1) % N := by
    rw [Nat.add_mod, Nat.mod_mod, ← Nat.add_mod]
  rw [hmod]
  constructor
  · intro he
    have : J + 1 = b + N - 1 := mod_eq_of_window (by omega) (by omega) he.symm
    omega
  · intro he
    have : b + N - 1 = J + 1 := by omega
    rw [this]

structure Inv (N R W : Nat) (s : St) : Prop where
  rlo : ∀ r, r < R → s.I ≤ s.a r + 1
  rhi : ∀ r, r < R → s.a r + 2 ≤ s.I + N
  rleft : s.pc = .collect → ∀ r, r < R → r ∉ s.pend → s.I ≤ s.a r
  rleft' : (s.pc = .idle ∨ s.pc = .wcollect) → ∀ r, r < R → s.I ≤ s.a r
  wlo : ∀ w, w < W → s.b w ≤ s.J
  whi : ∀ w, w < W → s.J ≤ s.b w + (N - 2)
  wfree : s.pc = .wcollect → ∀ w, w < W → w ∉ s.pend → s.J + 3 ≤ s.b w + N
  ijIdle : s.pc = .idle → s.J = s.I
  ijBusy : (s.pc = .collect ∨ s.pc = .wcollect) → s.J + 1 = s.I
  cw : s.cwait = true → (s.pc = .collect ∧ ∃ r, r ∈ s.pend ∧ r < R ∧ s.a r + 1 = s.I) ∨
                         (s.pc = .wcollect ∧ ∃ w, w ∈ s.pend ∧ w < W ∧ s.b w + (N - 2) = s.J)
  rw : ∀ r, r < R → s.rwait r = true → s.done = false ∧ s.a r + 2 = s.I + N
  ww : ∀ w, w < W → s.wwait w = true → s.done = false ∧ s.b w = s.J
  pendR : s.pc = .collect → ∀ r, r ∈ s.pend → r < R
  pendW : s.pc = .wcollect → ∀ w, w ∈ s.pend → w < W
  doneIff : s.done = true ↔ s.pc = .stopped
  rex : ∀ r, r < R → s.rexit r = true → s.done = true
  wex : ∀ w, w < W → s.wexit w = true → s.done = true ∧ s.b w = s.J
  schedOk : ∀ k, s.I ≤ k + 1 → k + 2 ≤ s.I + N → s.sched (k % N) = k
  resOk : ∀ r, r < R → ∀ k, s.I ≤ k + 1 → k < s.a r → s.res r (k % N) = k
  wschedOk : ∀ k, k < s.J → s.J ≤ k + (N - 1) → s.wsched (k % N) = k
  wroteOk : ∀ w, w < W → s.wrote w = (List.range (s.b w)).reverse
  tookOk : ∀ t, t ∈ s.took → t.2.2 = t.1

theorem inv_init (N R W : Nat) (hN : 3 ≤ N) : Inv N R W (init N) := by
  refine { rlo := ?_, rhi := ?_, rleft := ?_, rleft' := ?_, wlo := ?_, whi := ?_, wfree := ?_, ijIdle := ?_, ijBusy := ?_,
           cw := ?_, rw := ?_, ww := ?_, pendR := ?_, pendW := ?_, doneIff := ?_, rex := ?_, wex := ?_, schedOk := ?_,
           resOk := ?_, wschedOk := ?_, wroteOk := ?_, tookOk := ?_ } <;> simp [init]
  · omega
  · intro k h1
    have hk : k < N := by omega
    rw [Nat.mod_eq_of_lt hk]
    split <;> omega

variable {N R W M : Nat} {s s' : St}
set_option linter.unusedVariables false

theorem inv_readNext (hN : 3 ≤ N) (h : Inv N R W s) (hs : step N R W M s .readNext = some s') : Inv N R W s' := by
  simp only [step] at hs
  split at hs
  case isFalse => cases hs
  rename_i hg
  obtain ⟨hpc, hcw, hIM⟩ := hg
  cases hs
  have hJI := h.ijIdle hpc
  have hleft := h.rleft' (Or.inl hpc)
  refine { rlo := ?_, rhi := ?_, rleft := ?_, rleft' := ?_, wlo := ?_, whi := ?_, wfree := ?_, ijIdle := ?_, ijBusy := ?_,
           cw := ?_, rw := ?_, ww := ?_, pendR := ?_, pendW := ?_, doneIff := ?_, rex := ?_, wex := ?_, schedOk := ?_,
           resOk := ?_, wschedOk := ?_, wroteOk := ?_, tookOk := ?_ }
  · intro r hr; have := hleft r hr; simp only; omega
  · intro r hr; have := h.rhi r hr; simp only; omega
  · intro _ r hr hnp; exact absurd (List.mem_range.mpr hr) hnp
  · intro hc; simp only at hc; rcases hc with hc | hc <;> cases hc
  · exact h.wlo
  · exact h.whi
  · intro hc; cases hc
  · intro hc; cases hc
  · intro _; simp only; omega
  · intro hc; simp only at hc; rw [hcw] at hc; cases hc
  · intro r hr hc; cases hc
  · exact h.ww
  · intro _ r hr; exact List.mem_range.mp hr
  · intro hc; cases hc
  · simp only; rw [h.doneIff, hpc]; simp
  · exact h.rex
  · exact h.wex
  · intro k h1 h2
    simp only at h1 h2 ⊢
    by_cases hk : k + 1 = s.I + N
    · have : k = s.I + N - 1 := by omega
      subst this; simp [ri, upd]
    · have hne : k % N ≠ ri N s := by
        intro he
        have := (ring_eq_iff (N := N) (I := s.I) (x := k) (by omega) (by omega) (by omega)).mp he
        omega
      rw [upd_other _ _ _ _ hne]
      exact h.schedOk k (by omega) (by omega)
  · intro r hr k h1 h2
    exact h.resOk r hr k (by simp only at h1; omega) h2
  · exact h.wschedOk
  · exact h.wroteOk
  · exact h.tookOk

theorem inv_collect (hN : 3 ≤ N) (r0 : Nat) (h : Inv N R W s) (hs : step N R W M s (.collect r0) = some s') : Inv N R W s' := by
  simp only [step] at hs
  split at hs
  case isFalse => cases hs
  rename_i hg
  obtain ⟨hpc, hcw, hmem, hne, hIM⟩ := hg
  cases hs
  have hr0 : r0 < R := h.pendR hpc r0 hmem
  have hI : s.I ≤ s.a r0 := by
    have h1 := h.rlo r0 hr0; have h2 := h.rhi r0 hr0
    have := (ring_eq_iff (N := N) (I := s.I) (x := s.a r0) (by omega) h1 h2)
    unfold ri at hne
    by_cases hc : s.a r0 + 1 = s.I
    · exact absurd (this.mpr hc) hne
    · omega
  refine { rlo := h.rlo, rhi := h.rhi, rleft := ?_, rleft' := ?_, wlo := h.wlo, whi := h.whi, wfree := ?_, ijIdle := ?_, ijBusy := ?_,
           cw := ?_, rw := h.rw, ww := h.ww, pendR := ?_, pendW := ?_, doneIff := h.doneIff, rex := h.rex, wex := h.wex, schedOk := h.schedOk,
           resOk := h.resOk, wschedOk := h.wschedOk, wroteOk := h.wroteOk, tookOk := ?_ }
  · intro _ r hr hnp
    simp only at hnp ⊢
    by_cases hrr : r = r0
    · subst hrr; exact hI
    · exact h.rleft hpc r hr (fun hm => hnp ((List.mem_erase_of_ne hrr).mpr hm))
  · intro hc; simp only at hc; rw [hpc] at hc; rcases hc with hc | hc <;> cases hc
  · intro hc; simp only at hc; rw [hpc] at hc; cases hc
  · intro hc; simp only at hc; rw [hpc] at hc; cases hc
  · intro _; exact h.ijBusy (Or.inl hpc)
  · intro hc; simp only at hc; rw [hcw] at hc; cases hc
  · intro _ r hr; exact h.pendR hpc r (List.mem_of_mem_erase hr)
  · intro hc; simp only at hc; rw [hpc] at hc; cases hc
  · intro t ht
    simp only [List.mem_cons] at ht
    rcases ht with rfl | ht
    · simp only
      have hpos : 1 ≤ s.I := by have := h.ijBusy (Or.inl hpc); omega
      have hk : ri N s = (s.I - 1) % N := by
        unfold ri
        have : s.I + N - 1 = (s.I - 1) + N := by omega
        rw [this, Nat.add_mod_right]
      rw [hk]
      exact h.resOk r0 hr0 (s.I - 1) (by omega) (by omega)
    · exact h.tookOk t ht

theorem inv_cblock (hN : 3 ≤ N) (h : Inv N R W s) (hs : step N R W M s .cblock = some s') : Inv N R W s' := by
  simp only [step] at hs
  split at hs
  case isFalse => cases hs
  rename_i hg
  obtain ⟨hpc, hcw, hany, hIM⟩ := hg
  cases hs
  refine { rlo := h.rlo, rhi := h.rhi, rleft := h.rleft, rleft' := h.rleft', wlo := h.wlo, whi := h.whi, wfree := h.wfree, ijIdle := h.ijIdle, ijBusy := h.ijBusy,
           cw := ?_, rw := h.rw, ww := h.ww, pendR := h.pendR, pendW := h.pendW, doneIff := h.doneIff, rex := h.rex, wex := h.wex, schedOk := h.schedOk,
           resOk := h.resOk, wschedOk := h.wschedOk, wroteOk := h.wroteOk, tookOk := h.tookOk }
  intro _
  left
  refine ⟨hpc, ?_⟩
  rw [List.any_eq_true] at hany
  obtain ⟨r, hr, he⟩ := hany
  have hrR := h.pendR hpc r hr
  refine ⟨r, hr, hrR, ?_⟩
  have he' : s.a r % N = (s.I + N - 1) % N := by simpa [ri] using he
  exact (ring_eq_iff (by omega) (h.rlo r hrR) (h.rhi r hrR)).mp he'

theorem inv_compute (hN : 3 ≤ N) (h : Inv N R W s) (hs : step N R W M s .compute = some s') : Inv N R W s' := by
  simp only [step] at hs
  split at hs
  case isFalse => cases hs
  rename_i hg
  obtain ⟨hpc, hcw, hnil, hIM⟩ := hg
  cases hs
  refine { rlo := h.rlo, rhi := h.rhi, rleft := ?_, rleft' := ?_, wlo := h.wlo, whi := h.whi, wfree := ?_, ijIdle := ?_, ijBusy := ?_,
           cw := ?_, rw := h.rw, ww := h.ww, pendR := ?_, pendW := ?_, doneIff := ?_, rex := h.rex, wex := h.wex, schedOk := h.schedOk,
           resOk := h.resOk, wschedOk := h.wschedOk, wroteOk := h.wroteOk, tookOk := h.tookOk }
  · intro hc; cases hc
  · intro _ r hr; exact h.rleft hpc r hr (by rw [hnil]; simp)
  · intro _ w hw hnp; exact absurd (List.mem_range.mpr hw) hnp
  · intro hc; cases hc
  · intro _; exact h.ijBusy (Or.inl hpc)
  · intro hc; simp only at hc; rw [hcw] at hc; cases hc
  · intro hc; cases hc
  · intro _ w hw; exact List.mem_range.mp hw
  · simp only; rw [h.doneIff, hpc]; simp


theorem inv_wcollect (hN : 3 ≤ N) (w0 : Nat) (h : Inv N R W s) (hs : step N R W M s (.wcollect w0) = some s') : Inv N R W s' := by
  simp only [step] at hs
  split at hs
  case isFalse => cases hs
  rename_i hg
  obtain ⟨hpc, hcw, hmem, hne⟩ := hg
  cases hs
  have hw0 : w0 < W := h.pendW hpc w0 hmem
  have hfree : s.J + 3 ≤ s.b w0 + N := by
    have h1 := h.wlo w0 hw0; have h2 := h.whi w0 hw0
    have := (wring_busy_iff (N := N) (J := s.J) (b := s.b w0) hN h1 h2)
    unfold wi at hne
    by_cases hc : s.b w0 + (N - 2) = s.J
    · exact absurd (this.mpr hc) hne
    · omega
  refine { rlo := h.rlo, rhi := h.rhi, rleft := ?_, rleft' := ?_, wlo := h.wlo, whi := h.whi, wfree := ?_, ijIdle := ?_, ijBusy := ?_,
           cw := ?_, rw := h.rw, ww := h.ww, pendR := ?_, pendW := ?_, doneIff := h.doneIff, rex := h.rex, wex := h.wex, schedOk := h.schedOk,
           resOk := h.resOk, wschedOk := h.wschedOk, wroteOk := h.wroteOk, tookOk := h.tookOk }
  · intro hc; simp only at hc; rw [hpc] at hc; cases hc
  · intro _; exact h.rleft' (Or.inr hpc)
  · intro _ w hw hnp
    simp only at hnp ⊢
    by_cases hww : w = w0
    · subst hww; exact hfree
    · exact h.wfree hpc w hw (fun hm => hnp ((List.mem_erase_of_ne hww).mpr hm))
  · intro hc; simp only at hc; rw [hpc] at hc; cases hc
  · intro _; exact h.ijBusy (Or.inr hpc)
  · intro hc; simp only at hc; rw [hcw] at hc; cases hc
  · intro hc; simp only at hc; rw [hpc] at hc; cases hc
  · intro _ w hw; exact h.pendW hpc w (List.mem_of_mem_erase hw)

theorem inv_wblock (hN : 3 ≤ N) (h : Inv N R W s) (hs : step N R W M s .wblock = some s') : Inv N R W s' := by
  simp only [step] at hs
  split at hs
  case isFalse => cases hs
  rename_i hg
  obtain ⟨hpc, hcw, hany⟩ := hg
  cases hs
  refine { rlo := h.rlo, rhi := h.rhi, rleft := h.rleft, rleft' := h.rleft', wlo := h.wlo, whi := h.whi, wfree := h.wfree, ijIdle := h.ijIdle, ijBusy := h.ijBusy,
           cw := ?_, rw := h.rw, ww := h.ww, pendR := h.pendR, pendW := h.pendW, doneIff := h.doneIff, rex := h.rex, wex := h.wex, schedOk := h.schedOk,
           resOk := h.resOk, wschedOk := h.wschedOk, wroteOk := h.wroteOk, tookOk := h.tookOk }
  intro _
  right
  refine ⟨hpc, ?_⟩
  rw [List.any_eq_true] at hany
  obtain ⟨w, hw, he⟩ := hany
  have hwW := h.pendW hpc w hw
  refine ⟨w, hw, hwW, ?_⟩
  have he' : (s.b w + N - 1) % N = (s.J % N + 1) % N := by simpa [wi] using he
  exact (wring_busy_iff hN (h.wlo w hwW) (h.whi w hwW)).mp he'

theorem inv_writeNext (hN : 3 ≤ N) (h : Inv N R W s) (hs : step N R W M s .writeNext = some s') : Inv N R W s' := by
  simp only [step] at hs
  split at hs
  case isFalse => cases hs
  rename_i hg
  obtain ⟨hpc, hcw, hnil⟩ := hg
  cases hs
  have hfree : ∀ w, w < W → s.J + 3 ≤ s.b w + N := fun w hw => h.wfree hpc w hw (by rw [hnil]; simp)
  refine { rlo := h.rlo, rhi := h.rhi, rleft := ?_, rleft' := ?_, wlo := ?_, whi := ?_, wfree := ?_, ijIdle := ?_, ijBusy := ?_,
           cw := ?_, rw := h.rw, ww := ?_, pendR := ?_, pendW := ?_, doneIff := ?_, rex := h.rex, wex := ?_, schedOk := h.schedOk,
           resOk := h.resOk, wschedOk := ?_, wroteOk := h.wroteOk, tookOk := h.tookOk }
  · intro hc; cases hc
  · intro _; exact h.rleft' (Or.inr hpc)
  · intro w hw; have := h.wlo w hw; simp only; omega
  · intro w hw; have := hfree w hw; simp only; omega
  · intro hc; cases hc
  · intro _; have := h.ijBusy (Or.inr hpc); simp only; omega
  · intro hc; simp only at hc; rcases hc with hc | hc <;> cases hc
  · intro hc; simp only at hc; rw [hcw] at hc; cases hc
  · intro w hw hc; cases hc
  · intro hc; cases hc
  · intro hc; cases hc
  · simp only; rw [h.doneIff, hpc]; simp
  · intro w hw he
    have := h.wex w hw he
    have hd := h.doneIff.mp this.1
    rw [hpc] at hd; cases hd
  · intro k h1 h2
    simp only at h1 h2 ⊢
    by_cases hk : k = s.J
    · subst hk; simp [wi, upd]
    · have hne : k % N ≠ wi N s := by
        unfold wi
        exact mod_ne_of_window (by omega) (by omega)
      rw [upd_other _ _ _ _ hne]
      exact h.wschedOk k (by omega) (by omega)

theorem inv_stop (hN : 3 ≤ N) (h : Inv N R W s) (hs : step N R W M s .stop = some s') : Inv N R W s' := by
  simp only [step] at hs
  split at hs
  case isFalse => cases hs
  rename_i hg
  obtain ⟨hpc, hcw⟩ := hg
  cases hs
  refine { rlo := h.rlo, rhi := h.rhi, rleft := ?_, rleft' := ?_, wlo := h.wlo, whi := h.whi, wfree := ?_, ijIdle := ?_, ijBusy := ?_,
           cw := ?_, rw := ?_, ww := ?_, pendR := ?_, pendW := ?_, doneIff := ?_, rex := ?_, wex := ?_, schedOk := h.schedOk,
           resOk := h.resOk, wschedOk := h.wschedOk, wroteOk := h.wroteOk, tookOk := h.tookOk }
  · intro hc; cases hc
  · intro hc; simp only at hc; rcases hc with hc | hc <;> cases hc
  · intro hc; cases hc
  · intro hc; cases hc
  · intro hc; simp only at hc; rcases hc with hc | hc <;> cases hc
  · intro hc; simp only at hc; rw [hcw] at hc; cases hc
  · intro r hr hc; cases hc
  · intro w hw hc; cases hc
  · intro hc; cases hc
  · intro hc; cases hc
  · simp
  · intro r hr he; rfl
  · intro w hw he; exact ⟨rfl, (h.wex w hw he).2⟩


theorem inv_rAdvance (hN : 3 ≤ N) (r0 : Nat) (h : Inv N R W s) (hs : step N R W M s (.rAdvance r0) = some s') : Inv N R W s' := by
  simp only [step] at hs
  split at hs
  case isFalse => cases hs
  rename_i hg
  obtain ⟨hr0, hex, hwt, hdn, hne⟩ := hg
  cases hs
  have hlo := h.rlo r0 hr0
  have hhi := h.rhi r0 hr0
  have hroom : s.a r0 + 3 ≤ s.I + N := by
    have := (ring_next_eq_iff (N := N) (I := s.I) (x := s.a r0) (by omega) hlo hhi)
    unfold ri at hne
    by_cases hc : s.a r0 + 2 = s.I + N
    · exact absurd (this.mpr hc) hne
    · omega
  refine { rlo := ?_, rhi := ?_, rleft := ?_, rleft' := ?_, wlo := h.wlo, whi := h.whi, wfree := h.wfree, ijIdle := h.ijIdle, ijBusy := h.ijBusy,
           cw := ?_, rw := ?_, ww := h.ww, pendR := h.pendR, pendW := h.pendW, doneIff := h.doneIff, rex := h.rex, wex := h.wex, schedOk := h.schedOk,
           resOk := ?_, wschedOk := h.wschedOk, wroteOk := h.wroteOk, tookOk := h.tookOk }
  · intro r hr; simp only [upd]; split
    · omega
    · exact h.rlo r hr
  · intro r hr; simp only [upd]; split
    · rename_i he; subst he; omega
    · exact h.rhi r hr
  · intro hpc r hr hnp; simp only [upd]; split
    · rename_i he; subst he; have := h.rleft hpc r hr hnp; omega
    · exact h.rleft hpc r hr hnp
  · intro hpc r hr; simp only [upd]; split
    · rename_i he; subst he; have := h.rleft' hpc r hr; omega
    · exact h.rleft' hpc r hr
  · intro hc
    simp only at hc
    split at hc
    · cases hc
    · rename_i hnot
      rcases h.cw hc with ⟨hpc, r, hr, hrR, he⟩ | ⟨hpc, w, hw, hwW, he⟩
      · left
        refine ⟨hpc, r, hr, hrR, ?_⟩
        by_cases hrr : r = r0
        · subst hrr
          exfalso; apply hnot
          exact ⟨(ring_eq_iff (by omega) hlo hhi).mpr he, hpc⟩
        · simp only [upd, hrr, if_false]; exact he
      · right; exact ⟨hpc, w, hw, hwW, he⟩
  · intro r hr hwr
    simp only [upd]
    by_cases hrr : r = r0
    · subst hrr; rw [hwt] at hwr; cases hwr
    · simp only [hrr, if_false]; exact h.rw r hr hwr
  · intro r hr k h1 h2
    dsimp only at h1
    by_cases hrr : r = r0
    · subst hrr
      simp only [upd, if_true] at h2 ⊢
      by_cases hk : k = s.a r
      · subst hk; simp only [if_true]; exact h.schedOk _ hlo hhi
      · have hne2 : k % N ≠ s.a r % N := mod_ne_of_window (by omega) (by omega)
        simp only [hne2, if_false]
        exact h.resOk r hr k h1 (by omega)
    · simp only [upd, hrr, if_false] at h2 ⊢
      exact h.resOk r hr k h1 h2

theorem inv_rBlock (hN : 3 ≤ N) (r0 : Nat) (h : Inv N R W s) (hs : step N R W M s (.rBlock r0) = some s') : Inv N R W s' := by
  simp only [step] at hs
  split at hs
  case isFalse => cases hs
  rename_i hg
  obtain ⟨hr0, hex, hwt, hdn, he⟩ := hg
  cases hs
  refine { rlo := h.rlo, rhi := h.rhi, rleft := h.rleft, rleft' := h.rleft', wlo := h.wlo, whi := h.whi, wfree := h.wfree, ijIdle := h.ijIdle, ijBusy := h.ijBusy,
           cw := h.cw, rw := ?_, ww := h.ww, pendR := h.pendR, pendW := h.pendW, doneIff := h.doneIff, rex := h.rex, wex := h.wex, schedOk := h.schedOk,
           resOk := h.resOk, wschedOk := h.wschedOk, wroteOk := h.wroteOk, tookOk := h.tookOk }
  intro r hr hwr
  simp only [upd] at hwr
  by_cases hrr : r = r0
  · subst hrr
    refine ⟨hdn, ?_⟩
    unfold ri at he
    exact (ring_next_eq_iff (by omega) (h.rlo r hr) (h.rhi r hr)).mp he
  · simp only [hrr, if_false] at hwr; exact h.rw r hr hwr

theorem inv_rExit (hN : 3 ≤ N) (r0 : Nat) (h : Inv N R W s) (hs : step N R W M s (.rExit r0) = some s') : Inv N R W s' := by
  simp only [step] at hs
  split at hs
  case isFalse => cases hs
  rename_i hg
  obtain ⟨hr0, hex, hwt, hdn⟩ := hg
  cases hs
  refine { rlo := h.rlo, rhi := h.rhi, rleft := h.rleft, rleft' := h.rleft', wlo := h.wlo, whi := h.whi, wfree := h.wfree, ijIdle := h.ijIdle, ijBusy := h.ijBusy,
           cw := h.cw, rw := h.rw, ww := h.ww, pendR := h.pendR, pendW := h.pendW, doneIff := h.doneIff, rex := ?_, wex := h.wex, schedOk := h.schedOk,
           resOk := h.resOk, wschedOk := h.wschedOk, wroteOk := h.wroteOk, tookOk := h.tookOk }
  intro r hr hx
  simp only [upd] at hx
  by_cases hrr : r = r0
  · exact hdn
  · simp only [hrr, if_false] at hx; exact h.rex r hr hx

theorem inv_wAdvance (hN : 3 ≤ N) (w0 : Nat) (h : Inv N R W s) (hs : step N R W M s (.wAdvance w0) = some s') : Inv N R W s' := by
  simp only [step] at hs
  split at hs
  case isFalse => cases hs
  rename_i hg
  obtain ⟨hw0, hex, hwt, hne⟩ := hg
  cases hs
  have hlo := h.wlo w0 hw0
  have hhi := h.whi w0 hw0
  have hpend : s.b w0 + 1 ≤ s.J := by
    have := (wring_eq_iff (N := N) (J := s.J) (b := s.b w0) hlo (by omega))
    unfold wi at hne
    by_cases hc : s.b w0 = s.J
    · exact absurd (this.mpr hc) hne
    · omega
  refine { rlo := h.rlo, rhi := h.rhi, rleft := h.rleft, rleft' := h.rleft', wlo := ?_, whi := ?_, wfree := ?_, ijIdle := h.ijIdle, ijBusy := h.ijBusy,
           cw := ?_, rw := h.rw, ww := ?_, pendR := h.pendR, pendW := h.pendW, doneIff := h.doneIff, rex := h.rex, wex := ?_, schedOk := h.schedOk,
           resOk := h.resOk, wschedOk := h.wschedOk, wroteOk := ?_, tookOk := h.tookOk }
  · intro w hw; simp only [upd]; split
    · rename_i he; subst he; omega
    · exact h.wlo w hw
  · intro w hw; simp only [upd]; split
    · rename_i he; subst he; omega
    · exact h.whi w hw
  · intro hpc w hw hnp; simp only [upd]; split
    · rename_i he; subst he; have := h.wfree hpc w hw hnp; omega
    · exact h.wfree hpc w hw hnp
  · intro hc
    simp only at hc
    split at hc
    · cases hc
    · rename_i hnot
      rcases h.cw hc with ⟨hpc, r, hr, hrR, he⟩ | ⟨hpc, w, hw, hwW, he⟩
      · left; exact ⟨hpc, r, hr, hrR, he⟩
      · right
        refine ⟨hpc, w, hw, hwW, ?_⟩
        by_cases hww : w = w0
        · subst hww
          exfalso; apply hnot
          exact ⟨(wring_busy_iff hN hlo hhi).mpr he, hpc⟩
        · simp only [upd, hww, if_false]; exact he
  · intro w hw hwr
    simp only [upd]
    by_cases hww : w = w0
    · subst hww; rw [hwt] at hwr; cases hwr
    · simp only [hww, if_false]; exact h.ww w hw hwr
  · intro w hw hx
    simp only [upd]
    by_cases hww : w = w0
    · subst hww; rw [hex] at hx; cases hx
    · simp only [hww, if_false]; exact h.wex w hw hx
  · intro w hw
    simp only [upd]
    by_cases hww : w = w0
    · subst hww
      simp only [if_true]
      rw [h.wschedOk (s.b w) (by omega) (by omega), h.wroteOk w hw, List.range_succ]
      simp
    · simp only [hww, if_false]; exact h.wroteOk w hw

theorem inv_wBlock (hN : 3 ≤ N) (w0 : Nat) (h : Inv N R W s) (hs : step N R W M s (.wBlock w0) = some s') : Inv N R W s' := by
  simp only [step] at hs
  split at hs
  case isFalse => cases hs
  rename_i hg
  obtain ⟨hw0, hex, hwt, hdn, he⟩ := hg
  cases hs
  refine { rlo := h.rlo, rhi := h.rhi, rleft := h.rleft, rleft' := h.rleft', wlo := h.wlo, whi := h.whi, wfree := h.wfree, ijIdle := h.ijIdle, ijBusy := h.ijBusy,
           cw := h.cw, rw := h.rw, ww := ?_, pendR := h.pendR, pendW := h.pendW, doneIff := h.doneIff, rex := h.rex, wex := h.wex, schedOk := h.schedOk,
           resOk := h.resOk, wschedOk := h.wschedOk, wroteOk := h.wroteOk, tookOk := h.tookOk }
  intro w hw hwr
  simp only [upd] at hwr
  by_cases hww : w = w0
  · subst hww
    refine ⟨hdn, ?_⟩
    unfold wi at he
    exact (wring_eq_iff (h.wlo w hw) (by have := h.whi w hw; omega)).mp he
  · simp only [hww, if_false] at hwr; exact h.ww w hw hwr

theorem inv_wExit (hN : 3 ≤ N) (w0 : Nat) (h : Inv N R W s) (hs : step N R W M s (.wExit w0) = some s') : Inv N R W s' := by
  simp only [step] at hs
  split at hs
  case isFalse => cases hs
  rename_i hg
  obtain ⟨hw0, hex, hwt, hdn, he⟩ := hg
  cases hs
  refine { rlo := h.rlo, rhi := h.rhi, rleft := h.rleft, rleft' := h.rleft', wlo := h.wlo, whi := h.whi, wfree := h.wfree, ijIdle := h.ijIdle, ijBusy := h.ijBusy,
           cw := h.cw, rw := h.rw, ww := h.ww, pendR := h.pendR, pendW := h.pendW, doneIff := h.doneIff, rex := h.rex, wex := ?_, schedOk := h.schedOk,
           resOk := h.resOk, wschedOk := h.wschedOk, wroteOk := h.wroteOk, tookOk := h.tookOk }
  intro w hw hx
  simp only [upd] at hx
  by_cases hww : w = w0
  · subst hww
    refine ⟨hdn, ?_⟩
    unfold wi at he
    exact (wring_eq_iff (h.wlo w hw) (by have := h.whi w hw; omega)).mp he
  · simp only [hww, if_false] at hx; exact h.wex w hw hx


theorem inv_step (hN : 3 ≤ N) (act : Act) (h : Inv N R W s) (hs : step N R W M s act = some s') : Inv N R W s' := by
  cases act with
  | readNext => exact inv_readNext hN h hs
  | collect r => exact inv_collect hN r h hs
  | cblock => exact inv_cblock hN h hs
  | compute => exact inv_compute hN h hs
  | wcollect w => exact inv_wcollect hN w h hs
  | wblock => exact inv_wblock hN h hs
  | writeNext => exact inv_writeNext hN h hs
  | stop => exact inv_stop hN h hs
  | rAdvance r => exact inv_rAdvance hN r h hs
  | rBlock r => exact inv_rBlock hN r h hs
  | rExit r => exact inv_rExit hN r h hs
  | wAdvance w => exact inv_wAdvance hN w h hs
  | wBlock w => exact inv_wBlock hN w h hs
  | wExit w => exact inv_wExit hN w h hs

theorem inv_run (hN : 3 ≤ N) (acts : List Act) (s s' : St) (h : Inv N R W s) (hr : run N R W M s acts = some s') : Inv N R W s' := by
  induction acts generalizing s with
  | nil => simp [run] at hr; subst hr; exact h
  | cons x xs ih =>
    simp only [run] at hr
    cases hx : step N R W M s x with
    | none => simp [hx] at hr
    | some s1 => simp only [hx] at hr; exact ih s1 (inv_step hN x h hx) hr

/-- the invariant holds in every reachable state, for every schedule -/
theorem inv_reachable (hN : 3 ≤ N) (s : St) (h : Reachable N R W M s) : Inv N R W s := by
  obtain ⟨acts, hr⟩ := h
  exact inv_run hN acts (init N) s (inv_init N R W hN) hr

theorem step_I_le (act : Act) (hs : step N R W M s act = some s') (hI : s.I ≤ M + 1) : s'.I ≤ M + 1 := by
  cases act <;> simp only [step] at hs <;> split at hs <;> first | (cases hs; done) | (cases hs; simp only; omega) | (cases hs; exact hI)

/-- the caller never asks for more than one position beyond the last stripe -/
theorem bound_I (s : St) (h : Reachable N R W M s) : s.I ≤ M + 1 := by
  obtain ⟨acts, hr⟩ := h
  have : ∀ (acts : List Act) (s0 : St), s0.I ≤ M + 1 → run N R W M s0 acts = some s → s.I ≤ M + 1 := by
    intro acts
    induction acts with
    | nil => intro s0 h0 hr; simp [run] at hr; subst hr; exact h0
    | cons x xs ih =>
      intro s0 h0 hr
      simp only [run] at hr
      cases hx : step N R W M s0 x with
      | none => simp [hx] at hr
      | some s1 => simp only [hx] at hr; exact ih s1 (step_I_le x hx h0) hr
  exact this acts (init N) (by simp [init]) hr

end SnapraidVerif.Ring
