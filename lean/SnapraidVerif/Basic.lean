def hello := "world"
