/-
Sequential model of cmdline/scan.c:scan_file: the entries found on a disk are processed one
after the other against the recorded files of that disk, and every match consumes or mutates
the recorded entry it hits (marks it present, renames it on a move, strips its inode when the
inode turns out to be reused, removes it when it changed).  This is the refinement of
`Scan.classify` that reproduces the per-class counters of `diff` exactly for a given walk
order.  Recorded entries are addressed by their index in the recorded list, which is what
identifies the recorded blocks (hashes, parity positions) a trusted file keeps.  Core Lean only.
-/
import SnapraidVerif.Array.Scan
namespace SnapraidVerif.ScanSeq
open Scan

/-- a recorded file during the scan -/
structure KEntry where
  id : FileId          -- identity as recorded (path renamed on a move, inode refreshed on a restore)
  hasInode : Bool      -- findable by inode (false: FILE_IS_WITHOUT_INODE, or the disk has no usable past inodes)
  present : Bool       -- FILE_IS_PRESENT
  removed : Bool       -- scan_file_remove was called (changed file: re-inserted as a new one)
  hashed : Bool        -- fully hashed and stable: usable as a copy source
deriving Repr

inductive Class where
  | equal | move | restore | change | copy | add | copyOver | hardlink
deriving DecidableEq, Repr

def Class.trusted : Class → Bool
  | .equal => true | .move => true | .restore => true | _ => false

structure Out where
  cls : Class
  /-- index of the recorded entry whose blocks the present file keeps (trusted classes only) -/
  keeps : Option Nat

/-- scan state of one disk: `n` recorded entries -/
structure SSt where
  n : Nat
  e : Nat → KEntry

def upd (f : Nat → KEntry) (i : Nat) (v : KEntry) : Nat → KEntry := fun j => if j = i then v else f j

def SSt.set (s : SSt) (i : Nat) (v : KEntry) : SSt := { s with e := upd s.e i v }

def SSt.find (s : SSt) (p : KEntry → Bool) : Option Nat := (List.range s.n).find? fun i => p (s.e i)

def dflt : KEntry := { id := { path := [], size := 0, sec := 0, nsec := 0, inode := 0 }, hasInode := false, present := false, removed := true, hashed := false }

def initSt (useInode : Bool) (known : List (FileId × Bool)) : SSt where
  n := known.length
  e := fun i => match known[i]? with
    | some (f, h) => { id := f, hasInode := useInode, present := false, removed := false, hashed := h }
    | none => dflt

def matchCopy (p c : FileId) : Bool :=
  sameStamp c p && (if p.nsec == 0 then c.path == p.path else baseName c.path == baseName p.path)

/-- copy sources: fully hashed files of the other disks (static) and of this disk (not yet removed) -/
def isCopySeq (other : List FileId) (s : SSt) (p : FileId) : Bool :=
  other.any (matchCopy p) || (List.range s.n).any (fun i => (s.e i).hashed && !(s.e i).removed && matchCopy p (s.e i).id)

/-- lookup by path, after the inode lookup did not settle the entry -/
def byPathSeq (useInode : Bool) (other : List FileId) (s : SSt) (p : FileId) : SSt × Out :=
  match s.find (fun k => !k.removed && k.id.path == p.path) with
  | some i =>
    let k := s.e i
    if k.present then (s, ⟨.hardlink, none⟩)      -- cannot happen (internal inconsistency abort in the C code)
    else if sameStamp k.id p then
      (s.set i { k with present := true, hasInode := true, id := { k.id with inode := p.inode } },
       ⟨if useInode then .restore else .equal, some i⟩)
    else
      let s' := s.set i { k with removed := true }
      (s', ⟨if isCopySeq other s' p then .copyOver else .change, none⟩)
  | none => (s, ⟨if isCopySeq other s p then .copy else .add, none⟩)

/-- one entry found on the disk -/
def scanStep (useInode : Bool) (other : List FileId) (s : SSt) (p : FileId) : SSt × Out :=
  match s.find (fun k => !k.removed && k.hasInode && k.id.inode == p.inode) with
  | some i =>
    let k := s.e i
    if sameStamp k.id p then
      if k.present then (s, ⟨.hardlink, none⟩)
      else if k.id.path == p.path then (s.set i { k with present := true }, ⟨.equal, some i⟩)
      else (s.set i { k with present := true, id := { k.id with path := p.path } }, ⟨.move, some i⟩)
    else
      -- the inode was reused by another file: forget it and go on by path
      byPathSeq useInode other (s.set i { k with hasInode := false }) p
  | none => byPathSeq useInode other s p

def scanAll (useInode : Bool) (other : List FileId) : SSt → List FileId → SSt × List Out
  | s, [] => (s, [])
  | s, p :: ps =>
    let r := scanStep useInode other s p
    let r2 := scanAll useInode other r.1 ps
    (r2.1, r.2 :: r2.2)

/-- recorded files not seen: removed at the end of the scan -/
def removedCount (s : SSt) : Nat := ((List.range s.n).filter fun i => !(s.e i).present && !(s.e i).removed).length

/-! ### what a step and a whole scan do to the recorded entries -/

def stampOf (f : FileId) : Nat × Nat × Nat := (f.size, f.sec, f.nsec)

theorem sameStamp_iff (a b : FileId) : sameStamp a b = true ↔ stampOf a = stampOf b := by
  simp [sameStamp, stampOf, Bool.and_eq_true, beq_iff_eq, Prod.mk.injEq, and_assoc]

@[simp] theorem set_e_same (s : SSt) (i : Nat) (v : KEntry) : (s.set i v).e i = v := by simp [SSt.set, upd]
theorem set_e_other (s : SSt) (i j : Nat) (v : KEntry) (h : j ≠ i) : (s.set i v).e j = s.e j := by simp [SSt.set, upd, h]
@[simp] theorem set_n (s : SSt) (i : Nat) (v : KEntry) : (s.set i v).n = s.n := rfl

theorem find_some (s : SSt) (p : KEntry → Bool) (i : Nat) (h : s.find p = some i) : i < s.n ∧ p (s.e i) = true := by
  unfold SSt.find at h
  exact ⟨List.mem_range.mp (List.mem_of_find?_eq_some h), by simpa using List.find?_some h⟩

/-- what one step does to the recorded entries, and what a "keeps" verdict means -/
structure StepSpec (s s' : SSt) (p : FileId) (o : Out) : Prop where
  n_eq : s'.n = s.n
  stamp : ∀ i, stampOf (s'.e i).id = stampOf (s.e i).id
  present : ∀ i, (s'.e i).present = ((s.e i).present || decide (o.keeps = some i))
  keeps : ∀ i, o.keeps = some i → (s.e i).present = false ∧ i < s.n ∧ stampOf (s.e i).id = stampOf p
  trusted : o.cls.trusted = true → o.keeps.isSome = true

theorem spec_noop (s : SSt) (p : FileId) (c : Class) (hc : c.trusted = false) : StepSpec s s p ⟨c, none⟩ where
  n_eq := rfl
  stamp := fun _ => rfl
  present := fun j => by simp
  keeps := fun j h => by simp at h
  trusted := fun h => by simp only at h; rw [hc] at h; cases h

/-- entry `i` marked present (and possibly renamed / given a new inode, stamp untouched) -/
theorem spec_keep (s : SSt) (p : FileId) (i : Nat) (v : KEntry) (c : Class)
    (hin : i < s.n) (hpf : (s.e i).present = false) (hs : sameStamp (s.e i).id p = true)
    (hv1 : v.present = true) (hv2 : stampOf v.id = stampOf (s.e i).id) : StepSpec s (s.set i v) p ⟨c, some i⟩ where
  n_eq := rfl
  stamp := fun j => by
    by_cases hj : j = i
    · subst hj; simpa using hv2
    · rw [set_e_other _ _ _ _ hj]
  present := fun j => by
    by_cases hj : j = i
    · subst hj; simp [hv1]
    · rw [set_e_other _ _ _ _ hj]
      have : (some i = some j) = False := by simp; exact fun h => hj h.symm
      simp [this]
  keeps := fun j hj => by
    simp only [Option.some.injEq] at hj; subst hj
    exact ⟨hpf, hin, (sameStamp_iff _ _).mp hs⟩
  trusted := fun _ => rfl

/-- entry `i` changed without touching its stamp or its present flag; nothing kept -/
theorem spec_touch (s : SSt) (p : FileId) (i : Nat) (v : KEntry) (c : Class) (hc : c.trusted = false)
    (hv1 : v.present = (s.e i).present) (hv2 : stampOf v.id = stampOf (s.e i).id) : StepSpec s (s.set i v) p ⟨c, none⟩ where
  n_eq := rfl
  stamp := fun j => by
    by_cases hj : j = i
    · subst hj; simpa using hv2
    · rw [set_e_other _ _ _ _ hj]
  present := fun j => by
    by_cases hj : j = i
    · subst hj; simp [hv1]
    · rw [set_e_other _ _ _ _ hj]; simp
  keeps := fun j h => by simp at h
  trusted := fun h => by simp only at h; rw [hc] at h; cases h

theorem byPath_spec (u : Bool) (other : List FileId) (s : SSt) (p : FileId) :
    StepSpec s (byPathSeq u other s p).1 p (byPathSeq u other s p).2 := by
  unfold byPathSeq
  split
  · rename_i i hi
    obtain ⟨hin, hp⟩ := find_some s _ i hi
    by_cases hpres : (s.e i).present = true
    · simp only [hpres, if_true]
      exact spec_noop s p .hardlink rfl
    · have hpf : (s.e i).present = false := by cases h : (s.e i).present <;> simp_all
      simp only [hpf, Bool.false_eq_true, if_false]
      by_cases hs : sameStamp (s.e i).id p = true
      · simp only [hs, if_true]
        exact spec_keep s p i _ _ hin hpf hs rfl rfl
      · simp only [hs, Bool.false_eq_true, if_false]
        exact spec_touch s p i _ _ (by split <;> rfl) (by simp [hpf]) rfl
  · simp only
    apply spec_noop
    split <;> rfl

theorem StepSpec.trans_touch {s s1 s' : SSt} {p : FileId} {o : Out}
    (h1 : s1.n = s.n) (h2 : ∀ i, stampOf (s1.e i).id = stampOf (s.e i).id) (h3 : ∀ i, (s1.e i).present = (s.e i).present)
    (h : StepSpec s1 s' p o) : StepSpec s s' p o where
  n_eq := by rw [h.n_eq, h1]
  stamp := fun i => by rw [h.stamp i, h2 i]
  present := fun i => by rw [h.present i, h3 i]
  keeps := fun i hi => by
    obtain ⟨a, b, c⟩ := h.keeps i hi
    exact ⟨by rw [← h3 i]; exact a, by rw [← h1]; exact b, by rw [← h2 i]; exact c⟩
  trusted := h.trusted

theorem scanStep_spec (u : Bool) (other : List FileId) (s : SSt) (p : FileId) :
    StepSpec s (scanStep u other s p).1 p (scanStep u other s p).2 := by
  unfold scanStep
  split
  · rename_i i hi
    obtain ⟨hin, hp⟩ := find_some s _ i hi
    by_cases hs : sameStamp (s.e i).id p = true
    · simp only [hs, if_true]
      by_cases hpres : (s.e i).present = true
      · simp only [hpres, if_true]
        exact spec_noop s p .hardlink rfl
      · have hpf : (s.e i).present = false := by cases h : (s.e i).present <;> simp_all
        simp only [hpf, Bool.false_eq_true, if_false]
        split
        · exact spec_keep s p i _ _ hin hpf hs rfl rfl
        · exact spec_keep s p i _ _ hin hpf hs rfl rfl
    · simp only [hs, Bool.false_eq_true, if_false]
      refine StepSpec.trans_touch ?_ ?_ ?_ (byPath_spec u other _ p)
      · rfl
      · intro j; by_cases hj : j = i
        · subst hj; simp
        · rw [set_e_other _ _ _ _ hj]
      · intro j; by_cases hj : j = i
        · subst hj; simp
        · rw [set_e_other _ _ _ _ hj]
  · exact byPath_spec u other s p

def keepsOf (os : List Out) : List Nat := os.filterMap (·.keeps)

theorem keepsOf_cons_some (o : Out) (os : List Out) (i : Nat) (h : o.keeps = some i) : keepsOf (o :: os) = i :: keepsOf os := by
  simp [keepsOf, h]
theorem keepsOf_cons_none (o : Out) (os : List Out) (h : o.keeps = none) : keepsOf (o :: os) = keepsOf os := by
  simp [keepsOf, h]

/-- what a trusted verdict for entry `p` means, in terms of the state the scan started from -/
def TrustOk (s : SSt) (p : FileId) (o : Out) : Prop :=
  o.cls.trusted = true → ∃ i, o.keeps = some i ∧ i < s.n ∧ stampOf (s.e i).id = stampOf p

theorem scanAll_spec (u : Bool) (other : List FileId) (ps : List FileId) (s : SSt) :
    (scanAll u other s ps).1.n = s.n ∧
    (∀ i, stampOf ((scanAll u other s ps).1.e i).id = stampOf (s.e i).id) ∧
    (∀ i, ((scanAll u other s ps).1.e i).present = true ↔ ((s.e i).present = true ∨ i ∈ keepsOf (scanAll u other s ps).2)) ∧
    (keepsOf (scanAll u other s ps).2).Nodup ∧
    (∀ i, i ∈ keepsOf (scanAll u other s ps).2 → (s.e i).present = false ∧ i < s.n) ∧
    (∀ x, x ∈ ps.zip (scanAll u other s ps).2 → TrustOk s x.1 x.2) := by
  induction ps generalizing s with
  | nil => simp [scanAll, keepsOf]
  | cons p ps ih =>
    have h1 := scanStep_spec u other s p
    obtain ⟨i1, i2, i3, i4, i5, i6⟩ := ih (scanStep u other s p).1
    simp only [scanAll]
    have hhead : TrustOk s p (scanStep u other s p).2 := by
      intro ht
      have hsome := h1.trusted ht
      cases hk : (scanStep u other s p).2.keeps with
      | none => rw [hk] at hsome; cases hsome
      | some i =>
        obtain ⟨_, b, c⟩ := h1.keeps i hk
        exact ⟨i, rfl, b, c⟩
    have htail : ∀ x, x ∈ ps.zip (scanAll u other (scanStep u other s p).1 ps).2 → TrustOk s x.1 x.2 := by
      intro x hx ht
      obtain ⟨i, a, b, c⟩ := i6 x hx ht
      exact ⟨i, a, by rw [← h1.n_eq]; exact b, by rw [← h1.stamp i]; exact c⟩
    refine ⟨by rw [i1, h1.n_eq], fun i => by rw [i2 i, h1.stamp i], ?_, ?_, ?_, ?_⟩
    · intro i
      have hp : ((scanStep u other s p).1.e i).present = true ↔ ((s.e i).present = true ∨ (scanStep u other s p).2.keeps = some i) := by
        rw [h1.present i]; simp
      rw [i3 i, hp]
      cases hk : (scanStep u other s p).2.keeps with
      | none => rw [keepsOf_cons_none _ _ hk]; simp
      | some j =>
        rw [keepsOf_cons_some _ _ j hk, List.mem_cons]
        constructor
        · rintro ((h | h) | h)
          · exact Or.inl h
          · exact Or.inr (Or.inl (Option.some.inj h).symm)
          · exact Or.inr (Or.inr h)
        · rintro (h | h | h)
          · exact Or.inl (Or.inl h)
          · exact Or.inl (Or.inr (by rw [h]))
          · exact Or.inr h
    · cases hk : (scanStep u other s p).2.keeps with
      | none => rw [keepsOf_cons_none _ _ hk]; exact i4
      | some j =>
        rw [keepsOf_cons_some _ _ j hk, List.nodup_cons]
        refine ⟨?_, i4⟩
        intro hmem
        have := (i5 j hmem).1
        rw [h1.present j, hk] at this
        simp at this
    · intro i hi
      cases hk : (scanStep u other s p).2.keeps with
      | none =>
        rw [keepsOf_cons_none _ _ hk] at hi
        obtain ⟨a, b⟩ := i5 i hi
        rw [h1.present i] at a
        exact ⟨by simpa using (Bool.or_eq_false_iff.mp a).1, by rw [← h1.n_eq]; exact b⟩
      | some j =>
        rw [keepsOf_cons_some _ _ j hk, List.mem_cons] at hi
        rcases hi with rfl | hi
        · obtain ⟨a, b, _⟩ := h1.keeps i hk
          exact ⟨a, b⟩
        · obtain ⟨a, b⟩ := i5 i hi
          rw [h1.present i] at a
          exact ⟨by simpa using (Bool.or_eq_false_iff.mp a).1, by rw [← h1.n_eq]; exact b⟩
    · intro x hx
      rw [List.zip_cons_cons, List.mem_cons] at hx
      rcases hx with rfl | hx
      · exact hhead
      · exact htail x hx


/-- the state the scan starts from: the recorded files, none seen yet -/
theorem initSt_e (u : Bool) (known : List (FileId × Bool)) (i : Nat) (f : FileId) (h : Bool) (hk : known[i]? = some (f, h)) :
    ((initSt u known).e i).id = f ∧ ((initSt u known).e i).present = false := by
  simp [initSt, hk]

end SnapraidVerif.ScanSeq
