/-
The scrub plan (cmdline/scrub.c:53-102 block_is_enabled, and the limit computation of
state_scrub, scrub.c:806-846) and the book-keeping of a scrubbed stripe (scrub.c:570-613).
Core Lean only.
-/
namespace SnapraidVerif.Scrub

structure Info where
  time : Nat
  bad : Bool := false
  rehash : Bool := false
  justsynced : Bool := false
deriving DecidableEq, Repr

inductive Plan where
  | full | even | new | bad
  | auto (countlimit0 recentlimit : Nat)     -- after `md(blockmax, p, 100)` and `now - olderthan*86400`
deriving DecidableEq, Repr

structure Limits where
  countlimit : Nat
  timelimit : Nat
  lastlimit : Nat
deriving DecidableEq, Repr

/-- `while (countlimit > 0 && timemap[countlimit-1] > recentlimit) --countlimit` -/
def lowerCount (sorted : List Nat) (recent : Nat) : Nat → Nat
  | 0 => 0
  | c+1 => if sorted.getD c 0 > recent then lowerCount sorted recent c else c+1

/-- `lastlimit = 1; while (countlimit > lastlimit && timemap[countlimit-lastlimit-1] == timelimit) ++lastlimit` -/
def lastRun (sorted : List Nat) (countlimit timelimit : Nat) : Nat → Nat → Nat
  | 0, last => last
  | fuel+1, last =>
    if countlimit > last ∧ sorted.getD (countlimit - last - 1) 0 = timelimit then lastRun sorted countlimit timelimit fuel (last+1)
    else last

/-- insertion sort (qsort of the times) -/
def insertSorted (x : Nat) : List Nat → List Nat
  | [] => [x]
  | y :: ys => if x ≤ y then x :: y :: ys else y :: insertSorted x ys
def sortTimes : List Nat → List Nat
  | [] => []
  | x :: xs => insertSorted x (sortTimes xs)

def limits (infos : List (Option Info)) (countlimit0 recent : Nat) : Limits :=
  let times := sortTimes (infos.filterMap fun i => i.map (·.time))
  let c0 := min countlimit0 times.length
  let c := lowerCount times recent c0
  if c > 0 then
    let tl := times.getD (c - 1) 0
    { countlimit := c, timelimit := tl, lastlimit := lastRun times c tl c 1 }
  else { countlimit := 0, timelimit := 0, lastlimit := 0 }

/-- `block_is_enabled` with its running counter `countlast`; returns the decision and the new counter -/
def enabled (plan : Plan) (lim : Limits) (pos : Nat) (info : Option Info) (countlast : Nat) : Bool × Nat :=
  match info with
  | none => (false, countlast)
  | some i =>
    if i.bad then (true, countlast) else
    match plan with
    | .full => (true, countlast)
    | .even => (pos % 2 == 0, countlast)
    | .new => (i.justsynced, countlast)
    | .bad => (false, countlast)
    | .auto _ _ =>
      if i.time > lim.timelimit then (false, countlast)
      else if i.time = lim.timelimit then
        (if countlast ≥ lim.lastlimit then (false, countlast) else (true, countlast + 1))
      else (true, countlast)

/-- selection over the whole array, positions in increasing order -/
def selectFrom (plan : Plan) (lim : Limits) : Nat → Nat → List (Option Info) → List Bool
  | _, _, [] => []
  | pos, cl, i :: rest =>
    let (b, cl') := enabled plan lim pos i cl
    b :: selectFrom plan lim (pos+1) cl' rest

def planLimits (plan : Plan) (infos : List (Option Info)) : Limits :=
  match plan with
  | .auto c r => limits infos c r
  | _ => { countlimit := 0, timelimit := 0, lastlimit := 0 }

def select (plan : Plan) (infos : List (Option Info)) : List Bool :=
  selectFrom plan (planLimits plan infos) 0 0 infos

/-- outcome of scrubbing one selected stripe -/
inductive Outcome | ok | silentOrIoError | unsyncedDifference
deriving DecidableEq, Repr

/-- scrub.c:570-613: refresh only what was verified correct, mark bad only silent / io errors,
    leave stripes with differences caused by files changed since the last sync untouched -/
def book (now : Nat) (info : Info) (o : Outcome) : Info :=
  match o with
  | .ok => { time := now, bad := false, rehash := false, justsynced := false }
  | .silentOrIoError => { info with bad := true }
  | .unsyncedDifference => info

end SnapraidVerif.Scrub
