/-
The decision logic of cmdline/check.c:repair()/repair_step(), executable, and the abstract
"try combinations of parities, accept on hash match" search it performs.  Core Lean only.
-/
namespace SnapraidVerif.Repair

inductive BState | blk | chg | rep | deleted
deriving DecidableEq, Repr

/-- what the block's recorded hash is: INVALID ("lost"), ZERO, or a real hash -/
inductive HKind | lost | zero | known
deriving DecidableEq, Repr

/-- one `failed[]` entry of a stripe as logged by `entry:<j>:<desc>:<hash>:<data>:…` -/
structure Entry where
  st : BState
  hk : HKind
  bad : Bool
  /-- already fixed by import/search fetch in strategy 1 (`hash_import: Fixed entry`) -/
  imported : Bool := false
deriving DecidableEq, Repr

/-- `block_has_updated_hash`: BLK and REP carry the hash of the current data -/
def hasUpdatedHash (e : Entry) : Bool := e.st == .blk || e.st == .rep

/-- strategy 1 ("parity IS updated"): the bad blocks not already fetched go into failed_map -/
def map1 (es : List Entry) : List Nat :=
  (List.range es.length).filter fun j => match es[j]? with
    | some e => e.bad && !(hasUpdatedHash e && e.imported)
    | none => false

/-- `has_hash` of repair_step for a failed_map (no entry is out-of-date before strategy 1) -/
def hasHash (es : List Entry) (outofdate : Nat → Bool) (m : List Nat) : Bool :=
  m.any fun j => match es[j]? with
    | some e => !outofdate j && hasUpdatedHash e
    | none => false

/-- which of the two branches of repair_step can run: `(parityCheck, hashCheck)` -/
def branches (np : Nat) (hasH : Bool) (n : Nat) : Bool × Bool :=
  (!hasH && n < np, hasH && n ≤ np)

/-- strategy 2 ("parity is NOT updated"): DELETED/CHG/REP are recovered (unless zero-restored or
    fetched) but never used for validation; bad BLK blocks are what we want back -/
def isUnsynced (e : Entry) : Bool := e.st == .deleted || e.st == .chg || e.st == .rep

def map2 (es : List Entry) (fetched : Nat → Bool) : List Nat :=
  (List.range es.length).filter fun j => match es[j]? with
    | some e =>
      if isUnsynced e then !(e.st == .chg && e.hk == .zero) && !fetched j
      else e.bad
    | none => false

def somethingToRecover2 (es : List Entry) : Bool := es.any fun e => !isUnsynced e && e.bad
def somethingUnsynced (es : List Entry) : Bool := es.any isUnsynced

structure Plan where
  n1 : Nat
  skip1 : Bool          -- "Skipped for already recovered"
  hash1 : Bool
  n2 : Nat
  try2 : Bool           -- strategy 2 attempted when strategy 1 fails
  hash2 : Bool
deriving DecidableEq, Repr

def plan (es : List Entry) : Plan :=
  let m1 := map1 es
  let m2 := map2 es (fun _ => false)
  { n1 := m1.length, skip1 := m1.isEmpty, hash1 := hasHash es (fun _ => false) m1,
    n2 := m2.length, try2 := somethingToRecover2 es && somethingUnsynced es,
    hash2 := hasHash es (fun j => match es[j]? with | some e => isUnsynced e | none => false) m2 }

/-! ### the search: first combination whose reconstruction passes the acceptance test -/

/-- `repair_step`'s loop: candidates in enumeration order, first accepted wins -/
def firstAccepted {C R : Type} (combos : List C) (dec : C → R) (ok : R → Bool) : Option R :=
  match combos with
  | [] => none
  | c :: cs => if ok (dec c) then some (dec c) else firstAccepted cs dec ok

theorem firstAccepted_sound {C R : Type} (combos : List C) (dec : C → R) (ok : R → Bool) (r : R)
    (h : firstAccepted combos dec ok = some r) : ok r = true ∧ ∃ c ∈ combos, dec c = r := by
  induction combos with
  | nil => simp [firstAccepted] at h
  | cons c cs ih =>
    simp only [firstAccepted] at h
    split at h
    · rename_i hok
      simp only [Option.some.injEq] at h; subst h
      exact ⟨hok, c, List.mem_cons_self .., rfl⟩
    · obtain ⟨h1, c', hc', h2⟩ := ih h
      exact ⟨h1, c', List.mem_cons_of_mem _ hc', h2⟩

theorem firstAccepted_complete {C R : Type} (combos : List C) (dec : C → R) (ok : R → Bool)
    (h : ∃ c ∈ combos, ok (dec c) = true) : ∃ r, firstAccepted combos dec ok = some r := by
  induction combos with
  | nil => obtain ⟨c, hc, _⟩ := h; simp at hc
  | cons c cs ih =>
    simp only [firstAccepted]
    split
    · exact ⟨_, rfl⟩
    · rename_i hno
      apply ih
      obtain ⟨c', hc', hok⟩ := h
      rcases List.mem_cons.mp hc' with rfl | hmem
      · exact absurd hok hno
      · exact ⟨c', hmem, hok⟩

end SnapraidVerif.Repair
