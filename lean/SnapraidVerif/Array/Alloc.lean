/-
The block allocator of the scan (cmdline/scan.c scan_file_allocate): the blocks of a new file get,
one after the other, the first position at or after `first_free_block` that holds no file block,
and `first_free_block` moves just past each position taken.  Core Lean only.

`occ` = positions of the disk that hold a block of a file (DELETED and EMPTY positions are free).
-/
namespace SnapraidVerif.Alloc

/-- `while (block_has_file(fs_par2block_find(disk, parity_pos))) ++parity_pos;` with a fuel bound -/
def nextFree (occ : List Nat) : Nat → Nat → Nat
  | 0, p => p
  | f+1, p => if p ∈ occ then nextFree occ f (p+1) else p

/-- the loop over the blocks of the file: positions given, new occupancy, new `first_free_block` -/
def allocFile (occ : List Nat) (first : Nat) : Nat → List Nat × List Nat × Nat
  | 0 => ([], occ, first)
  | n+1 =>
    let p := nextFree occ (occ.length + 1) first
    let r := allocFile (p :: occ) (p + 1) n
    (p :: r.1, r.2.1, r.2.2)

theorem nextFree_ge (occ : List Nat) (f p : Nat) : p ≤ nextFree occ f p := by
  induction f generalizing p with
  | zero => exact Nat.le_refl _
  | succ f ih =>
    simp only [nextFree]
    split
    · exact Nat.le_trans (Nat.le_succ p) (ih (p + 1))
    · exact Nat.le_refl _

theorem filter_ge_succ_lt (occ : List Nat) (p : Nat) (h : p ∈ occ) :
    (occ.filter (fun q => decide (p + 1 ≤ q))).length < (occ.filter (fun q => decide (p ≤ q))).length := by
  induction occ with
  | nil => cases h
  | cons a as ih =>
    simp only [List.filter_cons]
    by_cases hap : a = p
    · subst hap
      have h1 : ¬ (a + 1 ≤ a) := by omega
      simp only [h1, decide_false, Bool.false_eq_true, if_false, Nat.le_refl, decide_true, if_true, List.length_cons]
      have hmono : (as.filter (fun q => decide (a + 1 ≤ q))).length ≤ (as.filter (fun q => decide (a ≤ q))).length := by
        clear ih h
        induction as with
        | nil => simp
        | cons b bs ihb =>
          simp only [List.filter_cons]
          by_cases h1 : a + 1 ≤ b
          · have h2 : a ≤ b := by omega
            simp only [h1, h2, decide_true, if_true, List.length_cons]; omega
          · simp only [h1, decide_false, Bool.false_eq_true, if_false]
            split
            · simp only [List.length_cons]; omega
            · exact ihb
      omega
    · have hmem : p ∈ as := by
        rcases List.mem_cons.mp h with h | h
        · exact absurd h.symm hap
        · exact h
      have := ih hmem
      by_cases h1 : p + 1 ≤ a
      · have h2 : p ≤ a := by omega
        simp only [h1, h2, decide_true, if_true, List.length_cons]; omega
      · simp only [h1, decide_false, Bool.false_eq_true, if_false]
        split
        · simp only [List.length_cons]; omega
        · exact this

/-- with enough fuel the position found holds no file block -/
theorem nextFree_free (occ : List Nat) (f p : Nat) (h : (occ.filter (fun q => decide (p ≤ q))).length < f) :
    nextFree occ f p ∉ occ := by
  induction f generalizing p with
  | zero => omega
  | succ f ih =>
    simp only [nextFree]
    split
    · rename_i hin
      apply ih (p + 1)
      have := filter_ge_succ_lt occ p hin
      omega
    · rename_i hnin; exact hnin

theorem nextFree_spec (occ : List Nat) (p : Nat) :
    p ≤ nextFree occ (occ.length + 1) p ∧ nextFree occ (occ.length + 1) p ∉ occ :=
  ⟨nextFree_ge _ _ _, nextFree_free occ _ p (Nat.lt_succ_of_le (List.length_filter_le _ _))⟩

/-- **the allocator**: the `n` blocks of a file get `n` positions that were free, are all at or
    after `first_free_block`, and strictly increase with the block index; the new occupancy is the
    old one plus exactly these positions, and `first_free_block` ends past all of them -/
theorem allocFile_spec (occ : List Nat) (first n : Nat) :
    (allocFile occ first n).1.length = n ∧
    (allocFile occ first n).1.Pairwise (· < ·) ∧
    (∀ q ∈ (allocFile occ first n).1, q ∉ occ ∧ first ≤ q ∧ q < (allocFile occ first n).2.2) ∧
    (∀ q, q ∈ (allocFile occ first n).2.1 ↔ q ∈ occ ∨ q ∈ (allocFile occ first n).1) ∧
    first ≤ (allocFile occ first n).2.2 := by
  induction n generalizing occ first with
  | zero => simp [allocFile]
  | succ n ih =>
    simp only [allocFile]
    obtain ⟨hge, hfree⟩ := nextFree_spec occ first
    generalize nextFree occ (occ.length + 1) first = p at hge hfree
    obtain ⟨h1, h2, h3, h4, h5⟩ := ih (p :: occ) (p + 1)
    refine ⟨by simp [h1], ?_, ?_, ?_, by omega⟩
    · rw [List.pairwise_cons]
      exact ⟨fun q hq => by have := (h3 q hq).2.1; omega, h2⟩
    · intro q hq
      rcases List.mem_cons.mp hq with rfl | hq
      · exact ⟨hfree, hge, by omega⟩
      · obtain ⟨a, b, c⟩ := h3 q hq
        exact ⟨fun hin => a (List.mem_cons_of_mem _ hin), by omega, c⟩
    · intro q
      rw [h4 q, List.mem_cons, List.mem_cons]
      constructor
      · rintro ((h | h) | h)
        · exact Or.inr (Or.inl h)
        · exact Or.inl h
        · exact Or.inr (Or.inr h)
      · rintro (h | h | h)
        · exact Or.inl (Or.inr h)
        · exact Or.inl (Or.inl h)
        · exact Or.inr h

/-- two files allocated one after the other never share a position -/
theorem alloc_two_disjoint (occ : List Nat) (first n m : Nat) :
    let a := allocFile occ first n
    let b := allocFile a.2.1 a.2.2 m
    ∀ q, q ∈ a.1 → q ∉ b.1 := by
  intro a b q hqa hqb
  have hb := (allocFile_spec a.2.1 a.2.2 m).2.2.1 q hqb
  have ha := (allocFile_spec occ first n).2.2.2.1 q
  exact hb.1 (ha.mpr (Or.inr hqa))

example : (allocFile [0, 1, 3, 4, 7] 1 4).1 = [2, 5, 6, 8] := by decide


/-! ### deallocating one position of an extent (elem.c fs_deallocate) -/

/-- an extent of the block map: `count` consecutive parity positions from `parityPos` hold the blocks
    `filePos, filePos+1, …` of one file (elem.c snapraid_extent) -/
structure Extent where
  parityPos : Nat
  filePos : Nat
  count : Nat
deriving DecidableEq, Repr

/-- (parity position, block index in the file) pairs of an extent -/
def Extent.blocks (e : Extent) : List (Nat × Nat) :=
  (List.range e.count).map fun i => (e.parityPos + i, e.filePos + i)

/-- fs_deallocate of the position `p`: first block, last block, or a split in the middle -/
def removeAt (e : Extent) (p : Nat) : List Extent :=
  if p < e.parityPos ∨ e.parityPos + e.count ≤ p then [e]
  else
    let k := p - e.parityPos
    (if k = 0 then [] else [{ parityPos := e.parityPos, filePos := e.filePos, count := k }]) ++
    (if e.count - k - 1 = 0 then [] else [{ parityPos := p + 1, filePos := e.filePos + k + 1, count := e.count - k - 1 }])

theorem blocks_split (pp fp k n : Nat) :
    (List.range (k + 1 + n)).map (fun i => (pp + i, fp + i)) =
      (List.range k).map (fun i => (pp + i, fp + i)) ++ [(pp + k, fp + k)] ++
        (List.range n).map (fun i => (pp + k + 1 + i, fp + k + 1 + i)) := by
  rw [List.range_add, List.range_add, List.map_append, List.map_append]
  simp only [List.range_one, List.map_cons, List.map_nil, Nat.add_zero, List.map_map]
  congr 1
  apply List.map_congr_left
  intro i _
  simp only [Function.comp]
  congr 1 <;> omega

/-- **deallocating one position**: whatever the place of `p` in the extent, the remaining extents
    map exactly the other positions, each to the SAME block of the file as before -/
theorem removeAt_blocks (e : Extent) (p : Nat) :
    (removeAt e p).flatMap Extent.blocks = e.blocks.filter (fun b => decide (b.1 ≠ p)) := by
  unfold removeAt
  split
  · rename_i hout
    simp only [List.flatMap_cons, List.flatMap_nil, List.append_nil]
    symm
    apply List.filter_eq_self.mpr
    intro b hb
    simp only [Extent.blocks, List.mem_map, List.mem_range] at hb
    obtain ⟨i, hi, rfl⟩ := hb
    simp only [decide_eq_true_eq]
    omega
  · rename_i hin
    have hk : p - e.parityPos < e.count := by omega
    generalize hkk : p - e.parityPos = k at hk
    have hp : p = e.parityPos + k := by omega
    obtain ⟨n, hn⟩ : ∃ n, e.count = k + 1 + n := ⟨e.count - k - 1, by omega⟩
    have hcount : e.count - k - 1 = n := by omega
    simp only [hcount]
    have hblocks : e.blocks = (List.range k).map (fun i => (e.parityPos + i, e.filePos + i)) ++ [(e.parityPos + k, e.filePos + k)] ++
        (List.range n).map (fun i => (e.parityPos + k + 1 + i, e.filePos + k + 1 + i)) := by
      unfold Extent.blocks; rw [hn]; exact blocks_split _ _ _ _
    rw [hblocks, List.filter_append, List.filter_append]
    have h1 : ((List.range k).map (fun i => (e.parityPos + i, e.filePos + i))).filter (fun b => decide (b.1 ≠ p)) =
        (List.range k).map (fun i => (e.parityPos + i, e.filePos + i)) := by
      apply List.filter_eq_self.mpr
      intro b hb
      simp only [List.mem_map, List.mem_range] at hb
      obtain ⟨i, hi, rfl⟩ := hb
      simp only [decide_eq_true_eq]; omega
    have h2 : ([(e.parityPos + k, e.filePos + k)] : List (Nat × Nat)).filter (fun b => decide (b.1 ≠ p)) = [] := by
      simp [hp]
    have h3 : ((List.range n).map (fun i => (e.parityPos + k + 1 + i, e.filePos + k + 1 + i))).filter (fun b => decide (b.1 ≠ p)) =
        (List.range n).map (fun i => (e.parityPos + k + 1 + i, e.filePos + k + 1 + i)) := by
      apply List.filter_eq_self.mpr
      intro b hb
      simp only [List.mem_map, List.mem_range] at hb
      obtain ⟨i, hi, rfl⟩ := hb
      simp only [decide_eq_true_eq]; omega
    rw [h1, h2, h3, List.append_nil]
    have hb1 : (if k = 0 then ([] : List Extent) else [{ parityPos := e.parityPos, filePos := e.filePos, count := k }]).flatMap Extent.blocks
        = (List.range k).map (fun i => (e.parityPos + i, e.filePos + i)) := by
      split
      · rename_i h0; subst h0; rfl
      · simp [Extent.blocks]
    have hb2 : (if n = 0 then ([] : List Extent) else [{ parityPos := p + 1, filePos := e.filePos + k + 1, count := n }]).flatMap Extent.blocks
        = (List.range n).map (fun i => (e.parityPos + k + 1 + i, e.filePos + k + 1 + i)) := by
      split
      · rename_i h0; subst h0; rfl
      · simp only [List.flatMap_cons, List.flatMap_nil, List.append_nil, Extent.blocks, hp]
    rw [List.flatMap_append, hb1, hb2]

/-- the slip of seeded change C10e (second half at `filePos + count`) maps a position to another block -/
example : (removeAt ⟨10, 0, 5⟩ 12).flatMap Extent.blocks = [(10, 0), (11, 1), (13, 3), (14, 4)] := by decide

end SnapraidVerif.Alloc
