/-
The block allocator of the scan (cmdline/scan.c scan_file_allocate): the blocks of a new file get,
one after the other, the first position at or after `first_free_block` that holds no file block,
and `first_free_block` moves just past each position taken.  Core Lean only.

`occ` = positions of the disk that hold a block of a file (DELETED and EMPTY positions are free).
-/
namespace SnapraidVerif.Alloc

/-- `while (block_has_file(fs_par2block_find(disk, parity_pos))) ++parity_pos;` with a fuel bound -/
def nextFree (occ : List Nat) : Nat → Nat → Nat
  | 0, p => p
  | f+1, p => if p ∈ occ then nextFree occ f (p+1) else p

/-- the loop over the blocks of the file: positions given, new occupancy, new `first_free_block` -/
def allocFile (occ : List Nat) (first : Nat) : Nat → List Nat × List Nat × Nat
  | 0 => ([], occ, first)
  | n+1 =>
    let p := nextFree occ (occ.length + 1) first
    let r := allocFile (p :: occ) (p + 1) n
    (p :: r.1, r.2.1, r.2.2)

theorem nextFree_ge (occ : List Nat) (f p : Nat) : p ≤ nextFree occ f p := by
  induction f generalizing p with
  | zero => exact Nat.le_refl _
  | succ f ih =>
    simp only [nextFree]
    split
    · exact Nat.le_trans (Nat.le_succ p) (ih (p + 1))
    · exact Nat.le_refl _

theorem filter_ge_succ_lt (occ : List Nat) (p : Nat) (h : p ∈ occ) :
    (occ.filter (fun q => decide (p + 1 ≤ q))).length < (occ.filter (fun q => decide (p ≤ q))).length := by
  induction occ with
  | nil => cases h
  | cons a as ih =>
    simp only [List.filter_cons]
    by_cases hap : a = p
    · subst hap
      have h1 : ¬ (a + 1 ≤ a) := by omega
      simp only [h1, decide_false, Bool.false_eq_true, if_false, Nat.le_refl, decide_true, if_true, List.length_cons]
      have hmono : (as.filter (fun q => decide (a + 1 ≤ q))).length ≤ (as.filter (fun q => decide (a ≤ q))).length := by
        clear ih h
        induction as with
        | nil => simp
        | cons b bs ihb =>
          simp only [List.filter_cons]
          by_cases h1 : a + 1 ≤ b
          · have h2 : a ≤ b := by omega
            simp only [h1, h2, decide_true, if_true, List.length_cons]; omega
          · simp only [h1, decide_false, Bool.false_eq_true, if_false]
            split
            · simp only [List.length_cons]; omega
            · exact ihb
      omega
    · have hmem : p ∈ as := by
        rcases List.mem_cons.mp h with h | h
        · exact absurd h.symm hap
        · exact h
      have := ih hmem
      by_cases h1 : p + 1 ≤ a
      · have h2 : p ≤ a := by omega
        simp only [h1, h2, decide_true, if_true, List.length_cons]; omega
      · simp only [h1, decide_false, Bool.false_eq_true, if_false]
        split
        · simp only [List.length_cons]; omega
        · exact this

/-- with enough fuel the position found holds no file block -/
theorem nextFree_free (occ : List Nat) (f p : Nat) (h : (occ.filter (fun q => decide (p ≤ q))).length < f) :
    nextFree occ f p ∉ occ := by
  induction f generalizing p with
  | zero => omega
  | succ f ih =>
    simp only [nextFree]
    split
    · rename_i hin
      apply ih (p + 1)
      have := filter_ge_succ_lt occ p hin
      omega
    · rename_i hnin; exact hnin

theorem nextFree_spec (occ : List Nat) (p : Nat) :
    p ≤ nextFree occ (occ.length + 1) p ∧ nextFree occ (occ.length + 1) p ∉ occ :=
  ⟨nextFree_ge _ _ _, nextFree_free occ _ p (Nat.lt_succ_of_le (List.length_filter_le _ _))⟩

/-- **the allocator**: the `n` blocks of a file get `n` positions that were free, are all at or
    after `first_free_block`, and strictly increase with the block index; the new occupancy is the
    old one plus exactly these positions, and `first_free_block` ends past all of them -/
theorem allocFile_spec (occ : List Nat) (first n : Nat) :
    (allocFile occ first n).1.length = n ∧
    (allocFile occ first n).1.Pairwise (· < ·) ∧
    (∀ q ∈ (allocFile occ first n).1, q ∉ occ ∧ first ≤ q ∧ q < (allocFile occ first n).2.2) ∧
    (∀ q, q ∈ (allocFile occ first n).2.1 ↔ q ∈ occ ∨ q ∈ (allocFile occ first n).1) ∧
    first ≤ (allocFile occ first n).2.2 := by
  induction n generalizing occ first with
  | zero => simp [allocFile]
  | succ n ih =>
    simp only [allocFile]
    obtain ⟨hge, hfree⟩ := nextFree_spec occ first
    generalize nextFree occ (occ.length + 1) first = p at hge hfree
    obtain ⟨h1, h2, h3, h4, h5⟩ := ih (p :: occ) (p + 1)
    refine ⟨by simp [h1], ?_, ?_, ?_, by omega⟩
    · rw [List.pairwise_cons]
      exact ⟨fun q hq => by have := (h3 q hq).2.1; omega, h2⟩
    · intro q hq
      rcases List.mem_cons.mp hq with rfl | hq
      · exact ⟨hfree, hge, by omega⟩
      · obtain ⟨a, b, c⟩ := h3 q hq
        exact ⟨fun hin => a (List.mem_cons_of_mem _ hin), by omega, c⟩
    · intro q
      rw [h4 q, List.mem_cons, List.mem_cons]
      constructor
      · rintro ((h | h) | h)
        · exact Or.inr (Or.inl h)
        · exact Or.inl h
        · exact Or.inr (Or.inr h)
      · rintro (h | h | h)
        · exact Or.inl (Or.inr h)
        · exact Or.inl (Or.inl h)
        · exact Or.inr h

/-- two files allocated one after the other never share a position -/
theorem alloc_two_disjoint (occ : List Nat) (first n m : Nat) :
    let a := allocFile occ first n
    let b := allocFile a.2.1 a.2.2 m
    ∀ q, q ∈ a.1 → q ∉ b.1 := by
  intro a b q hqa hqb
  have hb := (allocFile_spec a.2.1 a.2.2 m).2.2.1 q hqb
  have ha := (allocFile_spec occ first n).2.2.2.1 q
  exact hb.1 (ha.mpr (Or.inr hqa))

example : (allocFile [0, 1, 3, 4, 7] 1 4).1 = [2, 5, 6, 8] := by decide

end SnapraidVerif.Alloc
