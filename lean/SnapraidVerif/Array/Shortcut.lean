/-
Hash reuse shortcuts (copy detection in scan, verification in pre-hash and sync, import/search
during check and fix) at block level.  A block carries a recorded state and hash; the data
really on disk is a separate value: the point of the property is that a recorded hash becomes
"synced" (BLK) only after the data was hashed and found equal.  Core Lean only.

Anchors: cmdline/scan.c scan_file_allocate / file_is_full_hashed_and_stable / copy search,
cmdline/sync.c state_hash_process (pre-hash) and state_sync_process, cmdline/state.c
(--force-nocopy), cmdline/import.c state_import_fetch, cmdline/search.c search_file_compare.
-/
namespace SnapraidVerif.Shortcut

/-- recorded block states that matter here -/
inductive BS where
  | blk   -- hash of the data, parity valid
  | chg   -- no usable hash (past or unknown), parity invalid
  | rep   -- hash assumed for the data (inherited from a copy source or computed by pre-hash), parity invalid
deriving DecidableEq, Repr

structure Blk (H : Type) where
  st : BS
  hash : H
deriving Repr

def Blk.hasUpdatedHash {H : Type} (b : Blk H) : Bool := b.st == .blk || b.st == .rep
def Blk.invalidParity {H : Type} (b : Blk H) : Bool := b.st == .chg || b.st == .rep

variable {H D : Type} [DecidableEq H]

/-! ### copy detection -/

/-- a recorded file is usable as a copy source only when it has at least one block, every
    block has an updated hash, and none is waiting for a re-hash -/
def eligible (blocks : List (Blk H × Bool)) : Bool :=
  !blocks.isEmpty && blocks.all (fun (b, rehash) => b.hasUpdatedHash && !rehash)

/-- `file_copy`: the new file gets the source's hashes, as REP -/
def copyBlocks (src : List (Blk H × Bool)) : List (Blk H) :=
  src.map (fun (b, _) => { st := .rep, hash := b.hash })

/-- `scan_file_allocate`: a new file's block enters the array as REP when it carries an inherited
    hash (and no re-hash is pending at its position), as CHG otherwise; `past` is the hash put in
    CHG blocks (ZERO, INVALID or the hash of the deleted block it overwrites) -/
def allocate (b : Blk H) (inherited : Bool) (rehashAtPos : Bool) (past : H) : Blk H :=
  if inherited && !rehashAtPos then { st := .rep, hash := b.hash } else { st := .chg, hash := past }

/-- `--force-nocopy` when loading for sync: provisional hashes are dropped -/
def nocopyLoad (invalid : H) (b : Blk H) : Blk H :=
  if b.st == .rep then { st := .chg, hash := invalid } else b

/-! ### sync of one stripe -/

/-- result of reading and hashing one block during sync: `none` = stop the stripe -/
def syncBlock (hf : D → H) (b : Blk H) (d : D) : Option (Blk H) :=
  if b.hasUpdatedHash then
    (if hf d = b.hash then some { st := .blk, hash := b.hash } else none)
  else some { st := .blk, hash := hf d }

/-- a stripe is completed (its blocks recorded BLK, parity written) only when every block passes -/
def syncStripe (hf : D → H) : List (Blk H × D) → Option (List (Blk H))
  | [] => some []
  | (b, d) :: rest =>
    match syncBlock hf b d, syncStripe hf rest with
    | some b', some rest' => some (b' :: rest')
    | _, _ => none

/-- the recorded blocks after the sync of a stripe: the new ones if completed, unchanged otherwise -/
def stripeAfter (hf : D → H) (s : List (Blk H × D)) : List (Blk H) :=
  match syncStripe hf s with
  | some bs => bs
  | none => s.map (·.1)

/-- parity written for the stripe? -/
def parityWritten (hf : D → H) (s : List (Blk H × D)) : Bool := (syncStripe hf s).isSome

/-! ### pre-hash -/

/-- pre-hash of one block with invalid parity: REP is verified, CHG is hashed and becomes REP;
    the Bool is the `skip_sync` contribution -/
def prehashBlock (hf : D → H) (b : Blk H) (d : D) : Blk H × Bool :=
  match b.st with
  | .rep => (b, hf d ≠ b.hash)
  | .chg => ({ st := .rep, hash := hf d }, false)
  | .blk => (b, false)

def prehash (hf : D → H) (all : List (Blk H × D)) : List (Blk H × D) × Bool :=
  (all.map (fun (b, d) => ((prehashBlock hf b d).1, d)), all.any (fun (b, d) => (prehashBlock hf b d).2))

/-- sync with pre-hash over a list of stripes: nothing is synced when pre-hash found a mismatch -/
def syncWithPrehash (hf : D → H) (stripes : List (List (Blk H × D))) : List Bool :=
  let flat := stripes.flatten
  if (prehash hf flat).2 then stripes.map (fun _ => false)
  else stripes.map (fun s => parityWritten hf (s.map (fun (b, d) => ((prehashBlock hf b d).1, d))))

/-! ### import / search during check and fix -/

/-- a candidate block (from an import directory, a moved or duplicate file) is used only when
    its hash is the recorded one of the block it replaces -/
def fetch (hf : D → H) (cands : List D) (h : H) : Option D := cands.find? (fun d => hf d = h)

end SnapraidVerif.Shortcut
