/-
Scan classification (cmdline/scan.c:scan_file) at the level the property needs: how each entry
found on a data disk is matched against the recorded state (by inode, then by path, then as a
copy of a fully hashed file elsewhere), what that means for the trust put in its recorded
hashes, and the verdict of `diff`.  Core Lean only.
-/
namespace SnapraidVerif.Scan

/-- identity data of a file: path, size, time-stamp (sec, nsec), inode -/
structure FileId where
  path : List UInt8
  size : Nat
  sec : Nat
  nsec : Nat
  inode : Nat
deriving DecidableEq, Repr

def sameStamp (a b : FileId) : Bool := a.size == b.size && a.sec == b.sec && a.nsec == b.nsec

inductive Class where
  | equal      -- same inode, path, size, time-stamp: hashes and parity kept
  | move       -- same inode, size, time-stamp, other path: hashes and parity kept
  | restore    -- same path, size, time-stamp, other inode: hashes and parity kept
  | change     -- same inode or path but size/time-stamp differ: re-read
  | copy       -- new here, same name+size+time-stamp as a fully hashed file elsewhere: hashes provisional (REP), data hashed before the stripe is recorded
  | add        -- new: re-read
  | copyOver   -- same path as a recorded file whose size/time-stamp differ, and a copy of a fully hashed file elsewhere: hashes provisional
deriving DecidableEq, Repr

/-- does the classification keep the recorded blocks as synced without reading? -/
def Class.trusted : Class → Bool
  | .equal => true | .move => true | .restore => true | _ => false

def baseName (p : List UInt8) : List UInt8 :=
  (p.reverse.takeWhile (· != 47)).reverse

def isCopy (copySrc : List FileId) (p : FileId) : Bool :=
  copySrc.any (fun c => sameStamp c p && (if p.nsec == 0 then c.path == p.path else baseName c.path == baseName p.path))

/-- not found in the recorded state of its disk: a copy of a fully hashed file elsewhere (same
    base name, or same full path when the sub-second time-stamp is zero, and same size and
    time-stamp), or simply new -/
def copyOrAdd (copySrc : List FileId) (p : FileId) : Class :=
  if isCopy copySrc p then .copy else .add

/-- lookup by path -/
def byPath (useInode : Bool) (known : List FileId) (copySrc : List FileId) (p : FileId) : Class :=
  match known.find? (fun k => k.path == p.path) with
  | some k2 => if sameStamp k2 p then (if useInode then .restore else .equal) else (if isCopy copySrc p then .copyOver else .change)
  | none => copyOrAdd copySrc p

/-- classification of one present entry `p` against the recorded files `known` of its disk;
    `useInode`: the disk has persistent inodes and an unchanged UUID;
    `copySrc`: fully hashed files of the whole array available as copy sources -/
def classify (useInode : Bool) (known : List FileId) (copySrc : List FileId) (p : FileId) : Class :=
  match (if useInode then known.find? (fun k => k.inode == p.inode) else none) with
  | some k =>
    if sameStamp k p then (if k.path == p.path then .equal else .move)
    else if k.path == p.path then (if isCopy copySrc p then .copyOver else .change)
    else byPath useInode known copySrc p      -- the inode was reused by another file: fall back to the path
  | none => byPath useInode known copySrc p

/-- the recorded state after a scan holds exactly the present entries, with their present identity -/
def scanResult (present : List FileId) : List FileId := present

/-- `diff` reports differences (exit 2) iff something is not `equal`, something recorded is gone,
    or the previous sync was incomplete -/
def diffVerdict (useInode : Bool) (known present copySrc : List FileId) (parityInvalid : Bool) : Bool :=
  parityInvalid || present.any (fun p => classify useInode known copySrc p != .equal) ||
    known.any (fun k => !present.any (fun p => p.path == k.path))

end SnapraidVerif.Scan
