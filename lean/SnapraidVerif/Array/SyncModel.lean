/-
Abstract state machine of the array as far as C06 needs it: per stripe position and disk a
block state, the parity blocks, and the operations that change them (scan marking blocks,
sync completing or skipping a stripe, parity written without the content being saved
(kill / autosave boundary), fix rewriting parity, scrub/touch/rehash).  The generator is an
abstract function of the stripe's data.  Core Lean only.
-/
namespace SnapraidVerif.Arr

/-- recorded state of one block position of one disk.  `blk c`: recorded as synced, `c` is the
    content whose hash is recorded; `pending`: CHG/REP (data known to the file system, parity
    not yet updated); `deleted`: parity still holds a removed file's data -/
inductive BSt (β : Type) where
  | empty
  | blk (c : β)
  | pending
  | deleted
deriving DecidableEq

structure St (β : Type) (nd np : Nat) where
  st : Fin nd → Nat → BSt β
  parity : Fin np → Nat → β

variable {β : Type} {nd np : Nat}

/-- every allocated block of the stripe is recorded as synced -/
def allBlk (s : St β nd np) (pos : Nat) : Prop :=
  ∀ d, s.st d pos = .empty ∨ ∃ c, s.st d pos = .blk c

/-- the synced contents of a stripe, zero for unused positions -/
def synced (zero : β) (s : St β nd np) (pos : Nat) : Fin nd → β :=
  fun d => match s.st d pos with
    | .blk c => c
    | _ => zero

/-- C06 invariant: a stripe recorded as fully synced has, in every level, the parity the
    generator gives for its synced contents -/
def Inv (gen : (Fin nd → β) → Fin np → β) (zero : β) (s : St β nd np) : Prop :=
  ∀ pos, allBlk s pos → ∀ l, s.parity l pos = gen (synced zero s pos) l

/-- operations -/
inductive Op (β : Type) (nd np : Nat) where
  /-- scan: a file changed / was added at this position: CHG or REP -/
  | markPending (d : Fin nd) (pos : Nat)
  /-- scan: file removed, the block stays as DELETED until its stripe is synced -/
  | markDeleted (d : Fin nd) (pos : Nat)
  /-- sync completes stripe `pos`: all reads succeeded and verified; `data` is what was read
      (for BLK blocks it must equal the recorded content, otherwise the stripe is not completed) -/
  | syncOk (pos : Nat) (data : Fin nd → β)
  /-- sync skips the stripe (file changed during sync, read error, hash mismatch): no change -/
  | syncSkip (pos : Nat)
  /-- parity of the stripe written but the new content never saved (kill after parity update,
      or any crash between parity write and content save) -/
  | parityOnly (pos : Nat) (data : Fin nd → β)
  /-- fix rewrites the parity of a stripe it could fully validate -/
  | fixParity (pos : Nat)
  /-- scrub / touch / rehash / status …: no block state or parity change -/
  | noop

/-- what `data` must look like for a stripe to be completed: recorded BLK contents re-read
    unchanged, unused positions contribute zero -/
def readsAgree (zero : β) (s : St β nd np) (pos : Nat) (data : Fin nd → β) : Prop :=
  ∀ d, (∀ c, s.st d pos = .blk c → data d = c) ∧ (s.st d pos = .empty → data d = zero) ∧
       (s.st d pos = .deleted → data d = zero)

def setSt (s : St β nd np) (d : Fin nd) (pos : Nat) (v : BSt β) : St β nd np :=
  { s with st := fun d' p => if d' = d ∧ p = pos then v else s.st d' p }

def step (gen : (Fin nd → β) → Fin np → β) (zero : β) (s : St β nd np) : Op β nd np → St β nd np
  | .markPending d pos => setSt s d pos .pending
  | .markDeleted d pos => setSt s d pos .deleted
  | .syncOk pos data =>
    { st := fun d p => if p = pos then
              (match s.st d pos with
               | .pending => .blk (data d)
               | .deleted => .empty
               | x => x)
            else s.st d p
      parity := fun l p => if p = pos then gen data l else s.parity l p }
  | .syncSkip _ => s
  | .parityOnly pos data =>
    { s with parity := fun l p => if p = pos then gen data l else s.parity l p }
  | .fixParity pos =>
    { s with parity := fun l p => if p = pos then gen (synced zero s pos) l else s.parity l p }
  | .noop => s

/-- side conditions under which the real code performs each operation -/
def Pre (zero : β) (s : St β nd np) : Op β nd np → Prop
  | .syncOk pos data => readsAgree zero s pos data
  | .parityOnly pos data => readsAgree zero s pos data
  | _ => True

end SnapraidVerif.Arr
