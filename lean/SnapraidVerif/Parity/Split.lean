/-
Split parity (cmdline/parity.c): offset → (split, offset) lookup (parity_split_find), growth of
one split by highest-bit descent (parity_handle_fill) and the resize of all splits
(parity_chsize).  The file system is abstracted as: growing a split file to `t` bytes succeeds
iff `limit = 0 ∨ t ≤ limit` (this is exactly --test-parity-limit; a real disk behaves the same
with `limit` = what fits).  Core Lean only.
-/
namespace SnapraidVerif.Split

/-- parity_split_find: walk the splits subtracting their sizes -/
def find : List Nat → Nat → Option (Nat × Nat)
  | [], _ => none
  | s :: ss, off => if off < s then some (0, off) else (find ss (off - s)).map fun p => (p.1 + 1, p.2)

/-- highest bit set (hbit_u64), for v > 0 -/
def hbit (v : Nat) : Nat := 2 ^ (Nat.log2 v)

/-- parity_handle_grow succeeds -/
def grows (limit t : Nat) : Bool := limit == 0 || t ≤ limit

/-- the loop of parity_handle_fill: `base` current size, `delta` bits still to add -/
def fillLoop (bs limit : Nat) : Nat → Nat → Nat → Nat
  | 0, base, _ => base
  | fuel+1, base, delta =>
    if delta = 0 then base else
    let run := hbit delta
    if grows limit (base + run) then fillLoop bs limit fuel (base + run) (delta - run)
    else fillLoop bs limit fuel base ((run - 1) / bs * bs)

/-- parity_handle_fill: resulting file size when asked to grow a file of `cur` bytes to `size` -/
def fill (bs limit cur size : Nat) : Nat :=
  let base := cur / bs * bs
  fillLoop bs limit 130 base (size - base)

/-- parity_handle_chsize: resulting file size -/
def handleChsize (bs limit fsz size : Nat) : Nat :=
  if fsz < size then fill bs limit fsz size else size   -- grow (maybe partially) or truncate / keep

structure Sp where
  size : Nat    -- recorded size of the split (content file / handle)
  fsz : Nat     -- size of the file on disk
deriving DecidableEq, Repr

/-- parity_split_is_fixed: a split is fixed when a later split is already in use -/
def isFixed (sps : List Sp) (s : Nat) : Bool :=
  match sps[s+1]? with
  | some n => n.size != 0
  | none => false

/-- whether split `s` is treated as fixed for this request, and the size asked of it -/
def fixedOf (all : List Sp) (s : Nat) (sp : Sp) (size : Nat) : Bool := isFixed all s && !(decide (size ≤ sp.size))
def runOf (all : List Sp) (s : Nat) (sp : Sp) (size : Nat) : Nat := if fixedOf all s sp size then sp.size else size

/-- the checks of one iteration of parity_chsize; `none` where the C code returns -1 -/
def stepSplit (bs : Nat) (limits : List Nat) (all : List Sp) (s : Nat) (sp : Sp) (size : Nat) : Option Nat :=
  let limit := limits.getD s 0
  let fixed := fixedOf all s sp size
  let run := runOf all s sp size
  if fixed && run % bs != 0 then none else
  let f := handleChsize bs limit sp.fsz run
  if f > run then none
  else if fixed && f < run then none
  else if f % bs != 0 then none
  else some f

/-- the per-split loop of parity_chsize; returns the updated splits and the size still missing,
    or `none` where the C code returns -1 inside the loop -/
def chsizeLoop (bs : Nat) (limits : List Nat) (all : List Sp) : Nat → List Sp → Nat → Option (List Sp × Nat)
  | _, [], size => some ([], size)
  | s, sp :: rest, size =>
    match stepSplit bs limits all s sp size with
    | none => none
    | some f => match chsizeLoop bs limits all (s+1) rest (size - f) with
      | none => none
      | some (t, left) => some ({ size := f, fsz := f } :: t, left)

/-- per-split limit of `--test-parity-limit=L` (parity.c PARITY_LIMIT): pseudo random, > L -/
def testLimit (l split level : Nat) : Nat :=
  if l = 0 then 0 else l + (123562341 + split * 634542351 + level * 983491341) % 2^32 % l   -- the C arithmetic is 32-bit unsigned

/-- parity_chsize: new splits, or `none` on failure -/
def chsize (bs : Nat) (limits : List Nat) (sps : List Sp) (size : Nat) : Option (List Sp) :=
  match chsizeLoop bs limits sps 0 sps size with
  | none => none
  | some (t, left) => if left = 0 then some t else none

end SnapraidVerif.Split
