/-
SpookyHash V2 128 as simplified by SnapRAID (cmdline/spooky2.c): always the 12-variable long
form.  Executable reference model.  Core Lean only.
-/
namespace SnapraidVerif.Hash

def rotl64 (x : UInt64) (r : UInt64) : UInt64 := (x <<< r) ||| (x >>> (64 - r))

def rd64 (a : Array UInt8) (i : Nat) : UInt64 :=
  (List.range 8).foldl (fun acc k => acc ||| ((a.getD (i + k) 0).toUInt64 <<< (8 * k).toUInt64)) 0

def wr64 (v : UInt64) : List UInt8 := (List.range 8).map fun k => (v >>> (8 * k).toUInt64).toUInt8

abbrev V12 := Array UInt64   -- 12 variables

def mixRot : Array UInt64 := #[11, 32, 43, 31, 17, 28, 39, 57, 55, 54, 22, 46]

/-- one step `i` of the Mix macro -/
def mixStep (d : Array UInt64) (s : V12) (i : Nat) : V12 :=
  let g (k : Nat) := s.getD (k % 12) 0
  let si := g i + d.getD i 0
  let s := s.set! i si
  let s := s.set! ((i + 2) % 12) (g (i + 2) ^^^ g (i + 10))
  let s := s.set! ((i + 11) % 12) (s.getD ((i + 11) % 12) 0 ^^^ si)
  let si' := rotl64 si (mixRot.getD i 0)
  let s := s.set! i si'
  s.set! ((i + 11) % 12) (s.getD ((i + 11) % 12) 0 + s.getD ((i + 1) % 12) 0)

def mix (d : Array UInt64) (s : V12) : V12 := (List.range 12).foldl (mixStep d) s

def endRot : Array UInt64 := #[44, 15, 34, 21, 38, 33, 10, 13, 38, 53, 42, 54]

/-- EndPartial: step i: h[(i+11)%12] += h[(i+1)%12]; h[(i+2)%12] ^= h[(i+11)%12]; h[(i+1)%12] = rot(h[(i+1)%12], r_i) -/
def endPartialStep (h : V12) (i : Nat) : V12 :=
  let a := (i + 11) % 12
  let b := (i + 1) % 12
  let c := (i + 2) % 12
  let h := h.set! a (h.getD a 0 + h.getD b 0)
  let h := h.set! c (h.getD c 0 ^^^ h.getD a 0)
  h.set! b (rotl64 (h.getD b 0) (endRot.getD i 0))

def endPartial (h : V12) : V12 := (List.range 12).foldl endPartialStep h

def spookyEnd (d : Array UInt64) (h : V12) : V12 :=
  let h := (List.range 12).foldl (fun h i => h.set! i (h.getD i 0 + d.getD i 0)) h
  endPartial (endPartial (endPartial h))

def scConst : UInt64 := 0xdeadbeefdeadbeef

def spBody (a : Array UInt8) : Nat → Nat → V12 → V12
  | 0, _, s => s
  | n+1, off, s =>
    let d := (List.range 12).toArray.map fun k => rd64 a (off + 8 * k)
    spBody a n (off + 96) (mix d s)

def spooky2 (seed : List UInt8) (data : List UInt8) : List UInt8 :=
  let sa := seed.toArray
  let a := data.toArray
  let size := a.size
  let h9 := rd64 sa 0
  let h10 := rd64 sa 8
  let h : V12 := #[h9, h10, scConst, h9, h10, scConst, h9, h10, scConst, h9, h10, scConst]
  let nb := size / 96
  let h := spBody a nb 0 h
  let rem := size - nb * 96
  -- tail buffer: remaining bytes, zero padded to 96, last byte = remainder length
  let tail : Array UInt8 := ((List.range 96).map fun i =>
      if i = 95 then UInt8.ofNat rem else if i < rem then a.getD (nb * 96 + i) 0 else 0).toArray
  let d := (List.range 12).toArray.map fun k => rd64 tail (8 * k)
  let h := spookyEnd d h
  wr64 (h.getD 0 0) ++ wr64 (h.getD 1 0)

end SnapraidVerif.Hash
