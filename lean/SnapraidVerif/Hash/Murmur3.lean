/-
MurmurHash3_x86_128 as modified by SnapRAID (cmdline/murmur3.c): 128-bit seed, different
constants, tail with fall-through.  Executable reference model.  Core Lean only.
-/
namespace SnapraidVerif.Hash

def rotl32 (x : UInt32) (r : UInt32) : UInt32 := (x <<< r) ||| (x >>> (32 - r))

def fmix32 (h : UInt32) : UInt32 :=
  let h := h ^^^ (h >>> 16)
  let h := h * 0x85ebca6b
  let h := h ^^^ (h >>> 13)
  let h := h * 0xc2b2ae35
  h ^^^ (h >>> 16)

def c1 : UInt32 := 0x239b961b
def c2 : UInt32 := 0xab0e9789
def c3 : UInt32 := 0x38b34ae5
def c4 : UInt32 := 0xa1e38b93

def rd32 (a : Array UInt8) (i : Nat) : UInt32 :=
  (a.getD i 0).toUInt32 ||| ((a.getD (i+1) 0).toUInt32 <<< 8) ||| ((a.getD (i+2) 0).toUInt32 <<< 16) ||| ((a.getD (i+3) 0).toUInt32 <<< 24)

def wr32 (v : UInt32) : List UInt8 :=
  [v.toUInt8, (v >>> 8).toUInt8, (v >>> 16).toUInt8, (v >>> 24).toUInt8]

structure M3 where
  h1 : UInt32
  h2 : UInt32
  h3 : UInt32
  h4 : UInt32

def m3Block (s : M3) (k1 k2 k3 k4 : UInt32) : M3 :=
  let k1 := rotl32 (k1 * c1) 15 * c2
  let h1 := s.h1 ^^^ k1
  let h1 := (rotl32 h1 19 + s.h2) * 5 + 0x561ccd1b
  let k2 := rotl32 (k2 * c2) 16 * c3
  let h2 := s.h2 ^^^ k2
  let h2 := (rotl32 h2 17 + s.h3) * 5 + 0x0bcaa747
  let k3 := rotl32 (k3 * c3) 17 * c4
  let h3 := s.h3 ^^^ k3
  let h3 := (rotl32 h3 15 + s.h4) * 5 + 0x96cd1c35
  let k4 := rotl32 (k4 * c4) 18 * c1
  let h4 := s.h4 ^^^ k4
  let h4 := (rotl32 h4 13 + h1) * 5 + 0x32ac3b17
  { h1, h2, h3, h4 }

def m3Body (a : Array UInt8) : Nat → Nat → M3 → M3
  | 0, _, s => s
  | n+1, off, s => m3Body a n (off + 16) (m3Block s (rd32 a off) (rd32 a (off+4)) (rd32 a (off+8)) (rd32 a (off+12)))

/-- tail: bytes beyond the last full 16-byte block, zero-extended little endian words; word i is
    mixed in only if the remainder reaches into it -/
def m3Tail (a : Array UInt8) (off rem : Nat) (s : M3) : M3 :=
  let b (i : Nat) : UInt32 := if i < rem then (a.getD (off + i) 0).toUInt32 else 0
  let w (i : Nat) : UInt32 := b (4*i) ||| (b (4*i+1) <<< 8) ||| (b (4*i+2) <<< 16) ||| (b (4*i+3) <<< 24)
  let h4 := if rem > 12 then s.h4 ^^^ (rotl32 (w 3 * c4) 18 * c1) else s.h4
  let h3 := if rem > 8 then s.h3 ^^^ (rotl32 (w 2 * c3) 17 * c4) else s.h3
  let h2 := if rem > 4 then s.h2 ^^^ (rotl32 (w 1 * c2) 16 * c3) else s.h2
  let h1 := if rem > 0 then s.h1 ^^^ (rotl32 (w 0 * c1) 15 * c2) else s.h1
  { h1, h2, h3, h4 }

def murmur3 (seed : List UInt8) (data : List UInt8) : List UInt8 :=
  let sa := seed.toArray
  let a := data.toArray
  let size := a.size
  let s : M3 := { h1 := rd32 sa 0, h2 := rd32 sa 4, h3 := rd32 sa 8, h4 := rd32 sa 12 }
  let nb := size / 16
  let s := m3Body a nb 0 s
  let s := m3Tail a (nb * 16) (size % 16) s
  let sz := size.toUInt32
  let h1 := s.h1 ^^^ sz; let h2 := s.h2 ^^^ sz; let h3 := s.h3 ^^^ sz; let h4 := s.h4 ^^^ sz
  let h1 := h1 + h2 + h3 + h4
  let h2 := h2 + h1; let h3 := h3 + h1; let h4 := h4 + h1
  let h1 := fmix32 h1; let h2 := fmix32 h2; let h3 := fmix32 h3; let h4 := fmix32 h4
  let h1 := h1 + h2 + h3 + h4
  let h2 := h2 + h1; let h3 := h3 + h1; let h4 := h4 + h1
  wr32 h1 ++ wr32 h2 ++ wr32 h3 ++ wr32 h4

end SnapraidVerif.Hash
