/-
C15  Scrub checks what its plan says and keeps honest books.
-/
import SnapraidVerif.Array.ScrubPlan
namespace SnapraidVerif.Props.C15
open Scrub

/-- decision for one stripe, whatever the running counter is -/
theorem bad_always (plan : Plan) (lim : Limits) (pos cl : Nat) (i : Info) (h : i.bad = true) :
    (enabled plan lim pos (some i) cl).1 = true := by simp [enabled, h]

theorem unused_never (plan : Plan) (lim : Limits) (pos cl : Nat) : (enabled plan lim pos none cl).1 = false := rfl

theorem full_all_used (lim : Limits) (pos cl : Nat) (i : Info) : (enabled .full lim pos (some i) cl).1 = true := by
  simp [enabled]

theorem new_iff_justsynced (lim : Limits) (pos cl : Nat) (i : Info) (h : i.bad = false) :
    (enabled .new lim pos (some i) cl).1 = i.justsynced := by simp [enabled, h]

theorem bad_plan_only_bad (lim : Limits) (pos cl : Nat) (i : Info) :
    (enabled .bad lim pos (some i) cl).1 = i.bad := by
  cases hb : i.bad <;> simp [enabled, hb]

/-- a non-bad stripe selected by a percentage plan is not younger than the time limit -/
theorem auto_age (c r : Nat) (lim : Limits) (pos cl : Nat) (i : Info) (hb : i.bad = false)
    (h : (enabled (.auto c r) lim pos (some i) cl).1 = true) : i.time ≤ lim.timelimit := by
  simp only [enabled, hb] at h
  by_cases hgt : i.time > lim.timelimit
  · simp [hgt] at h
  · omega

/-- oldest first: a selected non-bad stripe is never younger than an unselected non-bad one -/
theorem auto_oldest_first (c r : Nat) (lim : Limits) (p1 c1 p2 c2 : Nat) (a b : Info)
    (ha : a.bad = false) (hb : b.bad = false)
    (hsel : (enabled (.auto c r) lim p1 (some a) c1).1 = true)
    (hun : (enabled (.auto c r) lim p2 (some b) c2).1 = false) : a.time ≤ b.time := by
  have h1 := auto_age c r lim p1 c1 a ha hsel
  simp only [enabled, hb] at hun
  by_cases hgt : b.time > lim.timelimit
  · omega
  · by_cases heq : b.time = lim.timelimit
    · omega
    · simp [hgt, heq] at hun

/-- the counter of stripes taken at exactly the time limit never exceeds `lastlimit` -/
theorem countlast_bounded (plan : Plan) (lim : Limits) (pos cl : Nat) (i : Option Info) (h : cl ≤ lim.lastlimit) :
    (enabled plan lim pos i cl).2 ≤ lim.lastlimit := by
  unfold enabled
  cases i with
  | none => simpa
  | some i =>
    simp only
    split
    · simpa
    · cases plan <;> simp only <;> try simpa
      split
      · simpa
      · split
        · split
          · simpa
          · simp only; omega
        · simpa

/-- the time limit of a percentage plan respects the age limit: nothing younger than
    `recentlimit` is ever selected (unless bad) -/
theorem lowerCount_spec (sorted : List Nat) (recent c : Nat) :
    lowerCount sorted recent c = 0 ∨ sorted.getD (lowerCount sorted recent c - 1) 0 ≤ recent := by
  induction c with
  | zero => left; rfl
  | succ c ih =>
    simp only [lowerCount]
    split
    · exact ih
    · right; simp only [Nat.add_sub_cancel]; omega

theorem timelimit_le_recent (infos : List (Option Info)) (c r : Nat) : (limits infos c r).timelimit ≤ r := by
  unfold limits
  simp only
  split
  · rename_i h
    have := lowerCount_spec (sortTimes (infos.filterMap fun i => i.map (·.time))) r
      (min c (sortTimes (infos.filterMap fun i => i.map (·.time))).length)
    rcases this with h0 | hle
    · omega
    · exact hle
  · simp

theorem countlimit_le (infos : List (Option Info)) (c r : Nat) : (limits infos c r).countlimit ≤ c := by
  unfold limits
  simp only
  have hl : ∀ s rr n, lowerCount s rr n ≤ n := by
    intro s rr n
    induction n with
    | zero => simp [lowerCount]
    | succ n ih => simp only [lowerCount]; split <;> omega
  split
  · have := hl (sortTimes (infos.filterMap fun i => i.map (·.time))) r (min c (sortTimes (infos.filterMap fun i => i.map (·.time))).length)
    simp only at this ⊢
    omega
  · simp

/-- books: time refreshed and marks cleared only for a verified stripe; bad only for silent / io
    errors; differences from unsynced files change nothing -/
theorem books (now : Nat) (i : Info) :
    book now i .ok = { time := now, bad := false, rehash := false, justsynced := false } ∧
    (book now i .silentOrIoError).bad = true ∧ (book now i .silentOrIoError).time = i.time ∧
    book now i .unsyncedDifference = i := ⟨rfl, rfl, rfl, rfl⟩

/-- non-vacuity: 6 stripes, 50 %, age limit 100: the three oldest are taken -/
example : select (.auto 3 100) [some {time := 50}, some {time := 10}, none, some {time := 30}, some {time := 200}, some {time := 30}]
    = [false, true, false, true, false, true] := by decide

/-! ### sorted times -/

theorem insertSorted_pairwise (x : Nat) (l : List Nat) (h : l.Pairwise (· ≤ ·)) : (insertSorted x l).Pairwise (· ≤ ·) := by
  induction l with
  | nil => simp [insertSorted]
  | cons y ys ih =>
    simp only [insertSorted]
    split
    · rename_i hxy
      rw [List.pairwise_cons]
      refine ⟨?_, h⟩
      intro z hz
      rcases List.mem_cons.mp hz with rfl | hz'
      · exact hxy
      · exact Nat.le_trans hxy ((List.pairwise_cons.mp h).1 z hz')
    · rename_i hxy
      rw [List.pairwise_cons] at h ⊢
      refine ⟨?_, ih h.2⟩
      intro z hz
      have : z = x ∨ z ∈ ys := by
        have hm : ∀ (l : List Nat) z, z ∈ insertSorted x l → z = x ∨ z ∈ l := by
          intro l
          induction l with
          | nil => intro z hz; simp [insertSorted] at hz; exact Or.inl hz
          | cons a as iha =>
            intro z hz
            simp only [insertSorted] at hz
            split at hz
            · rcases List.mem_cons.mp hz with h1 | h1
              · exact Or.inl h1
              · exact Or.inr h1
            · rcases List.mem_cons.mp hz with h1 | h1
              · exact Or.inr (by rw [h1]; exact List.mem_cons_self ..)
              · rcases iha z h1 with h2 | h2
                · exact Or.inl h2
                · exact Or.inr (List.mem_cons_of_mem _ h2)
        exact hm ys z hz
      rcases this with rfl | hz'
      · omega
      · exact h.1 z hz'

theorem sortTimes_pairwise (l : List Nat) : (sortTimes l).Pairwise (· ≤ ·) := by
  induction l with
  | nil => simp [sortTimes]
  | cons x xs ih => exact insertSorted_pairwise x _ ih

theorem insertSorted_countP (p : Nat → Bool) (x : Nat) (l : List Nat) :
    (insertSorted x l).countP p = (x :: l).countP p := by
  induction l with
  | nil => rfl
  | cons y ys ih =>
    simp only [insertSorted]
    split
    · rfl
    · simp only [List.countP_cons] at ih ⊢
      rw [ih]; omega

theorem sortTimes_countP (p : Nat → Bool) (l : List Nat) : (sortTimes l).countP p = l.countP p := by
  induction l with
  | nil => rfl
  | cons x xs ih =>
    simp only [sortTimes]
    rw [insertSorted_countP, List.countP_cons, List.countP_cons, ih]

/-- in a sorted list whose entry `k` is ≥ v, at most `k` entries are < v -/
theorem sorted_count_lt (T : List Nat) (hs : T.Pairwise (· ≤ ·)) (k v : Nat) (hk : k < T.length) (hv : v ≤ T.getD k 0) :
    T.countP (fun t => decide (t < v)) ≤ k := by
  induction T generalizing k with
  | nil => simp at hk
  | cons a as ih =>
    rw [List.pairwise_cons] at hs
    cases k with
    | zero =>
      simp only [List.getD_cons_zero] at hv
      have : ∀ t ∈ a :: as, ¬ (t < v) := by
        intro t ht
        rcases List.mem_cons.mp ht with rfl | ht'
        · omega
        · have := hs.1 t ht'; omega
      rw [List.countP_eq_zero.mpr (by intro t ht; simpa using this t ht)]
      exact Nat.le_refl 0
    | succ k' =>
      simp only [List.getD_cons_succ] at hv
      have := ih hs.2 k' (by simpa using hk) hv
      rw [List.countP_cons]
      split <;> omega

theorem lowerCount_le (s : List Nat) (rr n : Nat) : lowerCount s rr n ≤ n := by
  induction n with
  | zero => simp [lowerCount]
  | succ n ih => simp only [lowerCount]; split <;> omega

/-- `lastRun` only extends a run of entries equal to the time limit that ends at index c-1 -/
theorem lastRun_spec (T : List Nat) (c tl : Nat) (fuel last : Nat)
    (hrun : ∀ j, 1 ≤ j → j ≤ last → T.getD (c - j) 0 = tl) (hle : last ≤ c) :
    (∀ j, 1 ≤ j → j ≤ lastRun T c tl fuel last → T.getD (c - j) 0 = tl) ∧
      lastRun T c tl fuel last ≤ c ∧ last ≤ lastRun T c tl fuel last := by
  induction fuel generalizing last with
  | zero => exact ⟨hrun, hle, Nat.le_refl _⟩
  | succ f ih =>
    simp only [lastRun]
    split
    · rename_i hc
      have := ih (last + 1) (by
        intro j h1 h2
        by_cases hj : j ≤ last
        · exact hrun j h1 hj
        · have : j = last + 1 := by omega
          subst this
          have e : c - (last + 1) = c - last - 1 := by omega
          rw [e]; exact hc.2) (by omega)
      exact ⟨this.1, this.2.1, by omega⟩
    · exact ⟨hrun, hle, Nat.le_refl _⟩

/-- number of used stripes strictly older than the time limit -/
def nLess (tl : Nat) (is : List (Option Info)) : Nat :=
  is.countP fun i => match i with | some x => decide (x.time < tl) | none => false

/-- number of selected stripes that are not marked bad -/
def selNonBad : List Bool → List (Option Info) → Nat
  | b :: bs, some i :: is => (if b && !i.bad then 1 else 0) + selNonBad bs is
  | _ :: bs, none :: is => selNonBad bs is
  | _, _ => 0

theorem sel_bound (c r : Nat) (lim : Limits) (is : List (Option Info)) (pos cl : Nat) (h : cl ≤ lim.lastlimit) :
    selNonBad (selectFrom (.auto c r) lim pos cl is) is + cl ≤ nLess lim.timelimit is + lim.lastlimit := by
  induction is generalizing pos cl with
  | nil => simp [selectFrom, selNonBad, nLess]; exact h
  | cons i rest ih =>
    cases i with
    | none =>
      simp only [selectFrom, enabled, selNonBad, nLess, List.countP_cons]
      have := ih (pos + 1) cl h
      simp only [nLess] at this
      simpa using this
    | some x =>
      simp only [selectFrom, selNonBad, nLess, List.countP_cons]
      by_cases hb : x.bad = true
      · simp only [enabled, hb, if_true, Bool.not_true, Bool.and_false, Bool.false_eq_true, if_false, Nat.zero_add]
        have := ih (pos + 1) cl h
        simp only [nLess] at this
        split <;> omega
      · have hbf : x.bad = false := by cases hx : x.bad <;> simp_all
        simp only [enabled, hbf, Bool.false_eq_true, if_false]
        by_cases hgt : x.time > lim.timelimit
        · simp only [hgt, if_true, Bool.false_and, Bool.false_eq_true, if_false, Nat.zero_add]
          have := ih (pos + 1) cl h
          simp only [nLess] at this
          have hn : ¬ (x.time < lim.timelimit) := by omega
          simp only [hn, decide_false, Bool.false_eq_true, if_false]
          omega
        · simp only [hgt, if_false]
          by_cases heq : x.time = lim.timelimit
          · simp only [heq, if_true]
            have hn : ¬ (lim.timelimit < lim.timelimit) := by omega
            by_cases hcl : cl ≥ lim.lastlimit
            · simp only [hcl, if_true, Bool.false_and, Bool.false_eq_true, if_false, Nat.zero_add]
              have := ih (pos + 1) cl h
              simp only [nLess] at this
              simp only [hn, decide_false, Bool.false_eq_true, if_false]
              omega
            · simp only [hcl, if_false, Bool.not_false, Bool.and_self, if_true]
              have := ih (pos + 1) (cl + 1) (by omega)
              simp only [nLess] at this
              simp only [hn, decide_false, Bool.false_eq_true, if_false]
              omega
          · simp only [heq, if_false, Bool.not_false, Bool.and_self, if_true]
            have := ih (pos + 1) cl h
            simp only [nLess] at this
            have hl : x.time < lim.timelimit := by omega
            simp only [hl, decide_true, if_true]
            omega

theorem nLess_eq (tl : Nat) (is : List (Option Info)) :
    nLess tl is = (is.filterMap fun i => i.map (·.time)).countP (fun t => decide (t < tl)) := by
  induction is with
  | nil => rfl
  | cons i rest ih =>
    cases i with
    | none => simp only [nLess, List.countP_cons, List.filterMap_cons, Option.map_none] at ih ⊢; simpa using ih
    | some x =>
      simp only [nLess, List.countP_cons, List.filterMap_cons, Option.map_some] at ih ⊢
      rw [ih]

/-- **no more than the requested share**: the non-bad stripes selected by a percentage plan are at
    most `countlimit` (itself ≤ the requested count, `countlimit_le`), for every distribution of
    check times -/
theorem auto_bound (infos : List (Option Info)) (c r : Nat) :
    selNonBad (select (.auto c r) infos) infos ≤ (limits infos c r).countlimit := by
  have hb := sel_bound c r (limits infos c r) infos 0 0 (Nat.zero_le _)
  simp only [select, planLimits]
  have key : nLess (limits infos c r).timelimit infos + (limits infos c r).lastlimit ≤ (limits infos c r).countlimit := by
    rw [nLess_eq]
    unfold limits
    simp only
    generalize hT : sortTimes (infos.filterMap fun i => i.map (·.time)) = T
    have hsorted : T.Pairwise (· ≤ ·) := by rw [← hT]; exact sortTimes_pairwise _
    have hcount : ∀ v, (infos.filterMap fun i => i.map (·.time)).countP (fun t => decide (t < v)) = T.countP (fun t => decide (t < v)) := by
      intro v; rw [← hT, sortTimes_countP]
    split
    · rename_i hpos
      simp only
      generalize hc : lowerCount T r (min c T.length) = cc at hpos ⊢
      have hcc : cc ≤ T.length := by
        rw [← hc]; exact Nat.le_trans (lowerCount_le _ _ _) (Nat.min_le_right _ _)
      obtain ⟨hrun, hle, hge⟩ := lastRun_spec T cc (T.getD (cc - 1) 0) cc 1
        (by intro j h1 h2; have : j = 1 := by omega
            subst this; rfl) (by omega)
      generalize hL : lastRun T cc (T.getD (cc - 1) 0) cc 1 = L at hrun hle hge ⊢
      rw [hcount]
      have := sorted_count_lt T hsorted (cc - L) (T.getD (cc - 1) 0) (by omega) (by rw [hrun L (by omega) (Nat.le_refl _)]; exact Nat.le_refl _)
      omega
    · simp only [Nat.add_zero, Nat.le_zero]
      rw [hcount]
      apply List.countP_eq_zero.mpr
      intro t _; simp
  omega



/-! ### progress of repeated percentage scrubs -/

theorem mem_insertSorted (x : Nat) (l : List Nat) (z : Nat) : z ∈ insertSorted x l ↔ z = x ∨ z ∈ l := by
  induction l with
  | nil => simp [insertSorted]
  | cons y ys ih =>
    simp only [insertSorted]
    split
    · simp
    · simp only [List.mem_cons, ih]
      constructor
      · rintro (h | h | h)
        · exact Or.inr (Or.inl h)
        · exact Or.inl h
        · exact Or.inr (Or.inr h)
      · rintro (h | h | h)
        · exact Or.inr (Or.inl h)
        · exact Or.inl h
        · exact Or.inr (Or.inr h)

theorem mem_sortTimes (l : List Nat) (z : Nat) : z ∈ sortTimes l ↔ z ∈ l := by
  induction l with
  | nil => simp [sortTimes]
  | cons x xs ih => simp only [sortTimes, mem_insertSorted, ih, List.mem_cons]

theorem sortTimes_length (l : List Nat) : (sortTimes l).length = l.length := by
  have : ∀ x (l : List Nat), (insertSorted x l).length = l.length + 1 := by
    intro x l
    induction l with
    | nil => rfl
    | cons y ys ih => simp only [insertSorted]; split <;> simp [ih]
  induction l with
  | nil => rfl
  | cons x xs ih => simp only [sortTimes, this, ih, List.length_cons]

/-- when a percentage plan selects anything (countlimit ≥ 1): the time limit is the check time of some
    used stripe, and at least one stripe at exactly the limit may be taken -/
theorem limits_witness (infos : List (Option Info)) (c r : Nat) (h : 1 ≤ (limits infos c r).countlimit) :
    (∃ x : Info, some x ∈ infos ∧ x.time = (limits infos c r).timelimit) ∧ 1 ≤ (limits infos c r).lastlimit := by
  unfold limits at h ⊢
  simp only at h ⊢
  generalize hT : sortTimes (infos.filterMap fun i => i.map (·.time)) = T at h ⊢
  by_cases hpos : lowerCount T r (min c T.length) > 0
  · simp only [hpos, if_true] at h ⊢
    generalize hc : lowerCount T r (min c T.length) = cc at hpos h ⊢
    have hcc : cc ≤ T.length := by
      rw [← hc]; exact Nat.le_trans (lowerCount_le _ _ _) (Nat.min_le_right _ _)
    constructor
    · have hidx : cc - 1 < T.length := by omega
      have hmem : T.getD (cc - 1) 0 ∈ T := by
        rw [List.getD_eq_getElem?_getD, List.getElem?_eq_getElem hidx]
        simp
      have hmem' : T.getD (cc - 1) 0 ∈ (infos.filterMap fun i => i.map (·.time)) := by
        rw [← mem_sortTimes, hT]; exact hmem
      obtain ⟨i, hi, he⟩ := List.mem_filterMap.mp hmem'
      cases i with
      | none => simp at he
      | some x =>
        simp only [Option.map_some, Option.some.injEq] at he
        exact ⟨x, hi, he⟩
    · have hrun : ∀ j, 1 ≤ j → j ≤ 1 → T.getD (cc - j) 0 = T.getD (cc - 1) 0 := by
        intro j h1 h2
        have hj : j = 1 := by omega
        rw [hj]
      exact (lastRun_spec T cc (T.getD (cc - 1) 0) cc 1 hrun (by omega)).2.2
  · simp only [hpos, if_false] at h
    omega

/-- the first used stripe (in position order) whose check time is not after the limit is selected -/
theorem first_old_selected (c r : Nat) (lim : Limits) (hl : 1 ≤ lim.lastlimit) (is : List (Option Info)) (pos : Nat)
    (h : ∃ x : Info, some x ∈ is ∧ x.time ≤ lim.timelimit) :
    ∃ k : Nat, ∃ x : Info, is[k]? = some (some x) ∧ x.time ≤ lim.timelimit ∧ (selectFrom (.auto c r) lim pos 0 is)[k]? = some true := by
  induction is generalizing pos with
  | nil => obtain ⟨x, hx, _⟩ := h; cases hx
  | cons i rest ih =>
    cases i with
    | none =>
      obtain ⟨x, hx, ht⟩ := h
      have hx' : some x ∈ rest := by
        rcases List.mem_cons.mp hx with h0 | h0
        · cases h0
        · exact h0
      obtain ⟨k, y, h1, h2, h3⟩ := ih (pos + 1) ⟨x, hx', ht⟩
      refine ⟨k + 1, y, by rw [List.getElem?_cons_succ]; exact h1, h2, ?_⟩
      simp only [selectFrom, enabled]
      rw [List.getElem?_cons_succ]; exact h3
    | some y =>
      by_cases hy : y.time ≤ lim.timelimit
      · refine ⟨0, y, rfl, hy, ?_⟩
        simp only [selectFrom, enabled]
        by_cases hb : y.bad = true
        · simp [hb]
        · have hbf : y.bad = false := by cases hx : y.bad <;> simp_all
          simp only [hbf, Bool.false_eq_true, if_false]
          have hgt : ¬ (y.time > lim.timelimit) := by omega
          simp only [hgt, if_false]
          by_cases heq : y.time = lim.timelimit
          · simp only [heq, if_true]
            have : ¬ (0 ≥ lim.lastlimit) := by omega
            simp [this]
          · simp [heq]
      · obtain ⟨x, hx, ht⟩ := h
        have hx' : some x ∈ rest := by
          rcases List.mem_cons.mp hx with h0 | h0
          · simp only [Option.some.injEq] at h0; subst h0; exact absurd ht hy
          · exact h0
        -- the head is younger than the limit: whether selected (bad) or not, the counter stays 0
        have hcl : (enabled (.auto c r) lim pos (some y) 0).2 = 0 := by
          simp only [enabled]
          by_cases hb : y.bad = true
          · simp [hb]
          · have hbf : y.bad = false := by cases hx2 : y.bad <;> simp_all
            have hgt : y.time > lim.timelimit := by omega
            simp [hbf, hgt]
        obtain ⟨k, z, h1, h2, h3⟩ := ih (pos + 1) ⟨x, hx', ht⟩
        refine ⟨k + 1, z, by rw [List.getElem?_cons_succ]; exact h1, h2, ?_⟩
        simp only [selectFrom]
        rw [hcl, List.getElem?_cons_succ]; exact h3

def oldAt (t : Nat) : Option Info → Bool
  | some x => decide (x.time ≤ t)
  | none => false

/-- number of used stripes whose last check is not after `t` -/
def older (t : Nat) (is : List (Option Info)) : Nat := is.countP (oldAt t)

/-- a scrub in which every selected stripe verifies: book-keeping of `book … .ok` -/
def scrubOk (now : Nat) (sel : List Bool) (is : List (Option Info)) : List (Option Info) :=
  List.zipWith (fun b i => if b then i.map (fun x => book now x .ok) else i) sel is

theorem oldAt_scrubbed (now t : Nat) (h : t < now) (i : Option Info) :
    oldAt t (i.map (fun x => book now x .ok)) = false := by
  cases i with
  | none => rfl
  | some x => simp [oldAt, book]; omega

theorem older_scrub_le (now t : Nat) (h : t < now) (sel : List Bool) (is : List (Option Info)) :
    older t (scrubOk now sel is) ≤ older t is := by
  induction is generalizing sel with
  | nil => cases sel <;> simp [scrubOk, older]
  | cons i rest ih =>
    cases sel with
    | nil => simp [scrubOk, older]
    | cons b bs =>
      have := ih bs
      simp only [scrubOk, older, List.zipWith_cons_cons, List.countP_cons] at this ⊢
      cases b with
      | false => simp only [Bool.false_eq_true, if_false]; omega
      | true =>
        simp only [if_true]
        rw [oldAt_scrubbed now t h i]
        simp only [Bool.false_eq_true, if_false]
        split <;> omega

theorem older_scrub_lt (now t : Nat) (h : t < now) (sel : List Bool) (is : List (Option Info)) (k : Nat) (x : Info)
    (hk : is[k]? = some (some x)) (hx : x.time ≤ t) (hs : sel[k]? = some true) :
    older t (scrubOk now sel is) < older t is := by
  induction is generalizing sel k with
  | nil => simp at hk
  | cons i rest ih =>
    cases sel with
    | nil => simp at hs
    | cons b bs =>
      cases k with
      | zero =>
        simp only [List.getElem?_cons_zero, Option.some.injEq] at hk hs
        subst hk; subst hs
        have := older_scrub_le now t h bs rest
        simp only [scrubOk, older, List.zipWith_cons_cons, List.countP_cons, if_true] at this ⊢
        rw [oldAt_scrubbed now t h (some x)]
        have hold : oldAt t (some x) = true := by simp [oldAt, hx]
        simp only [hold, Bool.false_eq_true, if_false, if_true]
        omega
      | succ k' =>
        rw [List.getElem?_cons_succ] at hk hs
        have := ih bs k' hk hs
        simp only [scrubOk, older, List.zipWith_cons_cons, List.countP_cons] at this ⊢
        cases b with
        | false => simp only [Bool.false_eq_true, if_false]; omega
        | true =>
          simp only [if_true]
          rw [oldAt_scrubbed now t h i]
          simp only [Bool.false_eq_true, if_false]
          split <;> omega

/-- the verdict at position `p` of the selection is `enabled` with some value of the running counter -/
theorem selectFrom_get (plan : Plan) (lim : Limits) (is : List (Option Info)) (pos cl p : Nat) (i : Option Info)
    (hp : is[p]? = some i) : ∃ cl', (selectFrom plan lim pos cl is)[p]? = some (enabled plan lim (pos + p) i cl').1 := by
  induction is generalizing pos cl p with
  | nil => simp at hp
  | cons j rest ih =>
    cases p with
    | zero =>
      simp only [List.getElem?_cons_zero, Option.some.injEq] at hp
      subst hp
      exact ⟨cl, by simp [selectFrom]⟩
    | succ p' =>
      rw [List.getElem?_cons_succ] at hp
      obtain ⟨cl', h⟩ := ih (pos + 1) (enabled plan lim pos j cl).2 p' hp
      refine ⟨cl', ?_⟩
      simp only [selectFrom, List.getElem?_cons_succ]
      rw [h]
      congr 3
      omega

/-- a non-bad stripe that a percentage plan does NOT select is not older than the time limit -/
theorem unselected_ge_limit (c r : Nat) (lim : Limits) (pos cl : Nat) (x : Info) (hb : x.bad = false)
    (h : (enabled (.auto c r) lim pos (some x) cl).1 = false) : lim.timelimit ≤ x.time := by
  simp only [enabled, hb, Bool.false_eq_true, if_false] at h
  by_cases hgt : x.time > lim.timelimit
  · omega
  · simp only [hgt, if_false] at h
    by_cases heq : x.time = lim.timelimit
    · omega
    · simp [heq] at h

theorem select_length (plan : Plan) (lim : Limits) (is : List (Option Info)) (pos cl : Nat) :
    (selectFrom plan lim pos cl is).length = is.length := by
  induction is generalizing pos cl with
  | nil => rfl
  | cons i rest ih => simp [selectFrom, ih]

/-- **progress**: a percentage scrub that selects anything (countlimit ≥ 1) and does not reach the non-bad
    stripe at position `p` has verified at least one stripe that was not younger than it: the number of
    stripes at least as old as `p` strictly decreases -/
theorem scrub_progress (infos : List (Option Info)) (c r now p : Nat) (x : Info)
    (hp : infos[p]? = some (some x)) (hb : x.bad = false) (hnow : x.time < now)
    (hc : 1 ≤ (limits infos c r).countlimit)
    (hun : (select (.auto c r) infos)[p]? = some false) :
    older x.time (scrubOk now (select (.auto c r) infos) infos) < older x.time infos := by
  obtain ⟨⟨w, hw, hwt⟩, hl⟩ := limits_witness infos c r hc
  obtain ⟨cl', hget⟩ := selectFrom_get (.auto c r) (limits infos c r) infos 0 0 p (some x) hp
  have hsel : select (.auto c r) infos = selectFrom (.auto c r) (limits infos c r) 0 0 infos := rfl
  rw [hsel] at hun ⊢
  rw [hget] at hun
  have hge := unselected_ge_limit c r (limits infos c r) (0 + p) cl' x hb (by simpa using hun)
  obtain ⟨k, y, hk1, hk2, hk3⟩ := first_old_selected c r (limits infos c r) hl infos 0 ⟨w, hw, by omega⟩
  exact older_scrub_lt now x.time hnow _ infos k y hk1 (by omega) hk3

theorem lowerCount_pos (T : List Nat) (r n : Nat) (h0 : T.getD 0 0 ≤ r) (hn : 1 ≤ n) : 1 ≤ lowerCount T r n := by
  induction n with
  | zero => omega
  | succ c ih =>
    simp only [lowerCount]
    split
    · rename_i hgt
      cases c with
      | zero => omega
      | succ c' => exact ih (by omega)
    · omega

/-- a percentage plan with a non-zero budget selects something as soon as one used stripe is old enough -/
theorem countlimit_pos (infos : List (Option Info)) (c r : Nat) (hc : 1 ≤ c) (x : Info) (hx : some x ∈ infos)
    (hr : x.time ≤ r) : 1 ≤ (limits infos c r).countlimit := by
  unfold limits
  simp only
  generalize hT : sortTimes (infos.filterMap fun i => i.map (·.time)) = T
  have hmem : x.time ∈ T := by
    rw [← hT, mem_sortTimes]
    exact List.mem_filterMap.mpr ⟨some x, hx, rfl⟩
  have hsorted : T.Pairwise (· ≤ ·) := by rw [← hT]; exact sortTimes_pairwise _
  have hlen : 1 ≤ T.length := List.length_pos_of_mem hmem
  have h0 : T.getD 0 0 ≤ r := by
    cases T with
    | nil => simp at hlen
    | cons a as =>
      simp only [List.getD_cons_zero]
      rcases List.mem_cons.mp hmem with h | h
      · omega
      · have := (List.pairwise_cons.mp hsorted).1 _ h; omega
  have := lowerCount_pos T r (min c T.length) h0 (by omega)
  have hpos : lowerCount T r (min c T.length) > 0 := by omega
  simp only [hpos, if_true]
  exact this

theorem scrubOk_unselected (now : Nat) (sel : List Bool) (is : List (Option Info)) (p : Nat) (i : Option Info)
    (hp : is[p]? = some i) (hs : sel[p]? = some false) : (scrubOk now sel is)[p]? = some i := by
  simp [scrubOk, List.getElem?_zipWith, hp, hs]

/-- is position `p` selected by one of the successive percentage scrubs `(now, budget, recent-limit)`,
    all selected stripes verifying? -/
def covered (p : Nat) : List (Option Info) → List (Nat × Nat × Nat) → Bool
  | _, [] => false
  | is, (now, c, r) :: rest =>
    if (select (.auto c r) is)[p]? = some true then true
    else covered p (scrubOk now (select (.auto c r) is) is) rest

/-- **eventual coverage**: a used, non-bad stripe whose last check is at time `t` is reached after at most as
    many successive percentage scrubs as there are stripes not younger than it — provided each of these
    scrubs has a non-zero budget, considers it old enough (`t ≤ recent limit`) and runs later than `t` -/
theorem eventually_scrubbed (steps : List (Nat × Nat × Nat)) (infos : List (Option Info)) (p : Nat) (x : Info)
    (hp : infos[p]? = some (some x)) (hb : x.bad = false)
    (hsteps : ∀ s ∈ steps, x.time < s.1 ∧ 1 ≤ s.2.1 ∧ x.time ≤ s.2.2)
    (hlen : older x.time infos ≤ steps.length) : covered p infos steps = true := by
  induction steps generalizing infos with
  | nil =>
    have hmem : some x ∈ infos := List.mem_of_getElem? hp
    have : 0 < older x.time infos := by
      unfold older
      exact List.countP_pos_iff.mpr ⟨some x, hmem, by simp [oldAt]⟩
    simp at hlen; omega
  | cons s rest ih =>
    obtain ⟨now, c, r⟩ := s
    simp only [covered]
    split
    · rfl
    · rename_i hns
      obtain ⟨h1, h2, h3⟩ := hsteps (now, c, r) (List.mem_cons_self)
      simp only at h1 h2 h3
      have hmem : some x ∈ infos := List.mem_of_getElem? hp
      have hcl := countlimit_pos infos c r h2 x hmem h3
      have hlt : p < infos.length := by
        rcases Nat.lt_or_ge p infos.length with h | h
        · exact h
        · rw [List.getElem?_eq_none h] at hp; cases hp
      have hun : (select (.auto c r) infos)[p]? = some false := by
        have hl : p < (select (.auto c r) infos).length := by
          unfold select; rw [select_length]; exact hlt
        rw [List.getElem?_eq_getElem hl] at hns ⊢
        cases hv : (select (.auto c r) infos)[p] with
        | true => rw [hv] at hns; exact absurd rfl hns
        | false => rfl
      have hprog := scrub_progress infos c r now p x hp hb h1 hcl hun
      apply ih
      · exact scrubOk_unselected now _ infos p (some x) hp hun
      · intro s hs; exact hsteps s (List.mem_cons_of_mem _ hs)
      · simp only [List.length_cons] at hlen; omega

example : covered 2 [some {time := 5}, some {time := 3}, some {time := 9}, none, some {time := 1}]
    [(20, 1, 10), (21, 1, 10), (22, 1, 10), (23, 1, 10)] = true := by decide


/-! ### a percentage plan whose budget covers everything selects every used stripe -/

theorem lowerCount_all (T : List Nat) (r k : Nat) (h : ∀ t ∈ T, t ≤ r) (hk : k ≤ T.length) : lowerCount T r k = k := by
  induction k with
  | zero => rfl
  | succ c ih =>
    simp only [lowerCount]
    have hlt : c < T.length := by omega
    have hm : T.getD c 0 ∈ T := by
      rw [List.getD_eq_getElem?_getD, List.getElem?_eq_getElem hlt]; simp
    have := h _ hm
    have hn : ¬ (T.getD c 0 > r) := by omega
    rw [if_neg hn]

/-- `lastRun` stops only at the start of the list or at an entry different from the limit -/
theorem lastRun_max (T : List Nat) (c tl : Nat) (fuel last : Nat) (hf : c ≤ fuel + last) (hl : last ≤ c) :
    lastRun T c tl fuel last = c ∨ T.getD (c - lastRun T c tl fuel last - 1) 0 ≠ tl := by
  induction fuel generalizing last with
  | zero =>
    simp only [lastRun]
    left; omega
  | succ f ih =>
    simp only [lastRun]
    split
    · rename_i hc
      exact ih (last + 1) (by omega) (by omega)
    · rename_i hc
      by_cases hcl : c > last
      · right
        intro heq
        exact hc ⟨hcl, heq⟩
      · left; omega

/-- number of used stripes checked exactly at time `m` -/
def nAt (m : Nat) (is : List (Option Info)) : Nat :=
  is.countP fun i => match i with | some x => decide (x.time = m) | none => false

theorem nAt_eq (m : Nat) (is : List (Option Info)) :
    nAt m is = (is.filterMap fun i => i.map (·.time)).countP (fun t => decide (t = m)) := by
  induction is with
  | nil => rfl
  | cons i rest ih =>
    cases i with
    | none => simp only [nAt, List.countP_cons, List.filterMap_cons, Option.map_none] at ih ⊢; simpa using ih
    | some x =>
      simp only [nAt, List.countP_cons, List.filterMap_cons, Option.map_some] at ih ⊢
      rw [ih]

/-- with all times ≤ the limit and room in the at-the-limit counter for every stripe at the limit,
    every used stripe is selected -/
theorem select_all (c r : Nat) (lim : Limits) (is : List (Option Info)) (pos cl : Nat)
    (hle : ∀ x : Info, some x ∈ is → x.time ≤ lim.timelimit)
    (hroom : cl + nAt lim.timelimit is ≤ lim.lastlimit) (p : Nat) (x : Info) (hp : is[p]? = some (some x)) :
    (selectFrom (.auto c r) lim pos cl is)[p]? = some true := by
  induction is generalizing pos cl p with
  | nil => simp at hp
  | cons i rest ih =>
    have hle' : ∀ y : Info, some y ∈ rest → y.time ≤ lim.timelimit := fun y hy => hle y (List.mem_cons_of_mem _ hy)
    cases i with
    | none =>
      cases p with
      | zero => simp at hp
      | succ p' =>
        rw [List.getElem?_cons_succ] at hp
        simp only [selectFrom, enabled, List.getElem?_cons_succ]
        apply ih (pos + 1) cl hle' _ p' hp
        simpa [nAt] using hroom
    | some y =>
      have hy := hle y List.mem_cons_self
      by_cases hb : y.bad = true
      · -- bad: selected, counter untouched
        have hen : enabled (.auto c r) lim pos (some y) cl = (true, cl) := by simp [enabled, hb]
        cases p with
        | zero => simp [selectFrom, hen]
        | succ p' =>
          rw [List.getElem?_cons_succ] at hp
          simp only [selectFrom, hen, List.getElem?_cons_succ]
          apply ih (pos + 1) cl hle' _ p' hp
          have : nAt lim.timelimit rest ≤ nAt lim.timelimit (some y :: rest) := by
            simp only [nAt, List.countP_cons]; omega
          omega
      · have hbf : y.bad = false := by cases h : y.bad <;> simp_all
        by_cases heq : y.time = lim.timelimit
        · have hcnt : nAt lim.timelimit (some y :: rest) = nAt lim.timelimit rest + 1 := by
            simp [nAt, heq]
          have hlt : ¬ (cl ≥ lim.lastlimit) := by omega
          have hen : enabled (.auto c r) lim pos (some y) cl = (true, cl + 1) := by
            simp [enabled, hbf, heq, hlt]
          cases p with
          | zero => simp [selectFrom, hen]
          | succ p' =>
            rw [List.getElem?_cons_succ] at hp
            simp only [selectFrom, hen, List.getElem?_cons_succ]
            exact ih (pos + 1) (cl + 1) hle' (by omega) p' hp
        · have hlt : y.time < lim.timelimit := by omega
          have hcnt : nAt lim.timelimit (some y :: rest) = nAt lim.timelimit rest := by
            simp [nAt, heq]
          have hen : enabled (.auto c r) lim pos (some y) cl = (true, cl) := by
            have h1 : ¬ (y.time > lim.timelimit) := by omega
            simp [enabled, hbf, h1, heq]
          cases p with
          | zero => simp [selectFrom, hen]
          | succ p' =>
            rw [List.getElem?_cons_succ] at hp
            simp only [selectFrom, hen, List.getElem?_cons_succ]
            exact ih (pos + 1) cl hle' (by omega) p' hp

/-- in a sorted list whose last `L` entries equal `m` and whose entry before them differs from `m`
    (or that has no entry before them), at most `L` entries equal `m` -/
theorem sorted_count_eq_le (T : List Nat) (hs : T.Pairwise (· ≤ ·)) (m L : Nat) (hL : L ≤ T.length)
    (hmax : ∀ t ∈ T, t ≤ m)
    (hstop : L = T.length ∨ T.getD (T.length - L - 1) 0 ≠ m) :
    T.countP (fun t => decide (t = m)) ≤ L := by
  rcases hstop with hall | hne
  · rw [hall]; exact List.countP_le_length
  · have hsplit : T = T.take (T.length - L) ++ T.drop (T.length - L) := (List.take_append_drop _ _).symm
    rw [hsplit, List.countP_append]
    have hzero : (T.take (T.length - L)).countP (fun t => decide (t = m)) = 0 := by
      apply List.countP_eq_zero.mpr
      intro t ht
      simp only [decide_eq_true_eq]
      intro htm
      -- t sits at an index i < length - L, so t ≤ T[length-L-1] < m
      obtain ⟨i, hi, hti⟩ := List.mem_iff_getElem.mp ht
      have hi' : i < T.length - L := by
        have := List.length_take (i := T.length - L) (l := T); omega
      have hilen : i < T.length := by omega
      have hk : T.length - L - 1 < T.length := by omega
      have hTi : T[i]'hilen = t := by
        rw [← hti]; exact (List.getElem_take).symm
      have hle : T[i]'hilen ≤ T[T.length - L - 1]'hk := by
        rcases Nat.lt_or_ge i (T.length - L - 1) with h | h
        · exact (List.pairwise_iff_getElem.mp hs) i (T.length - L - 1) hilen hk h
        · have : i = T.length - L - 1 := by omega
          subst this; exact Nat.le_refl _
      have hkm : T[T.length - L - 1]'hk ≤ m := hmax _ (List.getElem_mem hk)
      have hkne : T[T.length - L - 1]'hk ≠ m := by
        intro h
        apply hne
        rw [List.getD_eq_getElem?_getD, List.getElem?_eq_getElem hk]; simpa using h
      omega
    rw [hzero, Nat.zero_add]
    have := List.countP_le_length (p := fun t => decide (t = m)) (l := T.drop (T.length - L))
    rw [List.length_drop] at this
    omega

/-- **full coverage**: a percentage plan whose budget is at least the number of used stripes and
    whose age limit excludes none of them (`-p 100 -o 0`) selects EVERY used stripe -/
theorem auto_full_coverage (infos : List (Option Info)) (c r : Nat)
    (hbudget : (infos.filterMap fun i => i.map (·.time)).length ≤ c)
    (hage : ∀ x : Info, some x ∈ infos → x.time ≤ r)
    (p : Nat) (x : Info) (hp : infos[p]? = some (some x)) :
    (select (.auto c r) infos)[p]? = some true := by
  have hsel : select (.auto c r) infos = selectFrom (.auto c r) (limits infos c r) 0 0 infos := rfl
  rw [hsel]
  have hxmem : some x ∈ infos := List.mem_of_getElem? hp
  -- the limits, explicitly
  generalize hT : sortTimes (infos.filterMap fun i => i.map (·.time)) = T
  have hsorted : T.Pairwise (· ≤ ·) := by rw [← hT]; exact sortTimes_pairwise _
  have hlen : T.length = (infos.filterMap fun i => i.map (·.time)).length := by rw [← hT, sortTimes_length]
  have hmemT : ∀ y : Info, some y ∈ infos → y.time ∈ T := by
    intro y hy
    rw [← hT, mem_sortTimes]
    exact List.mem_filterMap.mpr ⟨some y, hy, rfl⟩
  have hallr : ∀ t ∈ T, t ≤ r := by
    intro t ht
    rw [← hT, mem_sortTimes] at ht
    obtain ⟨i, hi, he⟩ := List.mem_filterMap.mp ht
    cases i with
    | none => simp at he
    | some y => simp only [Option.map_some, Option.some.injEq] at he; rw [← he]; exact hage y hi
  have hn : 1 ≤ T.length := List.length_pos_of_mem (hmemT x hxmem)
  have hmin : min c T.length = T.length := by rw [hlen]; omega
  have hlc : lowerCount T r (min c T.length) = T.length := by
    rw [hmin]; exact lowerCount_all T r T.length hallr (Nat.le_refl _)
  have hpos : T.length > 0 := by omega
  have hlim : limits infos c r =
      (⟨T.length, T.getD (T.length - 1) 0, lastRun T T.length (T.getD (T.length - 1) 0) T.length 1⟩ : Limits) := by
    unfold limits
    simp only [hT, hlc, hpos, if_true]
  -- the limit is the largest time
  have hk : T.length - 1 < T.length := by omega
  have hM : T.getD (T.length - 1) 0 = T[T.length - 1]'hk := by
    rw [List.getD_eq_getElem?_getD, List.getElem?_eq_getElem hk]; rfl
  have hmax : ∀ t ∈ T, t ≤ T.getD (T.length - 1) 0 := by
    intro t ht
    rw [hM]
    obtain ⟨i, hi, hti⟩ := List.mem_iff_getElem.mp ht
    rcases Nat.lt_or_ge i (T.length - 1) with h | h
    · rw [← hti]; exact (List.pairwise_iff_getElem.mp hsorted) i (T.length - 1) hi hk h
    · have : i = T.length - 1 := by omega
      subst this; rw [← hti]; exact Nat.le_refl _
  obtain ⟨hrun, hle, hge⟩ := lastRun_spec T T.length (T.getD (T.length - 1) 0) T.length 1
    (by intro j h1 h2; have : j = 1 := by omega
        subst this; rfl) (by omega)
  have hmx := lastRun_max T T.length (T.getD (T.length - 1) 0) T.length 1 (by omega) (by omega)
  have hcnt : nAt (T.getD (T.length - 1) 0) infos = T.countP (fun t => decide (t = T.getD (T.length - 1) 0)) := by
    rw [nAt_eq, ← hT, sortTimes_countP]
  have hroom : nAt (T.getD (T.length - 1) 0) infos ≤ lastRun T T.length (T.getD (T.length - 1) 0) T.length 1 := by
    rw [hcnt]
    apply sorted_count_eq_le T hsorted _ _ hle hmax
    rcases hmx with h | h
    · exact Or.inl h
    · exact Or.inr h
  rw [hlim]
  exact select_all c r _ infos 0 0 (fun y hy => hmax _ (hmemT y hy)) (by simpa using hroom) p x hp

example : select (.auto 5 100) [some {time := 7}, none, some {time := 9}, some {time := 9}, some {time := 3}, some {time := 9}]
    = [true, false, true, true, true, true] := by decide

end SnapraidVerif.Props.C15
