/-
C15  Scrub checks what its plan says and keeps honest books.
-/
import SnapraidVerif.Array.ScrubPlan
namespace SnapraidVerif.Props.C15
open Scrub

/-- decision for one stripe, whatever the running counter is -/
theorem bad_always (plan : Plan) (lim : Limits) (pos cl : Nat) (i : Info) (h : i.bad = true) :
    (enabled plan lim pos (some i) cl).1 = true := by simp [enabled, h]

theorem unused_never (plan : Plan) (lim : Limits) (pos cl : Nat) : (enabled plan lim pos none cl).1 = false := rfl

theorem full_all_used (lim : Limits) (pos cl : Nat) (i : Info) : (enabled .full lim pos (some i) cl).1 = true := by
  simp [enabled]

theorem new_iff_justsynced (lim : Limits) (pos cl : Nat) (i : Info) (h : i.bad = false) :
    (enabled .new lim pos (some i) cl).1 = i.justsynced := by simp [enabled, h]

theorem bad_plan_only_bad (lim : Limits) (pos cl : Nat) (i : Info) :
    (enabled .bad lim pos (some i) cl).1 = i.bad := by
  cases hb : i.bad <;> simp [enabled, hb]

/-- a non-bad stripe selected by a percentage plan is not younger than the time limit -/
theorem auto_age (c r : Nat) (lim : Limits) (pos cl : Nat) (i : Info) (hb : i.bad = false)
    (h : (enabled (.auto c r) lim pos (some i) cl).1 = true) : i.time ≤ lim.timelimit := by
  simp only [enabled, hb] at h
  by_cases hgt : i.time > lim.timelimit
  · simp [hgt] at h
  · omega

/-- oldest first: a selected non-bad stripe is never younger than an unselected non-bad one -/
theorem auto_oldest_first (c r : Nat) (lim : Limits) (p1 c1 p2 c2 : Nat) (a b : Info)
    (ha : a.bad = false) (hb : b.bad = false)
    (hsel : (enabled (.auto c r) lim p1 (some a) c1).1 = true)
    (hun : (enabled (.auto c r) lim p2 (some b) c2).1 = false) : a.time ≤ b.time := by
  have h1 := auto_age c r lim p1 c1 a ha hsel
  simp only [enabled, hb] at hun
  by_cases hgt : b.time > lim.timelimit
  · omega
  · by_cases heq : b.time = lim.timelimit
    · omega
    · simp [hgt, heq] at hun

/-- the counter of stripes taken at exactly the time limit never exceeds `lastlimit` -/
theorem countlast_bounded (plan : Plan) (lim : Limits) (pos cl : Nat) (i : Option Info) (h : cl ≤ lim.lastlimit) :
    (enabled plan lim pos i cl).2 ≤ lim.lastlimit := by
  unfold enabled
  cases i with
  | none => simpa
  | some i =>
    simp only
    split
    · simpa
    · cases plan <;> simp only <;> try simpa
      split
      · simpa
      · split
        · split
          · simpa
          · simp only; omega
        · simpa

/-- the time limit of a percentage plan respects the age limit: nothing younger than
    `recentlimit` is ever selected (unless bad) -/
theorem lowerCount_spec (sorted : List Nat) (recent c : Nat) :
    lowerCount sorted recent c = 0 ∨ sorted.getD (lowerCount sorted recent c - 1) 0 ≤ recent := by
  induction c with
  | zero => left; rfl
  | succ c ih =>
    simp only [lowerCount]
    split
    · exact ih
    · right; simp only [Nat.add_sub_cancel]; omega

theorem timelimit_le_recent (infos : List (Option Info)) (c r : Nat) : (limits infos c r).timelimit ≤ r := by
  unfold limits
  simp only
  split
  · rename_i h
    have := lowerCount_spec (sortTimes (infos.filterMap fun i => i.map (·.time))) r
      (min c (sortTimes (infos.filterMap fun i => i.map (·.time))).length)
    rcases this with h0 | hle
    · omega
    · exact hle
  · simp

theorem countlimit_le (infos : List (Option Info)) (c r : Nat) : (limits infos c r).countlimit ≤ c := by
  unfold limits
  simp only
  have hl : ∀ s rr n, lowerCount s rr n ≤ n := by
    intro s rr n
    induction n with
    | zero => simp [lowerCount]
    | succ n ih => simp only [lowerCount]; split <;> omega
  split
  · have := hl (sortTimes (infos.filterMap fun i => i.map (·.time))) r (min c (sortTimes (infos.filterMap fun i => i.map (·.time))).length)
    simp only at this ⊢
    omega
  · simp

/-- books: time refreshed and marks cleared only for a verified stripe; bad only for silent / io
    errors; differences from unsynced files change nothing -/
theorem books (now : Nat) (i : Info) :
    book now i .ok = { time := now, bad := false, rehash := false, justsynced := false } ∧
    (book now i .silentOrIoError).bad = true ∧ (book now i .silentOrIoError).time = i.time ∧
    book now i .unsyncedDifference = i := ⟨rfl, rfl, rfl, rfl⟩

/-- non-vacuity: 6 stripes, 50 %, age limit 100: the three oldest are taken -/
example : select (.auto 3 100) [some {time := 50}, some {time := 10}, none, some {time := 30}, some {time := 200}, some {time := 30}]
    = [false, true, false, true, false, true] := by decide

end SnapraidVerif.Props.C15
