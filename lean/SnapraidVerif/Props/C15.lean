/-
C15  Scrub checks what its plan says and keeps honest books.
-/
import SnapraidVerif.Array.ScrubPlan
namespace SnapraidVerif.Props.C15
open Scrub

/-- decision for one stripe, whatever the running counter is -/
theorem bad_always (plan : Plan) (lim : Limits) (pos cl : Nat) (i : Info) (h : i.bad = true) :
    (enabled plan lim pos (some i) cl).1 = true := by simp [enabled, h]

theorem unused_never (plan : Plan) (lim : Limits) (pos cl : Nat) : (enabled plan lim pos none cl).1 = false := rfl

theorem full_all_used (lim : Limits) (pos cl : Nat) (i : Info) : (enabled .full lim pos (some i) cl).1 = true := by
  simp [enabled]

theorem new_iff_justsynced (lim : Limits) (pos cl : Nat) (i : Info) (h : i.bad = false) :
    (enabled .new lim pos (some i) cl).1 = i.justsynced := by simp [enabled, h]

theorem bad_plan_only_bad (lim : Limits) (pos cl : Nat) (i : Info) :
    (enabled .bad lim pos (some i) cl).1 = i.bad := by
  cases hb : i.bad <;> simp [enabled, hb]

/-- a non-bad stripe selected by a percentage plan is not younger than the time limit -/
theorem auto_age (c r : Nat) (lim : Limits) (pos cl : Nat) (i : Info) (hb : i.bad = false)
    (h : (enabled (.auto c r) lim pos (some i) cl).1 = true) : i.time ≤ lim.timelimit := by
  simp only [enabled, hb] at h
  by_cases hgt : i.time > lim.timelimit
  · simp [hgt] at h
  · omega

/-- oldest first: a selected non-bad stripe is never younger than an unselected non-bad one -/
theorem auto_oldest_first (c r : Nat) (lim : Limits) (p1 c1 p2 c2 : Nat) (a b : Info)
    (ha : a.bad = false) (hb : b.bad = false)
    (hsel : (enabled (.auto c r) lim p1 (some a) c1).1 = true)
    (hun : (enabled (.auto c r) lim p2 (some b) c2).1 = false) : a.time ≤ b.time := by
  have h1 := auto_age c r lim p1 c1 a ha hsel
  simp only [enabled, hb] at hun
  by_cases hgt : b.time > lim.timelimit
  · omega
  · by_cases heq : b.time = lim.timelimit
    · omega
    · simp [hgt, heq] at hun

/-- the counter of stripes taken at exactly the time limit never exceeds `lastlimit` -/
theorem countlast_bounded (plan : Plan) (lim : Limits) (pos cl : Nat) (i : Option Info) (h : cl ≤ lim.lastlimit) :
    (enabled plan lim pos i cl).2 ≤ lim.lastlimit := by
  unfold enabled
  cases i with
  | none => simpa
  | some i =>
    simp only
    split
    · simpa
    · cases plan <;> simp only <;> try simpa
      split
      · simpa
      · split
        · split
          · simpa
          · simp only; omega
        · simpa

/-- the time limit of a percentage plan respects the age limit: nothing younger than
    `recentlimit` is ever selected (unless bad) -/
theorem lowerCount_spec (sorted : List Nat) (recent c : Nat) :
    lowerCount sorted recent c = 0 ∨ sorted.getD (lowerCount sorted recent c - 1) 0 ≤ recent := by
  induction c with
  | zero => left; rfl
  | succ c ih =>
    simp only [lowerCount]
    split
    · exact ih
    · right; simp only [Nat.add_sub_cancel]; omega

theorem timelimit_le_recent (infos : List (Option Info)) (c r : Nat) : (limits infos c r).timelimit ≤ r := by
  unfold limits
  simp only
  split
  · rename_i h
    have := lowerCount_spec (sortTimes (infos.filterMap fun i => i.map (·.time))) r
      (min c (sortTimes (infos.filterMap fun i => i.map (·.time))).length)
    rcases this with h0 | hle
    · omega
    · exact hle
  · simp

theorem countlimit_le (infos : List (Option Info)) (c r : Nat) : (limits infos c r).countlimit ≤ c := by
  unfold limits
  simp only
  have hl : ∀ s rr n, lowerCount s rr n ≤ n := by
    intro s rr n
    induction n with
    | zero => simp [lowerCount]
    | succ n ih => simp only [lowerCount]; split <;> omega
  split
  · have := hl (sortTimes (infos.filterMap fun i => i.map (·.time))) r (min c (sortTimes (infos.filterMap fun i => i.map (·.time))).length)
    simp only at this ⊢
    omega
  · simp

/-- books: time refreshed and marks cleared only for a verified stripe; bad only for silent / io
    errors; differences from unsynced files change nothing -/
theorem books (now : Nat) (i : Info) :
    book now i .ok = { time := now, bad := false, rehash := false, justsynced := false } ∧
    (book now i .silentOrIoError).bad = true ∧ (book now i .silentOrIoError).time = i.time ∧
    book now i .unsyncedDifference = i := ⟨rfl, rfl, rfl, rfl⟩

/-- non-vacuity: 6 stripes, 50 %, age limit 100: the three oldest are taken -/
example : select (.auto 3 100) [some {time := 50}, some {time := 10}, none, some {time := 30}, some {time := 200}, some {time := 30}]
    = [false, true, false, true, false, true] := by decide

/-! ### sorted times -/

theorem insertSorted_pairwise (x : Nat) (l : List Nat) (h : l.Pairwise (· ≤ ·)) : (insertSorted x l).Pairwise (· ≤ ·) := by
  induction l with
  | nil => simp [insertSorted]
  | cons y ys ih =>
    simp only [insertSorted]
    split
    · rename_i hxy
      rw [List.pairwise_cons]
      refine ⟨?_, h⟩
      intro z hz
      rcases List.mem_cons.mp hz with rfl | hz'
      · exact hxy
      · exact Nat.le_trans hxy ((List.pairwise_cons.mp h).1 z hz')
    · rename_i hxy
      rw [List.pairwise_cons] at h ⊢
      refine ⟨?_, ih h.2⟩
      intro z hz
      have : z = x ∨ z ∈ ys := by
        have hm : ∀ (l : List Nat) z, z ∈ insertSorted x l → z = x ∨ z ∈ l := by
          intro l
          induction l with
          | nil => intro z hz; simp [insertSorted] at hz; exact Or.inl hz
          | cons a as iha =>
            intro z hz
            simp only [insertSorted] at hz
            split at hz
            · rcases List.mem_cons.mp hz with h1 | h1
              · exact Or.inl h1
              · exact Or.inr h1
            · rcases List.mem_cons.mp hz with h1 | h1
              · exact Or.inr (by rw [h1]; exact List.mem_cons_self ..)
              · rcases iha z h1 with h2 | h2
                · exact Or.inl h2
                · exact Or.inr (List.mem_cons_of_mem _ h2)
        exact hm ys z hz
      rcases this with rfl | hz'
      · omega
      · exact h.1 z hz'

theorem sortTimes_pairwise (l : List Nat) : (sortTimes l).Pairwise (· ≤ ·) := by
  induction l with
  | nil => simp [sortTimes]
  | cons x xs ih => exact insertSorted_pairwise x _ ih

theorem insertSorted_countP (p : Nat → Bool) (x : Nat) (l : List Nat) :
    (insertSorted x l).countP p = (x :: l).countP p := by
  induction l with
  | nil => rfl
  | cons y ys ih =>
    simp only [insertSorted]
    split
    · rfl
    · simp only [List.countP_cons] at ih ⊢
      rw [ih]; omega

theorem sortTimes_countP (p : Nat → Bool) (l : List Nat) : (sortTimes l).countP p = l.countP p := by
  induction l with
  | nil => rfl
  | cons x xs ih =>
    simp only [sortTimes]
    rw [insertSorted_countP, List.countP_cons, List.countP_cons, ih]

/-- in a sorted list whose entry `k` is ≥ v, at most `k` entries are < v -/
theorem sorted_count_lt (T : List Nat) (hs : T.Pairwise (· ≤ ·)) (k v : Nat) (hk : k < T.length) (hv : v ≤ T.getD k 0) :
    T.countP (fun t => decide (t < v)) ≤ k := by
  induction T generalizing k with
  | nil => simp at hk
  | cons a as ih =>
    rw [List.pairwise_cons] at hs
    cases k with
    | zero =>
      simp only [List.getD_cons_zero] at hv
      have : ∀ t ∈ a :: as, ¬ (t < v) := by
        intro t ht
        rcases List.mem_cons.mp ht with rfl | ht'
        · omega
        · have := hs.1 t ht'; omega
      rw [List.countP_eq_zero.mpr (by intro t ht; simpa using this t ht)]
      exact Nat.le_refl 0
    | succ k' =>
      simp only [List.getD_cons_succ] at hv
      have := ih hs.2 k' (by simpa using hk) hv
      rw [List.countP_cons]
      split <;> omega

theorem lowerCount_le (s : List Nat) (rr n : Nat) : lowerCount s rr n ≤ n := by
  induction n with
  | zero => simp [lowerCount]
  | succ n ih => simp only [lowerCount]; split <;> omega

/-- `lastRun` only extends a run of entries equal to the time limit that ends at index c-1 -/
theorem lastRun_spec (T : List Nat) (c tl : Nat) (fuel last : Nat)
    (hrun : ∀ j, 1 ≤ j → j ≤ last → T.getD (c - j) 0 = tl) (hle : last ≤ c) :
    (∀ j, 1 ≤ j → j ≤ lastRun T c tl fuel last → T.getD (c - j) 0 = tl) ∧
      lastRun T c tl fuel last ≤ c ∧ last ≤ lastRun T c tl fuel last := by
  induction fuel generalizing last with
  | zero => exact ⟨hrun, hle, Nat.le_refl _⟩
  | succ f ih =>
    simp only [lastRun]
    split
    · rename_i hc
      have := ih (last + 1) (by
        intro j h1 h2
        by_cases hj : j ≤ last
        · exact hrun j h1 hj
        · have : j = last + 1 := by omega
          subst this
          have e : c - (last + 1) = c - last - 1 := by omega
          rw [e]; exact hc.2) (by omega)
      exact ⟨this.1, this.2.1, by omega⟩
    · exact ⟨hrun, hle, Nat.le_refl _⟩

/-- number of used stripes strictly older than the time limit -/
def nLess (tl : Nat) (is : List (Option Info)) : Nat :=
  is.countP fun i => match i with | some x => decide (x.time < tl) | none => false

/-- number of selected stripes that are not marked bad -/
def selNonBad : List Bool → List (Option Info) → Nat
  | b :: bs, some i :: is => (if b && !i.bad then 1 else 0) + selNonBad bs is
  | _ :: bs, none :: is => selNonBad bs is
  | _, _ => 0

theorem sel_bound (c r : Nat) (lim : Limits) (is : List (Option Info)) (pos cl : Nat) (h : cl ≤ lim.lastlimit) :
    selNonBad (selectFrom (.auto c r) lim pos cl is) is + cl ≤ nLess lim.timelimit is + lim.lastlimit := by
  induction is generalizing pos cl with
  | nil => simp [selectFrom, selNonBad, nLess]; exact h
  | cons i rest ih =>
    cases i with
    | none =>
      simp only [selectFrom, enabled, selNonBad, nLess, List.countP_cons]
      have := ih (pos + 1) cl h
      simp only [nLess] at this
      simpa using this
    | some x =>
      simp only [selectFrom, selNonBad, nLess, List.countP_cons]
      by_cases hb : x.bad = true
      · simp only [enabled, hb, if_true, Bool.not_true, Bool.and_false, Bool.false_eq_true, if_false, Nat.zero_add]
        have := ih (pos + 1) cl h
        simp only [nLess] at this
        split <;> omega
      · have hbf : x.bad = false := by cases hx : x.bad <;> simp_all
        simp only [enabled, hbf, Bool.false_eq_true, if_false]
        by_cases hgt : x.time > lim.timelimit
        · simp only [hgt, if_true, Bool.false_and, Bool.false_eq_true, if_false, Nat.zero_add]
          have := ih (pos + 1) cl h
          simp only [nLess] at this
          have hn : ¬ (x.time < lim.timelimit) := by omega
          simp only [hn, decide_false, Bool.false_eq_true, if_false]
          omega
        · simp only [hgt, if_false]
          by_cases heq : x.time = lim.timelimit
          · simp only [heq, if_true]
            have hn : ¬ (lim.timelimit < lim.timelimit) := by omega
            by_cases hcl : cl ≥ lim.lastlimit
            · simp only [hcl, if_true, Bool.false_and, Bool.false_eq_true, if_false, Nat.zero_add]
              have := ih (pos + 1) cl h
              simp only [nLess] at this
              simp only [hn, decide_false, Bool.false_eq_true, if_false]
              omega
            · simp only [hcl, if_false, Bool.not_false, Bool.and_self, if_true]
              have := ih (pos + 1) (cl + 1) (by omega)
              simp only [nLess] at this
              simp only [hn, decide_false, Bool.false_eq_true, if_false]
              omega
          · simp only [heq, if_false, Bool.not_false, Bool.and_self, if_true]
            have := ih (pos + 1) cl h
            simp only [nLess] at this
            have hl : x.time < lim.timelimit := by omega
            simp only [hl, decide_true, if_true]
            omega

theorem nLess_eq (tl : Nat) (is : List (Option Info)) :
    nLess tl is = (is.filterMap fun i => i.map (·.time)).countP (fun t => decide (t < tl)) := by
  induction is with
  | nil => rfl
  | cons i rest ih =>
    cases i with
    | none => simp only [nLess, List.countP_cons, List.filterMap_cons, Option.map_none] at ih ⊢; simpa using ih
    | some x =>
      simp only [nLess, List.countP_cons, List.filterMap_cons, Option.map_some] at ih ⊢
      rw [ih]

/-- **no more than the requested share**: the non-bad stripes selected by a percentage plan are at
    most `countlimit` (itself ≤ the requested count, `countlimit_le`), for every distribution of
    check times -/
theorem auto_bound (infos : List (Option Info)) (c r : Nat) :
    selNonBad (select (.auto c r) infos) infos ≤ (limits infos c r).countlimit := by
  have hb := sel_bound c r (limits infos c r) infos 0 0 (Nat.zero_le _)
  simp only [select, planLimits]
  have key : nLess (limits infos c r).timelimit infos + (limits infos c r).lastlimit ≤ (limits infos c r).countlimit := by
    rw [nLess_eq]
    unfold limits
    simp only
    generalize hT : sortTimes (infos.filterMap fun i => i.map (·.time)) = T
    have hsorted : T.Pairwise (· ≤ ·) := by rw [← hT]; exact sortTimes_pairwise _
    have hcount : ∀ v, (infos.filterMap fun i => i.map (·.time)).countP (fun t => decide (t < v)) = T.countP (fun t => decide (t < v)) := by
      intro v; rw [← hT, sortTimes_countP]
    split
    · rename_i hpos
      simp only
      generalize hc : lowerCount T r (min c T.length) = cc at hpos ⊢
      have hcc : cc ≤ T.length := by
        rw [← hc]; exact Nat.le_trans (lowerCount_le _ _ _) (Nat.min_le_right _ _)
      obtain ⟨hrun, hle, hge⟩ := lastRun_spec T cc (T.getD (cc - 1) 0) cc 1
        (by intro j h1 h2; have : j = 1 := by omega
            subst this; rfl) (by omega)
      generalize hL : lastRun T cc (T.getD (cc - 1) 0) cc 1 = L at hrun hle hge ⊢
      rw [hcount]
      have := sorted_count_lt T hsorted (cc - L) (T.getD (cc - 1) 0) (by omega) (by rw [hrun L (by omega) (Nat.le_refl _)]; exact Nat.le_refl _)
      omega
    · simp only [Nat.add_zero, Nat.le_zero]
      rw [hcount]
      apply List.countP_eq_zero.mpr
      intro t _; simp
  omega


end SnapraidVerif.Props.C15
