/-
C03  Any erasure pattern within the parity count is exactly recoverable.

* `cauchy_all_minors`  – every square sub-matrix of the 6×251 generator (any np ≤ 6 rows prefix,
  any nd ≤ 251 columns prefix, any k rows and k columns of those) is invertible;
* `rec_unique`         – hence whatever blocks are lost (|F| data blocks, decoded with ANY set of
  at least |F| surviving parities) the surviving blocks determine the lost ones uniquely:
  a decoder whose output is consistent with the survivors reproduces them bit-exactly;
* `min_distance`       – stripes of two different data vectors differ in ≥ np+1 blocks, i.e. the
  consistency test cannot accept a candidate set that leaves a corrupted block unlisted as
  long as listed + unlisted ≤ np.
* `power_all_minors`, `rec_unique_z`, `min_distance_z` – the same for the alternate (z) generator
  `1, 2^i, 2^{-i}` (3 parities, up to 255 disks).
The matrix these theorems talk about is tied to today's `raid/tables.c` by the per-run
obligations `gfcauchy_row0..5` (gen/GenTablesOkC*.lean).
-/
import SnapraidVerif.Raid.Cauchy
import SnapraidVerif.Raid.MdsCode
import SnapraidVerif.Raid.PowerMds
import SnapraidVerif.Raid.Invert

namespace SnapraidVerif.Props.C03
open Raid MdsCode

/-- the generator restricted to the first `np` parity levels and `nd` data disks -/
def gen (np nd : ℕ) (hnp : np ≤ 6) (hnd : nd ≤ 251) : Fin np → Fin nd → GF256 :=
  fun j i => Acauchy (Fin.castLE hnp j) (Fin.castLE hnd i)

theorem cauchy_all_minors (np nd : ℕ) (hnp : np ≤ 6) (hnd : nd ≤ 251) :
    AllMinorsNonsingular (gen np nd hnp hnd) := by
  intro k r c hr hc
  exact cauchy_mds (fun a => Fin.castLE hnp (r a)) (fun b => Fin.castLE hnd (c b))
    ((Fin.castLE_injective hnp).comp hr) ((Fin.castLE_injective hnd).comp hc)

/-- recovery from any ≤ np lost data blocks with any admissible parity subset is unique -/
theorem rec_unique (np nd : ℕ) (hnp : np ≤ 6) (hnd : nd ≤ 251)
    (D D' : Fin nd → GF256) (F : Finset (Fin nd)) (R : Finset (Fin np)) (hcard : F.card ≤ R.card)
    (hout : ∀ i, i ∉ F → D i = D' i)
    (hpar : ∀ j ∈ R, parity (gen np nd hnp hnd) D j = parity (gen np nd hnp hnd) D' j) : D = D' :=
  MdsCode.rec_unique _ (cauchy_all_minors np nd hnp hnd) D D' F R hcard hout hpar

/-- minimum distance np+1 of the stripe code -/
theorem min_distance (np nd : ℕ) (hnp : np ≤ 6) (hnd : nd ≤ 251) (D D' : Fin nd → GF256) (hne : D ≠ D') :
    np + 1 ≤ (Finset.univ.filter fun i => D i ≠ D' i).card +
      (Finset.univ.filter fun j => parity (gen np nd hnp hnd) D j ≠ parity (gen np nd hnp hnd) D' j).card :=
  MdsCode.min_distance _ (cauchy_all_minors np nd hnp hnd) D D' hne

/-- the field-level generator entry is the byte the tables are checked against -/
theorem gen_val (np nd : ℕ) (hnp : np ≤ 6) (hnd : nd ≤ 251) (j : Fin np) (i : Fin nd) :
    (gen np nd hnp hnd j i).val = cauchy j i := rfl

/-- non-vacuity: a concrete 2×2 minor (rows 2,5; columns 7,250) is non-singular -/
example : (Matrix.of fun (a b : Fin 2) => Acauchy (if a = 0 then 2 else 5) (if b = 0 then 7 else 250)).det ≠ 0 := by
  apply cauchy_mds (fun a : Fin 2 => if a = 0 then (2 : Fin 6) else 5) (fun b : Fin 2 => if b = 0 then (7 : Fin 251) else 250)
  · intro a b; fin_cases a <;> fin_cases b <;> simp
  · intro a b; fin_cases a <;> fin_cases b <;> simp

/-! ### the alternate (z) mode: rows 1, 2^i, 2^{-i}, up to 3 parities -/

def genz (np nd : ℕ) (hnp : np ≤ 3) (hnd : nd ≤ 255) : Fin np → Fin nd → GF256 :=
  fun j i => Apower (Fin.castLE hnp j) (Fin.castLE hnd i)

theorem power_all_minors (np nd : ℕ) (hnp : np ≤ 3) (hnd : nd ≤ 255) :
    AllMinorsNonsingular (genz np nd hnp hnd) := by
  intro k r c hr hc
  exact power_mds (fun a => Fin.castLE hnp (r a)) (fun b => Fin.castLE hnd (c b))
    ((Fin.castLE_injective hnp).comp hr) ((Fin.castLE_injective hnd).comp hc)

theorem rec_unique_z (np nd : ℕ) (hnp : np ≤ 3) (hnd : nd ≤ 255)
    (D D' : Fin nd → GF256) (F : Finset (Fin nd)) (R : Finset (Fin np)) (hcard : F.card ≤ R.card)
    (hout : ∀ i, i ∉ F → D i = D' i)
    (hpar : ∀ j ∈ R, parity (genz np nd hnp hnd) D j = parity (genz np nd hnp hnd) D' j) : D = D' :=
  MdsCode.rec_unique _ (power_all_minors np nd hnp hnd) D D' F R hcard hout hpar

theorem min_distance_z (np nd : ℕ) (hnp : np ≤ 3) (hnd : nd ≤ 255) (D D' : Fin nd → GF256) (hne : D ≠ D') :
    np + 1 ≤ (Finset.univ.filter fun i => D i ≠ D' i).card +
      (Finset.univ.filter fun j => parity (genz np nd hnp hnd) D j ≠ parity (genz np nd hnp hnd) D' j).card :=
  MdsCode.min_distance _ (power_all_minors np nd hnp hnd) D D' hne

theorem genz_val (np nd : ℕ) (hnp : np ≤ 3) (hnd : nd ≤ 255) (j : Fin np) (i : Fin nd) :
    (genz np nd hnp hnd j i).val = power j i := rfl

/-! ### the decoder itself (`raid_invert` + the multiplication of `raid_rec*`) -/

/-- what `raid_rec*` feeds to the inverse: the parity read from disk plus (xor) the contribution
    of the surviving data disks is the contribution of the failed ones alone -/
theorem reduced_parity {np nd k : ℕ} (A : Fin np → Fin nd → GF256) (c : Fin k → Fin nd) (hc : Function.Injective c)
    (D : Fin nd → GF256) (j : Fin np) :
    parity A D j + ∑ i ∈ (Finset.univ.image c)ᶜ, A j i * D i = ∑ b, A j (c b) * D (c b) := by
  unfold parity
  rw [← Finset.sum_add_sum_compl (Finset.univ.image c) (fun i => A j i * D i), add_assoc, GF256.add_self, add_zero,
    Finset.sum_image (fun a _ b _ h => hc h)]

/-- **C03 for the decoder model, Cauchy generator**: for any `k` failed data disks and any `k`
    parities, `raid_invert` (model) meets no zero pivot and the decoded bytes are the lost ones -/
theorem cauchy_decode_exact (np nd : ℕ) (hnp : np ≤ 6) (hnd : nd ≤ 251) (k : ℕ)
    (r : Fin k → Fin np) (c : Fin k → Fin nd) (hr : Function.Injective r) (hc : Function.Injective c) :
    ∃ V, invert (subMat (gen np nd hnp hnd) k r c) = some V ∧
      ∀ D : Fin nd → GF256,
        (toMx k V).mulVec (fun a => parity (gen np nd hnp hnd) D (r a) +
            ∑ i ∈ (Finset.univ.image c)ᶜ, gen np nd hnp hnd (r a) i * D i) = fun b => D (c b) := by
  obtain ⟨V, hV, h⟩ := decode_exact (gen np nd hnp hnd) (cauchy_all_minors np nd hnp hnd) k r c hr hc
  refine ⟨V, hV, fun D => ?_⟩
  rw [← h D]
  congr 1
  funext a
  exact reduced_parity _ c hc D (r a)

/-- the same for the alternate (z) generator -/
theorem power_decode_exact (np nd : ℕ) (hnp : np ≤ 3) (hnd : nd ≤ 255) (k : ℕ)
    (r : Fin k → Fin np) (c : Fin k → Fin nd) (hr : Function.Injective r) (hc : Function.Injective c) :
    ∃ V, invert (subMat (genz np nd hnp hnd) k r c) = some V ∧
      ∀ D : Fin nd → GF256,
        (toMx k V).mulVec (fun a => parity (genz np nd hnp hnd) D (r a) +
            ∑ i ∈ (Finset.univ.image c)ᶜ, genz np nd hnp hnd (r a) i * D i) = fun b => D (c b) := by
  obtain ⟨V, hV, h⟩ := decode_exact (genz np nd hnp hnd) (power_all_minors np nd hnp hnd) k r c hr hc
  refine ⟨V, hV, fun D => ?_⟩
  rw [← h D]
  congr 1
  funext a
  exact reduced_parity _ c hc D (r a)

/-- the decoder as `raid_rec*` runs it: from whatever was READ — parities `P`, data `S` — for the
    failed columns `c` with the parity rows `r` -/
noncomputable def decodeWith {np nd : ℕ} (A : Fin np → Fin nd → GF256) (k : ℕ) (r : Fin k → Fin np) (c : Fin k → Fin nd)
    (P : Fin np → GF256) (S : Fin nd → GF256) : Option (Fin k → GF256) :=
  (invert (subMat A k r c)).map fun V =>
    (toMx k V).mulVec (fun a => P (r a) + ∑ i ∈ (Finset.univ.image c)ᶜ, A (r a) i * S i)

/-- **decoding with intact parities yields the true data** (the hypothesis `hdec` of
    `C01.fix_stripe_recovers`): if the parities used are the ones of the synced data `D` and the
    surviving data blocks are read back unchanged, the decoder returns the lost blocks of `D`,
    whatever is now stored in the failed columns and in the parities not used -/
theorem decode_with_intact (np nd : ℕ) (hnp : np ≤ 6) (hnd : nd ≤ 251) (k : ℕ)
    (r : Fin k → Fin np) (c : Fin k → Fin nd) (hr : Function.Injective r) (hc : Function.Injective c)
    (D S : Fin nd → GF256) (P : Fin np → GF256)
    (hP : ∀ a, P (r a) = parity (gen np nd hnp hnd) D (r a))
    (hS : ∀ i, i ∉ Finset.univ.image c → S i = D i) :
    decodeWith (gen np nd hnp hnd) k r c P S = some fun b => D (c b) := by
  obtain ⟨V, hV, h⟩ := cauchy_decode_exact np nd hnp hnd k r c hr hc
  unfold decodeWith
  rw [hV, Option.map_some, ← h D]
  congr 2
  funext a
  rw [hP a]
  congr 1
  apply Finset.sum_congr rfl
  intro i hi
  rw [hS i (Finset.mem_compl.mp hi)]

theorem decode_with_intact_z (np nd : ℕ) (hnp : np ≤ 3) (hnd : nd ≤ 255) (k : ℕ)
    (r : Fin k → Fin np) (c : Fin k → Fin nd) (hr : Function.Injective r) (hc : Function.Injective c)
    (D S : Fin nd → GF256) (P : Fin np → GF256)
    (hP : ∀ a, P (r a) = parity (genz np nd hnp hnd) D (r a))
    (hS : ∀ i, i ∉ Finset.univ.image c → S i = D i) :
    decodeWith (genz np nd hnp hnd) k r c P S = some fun b => D (c b) := by
  obtain ⟨V, hV, h⟩ := power_decode_exact np nd hnp hnd k r c hr hc
  unfold decodeWith
  rw [hV, Option.map_some, ← h D]
  congr 2
  funext a
  rw [hP a]
  congr 1
  apply Finset.sum_congr rfl
  intro i hi
  rw [hS i (Finset.mem_compl.mp hi)]

/-- non-vacuity: the model inverts a concrete 2×2 Cauchy minor (rows 1,2; disks 0,3) -/
example : (invert [[cauchy 1 0, cauchy 1 3], [cauchy 2 0, cauchy 2 3]]).isSome = true := by decide +kernel

end SnapraidVerif.Props.C03
