/-
C03  Any erasure pattern within the parity count is exactly recoverable.

* `cauchy_all_minors`  – every square sub-matrix of the 6×251 generator (any np ≤ 6 rows prefix,
  any nd ≤ 251 columns prefix, any k rows and k columns of those) is invertible;
* `rec_unique`         – hence whatever blocks are lost (|F| data blocks, decoded with ANY set of
  at least |F| surviving parities) the surviving blocks determine the lost ones uniquely:
  a decoder whose output is consistent with the survivors reproduces them bit-exactly;
* `min_distance`       – stripes of two different data vectors differ in ≥ np+1 blocks, i.e. the
  consistency test cannot accept a candidate set that leaves a corrupted block unlisted as
  long as listed + unlisted ≤ np.
* `power_all_minors`, `rec_unique_z`, `min_distance_z` – the same for the alternate (z) generator
  `1, 2^i, 2^{-i}` (3 parities, up to 255 disks).
The matrix these theorems talk about is tied to today's `raid/tables.c` by the per-run
obligations `gfcauchy_row0..5` (gen/GenTablesOkC*.lean).
-/
import SnapraidVerif.Raid.Cauchy
import SnapraidVerif.Raid.MdsCode
import SnapraidVerif.Raid.PowerMds

namespace SnapraidVerif.Props.C03
open Raid MdsCode

/-- the generator restricted to the first `np` parity levels and `nd` data disks -/
def gen (np nd : ℕ) (hnp : np ≤ 6) (hnd : nd ≤ 251) : Fin np → Fin nd → GF256 :=
  fun j i => Acauchy (Fin.castLE hnp j) (Fin.castLE hnd i)

theorem cauchy_all_minors (np nd : ℕ) (hnp : np ≤ 6) (hnd : nd ≤ 251) :
    AllMinorsNonsingular (gen np nd hnp hnd) := by
  intro k r c hr hc
  exact cauchy_mds (fun a => Fin.castLE hnp (r a)) (fun b => Fin.castLE hnd (c b))
    ((Fin.castLE_injective hnp).comp hr) ((Fin.castLE_injective hnd).comp hc)

/-- recovery from any ≤ np lost data blocks with any admissible parity subset is unique -/
theorem rec_unique (np nd : ℕ) (hnp : np ≤ 6) (hnd : nd ≤ 251)
    (D D' : Fin nd → GF256) (F : Finset (Fin nd)) (R : Finset (Fin np)) (hcard : F.card ≤ R.card)
    (hout : ∀ i, i ∉ F → D i = D' i)
    (hpar : ∀ j ∈ R, parity (gen np nd hnp hnd) D j = parity (gen np nd hnp hnd) D' j) : D = D' :=
  MdsCode.rec_unique _ (cauchy_all_minors np nd hnp hnd) D D' F R hcard hout hpar

/-- minimum distance np+1 of the stripe code -/
theorem min_distance (np nd : ℕ) (hnp : np ≤ 6) (hnd : nd ≤ 251) (D D' : Fin nd → GF256) (hne : D ≠ D') :
    np + 1 ≤ (Finset.univ.filter fun i => D i ≠ D' i).card +
      (Finset.univ.filter fun j => parity (gen np nd hnp hnd) D j ≠ parity (gen np nd hnp hnd) D' j).card :=
  MdsCode.min_distance _ (cauchy_all_minors np nd hnp hnd) D D' hne

/-- the field-level generator entry is the byte the tables are checked against -/
theorem gen_val (np nd : ℕ) (hnp : np ≤ 6) (hnd : nd ≤ 251) (j : Fin np) (i : Fin nd) :
    (gen np nd hnp hnd j i).val = cauchy j i := rfl

/-- non-vacuity: a concrete 2×2 minor (rows 2,5; columns 7,250) is non-singular -/
example : (Matrix.of fun (a b : Fin 2) => Acauchy (if a = 0 then 2 else 5) (if b = 0 then 7 else 250)).det ≠ 0 := by
  apply cauchy_mds (fun a : Fin 2 => if a = 0 then (2 : Fin 6) else 5) (fun b : Fin 2 => if b = 0 then (7 : Fin 251) else 250)
  · intro a b; fin_cases a <;> fin_cases b <;> simp
  · intro a b; fin_cases a <;> fin_cases b <;> simp

/-! ### the alternate (z) mode: rows 1, 2^i, 2^{-i}, up to 3 parities -/

def genz (np nd : ℕ) (hnp : np ≤ 3) (hnd : nd ≤ 255) : Fin np → Fin nd → GF256 :=
  fun j i => Apower (Fin.castLE hnp j) (Fin.castLE hnd i)

theorem power_all_minors (np nd : ℕ) (hnp : np ≤ 3) (hnd : nd ≤ 255) :
    AllMinorsNonsingular (genz np nd hnp hnd) := by
  intro k r c hr hc
  exact power_mds (fun a => Fin.castLE hnp (r a)) (fun b => Fin.castLE hnd (c b))
    ((Fin.castLE_injective hnp).comp hr) ((Fin.castLE_injective hnd).comp hc)

theorem rec_unique_z (np nd : ℕ) (hnp : np ≤ 3) (hnd : nd ≤ 255)
    (D D' : Fin nd → GF256) (F : Finset (Fin nd)) (R : Finset (Fin np)) (hcard : F.card ≤ R.card)
    (hout : ∀ i, i ∉ F → D i = D' i)
    (hpar : ∀ j ∈ R, parity (genz np nd hnp hnd) D j = parity (genz np nd hnp hnd) D' j) : D = D' :=
  MdsCode.rec_unique _ (power_all_minors np nd hnp hnd) D D' F R hcard hout hpar

theorem min_distance_z (np nd : ℕ) (hnp : np ≤ 3) (hnd : nd ≤ 255) (D D' : Fin nd → GF256) (hne : D ≠ D') :
    np + 1 ≤ (Finset.univ.filter fun i => D i ≠ D' i).card +
      (Finset.univ.filter fun j => parity (genz np nd hnp hnd) D j ≠ parity (genz np nd hnp hnd) D' j).card :=
  MdsCode.min_distance _ (power_all_minors np nd hnp hnd) D D' hne

theorem genz_val (np nd : ℕ) (hnp : np ≤ 3) (hnd : nd ≤ 255) (j : Fin np) (i : Fin nd) :
    (genz np nd hnp hnd j i).val = power j i := rfl

end SnapraidVerif.Props.C03
