/-
C17  Parity split over several files behaves as one parity.
-/
import SnapraidVerif.Parity.Split
namespace SnapraidVerif.Props.C17
open Split

/-- the lookup is the inverse of concatenation: `find` returns split `i` and offset `o` exactly
    when `o` is inside split `i` and the global offset is the sum of the previous splits plus `o` -/
theorem find_spec (sizes : List Nat) (off i o : Nat) :
    find sizes off = some (i, o) ↔ (∃ s, sizes[i]? = some s ∧ o < s) ∧ off = (sizes.take i).sum + o := by
  induction sizes generalizing off i with
  | nil => simp [find]
  | cons s ss ih =>
    simp only [find]
    by_cases h : off < s
    · simp only [h, if_true, Option.some.injEq, Prod.mk.injEq]
      constructor
      · rintro ⟨rfl, rfl⟩; exact ⟨⟨s, by simp, h⟩, by simp⟩
      · rintro ⟨⟨s', hs', ho⟩, hoff⟩
        cases i with
        | zero => simp at hoff; exact ⟨rfl, hoff⟩
        | succ i => simp [List.take_succ_cons] at hoff; omega
    · simp only [h, if_false, Option.map_eq_some_iff]
      constructor
      · rintro ⟨⟨i', o'⟩, hf, heq⟩
        simp only [Prod.mk.injEq] at heq
        obtain ⟨rfl, rfl⟩ := heq
        obtain ⟨⟨s', hs', ho⟩, hoff⟩ := (ih (off - s) i').mp hf
        exact ⟨⟨s', by simpa using hs', ho⟩, by simp [List.take_succ_cons]; omega⟩
      · rintro ⟨⟨s', hs', ho⟩, hoff⟩
        cases i with
        | zero => simp at hs'; subst hs'; simp at hoff; omega
        | succ i =>
          refine ⟨(i, o), ?_, rfl⟩
          apply (ih (off - s) i).mpr
          simp only [List.take_succ_cons, List.sum_cons] at hoff
          exact ⟨⟨s', by simpa using hs', ho⟩, by omega⟩

/-- every offset inside the total size maps somewhere (the map is total on the recorded size) -/
theorem find_total (sizes : List Nat) (off : Nat) (h : off < sizes.sum) : ∃ p, find sizes off = some p := by
  induction sizes generalizing off with
  | nil => simp at h
  | cons s ss ih =>
    simp only [find]
    by_cases hs : off < s
    · exact ⟨(0, off), by simp [hs]⟩
    · simp only [hs, if_false]
      obtain ⟨p, hp⟩ := ih (off - s) (by simp at h; omega)
      exact ⟨(p.1 + 1, p.2), by simp [hp]⟩

/-- the map is injective: two offsets mapped to the same (split, offset) are the same offset -/
theorem find_injective (sizes : List Nat) (a b : Nat) (p : Nat × Nat)
    (ha : find sizes a = some p) (hb : find sizes b = some p) : a = b := by
  obtain ⟨i, o⟩ := p
  have h1 := ((find_spec sizes a i o).mp ha).2
  have h2 := ((find_spec sizes b i o).mp hb).2
  omega

theorem dvd_take_sum (bs : Nat) (sizes : List Nat) (h : ∀ s ∈ sizes, bs ∣ s) (i : Nat) : bs ∣ (sizes.take i).sum := by
  induction sizes generalizing i with
  | nil => simp
  | cons s ss ih =>
    cases i with
    | zero => simp
    | succ i =>
      simp only [List.take_succ_cons, List.sum_cons]
      exact Nat.dvd_add (h s (List.mem_cons_self ..)) (ih (fun x hx => h x (List.mem_cons_of_mem _ hx)) i)

/-- no stripe straddles two files: with block-aligned split sizes a block-aligned offset has the
    whole block inside the split it maps to -/
theorem find_no_straddle (bs : Nat) (hbs : 0 < bs) (sizes : List Nat) (hal : ∀ s ∈ sizes, bs ∣ s)
    (off i o : Nat) (hoff : bs ∣ off) (h : find sizes off = some (i, o)) :
    ∃ s, sizes[i]? = some s ∧ o + bs ≤ s ∧ bs ∣ o := by
  obtain ⟨⟨s, hs, ho⟩, he⟩ := (find_spec sizes off i o).mp h
  have hds : bs ∣ s := hal s (List.mem_of_getElem? hs)
  have hdt := dvd_take_sum bs sizes hal i
  have hdo : bs ∣ o := by
    have : bs ∣ (sizes.take i).sum + o := by rw [← he]; exact hoff
    exact (Nat.dvd_add_right hdt).mp this
  refine ⟨s, hs, ?_, hdo⟩
  obtain ⟨k, rfl⟩ := hds
  obtain ⟨m, rfl⟩ := hdo
  have hmk : m < k := Nat.lt_of_mul_lt_mul_left ho
  have := Nat.mul_le_mul_left bs (Nat.succ_le_of_lt hmk)
  rw [Nat.mul_succ] at this
  exact this

/-- growth never exceeds what was asked -/
theorem fillLoop_le (bs limit fuel base delta : Nat) : fillLoop bs limit fuel base delta ≤ base + delta := by
  induction fuel generalizing base delta with
  | zero => simp [fillLoop]
  | succ f ih =>
    simp only [fillLoop]
    split
    · omega
    · rename_i hd
      have hpos : 0 < delta := Nat.pos_of_ne_zero hd
      have hb : hbit delta ≤ delta := by
        unfold hbit; exact Nat.log2_self_le hd
      split
      · have := ih (base + hbit delta) (delta - hbit delta); omega
      · have := ih base ((hbit delta - 1) / bs * bs)
        have h2 : (hbit delta - 1) / bs * bs ≤ hbit delta - 1 := Nat.div_mul_le_self _ _
        omega

/-- … and never passes the limit of the split (when it started below it) -/
theorem fillLoop_le_limit (bs limit fuel base delta : Nat) (hl : limit ≠ 0) (hb : base ≤ limit) :
    fillLoop bs limit fuel base delta ≤ limit := by
  induction fuel generalizing base delta with
  | zero => simpa [fillLoop]
  | succ f ih =>
    simp only [fillLoop]
    split
    · exact hb
    · split
      · rename_i hg
        apply ih
        simp only [grows, Bool.or_eq_true, beq_iff_eq, decide_eq_true_eq] at hg
        rcases hg with h0 | hle
        · exact absurd h0 hl
        · exact hle
      · exact ih base _ hb

/-- a split only ever grows -/
theorem fillLoop_ge (bs limit fuel base delta : Nat) : base ≤ fillLoop bs limit fuel base delta := by
  induction fuel generalizing base delta with
  | zero => simp [fillLoop]
  | succ f ih =>
    simp only [fillLoop]
    split
    · omega
    · split
      · have := ih (base + hbit delta) (delta - hbit delta); omega
      · exact ih base _

theorem runOf_le (all : List Sp) (s : Nat) (sp : Sp) (size : Nat) : runOf all s sp size ≤ size := by
  unfold runOf fixedOf
  split
  · rename_i h
    simp only [Bool.and_eq_true, Bool.not_eq_true', decide_eq_false_iff_not] at h
    omega
  · omega

theorem stepSplit_le (bs : Nat) (limit : List Nat) (all : List Sp) (s : Nat) (sp : Sp) (size f : Nat)
    (h : stepSplit bs limit all s sp size = some f) : f ≤ size := by
  unfold stepSplit at h
  simp only at h
  split at h
  · simp at h
  · split at h
    · simp at h
    · rename_i hle
      split at h
      · simp at h
      · split at h
        · simp at h
        · simp only [Option.some.injEq] at h
          have := runOf_le all s sp size
          omega

/-- on success the recorded split sizes add up to the requested parity size -/
theorem chsizeLoop_sum (bs : Nat) (limit : List Nat) (all : List Sp) (s : Nat) (l : List Sp) (size : Nat) (t : List Sp) (left : Nat)
    (h : chsizeLoop bs limit all s l size = some (t, left)) : (t.map (·.size)).sum + left = size := by
  induction l generalizing s size t left with
  | nil => simp [chsizeLoop] at h; obtain ⟨rfl, rfl⟩ := h; simp
  | cons sp rest ih =>
    simp only [chsizeLoop] at h
    split at h
    · simp at h
    · rename_i f hf
      split at h
      · simp at h
      · rename_i t' left' heq
        simp only [Option.some.injEq, Prod.mk.injEq] at h
        obtain ⟨h1t, h2l⟩ := h; subst h1t; subst h2l
        have h1 := ih (s+1) _ t' left' heq
        have h2 := stepSplit_le bs limit all s sp size f hf
        simp only [List.map_cons, List.sum_cons]
        omega

theorem chsize_sum (bs : Nat) (limit : List Nat) (sps t : List Sp) (size : Nat) (h : chsize bs limit sps size = some t) :
    (t.map (·.size)).sum = size := by
  unfold chsize at h
  split at h
  · simp at h
  · rename_i t' left heq
    split at h
    · rename_i hl
      simp only [Option.some.injEq] at h; subst h; subst hl
      simpa using chsizeLoop_sum bs limit sps 0 sps size t' 0 heq
    · simp at h

/-- only the last used split grows: a split followed by a split already in use keeps its recorded
    size whenever more than that size is requested -/
theorem fixed_split_keeps_size (bs : Nat) (limit : List Nat) (all : List Sp) (s : Nat) (sp : Sp) (size f : Nat)
    (hfix : isFixed all s = true) (hmore : sp.size < size)
    (h : stepSplit bs limit all s sp size = some f) : f = sp.size := by
  have hfx : fixedOf all s sp size = true := by
    simp [fixedOf, hfix]; omega
  unfold stepSplit at h
  simp only [hfx, runOf, if_true, Bool.true_and] at h
  split at h
  · simp at h
  · split at h
    · simp at h
    · split at h
      · simp at h
      · split at h
        · simp at h
        · simp only [Option.some.injEq] at h
          rename_i h1 h2 _
          simp only [decide_eq_true_eq] at h2
          omega

/-- non-vacuity: three splits with a 5000-byte limit and 1 KiB blocks: 4096 + 4096 + 2048 -/
example : chsize 1024 [5000, 5000, 5000] [⟨0,0⟩, ⟨0,0⟩, ⟨0,0⟩] 10240 = some [⟨4096,4096⟩, ⟨4096,4096⟩, ⟨2048,2048⟩] := by decide
example : find [4096, 4096, 2048] 5120 = some (1, 1024) := by decide

end SnapraidVerif.Props.C17
