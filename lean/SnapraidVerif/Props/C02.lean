/-
C02  Parity equals its algebraic definition in every implementation.

Byte-position models of the three implementation families (all implementations are
lane-wise, so one byte position of the stripe, `ds = [d_0, …, d_{nd-1}]`, is the whole story):
* table look-up loops (`raid_gen3..6_int8`, and `raid_gen_ref`),
* Horner loops with multiply-by-2 / divide-by-2 (`gen1/gen2/genz` int32, int64, sse2, avx2),
* PSHUFB nibble-table loops (`gen3..6` ssse3 / avx2).
Each is proved equal to the specification `dotBytes A j 0 ds = Σ_i A j i · d_i`.
The word-level bit tricks of gf.h are tied to `xtime`/`d2byte` by per-run obligations
(gen/GenGfhOk.lean), the tables by gen/GenTablesOk*.lean.
-/
import SnapraidVerif.Raid.Spec
import SnapraidVerif.Raid.Tables

namespace SnapraidVerif.Props.C02
open GF Raid

/-! ### specification facts -/

theorem genSpec_length (A : Nat → Nat → B) (np size : Nat) (data : List Block) :
    (genSpec A np size data).length = np := by simp [genSpec]

theorem bxor_length (a b : Block) : (bxor a b).length = min a.length b.length := by
  induction a generalizing b with
  | nil => simp [bxor]
  | cons x xs ih => cases b with
    | nil => simp [bxor]
    | cons y ys => simp [bxor, ih] <;> omega

theorem bxor_getD (a b : Block) (k : Nat) (ha : k < a.length) (hb : k < b.length) :
    (bxor a b).getD k 0#8 = a.getD k 0#8 ^^^ b.getD k 0#8 := by
  induction a generalizing b k with
  | nil => simp at ha
  | cons x xs ih => cases b with
    | nil => simp at hb
    | cons y ys => cases k with
      | zero => simp [bxor]
      | succ k => simp only [bxor, List.getD_cons_succ]; exact ih ys k (by simpa using ha) (by simpa using hb)

theorem genParity_length (A : Nat → Nat → B) (size j i : Nat) (data : List Block)
    (h : ∀ d ∈ data, d.length = size) : (genParity A size j i data).length = size := by
  induction data generalizing i with
  | nil => simp [genParity, bzero]
  | cons d ds ih =>
    simp only [genParity, bxor_length, bscale, List.length_map]
    rw [ih (i+1) (fun d hd => h d (List.mem_cons_of_mem _ hd)), h d (List.mem_cons_self ..)]
    simp

/-- the specification is byte-wise: byte `k` of parity `j` is `Σ_i A j i · D_i[k]` -/
theorem genParity_get (A : Nat → Nat → B) (size j i k : Nat) (data : List Block)
    (h : ∀ d ∈ data, d.length = size) (hk : k < size) :
    (genParity A size j i data).getD k 0#8 = dotBytes A j i (data.map fun d => d.getD k 0#8) := by
  induction data generalizing i with
  | nil => simp [genParity, bzero, dotBytes, List.getD_eq_getElem?_getD, hk]
  | cons d ds ih =>
    have hd : d.length = size := h d (List.mem_cons_self ..)
    have hds : ∀ d ∈ ds, d.length = size := fun d hd => h d (List.mem_cons_of_mem _ hd)
    simp only [genParity, List.map_cons, dotBytes]
    rw [bxor_getD _ _ k (by simp [bscale, hd, hk]) (by rw [genParity_length A size j (i+1) ds hds]; exact hk)]
    rw [ih (i+1) hds]
    congr 1
    simp [bscale, List.getD_eq_getElem?_getD, hd, hk]

/-! ### family 1: table look-up loops (`raid_genN_int8`) -/

/-- the `for (d = l; d > 0; --d) p ^= gfmul[d0][gfgen[j][d]]` loop: disks `i, i+1, …`
    (processed from the last one down) -/
def int8Loop (A : Nat → Nat → B) (j : Nat) : Nat → List B → B
  | _, [] => 0#8
  | i, d :: ds => int8Loop A j (i+1) ds ^^^ mul d (A j i)

/-- `raid_genN_int8`, parity `j`: loop over disks nd-1 … 1, then the first disk with coefficient 1 -/
def int8Gen (A : Nat → Nat → B) (j : Nat) : List B → B
  | [] => 0#8
  | d0 :: rest => int8Loop A j 1 rest ^^^ d0

theorem int8Loop_eq (A : Nat → Nat → B) (j i : Nat) (ds : List B) :
    int8Loop A j i ds = dotBytes A j i ds := by
  induction ds generalizing i with
  | nil => rfl
  | cons d ds ih => simp only [int8Loop, dotBytes, ih, GF.mul_comm d]; exact BitVec.xor_comm ..

theorem int8_gen_eq_spec (A : Nat → Nat → B) (j : Nat) (hA : A j 0 = 1#8) (ds : List B) :
    int8Gen A j ds = dotBytes A j 0 ds := by
  cases ds with
  | nil => rfl
  | cons d0 rest => simp only [int8Gen, dotBytes, int8Loop_eq, hA, GF.one_mul]; exact BitVec.xor_comm ..

theorem cauchy_col0 : ∀ j, j < 6 → cauchy j 0 = 1#8 := by decide +kernel
theorem power_col0 : ∀ j, j < 3 → power j 0 = 1#8 := by decide +kernel

/-! ### family 2: Horner loops (`gen1`, `gen2`, `genz`; int32/int64/sse2/avx2) -/

/-- `c^i` by repeated multiplication -/
def geo (c : B) : Nat → B
  | 0 => 1#8
  | n+1 => mul c (geo c n)

/-- `q = d_l; for d = l-1 … 0: q = f(q) ^ d_d` -/
def hornerC (f : B → B) : List B → B
  | [] => 0#8
  | [d] => d
  | d :: ds => f (hornerC f ds) ^^^ d

/-- Σ_k c^(i+k) · d_k -/
def geoSum (c : B) : Nat → List B → B
  | _, [] => 0#8
  | i, d :: ds => mul (geo c i) d ^^^ geoSum c (i+1) ds

theorem geoSum_shift (c : B) (i : Nat) (ds : List B) : geoSum c (i+1) ds = mul c (geoSum c i ds) := by
  induction ds generalizing i with
  | nil => simp [geoSum, GF.mul_zero_right]
  | cons d ds ih => simp only [geoSum, ih, GF.mul_xor_right, geo, GF.mul_assoc]

theorem hornerC_eq (c : B) (ds : List B) : hornerC (mul c) ds = geoSum c 0 ds := by
  induction ds with
  | nil => rfl
  | cons d ds ih =>
    cases ds with
    | nil => simp [hornerC, geoSum, geo, GF.one_mul]
    | cons d' ds' =>
      simp only [hornerC] at ih ⊢
      rw [ih]
      simp only [geoSum, geoSum_shift, geo, GF.one_mul, GF.mul_one, GF.mul_xor_right]
      exact BitVec.xor_comm ..

theorem pow2_eq_geo (i : Nat) : pow2 i = geo 2#8 i := by
  induction i with
  | zero => rfl
  | succ n ih => simp [pow2, geo, ih]
theorem powz_eq_geo (i : Nat) : powz i = geo 0x8e#8 i := by
  induction i with
  | zero => rfl
  | succ n ih => simp [powz, geo, ih]

theorem inv_inv : ∀ a : B, inv (inv a) = a := by
  have h : ∀ n, n < 256 → inv (inv (BitVec.ofNat 8 n)) = BitVec.ofNat 8 n := by decide +kernel
  intro a; simpa using h a.toNat a.isLt

/-- row 1 of the Cauchy generator is `2^i` (it is defined as `1/(2^-i + 0)`) -/
theorem cauchy_row1 (i : Nat) : cauchy 1 i = pow2 i := by
  simp [cauchy, rowFactor, rawCauchy, xval, yval, GF.one_mul, inv_inv]

theorem geoSum_eq_dot (c : B) (A : Nat → Nat → B) (j : Nat) (hA : ∀ i, A j i = geo c i) (i : Nat) (ds : List B) :
    geoSum c i ds = dotBytes A j i ds := by
  induction ds generalizing i with
  | nil => rfl
  | cons d ds ih => simp only [geoSum, dotBytes, ih, hA]

/-- the multiply-by-2 of gf.h, one lane -/
abbrev x2byte : B → B := xtime
/-- the divide-by-2 of gf.h, one lane: `(v >> 1) ^ (v & 1 ? 0x8e : 0)` -/
def d2byte (a : B) : B := (a >>> 1) ^^^ (if a.getLsbD 0 then 0x8e#8 else 0#8)

theorem x2byte_eq : x2byte = mul 2#8 := by funext a; exact (GF.two_mul a).symm
theorem d2byte_eq : d2byte = mul 0x8e#8 := by
  funext a
  have h : ∀ n, n < 256 → d2byte (BitVec.ofNat 8 n) = mul 0x8e#8 (BitVec.ofNat 8 n) := by decide +kernel
  simpa using h a.toNat a.isLt

/-- gen2 (Q parity) in every Horner implementation = Σ 2^i·D_i = row 1 of the Cauchy generator -/
theorem horner2_eq_spec (ds : List B) : hornerC x2byte ds = dotBytes cauchy 1 0 ds := by
  rw [x2byte_eq, hornerC_eq]
  exact geoSum_eq_dot 2#8 cauchy 1 (fun i => by rw [cauchy_row1, pow2_eq_geo]) 0 ds

/-- genz: Q = Σ 2^i·D_i and R = Σ 2^-i·D_i are rows 1 and 2 of the power generator -/
theorem hornerz_eq_spec (ds : List B) :
    hornerC x2byte ds = dotBytes power 1 0 ds ∧ hornerC d2byte ds = dotBytes power 2 0 ds := by
  constructor
  · rw [x2byte_eq, hornerC_eq]
    exact geoSum_eq_dot 2#8 power 1 (fun i => by simp [power, pow2_eq_geo]) 0 ds
  · rw [d2byte_eq, hornerC_eq]
    exact geoSum_eq_dot 0x8e#8 power 2 (fun i => by simp [power, powz_eq_geo]) 0 ds

/-- gen1 (P parity): plain xor = row 0 of both generators -/
def xorAll : List B → B
  | [] => 0#8
  | d :: ds => xorAll ds ^^^ d

theorem xorAll_eq_spec (A : Nat → Nat → B) (hA : ∀ i, A 0 i = 1#8) (i : Nat) (ds : List B) :
    xorAll ds = dotBytes A 0 i ds := by
  induction ds generalizing i with
  | nil => rfl
  | cons d ds ih => simp only [xorAll, dotBytes, hA, GF.one_mul, ← ih (i+1)]; exact BitVec.xor_comm ..

/-! ### family 3: PSHUFB nibble tables (`gen3..6` ssse3/avx2, `rec*` ssse3/avx2) -/

theorem nibble_decomp (x : B) : x = (x &&& 0x0f#8) ^^^ ((x >>> 4) <<< 4) := by
  have h : ∀ n, n < 256 → BitVec.ofNat 8 n = (BitVec.ofNat 8 n &&& 0x0f#8) ^^^ ((BitVec.ofNat 8 n >>> 4) <<< 4) := by
    decide +kernel
  simpa using h x.toNat x.isLt

/-- `pshufb(T_lo, x & 15) ^ pshufb(T_hi, x >> 4)` with `T_lo[k] = c·k`, `T_hi[k] = c·(16k)` is `c·x` -/
theorem pshufb_split (c x : B) : mul c (x &&& 0x0f#8) ^^^ mul c ((x >>> 4) <<< 4) = mul c x := by
  rw [← GF.mul_xor_right, ← nibble_decomp]

/-- one multiplication as the SIMD code does it -/
def pshufbMul (c x : B) : B := mul c (x &&& 0x0f#8) ^^^ mul c ((x >>> 4) <<< 4)

def pshufbLoop (A : Nat → Nat → B) (j : Nat) : Nat → List B → B
  | _, [] => 0#8
  | i, d :: ds => pshufbLoop A j (i+1) ds ^^^ pshufbMul (A j i) d

/-- parity `j ≥ 2` in `raid_genN_ssse3/avx2`: nd = 1 is a memcpy; else table products for
    disks nd-1 … 1 and a plain xor for disk 0 -/
def pshufbGen (A : Nat → Nat → B) (j : Nat) : List B → B
  | [] => 0#8
  | [d0] => d0
  | d0 :: rest => pshufbLoop A j 1 rest ^^^ d0

theorem pshufbLoop_eq (A : Nat → Nat → B) (j i : Nat) (ds : List B) :
    pshufbLoop A j i ds = dotBytes A j i ds := by
  induction ds generalizing i with
  | nil => rfl
  | cons d ds ih => simp only [pshufbLoop, dotBytes, ih, pshufbMul, pshufb_split]; exact BitVec.xor_comm ..

theorem pshufb_gen_eq_spec (A : Nat → Nat → B) (j : Nat) (hA : A j 0 = 1#8) (ds : List B) :
    pshufbGen A j ds = dotBytes A j 0 ds := by
  match ds with
  | [] => rfl
  | [d0] => simp [pshufbGen, dotBytes, hA, GF.one_mul]
  | d0 :: d1 :: rest =>
    simp only [pshufbGen, pshufbLoop_eq, dotBytes, hA, GF.one_mul]; exact BitVec.xor_comm ..

/-! ### linearity of the specification (why a byte basis on each disk is a complete test set
for any implementation that is itself xor-linear) -/

theorem dotBytes_xor (A : Nat → Nat → B) (j i : Nat) (xs ys : List B) (h : xs.length = ys.length) :
    dotBytes A j i (List.zipWith (· ^^^ ·) xs ys) = dotBytes A j i xs ^^^ dotBytes A j i ys := by
  induction xs generalizing ys i with
  | nil => cases ys with
    | nil => simp [dotBytes]
    | cons y ys => simp at h
  | cons x xs ih => cases ys with
    | nil => simp at h
    | cons y ys =>
      simp only [List.zipWith_cons_cons, dotBytes, GF.mul_xor_right, ih (i+1) ys (by simpa using h)]
      ac_rfl

theorem gen_linear (A : Nat → Nat → B) (j i : Nat) (xs ys : List B) (h : xs.length = ys.length) :
    dotBytes A j i (List.zipWith (· ^^^ ·) xs ys) = dotBytes A j i xs ^^^ dotBytes A j i ys :=
  dotBytes_xor A j i xs ys h

/-! ### non-vacuity: a concrete 3-disk stripe -/
example : int8Gen cauchy 2 [0x12#8, 0x34#8, 0x56#8] = dotBytes cauchy 2 0 [0x12#8, 0x34#8, 0x56#8] ∧
    dotBytes cauchy 2 0 [0x12#8, 0x34#8, 0x56#8] ≠ 0#8 := by decide +kernel

end SnapraidVerif.Props.C02
