/-
C04  Every silent corruption of synced data or parity is detected and located (stripe model).

A fully synced stripe: recorded digests `rec d` of the blocks, synced contents `D`, stored
parity `P = gen D` (C06).  What check/scrub observe: data `x`, parity `y`.
`dataErrors` = blocks whose digest differs from the recorded one; `parityErrors` = levels whose
stored block differs from the parity recomputed from the (recovered) data.
-/
namespace SnapraidVerif.Props.C04

variable {β Dg : Type} [DecidableEq β] [DecidableEq Dg] {nd np : Nat}

structure Obs (β : Type) (nd np : Nat) where
  x : Fin nd → β
  y : Fin np → β

/-- positions whose digest no longer matches the recorded one (`error:<pos>:<disk>:<file>`) -/
def dataError (H : β → Dg) (D : Fin nd → β) (o : Obs β nd np) (d : Fin nd) : Bool := H (o.x d) != H (D d)

/-- parity levels reported (`parity_error:<pos>:<level>`), given the data the command holds after
    verifying/recovering the blocks, which for ≤ np damaged blocks is the synced data `D` (C01) -/
def parityError (gen : (Fin nd → β) → Fin np → β) (D : Fin nd → β) (o : Obs β nd np) (l : Fin np) : Bool :=
  o.y l != gen D l

/-- scrub marks the stripe bad iff it saw a silent error -/
def markedBad (H : β → Dg) (gen : (Fin nd → β) → Fin np → β) (D : Fin nd → β) (o : Obs β nd np) : Bool :=
  (List.finRange nd).any (dataError H D o) || (List.finRange np).any (parityError gen D o)

/-- digest separates the synced block from what is on disk now (explicit hypothesis) -/
def HashSep (H : β → Dg) (D : Fin nd → β) (o : Obs β nd np) : Prop := ∀ d, H (o.x d) = H (D d) → o.x d = D d

/-- a changed data block is reported at its own position and disk -/
theorem detect_data (H : β → Dg) (D : Fin nd → β) (o : Obs β nd np) (hs : HashSep H D o) (d : Fin nd)
    (hchg : o.x d ≠ D d) : dataError H D o d = true := by
  simp only [dataError, bne_iff_ne, ne_eq]
  intro h; exact hchg (hs d h)

/-- … and only changed blocks are reported -/
theorem data_error_only_if_changed (H : β → Dg) (D : Fin nd → β) (o : Obs β nd np) (d : Fin nd)
    (h : dataError H D o d = true) : o.x d ≠ D d := by
  simp only [dataError, bne_iff_ne, ne_eq] at h
  intro heq; exact h (by rw [heq])

/-- a changed parity block of a synced stripe is reported with its level; unchanged levels are not -/
theorem detect_parity (gen : (Fin nd → β) → Fin np → β) (D : Fin nd → β) (P : Fin np → β) (hP : ∀ l, P l = gen D l)
    (o : Obs β nd np) (l : Fin np) : parityError gen D o l = true ↔ o.y l ≠ P l := by
  simp [parityError, hP]

/-- an undamaged synced stripe raises no error and is not marked bad -/
theorem no_false_alarm (H : β → Dg) (gen : (Fin nd → β) → Fin np → β) (D : Fin nd → β) (P : Fin np → β)
    (hP : ∀ l, P l = gen D l) : markedBad H gen D ({ x := D, y := P } : Obs β nd np) = false := by
  simp [markedBad, dataError, parityError, hP]

/-- the stripe is marked bad exactly when some block of it (data or parity) really changed -/
theorem bad_marks_exact (H : β → Dg) (gen : (Fin nd → β) → Fin np → β) (D : Fin nd → β) (P : Fin np → β)
    (hP : ∀ l, P l = gen D l) (o : Obs β nd np) (hs : HashSep H D o) :
    markedBad H gen D o = true ↔ (∃ d, o.x d ≠ D d) ∨ (∃ l, o.y l ≠ P l) := by
  simp only [markedBad, Bool.or_eq_true, List.any_eq_true, List.mem_finRange, true_and]
  constructor
  · rintro (⟨d, hd⟩ | ⟨l, hl⟩)
    · exact Or.inl ⟨d, data_error_only_if_changed H D o d hd⟩
    · exact Or.inr ⟨l, (detect_parity gen D P hP o l).mp hl⟩
  · rintro (⟨d, hd⟩ | ⟨l, hl⟩)
    · exact Or.inl ⟨d, detect_data H D o hs d hd⟩
    · exact Or.inr ⟨l, (detect_parity gen D P hP o l).mpr hl⟩

/-- non-vacuity -/
example : markedBad (fun b : Nat => b % 256) (fun (d : Fin 2 → Nat) (_ : Fin 1) => d 0 + d 1) (fun _ => 5)
    ({ x := fun d => if d = 0 then 6 else 5, y := fun _ => 10 } : Obs Nat 2 1) = true := by decide

end SnapraidVerif.Props.C04
