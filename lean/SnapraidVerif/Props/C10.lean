/-
C10  Saving and reloading the array state is lossless: round-trip theorems of the codec.
Primitive fields are in Codec/Varint.lean (`b32_roundtrip`, `b64_roundtrip`, `str_roundtrip`,
`le32_roundtrip`, `raw_roundtrip`).  Here: every record kind (`rec_roundtrip`), lists of records and the whole
file with its CRC (`content_roundtrip`): parse (serialise state) = state for every well-formed state.
-/
import SnapraidVerif.Codec.Content
namespace SnapraidVerif.Props.C10
open Codec

/-- `n` hashes of the configured size are read back exactly -/
theorem hashes_roundtrip (hs : Nat) (l : List Bytes) (rest : Bytes) (h : ∀ x ∈ l, x.length = hs) :
    getHashes hs l.length (l.flatten ++ rest) = some (l, rest) := by
  induction l with
  | nil => simp [getHashes]
  | cons x xs ih =>
    have hx : x.length = hs := h x (List.mem_cons_self ..)
    simp only [List.length_cons, getHashes, List.flatten_cons, List.append_assoc]
    rw [← hx, raw_roundtrip]
    simp only
    rw [hx, ih (fun y hy => h y (List.mem_cons_of_mem _ hy))]

def runWF (ctx : Ctx) (blocks idx : Nat) (r : Run) : Prop :=
  r.pos < 2^32 ∧ r.count < 2^32 ∧ idx + r.count ≤ blocks ∧ r.pos + r.count ≤ ctx.blockMax ∧
  r.kind ≠ .new ∧ r.hashes.length = r.count ∧ (∀ x ∈ r.hashes, x.length = ctx.hashSize) ∧ idx < blocks

theorem kindOf_kindChar (k : BlkKind) : kindOf (kindChar k) = some k := by
  cases k <;> decide

/-- one block run of a file record is read back exactly and the reader continues after it -/
theorem run_roundtrip (ctx : Ctx) (blocks fuel idx : Nat) (r : Run) (rest : Bytes) (h : runWF ctx blocks idx r) :
    getRuns ctx blocks (fuel+1) idx (serRun r ++ rest) =
      match getRuns ctx blocks fuel (idx + r.count) rest with
      | none => none
      | some (t, r') => some (r :: t, r') := by
  obtain ⟨hp, hc, hidx, hpos, hk, hlen, hh, hlt⟩ := h
  conv => lhs; unfold getRuns
  unfold serRun
  rw [if_neg (by omega)]
  simp only [List.singleton_append, List.cons_append, List.append_assoc, List.nil_append]
  rw [b32_roundtrip _ _ hp]
  simp only
  rw [b32_roundtrip _ _ hc]
  simp only
  rw [if_neg (by omega), if_neg (by omega), kindOf_kindChar]
  simp only [hk, if_false]
  rw [← hlen, hashes_roundtrip ctx.hashSize r.hashes rest hh]
  simp only [hlen]
  cases r
  rfl

/-- the simple records (sizes, hash kind + seed, directory, links) are read back exactly -/
theorem simple_records_roundtrip (ctx : Ctx) (crc : W) (rest : Bytes) :
    (∀ v, 0 < v → v < 2^32 → getRec ctx crc (serRec (.blockSize v) ++ rest) = some (.blockSize v, { ctx with blockSize := v }, rest)) ∧
    (∀ v, v < 2^32 → getRec ctx crc (serRec (.blockMax v) ++ rest) = some (.blockMax v, { ctx with blockMax := v }, rest)) ∧
    (∀ v, 2 ≤ v → v ≤ 16 → getRec ctx crc (serRec (.hashSize v) ++ rest) = some (.hashSize v, { ctx with hashSize := v }, rest)) ∧
    (∀ m sub, m < ctx.mappingMax → m < 2^32 → sub ≠ [] → sub.length + 1 ≤ PATH_MAX →
        getRec ctx crc (serRec (.dir m sub) ++ rest) = some (.dir m sub, ctx, rest)) := by
  refine ⟨?_, ?_, ?_, ?_⟩
  · intro v h0 hv
    simp only [serRec, List.singleton_append, List.cons_append, List.nil_append, getRec]
    simp only [show (ch 'z' = ch 'f') = False from by decide, show (ch 'z' = ch 'i') = False from by decide,
      show (ch 'z' = ch 'h') = False from by decide, show (ch 'z' = ch 's') = False from by decide,
      show (ch 'z' = ch 'a') = False from by decide, show (ch 'z' = ch 'r') = False from by decide,
      show (ch 'z' = ch 'c') = False from by decide, show (ch 'z' = ch 'C') = False from by decide,
      if_false, or_self, if_true]
    rw [b32_roundtrip _ _ hv]
    simp only
    rw [if_neg (by omega)]
  · intro v hv
    simp only [serRec, List.singleton_append, List.cons_append, List.nil_append, getRec]
    simp only [show (ch 'x' = ch 'f') = False from by decide, show (ch 'x' = ch 'i') = False from by decide,
      show (ch 'x' = ch 'h') = False from by decide, show (ch 'x' = ch 's') = False from by decide,
      show (ch 'x' = ch 'a') = False from by decide, show (ch 'x' = ch 'r') = False from by decide,
      show (ch 'x' = ch 'c') = False from by decide, show (ch 'x' = ch 'C') = False from by decide,
      show (ch 'x' = ch 'z') = False from by decide, show (ch 'x' = ch 'y') = False from by decide,
      if_false, or_self, if_true]
    rw [b32_roundtrip _ _ hv]
  · intro v h2 h16
    simp only [serRec, List.singleton_append, List.cons_append, List.nil_append, getRec]
    simp only [show (ch 'y' = ch 'f') = False from by decide, show (ch 'y' = ch 'i') = False from by decide,
      show (ch 'y' = ch 'h') = False from by decide, show (ch 'y' = ch 's') = False from by decide,
      show (ch 'y' = ch 'a') = False from by decide, show (ch 'y' = ch 'r') = False from by decide,
      show (ch 'y' = ch 'c') = False from by decide, show (ch 'y' = ch 'C') = False from by decide,
      show (ch 'y' = ch 'z') = False from by decide,
      if_false, or_self, if_true]
    rw [b32_roundtrip _ _ (by omega)]
    have hn : ¬ (v < 2 ∨ v > HASH_MAX) := by unfold HASH_MAX; omega
    simp only
    rw [if_neg hn]
  · intro m sub hm hm32 hne hlen
    simp only [serRec, List.singleton_append, List.cons_append, List.append_assoc, List.nil_append, getRec]
    simp only [show (ch 'r' = ch 'f') = False from by decide, show (ch 'r' = ch 'i') = False from by decide,
      show (ch 'r' = ch 'h') = False from by decide, show (ch 'r' = ch 's') = False from by decide,
      show (ch 'r' = ch 'a') = False from by decide, if_false, or_self, if_true]
    rw [b32_roundtrip _ _ hm32]
    simp only
    rw [if_neg (by omega)]
    rw [str_roundtrip PATH_MAX sub rest hlen (by unfold PATH_MAX at hlen; omega)]
    simp only
    have : sub.isEmpty = false := by cases sub <;> simp_all
    simp [this]

/-- a list of runs that covers the blocks `idx .. blocks` of a file -/
def RunsWF (ctx : Ctx) (blocks : Nat) : Nat → List Run → Prop
  | idx, [] => blocks ≤ idx
  | idx, r :: rs => runWF ctx blocks idx r ∧ RunsWF ctx blocks (idx + r.count) rs

theorem runs_roundtrip (ctx : Ctx) (blocks : Nat) (runs : List Run) (idx fuel : Nat) (rest : Bytes)
    (h : RunsWF ctx blocks idx runs) (hf : runs.length < fuel) :
    getRuns ctx blocks fuel idx ((runs.map serRun).flatten ++ rest) = some (runs, rest) := by
  induction runs generalizing idx fuel with
  | nil =>
    cases fuel with
    | zero => omega
    | succ f =>
      simp only [List.map_nil, List.flatten_nil, List.nil_append]
      unfold getRuns
      have h' : idx ≥ blocks := h
      rw [if_pos h']
  | cons r rs ih =>
    cases fuel with
    | zero => omega
    | succ f =>
      simp only [List.map_cons, List.flatten_cons, List.append_assoc]
      rw [run_roundtrip ctx blocks f idx r _ h.1]
      rw [ih (idx + r.count) f h.2 (by simpa using hf)]

theorem serRun_length_pos (r : Run) : 0 < (serRun r).length := by
  simp [serRun]

theorem runs_ser_length (runs : List Run) : runs.length ≤ ((runs.map serRun).flatten).length := by
  induction runs with
  | nil => simp
  | cons r rs ih =>
    have := serRun_length_pos r
    simp only [List.map_cons, List.flatten_cons, List.length_append, List.length_cons]
    omega

/-- resolves the record dispatch `if c = ch 'f' then … else if c = ch 'i' …` on a concrete tag -/
macro "dispatch" : tactic => `(tactic| repeat (first | rw [if_pos (by decide)] | rw [if_neg (by decide)]))

/-- a file record with all its block runs is read back exactly -/
theorem file_record_roundtrip (ctx : Ctx) (crc : W) (rest : Bytes)
    (m size sec nsec inode : Nat) (sub : Bytes) (runs : List Run)
    (hm : m < ctx.mappingMax) (hm32 : m < 2^32) (hsize : size < 2^64) (hbs : ctx.blockSize ≠ 0)
    (hmax : size / ctx.blockSize ≤ ctx.blockMax) (hsec : sec < 2^64) (hnsec : nsec < 2^32) (hino : inode < 2^64)
    (hsub : sub ≠ []) (hlen : sub.length + 1 ≤ PATH_MAX)
    (hruns : RunsWF ctx (fileBlocks size ctx.blockSize) 0 runs) :
    getRec ctx crc (serRec (.file m size sec nsec inode sub runs) ++ rest) = some (.file m size sec nsec inode sub runs, ctx, rest) := by
  simp only [serRec, List.singleton_append, List.cons_append, List.append_assoc, List.nil_append, getRec]
  dispatch
  rw [b32_roundtrip _ _ hm32]; simp only
  rw [if_neg (by omega)]
  rw [b64_roundtrip _ _ hsize]; simp only
  rw [if_neg hbs, if_neg (by omega)]
  rw [b64_roundtrip _ _ hsec]; simp only
  rw [b32_roundtrip _ _ hnsec]; simp only
  rw [b64_roundtrip _ _ hino]; simp only
  rw [str_roundtrip PATH_MAX sub _ hlen (by unfold PATH_MAX at hlen; omega)]; simp only
  have hne : sub.isEmpty = false := by cases sub <;> simp_all
  simp only [hne, Bool.false_eq_true, if_false]
  rw [runs_roundtrip ctx _ runs 0 _ rest hruns (by
    have := runs_ser_length runs
    simp only [List.length_append]; omega)]

/-! ### hole ('h') and info ('i') records -/

def holeCount : HoleRun → Nat
  | .deleted hs => hs.length
  | .skip n => n

def HoleWF (ctx : Ctx) : Nat → List HoleRun → Prop
  | pos, [] => ctx.blockMax ≤ pos
  | pos, r :: rs => pos < ctx.blockMax ∧ holeCount r < 2^32 ∧ pos + holeCount r ≤ ctx.blockMax ∧
      (match r with | .deleted hs => ∀ x ∈ hs, x.length = ctx.hashSize | .skip _ => True) ∧ HoleWF ctx (pos + holeCount r) rs

theorem hole_runs_roundtrip (ctx : Ctx) (runs : List HoleRun) (pos fuel : Nat) (rest : Bytes)
    (h : HoleWF ctx pos runs) (hf : runs.length < fuel) :
    getHoleRuns ctx fuel pos ((runs.map serHoleRun).flatten ++ rest) = some (runs, rest) := by
  induction runs generalizing pos fuel with
  | nil =>
    cases fuel with
    | zero => omega
    | succ f =>
      simp only [List.map_nil, List.flatten_nil, List.nil_append]
      unfold getHoleRuns
      have h' : pos ≥ ctx.blockMax := h
      rw [if_pos h']
  | cons r rs ih =>
    cases fuel with
    | zero => omega
    | succ f =>
      obtain ⟨hlt, hc32, hle, hh, htail⟩ := h
      simp only [List.map_cons, List.flatten_cons, List.append_assoc]
      unfold getHoleRuns
      rw [if_neg (by omega)]
      cases r with
      | deleted hs =>
        simp only [serHoleRun, holeCount, List.append_assoc, List.singleton_append] at *
        rw [b32_roundtrip _ _ hc32]; simp only
        rw [if_neg (by omega)]
        simp only [List.cons_append, List.nil_append, if_true]
        rw [hashes_roundtrip ctx.hashSize hs _ hh]; simp only
        rw [ih _ f htail (by simpa using hf)]
      | skip n =>
        simp only [serHoleRun, holeCount, List.append_assoc, List.singleton_append] at *
        rw [b32_roundtrip _ _ hc32]; simp only
        rw [if_neg (by omega)]
        try simp only [List.cons_append, List.nil_append]
        rw [if_neg (by decide)]
        first | rw [if_pos rfl] | simp only [if_true]
        rw [ih _ f htail (by simpa using hf)]

theorem serHoleRun_length_pos (r : HoleRun) : 0 < (serHoleRun r).length := by
  cases r <;> simp [serHoleRun] <;> omega

theorem hole_ser_length (runs : List HoleRun) : runs.length ≤ ((runs.map serHoleRun).flatten).length := by
  induction runs with
  | nil => simp
  | cons r rs ih =>
    have := serHoleRun_length_pos r
    simp only [List.map_cons, List.flatten_cons, List.length_append, List.length_cons]
    omega

/-- the record of the DELETED blocks (with their hashes) and holes of a disk is read back exactly -/
theorem hole_record_roundtrip (ctx : Ctx) (crc : W) (rest : Bytes) (m : Nat) (runs : List HoleRun)
    (hm : m < ctx.mappingMax) (hm32 : m < 2^32) (hruns : HoleWF ctx 0 runs) :
    getRec ctx crc (serRec (.hole m runs) ++ rest) = some (.hole m runs, ctx, rest) := by
  simp only [serRec, List.cons_append, List.append_assoc, List.nil_append, getRec]
  dispatch
  rw [b32_roundtrip _ _ hm32]; simp only
  rw [if_neg (by omega)]
  rw [hole_runs_roundtrip ctx runs 0 _ rest hruns (by
    have := hole_ser_length runs
    simp only [List.length_append]; omega)]

def InfoWF (ctx : Ctx) : Nat → List InfoRun → Prop
  | pos, [] => ctx.blockMax ≤ pos
  | pos, r :: rs => pos < ctx.blockMax ∧ r.count < 2^32 ∧ r.flag < 2^32 ∧ pos + r.count ≤ ctx.blockMax ∧
      (if r.flag % 2 = 1 then r.time < 2^32 else r.time = 0) ∧ InfoWF ctx (pos + r.count) rs

theorem info_runs_roundtrip (ctx : Ctx) (runs : List InfoRun) (pos fuel : Nat) (rest : Bytes)
    (h : InfoWF ctx pos runs) (hf : runs.length < fuel) :
    getInfoRuns ctx fuel pos ((runs.map serInfoRun).flatten ++ rest) = some (runs, rest) := by
  induction runs generalizing pos fuel with
  | nil =>
    cases fuel with
    | zero => omega
    | succ f =>
      simp only [List.map_nil, List.flatten_nil, List.nil_append]
      unfold getInfoRuns
      have h' : pos ≥ ctx.blockMax := h
      rw [if_pos h']
  | cons r rs ih =>
    cases fuel with
    | zero => omega
    | succ f =>
      obtain ⟨hlt, hc32, hf32, hle, ht, htail⟩ := h
      simp only [List.map_cons, List.flatten_cons, List.append_assoc]
      unfold getInfoRuns
      rw [if_neg (by omega)]
      simp only [serInfoRun, List.append_assoc]
      rw [b32_roundtrip _ _ hc32]; simp only
      rw [if_neg (by omega)]
      rw [b32_roundtrip _ _ hf32]; simp only
      by_cases hodd : r.flag % 2 = 1
      · rw [if_pos hodd] at ht
        simp only [hodd, if_true]
        rw [b32_roundtrip _ _ ht]; simp only
        rw [ih _ f htail (by simpa using hf)]
      · rw [if_neg hodd] at ht
        simp only [hodd, if_false, List.nil_append]
        rw [ih _ f htail (by simpa using hf)]
        cases r; simp only at ht; subst ht; rfl

theorem serInfoRun_length_pos (r : InfoRun) : 0 < (serInfoRun r).length := by
  have : 0 < (putVar r.count).length := by
    unfold putVar; split <;> simp
  simp only [serInfoRun, List.length_append]; omega

theorem info_ser_length (runs : List InfoRun) : runs.length ≤ ((runs.map serInfoRun).flatten).length := by
  induction runs with
  | nil => simp
  | cons r rs ih =>
    have := serInfoRun_length_pos r
    simp only [List.map_cons, List.flatten_cons, List.length_append, List.length_cons]
    omega

/-- the per-stripe info record (scrub time, bad, rehash, just-synced) is read back exactly -/
theorem info_record_roundtrip (ctx : Ctx) (crc : W) (rest : Bytes) (oldest : Nat) (runs : List InfoRun)
    (ho : oldest < 2^32) (hruns : InfoWF ctx 0 runs) :
    getRec ctx crc (serRec (.info oldest runs) ++ rest) = some (.info oldest runs, ctx, rest) := by
  simp only [serRec, List.cons_append, List.append_assoc, List.nil_append, getRec]
  dispatch
  rw [b32_roundtrip _ _ ho]; simp only
  rw [info_runs_roundtrip ctx runs 0 _ rest hruns (by
    have := info_ser_length runs
    simp only [List.length_append]; omega)]

/-! ### disk mapping, parity, link and hash records -/

theorem str_rt (size : Nat) (x rest : Bytes) (h : x.length + 1 ≤ size) (hs : size ≤ 2^32) :
    getStr size (putStr x ++ rest) = some (x, rest) := str_roundtrip size x rest h (by omega)

theorem map_record_roundtrip (ctx : Ctx) (crc : W) (rest : Bytes) (name uuid : Bytes) (pos total free : Nat)
    (hn : name.length + 1 ≤ PATH_MAX) (hu : uuid.length + 1 ≤ UUID_MAX)
    (hp : pos < 2^32) (ht : total < 2^32) (hfr : free < 2^32) :
    getRec ctx crc (serRec (.map false name pos total free uuid) ++ rest)
      = some (.map false name pos total free uuid, { ctx with mappingMax := ctx.mappingMax + 1 }, rest) := by
  simp only [serRec, Bool.false_eq_true, if_false, List.cons_append, List.append_assoc, List.nil_append, getRec]
  dispatch
  rw [str_rt PATH_MAX name _ hn (by decide)]; simp only
  rw [b32_roundtrip _ _ hp]; simp only
  dispatch
  rw [b32_roundtrip _ _ ht]; simp only
  rw [b32_roundtrip _ _ hfr]; simp only
  rw [str_rt UUID_MAX uuid _ hu (by decide)]

theorem parityP_record_roundtrip (ctx : Ctx) (crc : W) (rest : Bytes) (lev total free : Nat) (uuid : Bytes)
    (hl : lev < LEV_MAX) (ht : total < 2^32) (hfr : free < 2^32) (hu : uuid.length + 1 ≤ UUID_MAX) :
    getRec ctx crc (serRec (.parityP lev total free uuid) ++ rest) = some (.parityP lev total free uuid, ctx, rest) := by
  simp only [serRec, List.cons_append, List.append_assoc, List.nil_append, getRec]
  dispatch
  rw [b32_roundtrip _ _ (by unfold LEV_MAX at hl; omega)]; simp only
  rw [b32_roundtrip _ _ ht]; simp only
  rw [b32_roundtrip _ _ hfr]; simp only
  rw [str_rt UUID_MAX uuid _ hu (by decide)]; simp only
  rw [if_neg (by omega)]

def SplitWF (sp : Split) : Prop := sp.path.length + 1 ≤ PATH_MAX ∧ sp.uuid.length + 1 ≤ UUID_MAX ∧ sp.size < 2^64

theorem splits_roundtrip (sps : List Split) (rest : Bytes) (h : ∀ x ∈ sps, SplitWF x) :
    getSplits sps.length ((sps.map serSplit).flatten ++ rest) = some (sps, rest) := by
  induction sps with
  | nil => simp [getSplits]
  | cons x xs ih =>
    obtain ⟨h1, h2, h3⟩ := h x (List.mem_cons_self ..)
    simp only [List.length_cons, getSplits, List.map_cons, List.flatten_cons, serSplit, List.append_assoc]
    rw [str_rt PATH_MAX x.path _ h1 (by decide)]; simp only
    rw [str_rt UUID_MAX x.uuid _ h2 (by decide)]; simp only
    rw [b64_roundtrip _ _ h3]; simp only
    rw [ih (fun y hy => h y (List.mem_cons_of_mem _ hy))]

theorem serSplit_length_pos (x : Split) : 0 < (serSplit x).length := by
  have : 0 < (putVar x.path.length).length := by unfold putVar; split <;> simp
  simp only [serSplit, putStr, List.length_append]; omega

theorem splits_ser_length (sps : List Split) : sps.length ≤ ((sps.map serSplit).flatten).length := by
  induction sps with
  | nil => simp
  | cons r rs ih =>
    have := serSplit_length_pos r
    simp only [List.map_cons, List.flatten_cons, List.length_append, List.length_cons]
    omega

theorem parityQ_record_roundtrip (ctx : Ctx) (crc : W) (rest : Bytes) (lev total free : Nat) (sps : List Split)
    (hl : lev < LEV_MAX) (ht : total < 2^32) (hfr : free < 2^32) (hn : sps.length < 2^32) (hs : ∀ x ∈ sps, SplitWF x) :
    getRec ctx crc (serRec (.parityQ lev total free sps) ++ rest) = some (.parityQ lev total free sps, ctx, rest) := by
  simp only [serRec, List.cons_append, List.append_assoc, List.nil_append, getRec]
  dispatch
  rw [b32_roundtrip _ _ (by unfold LEV_MAX at hl; omega)]; simp only
  rw [b32_roundtrip _ _ ht]; simp only
  rw [b32_roundtrip _ _ hfr]; simp only
  rw [b32_roundtrip _ _ hn]; simp only
  rw [if_neg (by omega)]
  rw [if_neg (by have := splits_ser_length sps; simp only [List.length_append]; omega)]
  rw [splits_roundtrip sps rest hs]

theorem symlink_record_roundtrip (ctx : Ctx) (crc : W) (rest : Bytes) (m : Nat) (sub lt : Bytes)
    (hm : m < ctx.mappingMax) (hm32 : m < 2^32) (hsub : sub ≠ []) (hl1 : sub.length + 1 ≤ PATH_MAX) (hl2 : lt.length + 1 ≤ PATH_MAX) :
    getRec ctx crc (serRec (.symlink m sub lt) ++ rest) = some (.symlink m sub lt, ctx, rest) := by
  simp only [serRec, List.cons_append, List.append_assoc, List.nil_append, getRec]
  dispatch
  rw [b32_roundtrip _ _ hm32]; simp only
  rw [if_neg (by omega)]
  rw [str_rt PATH_MAX sub _ hl1 (by decide)]; simp only
  have hne : sub.isEmpty = false := by cases sub <;> simp_all
  simp only [hne, Bool.false_eq_true, if_false]
  rw [str_rt PATH_MAX lt _ hl2 (by decide)]; simp only
  dispatch

theorem hardlink_record_roundtrip (ctx : Ctx) (crc : W) (rest : Bytes) (m : Nat) (sub lt : Bytes)
    (hm : m < ctx.mappingMax) (hm32 : m < 2^32) (hsub : sub ≠ []) (hlt : lt ≠ [])
    (hl1 : sub.length + 1 ≤ PATH_MAX) (hl2 : lt.length + 1 ≤ PATH_MAX) :
    getRec ctx crc (serRec (.hardlink m sub lt) ++ rest) = some (.hardlink m sub lt, ctx, rest) := by
  simp only [serRec, List.cons_append, List.append_assoc, List.nil_append, getRec]
  dispatch
  rw [b32_roundtrip _ _ hm32]; simp only
  rw [if_neg (by omega)]
  rw [str_rt PATH_MAX sub _ hl1 (by decide)]; simp only
  have hne : sub.isEmpty = false := by cases sub <;> simp_all
  simp only [hne, Bool.false_eq_true, if_false]
  rw [str_rt PATH_MAX lt _ hl2 (by decide)]; simp only
  dispatch
  have hne2 : lt.isEmpty = false := by cases lt <;> simp_all
  simp only [hne2, Bool.false_eq_true, if_false]

theorem hash_record_roundtrip (ctx : Ctx) (crc : W) (rest : Bytes) (k : UInt8) (seed : Bytes)
    (hk : hashKindOk k = true) (hs : seed.length = HASH_MAX) :
    getRec ctx crc (serRec (.hash k seed) ++ rest) = some (.hash k seed, ctx, rest) ∧
    getRec ctx crc (serRec (.prevHash k seed) ++ rest) = some (.prevHash k seed, ctx, rest) := by
  constructor
  · simp only [serRec, List.cons_append, List.append_assoc, List.nil_append, getRec]
    dispatch
    simp only [hk, Bool.not_true, Bool.false_eq_true, if_false]
    rw [← hs, raw_roundtrip]; simp only
    dispatch
  · simp only [serRec, List.cons_append, List.append_assoc, List.nil_append, getRec]
    dispatch
    simp only [hk, Bool.not_true, Bool.false_eq_true, if_false]
    rw [← hs, raw_roundtrip]; simp only
    dispatch

/-- the trailing CRC record is accepted exactly when it carries the CRC of everything before it -/
theorem crc_record_roundtrip (ctx : Ctx) (crc : W) (rest : Bytes) :
    getRec ctx crc (serRec (.crc crc.toNat) ++ rest) = some (.crc crc.toNat, ctx, rest) := by
  simp only [serRec, List.cons_append, List.append_assoc, List.nil_append, getRec]
  dispatch
  rw [le32_roundtrip _ _ (by have := crc.isLt; simpa using this)]; simp only
  simp only [if_true]

theorem crc_record_rejects (ctx : Ctx) (crc : W) (v : Nat) (rest : Bytes) (hv : v < 2^32) (hne : v ≠ crc.toNat) :
    getRec ctx crc (serRec (.crc v) ++ rest) = none := by
  simp only [serRec, List.cons_append, List.append_assoc, List.nil_append, getRec]
  dispatch
  rw [le32_roundtrip _ _ hv]; simp only
  rw [if_neg hne]

/-! ### a whole list of records, and a whole file -/

/-- the records `rs`, read from context `ctx` with running CRC `crc`, each round-trip (the hypotheses
    are exactly the conclusions of the per-record theorems above) and leave the context `ctx'` -/
def RecsOk : Ctx → W → List Rec → Ctx → Prop
  | ctx, _, [], ctx' => ctx' = ctx
  | ctx, crc, r :: rs, ctx' => ∃ c body ctx1, serRec r = c :: body ∧
      (∀ rest, getRec ctx (crc32c crc [c]) (serRec r ++ rest) = some (r, ctx1, rest)) ∧
      RecsOk ctx1 (crc32c crc (serRec r)) rs ctx'

theorem recs_roundtrip (rs : List Rec) (ctx ctx' : Ctx) (crc : W) (fuel : Nat)
    (h : RecsOk ctx crc rs ctx') (hf : rs.length < fuel) :
    getRecs ctx crc fuel (serBody rs) = some (rs, ctx') := by
  induction rs generalizing ctx crc fuel with
  | nil =>
    cases fuel with
    | zero => omega
    | succ f => simp only [RecsOk] at h; subst h; simp [serBody, getRecs]
  | cons r rs ih =>
    cases fuel with
    | zero => omega
    | succ f =>
      obtain ⟨c, body, ctx1, hser, hget, htail⟩ := h
      have hbody : serBody (r :: rs) = serRec r ++ serBody rs := by simp [serBody]
      rw [hbody]
      unfold getRecs
      have hcons : serRec r ++ serBody rs = c :: (body ++ serBody rs) := by rw [hser]; rfl
      rw [hcons]
      simp only
      rw [← hcons, hget (serBody rs)]
      simp only
      have hadv : advCrc crc (serRec r ++ serBody rs) (serBody rs) = crc32c crc (serRec r) := by
        unfold advCrc
        congr 1
        simp
      rw [hadv, ih ctx1 (crc32c crc (serRec r)) f htail (by simpa using hf)]

theorem serBody_cons (r : Rec) (rs : List Rec) : serBody (r :: rs) = serRec r ++ serBody rs := by simp [serBody]
theorem serBody_append (a b : List Rec) : serBody (a ++ b) = serBody a ++ serBody b := by simp [serBody]
theorem serBody_single (r : Rec) : serBody [r] = serRec r := by simp [serBody]

theorem RecsOk_append_crc (rs : List Rec) (ctx ctx' : Ctx) (crc : W) (h : RecsOk ctx crc rs ctx') :
    RecsOk ctx crc (rs ++ [.crc (crc32c crc (serBody rs ++ [ch 'N'])).toNat]) ctx' := by
  induction rs generalizing ctx crc with
  | nil =>
    simp only [RecsOk] at h; subst h
    refine ⟨ch 'N', putLe32 _, ctx', rfl, ?_, rfl⟩
    intro rest
    simpa [serBody] using crc_record_roundtrip ctx' (crc32c crc [ch 'N']) rest
  | cons r rs ih =>
    obtain ⟨c, body, ctx1, hser, hget, htail⟩ := h
    refine ⟨c, body, ctx1, hser, hget, ?_⟩
    have := ih ctx1 (crc32c crc (serRec r)) htail
    have e : crc32c (crc32c crc (serRec r)) (serBody rs ++ [ch 'N']) = crc32c crc (serBody (r :: rs) ++ [ch 'N']) := by
      rw [crc32c_append, serBody_cons, List.append_assoc]
    rw [e] at this
    exact this

theorem magic_length : "SNAPCNT".toList.length = 7 := by decide
theorem header_length (v : Nat) : (header v).length = 12 := by
  unfold header
  rw [List.length_append, List.length_map, magic_length]
  rfl

theorem serRec_length_pos (r : Rec) : 0 < (serRec r).length := by
  cases r <;> simp [serRec]
  split <;> simp

theorem serBody_length (rs : List Rec) : rs.length ≤ (serBody rs).length := by
  induction rs with
  | nil => simp [serBody]
  | cons r rs ih =>
    have := serRec_length_pos r
    rw [serBody_cons]; simp only [List.length_append, List.length_cons]; omega

theorem hasCrc_append_crc (rs : List Rec) (c : Nat) : hasCrc (rs ++ [.crc c]) = true := by
  induction rs with
  | nil => rfl
  | cons r rs ih => cases r <;> simp [hasCrc, ih]

/-- **whole-file round trip**: a content file written from records that individually satisfy the
    format's range conditions is parsed back to exactly those records (plus its CRC record) -/
theorem file_roundtrip (v bs0 : Nat) (hv : v = 1 ∨ v = 2 ∨ v = 3) (rs : List Rec) (ctx' : Ctx)
    (h : RecsOk { blockSize := bs0 } (crc32c 0 (header v)) rs ctx') :
    ∃ c, parse bs0 (serFile v rs) = some { version := v, recs := rs ++ [.crc c], ctx := ctx' } := by
  refine ⟨(crc32c (crc32c 0 (header v)) (serBody rs ++ [ch 'N'])).toNat, ?_⟩
  have hok := RecsOk_append_crc rs _ ctx' _ h
  generalize hC : (crc32c (crc32c 0 (header v)) (serBody rs ++ [ch 'N'])).toNat = C at hok ⊢
  have hfile : serFile v rs = header v ++ serBody (rs ++ [.crc C]) := by
    rw [serBody_append, serBody_single]
    show (header v ++ serBody rs ++ [ch 'N']) ++ putLe32 (crc32c 0 (header v ++ serBody rs ++ [ch 'N'])).toNat = _
    have e : (crc32c 0 (header v ++ serBody rs ++ [ch 'N'])).toNat = C := by
      rw [← hC, crc32c_append, List.append_assoc]
    rw [e]
    simp [serRec, List.append_assoc]
  unfold parse
  rw [hfile]
  have hlen : ¬ (header v ++ serBody (rs ++ [.crc C])).length < 12 := by
    simp only [List.length_append, header_length]; omega
  rw [if_neg hlen]
  have htake : (header v ++ serBody (rs ++ [.crc C])).take 12 = header v := by
    rw [← header_length v, List.take_left]
  have hdrop : (header v ++ serBody (rs ++ [.crc C])).drop 12 = serBody (rs ++ [.crc C]) := by
    rw [← header_length v, List.drop_left]
  simp only [htake, hdrop]
  have hver : (if header v = header 1 then some 1 else if header v = header 2 then some 2 else if header v = header 3 then some 3 else none) = some v := by
    rcases hv with rfl | rfl | rfl <;> decide
  rw [hver]
  simp only
  rw [recs_roundtrip _ _ ctx' _ _ hok (by have := serBody_length (rs ++ [Rec.crc C]); omega)]
  simp only [hasCrc_append_crc, if_true]

/-! ### one explicit well-formedness predicate for everything the writer emits -/

/-- range conditions of one record in reader context `ctx` (what `state_write` guarantees by
    construction: counters fit their field, names are non-empty and shorter than PATH_MAX, block runs
    cover the file, positions are inside blockmax, hashes have the configured size) -/
def recWF (ctx : Ctx) : Rec → Prop
  | .blockSize v => 0 < v ∧ v < 2^32
  | .blockMax v => v < 2^32
  | .hashSize v => 2 ≤ v ∧ v ≤ 16
  | .hash k seed => hashKindOk k = true ∧ seed.length = HASH_MAX
  | .prevHash k seed => hashKindOk k = true ∧ seed.length = HASH_MAX
  | .map legacy name pos total free uuid => legacy = false ∧ name.length + 1 ≤ PATH_MAX ∧ uuid.length + 1 ≤ UUID_MAX ∧
      pos < 2^32 ∧ total < 2^32 ∧ free < 2^32
  | .parityP lev total free uuid => lev < LEV_MAX ∧ total < 2^32 ∧ free < 2^32 ∧ uuid.length + 1 ≤ UUID_MAX
  | .parityQ lev total free sps => lev < LEV_MAX ∧ total < 2^32 ∧ free < 2^32 ∧ sps.length < 2^32 ∧ ∀ x ∈ sps, SplitWF x
  | .file m size sec nsec inode sub runs => m < ctx.mappingMax ∧ m < 2^32 ∧ size < 2^64 ∧ ctx.blockSize ≠ 0 ∧
      size / ctx.blockSize ≤ ctx.blockMax ∧ sec < 2^64 ∧ nsec < 2^32 ∧ inode < 2^64 ∧ sub ≠ [] ∧ sub.length + 1 ≤ PATH_MAX ∧
      RunsWF ctx (fileBlocks size ctx.blockSize) 0 runs
  | .symlink m sub lt => m < ctx.mappingMax ∧ m < 2^32 ∧ sub ≠ [] ∧ sub.length + 1 ≤ PATH_MAX ∧ lt.length + 1 ≤ PATH_MAX
  | .hardlink m sub lt => m < ctx.mappingMax ∧ m < 2^32 ∧ sub ≠ [] ∧ lt ≠ [] ∧ sub.length + 1 ≤ PATH_MAX ∧ lt.length + 1 ≤ PATH_MAX
  | .dir m sub => m < ctx.mappingMax ∧ m < 2^32 ∧ sub ≠ [] ∧ sub.length + 1 ≤ PATH_MAX
  | .hole m runs => m < ctx.mappingMax ∧ m < 2^32 ∧ HoleWF ctx 0 runs
  | .info oldest runs => oldest < 2^32 ∧ InfoWF ctx 0 runs
  | .crc _ => False      -- the CRC record is appended by the writer, not part of the state

/-- the reader context after the record -/
def recCtx (ctx : Ctx) : Rec → Ctx
  | .blockSize v => { ctx with blockSize := v }
  | .blockMax v => { ctx with blockMax := v }
  | .hashSize v => { ctx with hashSize := v }
  | .map _ _ _ _ _ _ => { ctx with mappingMax := ctx.mappingMax + 1 }
  | _ => ctx

theorem rec_roundtrip (ctx : Ctx) (crc : W) (r : Rec) (h : recWF ctx r) (rest : Bytes) :
    getRec ctx crc (serRec r ++ rest) = some (r, recCtx ctx r, rest) := by
  cases r with
  | blockSize v => exact (simple_records_roundtrip ctx crc rest).1 v h.1 h.2
  | blockMax v => exact (simple_records_roundtrip ctx crc rest).2.1 v h
  | hashSize v => exact (simple_records_roundtrip ctx crc rest).2.2.1 v h.1 h.2
  | hash k seed => exact (hash_record_roundtrip ctx crc rest k seed h.1 h.2).1
  | prevHash k seed => exact (hash_record_roundtrip ctx crc rest k seed h.1 h.2).2
  | map legacy name pos total free uuid =>
    obtain ⟨hl, h1, h2, h3, h4, h5⟩ := h
    subst hl
    exact map_record_roundtrip ctx crc rest name uuid pos total free h1 h2 h3 h4 h5
  | parityP lev total free uuid =>
    obtain ⟨h1, h2, h3, h4⟩ := h
    exact parityP_record_roundtrip ctx crc rest lev total free uuid h1 h2 h3 h4
  | parityQ lev total free sps =>
    obtain ⟨h1, h2, h3, h4, h5⟩ := h
    exact parityQ_record_roundtrip ctx crc rest lev total free sps h1 h2 h3 h4 h5
  | file m size sec nsec inode sub runs =>
    obtain ⟨h1, h2, h3, h4, h5, h6, h7, h8, h9, h10, h11⟩ := h
    exact file_record_roundtrip ctx crc rest m size sec nsec inode sub runs h1 h2 h3 h4 h5 h6 h7 h8 h9 h10 h11
  | symlink m sub lt =>
    obtain ⟨h1, h2, h3, h4, h5⟩ := h
    exact symlink_record_roundtrip ctx crc rest m sub lt h1 h2 h3 h4 h5
  | hardlink m sub lt =>
    obtain ⟨h1, h2, h3, h4, h5, h6⟩ := h
    exact hardlink_record_roundtrip ctx crc rest m sub lt h1 h2 h3 h4 h5 h6
  | dir m sub =>
    obtain ⟨h1, h2, h3, h4⟩ := h
    exact (simple_records_roundtrip ctx crc rest).2.2.2 m sub h1 h2 h3 h4
  | hole m runs => exact hole_record_roundtrip ctx crc rest m runs h.1 h.2.1 h.2.2
  | info oldest runs => exact info_record_roundtrip ctx crc rest oldest runs h.1 h.2
  | crc v => exact absurd h id

/-- every record of the list is well formed in the context left by its predecessors -/
def RecsWF : Ctx → List Rec → Prop
  | _, [] => True
  | ctx, r :: rs => recWF ctx r ∧ RecsWF (recCtx ctx r) rs

def ctxAfter : Ctx → List Rec → Ctx
  | ctx, [] => ctx
  | ctx, r :: rs => ctxAfter (recCtx ctx r) rs

theorem RecsOk_of_wf (rs : List Rec) (ctx : Ctx) (crc : W) (h : RecsWF ctx rs) : RecsOk ctx crc rs (ctxAfter ctx rs) := by
  induction rs generalizing ctx crc with
  | nil => rfl
  | cons r rs ih =>
    have hpos := serRec_length_pos r
    cases hser : serRec r with
    | nil => rw [hser] at hpos; simp at hpos
    | cons c body =>
      refine ⟨c, body, recCtx ctx r, hser, ?_, ?_⟩
      · intro rest; exact rec_roundtrip ctx _ r h.1 rest
      · exact ih _ _ h.2

/-- **C10, codec level**: whatever state the writer serialises (any number of disks, files, block
    runs in any state, deleted-block records, per-stripe info, split parities), the reader parses
    the file back to exactly the same records -/
theorem content_roundtrip (v bs0 : Nat) (hv : v = 1 ∨ v = 2 ∨ v = 3) (rs : List Rec)
    (h : RecsWF { blockSize := bs0 } rs) :
    ∃ c, parse bs0 (serFile v rs) = some { version := v, recs := rs ++ [.crc c], ctx := ctxAfter { blockSize := bs0 } rs } :=
  file_roundtrip v bs0 hv rs _ (RecsOk_of_wf rs _ _ h)

/-! non-vacuity: a small state (one disk, one two-block file with a synced and a pending block,
    a deleted block, per-stripe info) satisfies the hypotheses -/
def demoHash : Bytes := List.replicate 16 7
def demoRecs : List Rec :=
  [.blockSize 1024, .hashSize 16, .blockMax 3, .map false [100, 49] 0 10 5 [117],
   .file 0 1500 1600000000 123456790 42 [97, 47, 98] [⟨.blk, 0, 1, [demoHash]⟩, ⟨.chg, 1, 1, [demoHash]⟩],
   .hole 0 [.skip 2, .deleted [demoHash]],
   .info 100 [⟨2, 1, 5⟩, ⟨1, 0, 0⟩]]

example : RecsWF { blockSize := 0 } demoRecs := by
  simp [RecsWF, demoRecs, recWF, recCtx, RunsWF, runWF, HoleWF, InfoWF, holeCount, fileBlocks, PATH_MAX, UUID_MAX, demoHash]


end SnapraidVerif.Props.C10
