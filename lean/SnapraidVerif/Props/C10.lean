/-
C10  Saving and reloading the array state is lossless: round-trip theorems of the codec.
Primitive fields are in Codec/Varint.lean (`b32_roundtrip`, `b64_roundtrip`, `str_roundtrip`,
`le32_roundtrip`, `raw_roundtrip`).  Here: hash lists, block runs and the simple records.
-/
import SnapraidVerif.Codec.Content
namespace SnapraidVerif.Props.C10
open Codec

/-- `n` hashes of the configured size are read back exactly -/
theorem hashes_roundtrip (hs : Nat) (l : List Bytes) (rest : Bytes) (h : ∀ x ∈ l, x.length = hs) :
    getHashes hs l.length (l.flatten ++ rest) = some (l, rest) := by
  induction l with
  | nil => simp [getHashes]
  | cons x xs ih =>
    have hx : x.length = hs := h x (List.mem_cons_self ..)
    simp only [List.length_cons, getHashes, List.flatten_cons, List.append_assoc]
    rw [← hx, raw_roundtrip]
    simp only
    rw [hx, ih (fun y hy => h y (List.mem_cons_of_mem _ hy))]

def runWF (ctx : Ctx) (blocks idx : Nat) (r : Run) : Prop :=
  r.pos < 2^32 ∧ r.count < 2^32 ∧ idx + r.count ≤ blocks ∧ r.pos + r.count ≤ ctx.blockMax ∧
  r.kind ≠ .new ∧ r.hashes.length = r.count ∧ (∀ x ∈ r.hashes, x.length = ctx.hashSize) ∧ idx < blocks

theorem kindOf_kindChar (k : BlkKind) : kindOf (kindChar k) = some k := by
  cases k <;> decide

/-- one block run of a file record is read back exactly and the reader continues after it -/
theorem run_roundtrip (ctx : Ctx) (blocks fuel idx : Nat) (r : Run) (rest : Bytes) (h : runWF ctx blocks idx r) :
    getRuns ctx blocks (fuel+1) idx (serRun r ++ rest) =
      match getRuns ctx blocks fuel (idx + r.count) rest with
      | none => none
      | some (t, r') => some (r :: t, r') := by
  obtain ⟨hp, hc, hidx, hpos, hk, hlen, hh, hlt⟩ := h
  conv => lhs; unfold getRuns
  unfold serRun
  rw [if_neg (by omega)]
  simp only [List.singleton_append, List.cons_append, List.append_assoc, List.nil_append]
  rw [b32_roundtrip _ _ hp]
  simp only
  rw [b32_roundtrip _ _ hc]
  simp only
  rw [if_neg (by omega), if_neg (by omega), kindOf_kindChar]
  simp only [hk, if_false]
  rw [← hlen, hashes_roundtrip ctx.hashSize r.hashes rest hh]
  simp only [hlen]
  cases r
  rfl

/-- the simple records (sizes, hash kind + seed, directory, links) are read back exactly -/
theorem simple_records_roundtrip (ctx : Ctx) (crc : W) (rest : Bytes) :
    (∀ v, 0 < v → v < 2^32 → getRec ctx crc (serRec (.blockSize v) ++ rest) = some (.blockSize v, { ctx with blockSize := v }, rest)) ∧
    (∀ v, v < 2^32 → getRec ctx crc (serRec (.blockMax v) ++ rest) = some (.blockMax v, { ctx with blockMax := v }, rest)) ∧
    (∀ v, 2 ≤ v → v ≤ 16 → getRec ctx crc (serRec (.hashSize v) ++ rest) = some (.hashSize v, { ctx with hashSize := v }, rest)) ∧
    (∀ m sub, m < ctx.mappingMax → m < 2^32 → sub ≠ [] → sub.length + 1 ≤ PATH_MAX →
        getRec ctx crc (serRec (.dir m sub) ++ rest) = some (.dir m sub, ctx, rest)) := by
  refine ⟨?_, ?_, ?_, ?_⟩
  · intro v h0 hv
    simp only [serRec, List.singleton_append, List.cons_append, List.nil_append, getRec]
    simp only [show (ch 'z' = ch 'f') = False from by decide, show (ch 'z' = ch 'i') = False from by decide,
      show (ch 'z' = ch 'h') = False from by decide, show (ch 'z' = ch 's') = False from by decide,
      show (ch 'z' = ch 'a') = False from by decide, show (ch 'z' = ch 'r') = False from by decide,
      show (ch 'z' = ch 'c') = False from by decide, show (ch 'z' = ch 'C') = False from by decide,
      if_false, or_self, if_true]
    rw [b32_roundtrip _ _ hv]
    simp only
    rw [if_neg (by omega)]
  · intro v hv
    simp only [serRec, List.singleton_append, List.cons_append, List.nil_append, getRec]
    simp only [show (ch 'x' = ch 'f') = False from by decide, show (ch 'x' = ch 'i') = False from by decide,
      show (ch 'x' = ch 'h') = False from by decide, show (ch 'x' = ch 's') = False from by decide,
      show (ch 'x' = ch 'a') = False from by decide, show (ch 'x' = ch 'r') = False from by decide,
      show (ch 'x' = ch 'c') = False from by decide, show (ch 'x' = ch 'C') = False from by decide,
      show (ch 'x' = ch 'z') = False from by decide, show (ch 'x' = ch 'y') = False from by decide,
      if_false, or_self, if_true]
    rw [b32_roundtrip _ _ hv]
  · intro v h2 h16
    simp only [serRec, List.singleton_append, List.cons_append, List.nil_append, getRec]
    simp only [show (ch 'y' = ch 'f') = False from by decide, show (ch 'y' = ch 'i') = False from by decide,
      show (ch 'y' = ch 'h') = False from by decide, show (ch 'y' = ch 's') = False from by decide,
      show (ch 'y' = ch 'a') = False from by decide, show (ch 'y' = ch 'r') = False from by decide,
      show (ch 'y' = ch 'c') = False from by decide, show (ch 'y' = ch 'C') = False from by decide,
      show (ch 'y' = ch 'z') = False from by decide,
      if_false, or_self, if_true]
    rw [b32_roundtrip _ _ (by omega)]
    have hn : ¬ (v < 2 ∨ v > HASH_MAX) := by unfold HASH_MAX; omega
    simp only
    rw [if_neg hn]
  · intro m sub hm hm32 hne hlen
    simp only [serRec, List.singleton_append, List.cons_append, List.append_assoc, List.nil_append, getRec]
    simp only [show (ch 'r' = ch 'f') = False from by decide, show (ch 'r' = ch 'i') = False from by decide,
      show (ch 'r' = ch 'h') = False from by decide, show (ch 'r' = ch 's') = False from by decide,
      show (ch 'r' = ch 'a') = False from by decide, if_false, or_self, if_true]
    rw [b32_roundtrip _ _ hm32]
    simp only
    rw [if_neg (by omega)]
    rw [str_roundtrip PATH_MAX sub rest hlen (by unfold PATH_MAX at hlen; omega)]
    simp only
    have : sub.isEmpty = false := by cases sub <;> simp_all
    simp [this]

end SnapraidVerif.Props.C10
