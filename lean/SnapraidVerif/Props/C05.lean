/-
C05  Fix never silently leaves or produces wrong data.

Blocks with a recorded hash of the *recorded* version (BLK, REP): `C01.accepted_is_recorded`
— whatever the damage, an accepted reconstruction has exactly the recorded bytes.

Blocks pending from an interrupted sync (CHG) carry at best the hash of the version that was at
that position BEFORE (the "past hash").  check.c:417-452 decides whether a reconstruction is the
recorded (new) version by comparing it with the past hash over the NEW block's length.  This file
models that verdict, proves it right under the two conditions it silently relies on, and refutes
it (machine-checked counter-examples, replayed on the binary by tools/chk_C05.py) when either
fails — the two known findings C05-skip and C05-length.
-/
import SnapraidVerif.Props.C01
namespace SnapraidVerif.Props.C05

/-- what the CHG block's hash field holds -/
inductive Past (Dg : Type) where
  | lost                 -- INVALID
  | zero                 -- ZERO: the position was unused before
  | known (h : Dg)       -- digest recorded for the previous occupant
deriving DecidableEq

/-- verdict of check.c:417-452 on a reconstructed CHG block `r` whose new version has `len` bytes:
    `true` = "surely the recorded (new) version" (it is written back and reported recovered),
    `false` = out of date / unknown (the file is reported unrecoverable) -/
def surelyNew {Dg : Type} [DecidableEq Dg] (H : List Nat → Dg) (isZero : List Nat → Bool) (len : Nat)
    (p : Past Dg) (r : List Nat) : Bool :=
  match p with
  | .lost => false
  | .zero => !isZero r
  | .known h => H (r.take len) != h

variable {Dg : Type} [DecidableEq Dg]

/-- the parity of an interrupted sync holds either the old or the new version of the block -/
def OldOrNew (old new r : List Nat) : Prop := r = old ∨ r = new

/-- **partial theorem**: if the past hash really is the digest of the previous occupant, taken over
    the same length as the comparison (`ChgSameLength`, and no later overwrite of the hash field:
    `NoSkippedAfterChgHash`), a reconstruction judged "surely new" IS the recorded version -/
theorem fix_never_wrong_partial (H : List Nat → Dg) (isZero : List Nat → Bool) (len : Nat)
    (old new r : List Nat) (h : Dg)
    (hpast : h = H (old.take len))            -- the two history conditions, as one equation
    (hr : OldOrNew old new r)
    (hv : surelyNew H isZero len (.known h) r = true) : r = new := by
  rcases hr with rfl | rfl
  · simp [surelyNew, hpast] at hv
  · rfl

theorem zero_past_sound (H : List Nat → Dg) (isZero : List Nat → Bool) (len : Nat) (old new r : List Nat)
    (hold : isZero old = true) (hr : OldOrNew old new r)
    (hv : surelyNew H isZero len .zero r = true) : r = new := by
  rcases hr with rfl | rfl
  · simp [surelyNew, hold] at hv
  · rfl

theorem lost_never_trusted (H : List Nat → Dg) (isZero : List Nat → Bool) (len : Nat) (r : List Nat) :
    surelyNew H isZero len .lost r = false := rfl

/-- **C05-skip** (refutation of the full statement): the sync hashed the new data into the block
    and then skipped the stripe, so the "past" hash is the digest of the NEW version while parity
    still holds the old one: the old bytes are judged "surely new" -/
theorem c05_counter_skip :
    ∃ (H : List Nat → Nat) (old new : List Nat), old ≠ new ∧
      surelyNew H (fun l => l.all (· == 0)) 2 (.known (H (new.take 2))) old = true := by
  refine ⟨fun l => l.foldl (· + ·) 0, [65, 65], [78, 78], by decide, by decide⟩

/-- **C05-length** (refutation): the previous occupant had another length than the new block, the
    past hash was taken over the old length, the comparison is made over the new length -/
theorem c05_counter_length :
    ∃ (H : List Nat → Nat) (old new : List Nat) (oldlen newlen : Nat), old ≠ new ∧
      surelyNew H (fun l => l.all (· == 0)) newlen (.known (H (old.take oldlen))) old = true := by
  refine ⟨fun l => l.foldl (· + ·) 0, [65, 65, 65, 65], [78, 78], 4, 2, by decide, by decide⟩

end SnapraidVerif.Props.C05
