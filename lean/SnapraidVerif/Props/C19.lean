/-
C19  Move, copy and import shortcuts never accept unverified data.
-/
import SnapraidVerif.Array.Shortcut
namespace SnapraidVerif.Props.C19
open Shortcut

set_option linter.unusedSectionVars false
variable {H D : Type} [DecidableEq H]

/-- copy detection hands out provisional hashes only: every block of a copied file is REP -/
theorem copy_is_provisional (src : List (Blk H × Bool)) : ∀ b ∈ copyBlocks src, b.st = .rep := by
  intro b hb
  simp only [copyBlocks, List.mem_map] at hb
  obtain ⟨⟨b0, r⟩, _, rfl⟩ := hb
  rfl

/-- and only from a source that is hashed in every block, not waiting for a re-hash, and not empty -/
theorem eligible_source (src : List (Blk H × Bool)) (h : eligible src = true) :
    src ≠ [] ∧ ∀ x ∈ src, x.1.st ≠ .chg ∧ x.2 = false := by
  simp only [eligible, Bool.and_eq_true, Bool.not_eq_true', List.all_eq_true] at h
  refine ⟨?_, ?_⟩
  · intro hnil; simp [hnil] at h
  · intro x hx
    have := h.2 x hx
    obtain ⟨b, r⟩ := x
    simp only [Blk.hasUpdatedHash, Bool.or_eq_true, beq_iff_eq] at this
    refine ⟨?_, by simpa using this.2⟩
    intro hc; rw [hc] at this; rcases this.1 with h1 | h1 <;> cases h1

/-- a block entering the array through the scan is never recorded as synced -/
theorem allocate_never_blk (b : Blk H) (i r : Bool) (past : H) : (allocate b i r past).st ≠ .blk := by
  unfold allocate; split <;> simp

/-- `--force-nocopy` leaves no provisional hash -/
theorem nocopy_drops_provisional (invalid : H) (b : Blk H) : (nocopyLoad invalid b).st ≠ .rep := by
  unfold nocopyLoad; split
  · simp
  · rename_i h; simpa using h

/-- one block: what is recorded as synced is the hash of the data just read -/
theorem syncBlock_sound (hf : D → H) (b b' : Blk H) (d : D) (h : syncBlock hf b d = some b') :
    b'.st = .blk ∧ b'.hash = hf d := by
  unfold syncBlock at h
  split at h
  · split at h
    · rename_i _ he; cases h; exact ⟨rfl, he.symm⟩
    · cases h
  · cases h; exact ⟨rfl, rfl⟩

/-- a completed stripe records, for every block, the hash of the data read in this sync -/
theorem stripe_records_only_hashed (hf : D → H) (s : List (Blk H × D)) (bs : List (Blk H))
    (h : syncStripe hf s = some bs) :
    bs.length = s.length ∧ ∀ i (hi : i < bs.length) (hi' : i < s.length),
      (bs[i]).st = .blk ∧ (bs[i]).hash = hf (s[i]).2 := by
  induction s generalizing bs with
  | nil => simp [syncStripe] at h; subst h; simp
  | cons x rest ih =>
    obtain ⟨b, d⟩ := x
    simp only [syncStripe] at h
    cases hb : syncBlock hf b d with
    | none => simp [hb] at h
    | some b' =>
      cases hr : syncStripe hf rest with
      | none => simp [hb, hr] at h
      | some rest' =>
        simp only [hb, hr, Option.some.injEq] at h
        subst h
        obtain ⟨hl, hall⟩ := ih rest' hr
        refine ⟨by simp [hl], ?_⟩
        intro i hi hi'
        cases i with
        | zero => simpa using syncBlock_sound hf b b' d hb
        | succ j =>
          simp only [List.getElem_cons_succ]
          exact hall j (by simpa using hi) (by simpa using hi')

/-- a provisional (or synced) hash that the data does not have stops the stripe: no parity is
    written and nothing recorded changes -/
theorem decoy_stops_stripe (hf : D → H) (s : List (Blk H × D))
    (h : ∃ x ∈ s, x.1.hasUpdatedHash = true ∧ hf x.2 ≠ x.1.hash) :
    parityWritten hf s = false ∧ stripeAfter hf s = s.map (·.1) := by
  have hnone : syncStripe hf s = none := by
    induction s with
    | nil => obtain ⟨x, hx, _⟩ := h; cases hx
    | cons y rest ih =>
      obtain ⟨b, d⟩ := y
      obtain ⟨x, hx, hu, hne⟩ := h
      simp only [syncStripe]
      rcases List.mem_cons.mp hx with rfl | hx'
      · have : syncBlock hf b d = none := by
          simp only [syncBlock]; simp only at hu hne; simp [hu, hne]
        simp [this]
      · have := ih ⟨x, hx', hu, hne⟩
        rw [this]; cases syncBlock hf b d <;> rfl
  simp [parityWritten, stripeAfter, hnone]

/-- the statement of the property at stripe level: a block that was provisional (REP) and is
    recorded as synced afterwards holds data with exactly the inherited hash -/
theorem provisional_verified_before_synced (hf : D → H) (s : List (Blk H × D)) (i : Nat)
    (hi : i < s.length) (hrep : (s[i]).1.st = .rep)
    (hafter : ∃ h : i < (stripeAfter hf s).length, ((stripeAfter hf s)[i]).st = .blk) :
    hf (s[i]).2 = (s[i]).1.hash := by
  obtain ⟨hlen, hblk⟩ := hafter
  unfold stripeAfter at hlen hblk
  cases hs : syncStripe hf s with
  | none =>
    simp only [hs, List.getElem_map] at hblk
    rw [hrep] at hblk; cases hblk
  | some bs =>
    -- completed: so block i passed its comparison
    by_cases hne : hf (s[i]).2 = (s[i]).1.hash
    · exact hne
    · have := (decoy_stops_stripe hf s ⟨s[i], List.getElem_mem hi, by simp [Blk.hasUpdatedHash, hrep], hne⟩).1
      simp [parityWritten, hs] at this

/-- pre-hash: one mismatching provisional block anywhere keeps every parity block untouched -/
theorem prehash_mismatch_writes_nothing (hf : D → H) (stripes : List (List (Blk H × D)))
    (h : ∃ x ∈ stripes.flatten, x.1.st = .rep ∧ hf x.2 ≠ x.1.hash) :
    ∀ w ∈ syncWithPrehash hf stripes, w = false := by
  have hskip : (prehash hf stripes.flatten).2 = true := by
    obtain ⟨x, hx, hr, hne⟩ := h
    simp only [prehash, List.any_eq_true]
    refine ⟨x, hx, ?_⟩
    obtain ⟨b, d⟩ := x
    simp only at hr hne
    simp [prehashBlock, hr, hne]
  intro w hw
  simp only [syncWithPrehash, hskip, if_true, List.mem_map] at hw
  obtain ⟨_, _, rfl⟩ := hw; rfl

/-- pre-hash never records a block as synced, and what it records for a CHG block is the hash of
    the data it read -/
theorem prehashBlock_sound (hf : D → H) (b : Blk H) (d : D) (hb : b.st ≠ .blk) :
    (prehashBlock hf b d).1.st = .rep ∧ (b.st = .chg → (prehashBlock hf b d).1.hash = hf d) := by
  unfold prehashBlock
  cases hs : b.st with
  | blk => exact absurd hs hb
  | chg => simp
  | rep => simp [hs]

/-- data taken from a moved, imported or duplicate file is used only with the recorded hash -/
theorem fetch_sound (hf : D → H) (cands : List D) (h : H) (d : D) (hf' : fetch hf cands h = some d) :
    hf d = h ∧ d ∈ cands := by
  unfold fetch at hf'
  have := List.find?_some hf'
  exact ⟨by simpa using this, List.mem_of_find?_eq_some hf'⟩

/-- and under hash separation (no two candidate/recorded contents share a hash) it IS the recorded data -/
theorem fetch_is_recorded (hf : D → H) (cands : List D) (orig d : D)
    (sep : ∀ c ∈ cands, hf c = hf orig → c = orig)
    (h : fetch hf cands (hf orig) = some d) : d = orig := by
  obtain ⟨h1, h2⟩ := fetch_sound hf cands (hf orig) d h
  exact sep d h2 h1

/-- decoys alone never yield data -/
theorem fetch_decoys_none (hf : D → H) (cands : List D) (h : H) (hd : ∀ c ∈ cands, hf c ≠ h) :
    fetch hf cands h = none := by
  unfold fetch
  rw [List.find?_eq_none]
  intro c hc; simpa using hd c hc

/-- a true copy among decoys is found -/
theorem fetch_complete (hf : D → H) (cands : List D) (orig : D) (hm : orig ∈ cands) :
    ∃ d, fetch hf cands (hf orig) = some d ∧ hf d = hf orig := by
  unfold fetch
  cases hfi : cands.find? (fun d => hf d = hf orig) with
  | none =>
    rw [List.find?_eq_none] at hfi
    exact absurd (by simp : decide (hf orig = hf orig) = true) (hfi orig hm)
  | some d => exact ⟨d, rfl, by simpa using List.find?_some hfi⟩

/-! non-vacuity: a decoy stripe and a true-copy stripe over `Nat` data with `hf = id` -/
example : stripeAfter (H := Nat) (D := Nat) id [({ st := .rep, hash := 7 }, 8), ({ st := .chg, hash := 0 }, 3)]
    = [{ st := .rep, hash := 7 }, { st := .chg, hash := 0 }] := by rfl
example : stripeAfter (H := Nat) (D := Nat) id [({ st := .rep, hash := 7 }, 7), ({ st := .chg, hash := 0 }, 3)]
    = [{ st := .blk, hash := 7 }, { st := .blk, hash := 3 }] := by rfl

end SnapraidVerif.Props.C19
