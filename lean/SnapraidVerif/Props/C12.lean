/-
C12  Commands modify only what they are documented to modify: the specification table and its
consequences; tools/chk_C12.py judges every state-changing call logged by the shim with it.
-/
namespace SnapraidVerif.Props.C12

inductive Cmd | status | diff | list | dup | check | devices | scrub | sync | fix | pool | touch | rehash
deriving DecidableEq, Repr

/-- where a state-changing call lands -/
inductive Region | data | parity | content | pool | lock | log
deriving DecidableEq, Repr

/-- kinds of change to a data file -/
inductive DataOp | writeBytes | createOrRemove | setTimeSubsecondOnly | setTimeOther
deriving DecidableEq, Repr

/-- may `cmd` issue a state-changing call in `region`? (lock and log are the only artefacts every
    command may create) -/
def allowed : Cmd → Region → Bool
  | _, .lock => true
  | _, .log => true
  | .scrub, .content => true
  | .sync, .content => true
  | .sync, .parity => true
  | .rehash, .content => true
  | .fix, .data => true          -- further restricted: only objects it reports (see `fixDataAllowed`)
  | .fix, .parity => true
  | .pool, .pool => true
  | .touch, .content => true
  | .touch, .data => true        -- further restricted: `touchDataAllowed`
  | _, _ => false

/-- touch may only set the sub-second part of a time-stamp whose recorded sub-second part is zero -/
def touchDataAllowed (op : DataOp) (recordedNsecIsZero : Bool) : Bool :=
  op == .setTimeSubsecondOnly && recordedNsecIsZero

/-- fix may change a data object only if it reports it (fixed / recovered / unrecoverable rename /
    created link or dir) and the object is selected by the filters -/
def fixDataAllowed (reported selected : Bool) : Bool := reported && selected

theorem readonly_commands (c : Cmd) (h : c = .status ∨ c = .diff ∨ c = .list ∨ c = .dup ∨ c = .check ∨ c = .devices) :
    allowed c .data = false ∧ allowed c .parity = false ∧ allowed c .content = false ∧ allowed c .pool = false := by
  rcases h with rfl | rfl | rfl | rfl | rfl | rfl <;> decide

theorem scrub_only_content : allowed .scrub .data = false ∧ allowed .scrub .parity = false ∧ allowed .scrub .content = true := by decide
theorem sync_never_data : allowed .sync .data = false ∧ allowed .sync .pool = false := by decide
theorem fix_never_content : allowed .fix .content = false := by decide
theorem pool_only_pool (r : Region) (h : allowed .pool r = true) : r = .pool ∨ r = .lock ∨ r = .log := by
  cases r <;> simp_all [allowed]
theorem touch_only_subsecond (op : DataOp) (z : Bool) (h : touchDataAllowed op z = true) : op = .setTimeSubsecondOnly ∧ z = true := by
  cases op <;> cases z <;> simp_all [touchDataAllowed]

end SnapraidVerif.Props.C12
