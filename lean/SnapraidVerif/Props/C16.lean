/-
C16  Arrays written by the reference version stay readable and repairable.

The frozen reference is: the Lean definitions of the field and generator matrices (tied to
raid/tables.c by per-run kernel obligations), of the content codec and CRC-32C (C09/C10), and the
executable models of the two block hashes below.  The vendored vectors in /verif/golden were
produced by the reference build; every run checks  current build = golden = Lean model.
Here: a few kernel-evaluated anchors, so that the models themselves cannot drift silently.
-/
import SnapraidVerif.Hash.Murmur3
import SnapraidVerif.Hash.Spooky2
import SnapraidVerif.Codec.Crc32c
import SnapraidVerif.Raid.Gen
namespace SnapraidVerif.Props.C16
open Hash Codec Raid

def zeroSeed : List UInt8 := List.replicate 16 0

/-- murmur3 (SnapRAID variant) of the empty input and of "abc" with a zero seed: values produced by the reference build -/
theorem murmur3_empty : murmur3 zeroSeed [] = [0, 0, 0, 0, 0, 0, 0, 0, 0, 0, 0, 0, 0, 0, 0, 0] := by decide +kernel
theorem murmur3_abc : murmur3 zeroSeed [97, 98, 99] =
    [0xd1, 0xc6, 0xcd, 0x75, 0xa5, 0x06, 0xb0, 0xa2, 0xa5, 0x06, 0xb0, 0xa2, 0xa5, 0x06, 0xb0, 0xa2] := by decide +kernel

/-- CRC-32C check value -/
theorem crc32c_check : (crc32c 0 [0x31, 0x32, 0x33, 0x34, 0x35, 0x36, 0x37, 0x38, 0x39]).toNat = 0xE3069283 := by decide +kernel

/-- first coefficients of the generator rows (documented in raid/raid.c) -/
theorem cauchy_head : (List.range 6).map (fun j => (cauchy j 1).toNat) = [0x01, 0x02, 0xf5, 0xbb, 0x97, 0x2b] := by decide +kernel
theorem power_head : (List.range 3).map (fun j => (power j 1).toNat) = [0x01, 0x02, 0x8e] := by decide +kernel

end SnapraidVerif.Props.C16
