/-
C20  Reports and derived views reflect the recorded state faithfully.
-/
import SnapraidVerif.Esc.Esc
namespace SnapraidVerif.Props.C20
open Esc

theorem consts_ne : NL ≠ CR ∧ NL ≠ COLON ∧ NL ≠ BSL ∧ CR ≠ COLON ∧ CR ≠ BSL ∧ COLON ≠ BSL ∧
    (110 : UInt8) ≠ COLON ∧ (110 : UInt8) ≠ NL ∧ (110 : UInt8) ≠ CR ∧ (114 : UInt8) ≠ COLON ∧ (114 : UInt8) ≠ NL ∧
    (114 : UInt8) ≠ CR ∧ (100 : UInt8) ≠ COLON ∧ (100 : UInt8) ≠ NL ∧ (100 : UInt8) ≠ CR ∧
    (114 : UInt8) ≠ 110 ∧ (100 : UInt8) ≠ 110 ∧ (100 : UInt8) ≠ 114 ∧ BSL ≠ 110 ∧ BSL ≠ 114 ∧ BSL ≠ 100 := by decide

theorem unescTag_cons_plain (c : UInt8) (t : S) (hc : c ≠ BSL) : unescTag (c :: t) = c :: unescTag t := by
  cases t with
  | nil => simp [unescTag]
  | cons d t' => simp [unescTag, hc]

theorem unescTag_esc (d : UInt8) (t : S) :
    unescTag (BSL :: d :: t) = (if d = 110 then NL else if d = 114 then CR else if d = 100 then COLON else d) :: unescTag t := by
  simp [unescTag]

/-- every name survives the log escaping -/
theorem tag_roundtrip (s : S) : unescTag (escTag s) = s := by
  obtain ⟨_, _, _, _, _, _, _, _, _, _, _, _, _, _, _, h114, h100a, h100b, hb110, hb114, hb100⟩ := consts_ne
  induction s with
  | nil => rfl
  | cons c s ih =>
    simp only [escTag]
    by_cases h1 : c = NL
    · rw [if_pos h1, unescTag_esc, ih, if_pos rfl, h1]
    · rw [if_neg h1]
      by_cases h2 : c = CR
      · rw [if_pos h2, unescTag_esc, ih, if_neg h114, if_pos rfl, h2]
      · rw [if_neg h2]
        by_cases h3 : c = COLON
        · rw [if_pos h3, unescTag_esc, ih, if_neg h100a, if_neg h100b, if_pos rfl, h3]
        · rw [if_neg h3]
          by_cases h4 : c = BSL
          · rw [if_pos h4, unescTag_esc, ih, if_neg hb110, if_neg hb114, if_neg hb100, h4]
          · rw [if_neg h4, unescTag_cons_plain c _ h4, ih]

/-- an escaped name contains no colon, newline or carriage return: a log line splits into its
    fields and lines unambiguously -/
theorem tag_image (s : S) : COLON ∉ escTag s ∧ NL ∉ escTag s ∧ CR ∉ escTag s := by
  obtain ⟨_, hnc, hnb, hcc, hcb, hcob, h1, h2, h3, h4, h5, h6, h7, h8, h9, _, _, _, _, _, _⟩ := consts_ne
  induction s with
  | nil => simp [escTag]
  | cons c s ih =>
    obtain ⟨i1, i2, i3⟩ := ih
    simp only [escTag]
    by_cases a : c = NL
    · rw [if_pos a]
      simp only [List.mem_cons, not_or]
      exact ⟨⟨hcob, h1.symm, i1⟩, ⟨hnb, h2.symm, i2⟩, ⟨hcb, h3.symm, i3⟩⟩
    · rw [if_neg a]
      by_cases b : c = CR
      · rw [if_pos b]
        simp only [List.mem_cons, not_or]
        exact ⟨⟨hcob, h4.symm, i1⟩, ⟨hnb, h5.symm, i2⟩, ⟨hcb, h6.symm, i3⟩⟩
      · rw [if_neg b]
        by_cases d : c = COLON
        · rw [if_pos d]
          simp only [List.mem_cons, not_or]
          exact ⟨⟨hcob, h7.symm, i1⟩, ⟨hnb, h8.symm, i2⟩, ⟨hcb, h9.symm, i3⟩⟩
        · rw [if_neg d]
          by_cases e : c = BSL
          · rw [if_pos e]
            simp only [List.mem_cons, not_or]
            exact ⟨⟨hcob, hcob, i1⟩, ⟨hnb, hnb, i2⟩, ⟨hcb, hcb, i3⟩⟩
          · rw [if_neg e]
            simp only [List.mem_cons, not_or]
            exact ⟨⟨fun h => d h.symm, i1⟩, ⟨fun h => a h.symm, i2⟩, ⟨fun h => b h.symm, i3⟩⟩

theorem escTag_injective (a b : S) (h : escTag a = escTag b) : a = b := by
  rw [← tag_roundtrip a, ← tag_roundtrip b, h]

theorem unescShell_cons_plain (c : UInt8) (t : S) (hc : c ≠ BSL) : unescShell (c :: t) = c :: unescShell t := by
  cases t with
  | nil => simp [unescShell]
  | cons d t' => simp [unescShell, hc]

/-- the standard-output escaping is injective too (as a byte string) -/
theorem shell_roundtrip (s : S) : unescShell (escShell s) = s := by
  induction s with
  | nil => rfl
  | cons c s ih =>
    simp only [escShell]
    by_cases h : shellSpecial c = true
    · rw [if_pos h]
      simp [unescShell, ih]
    · rw [if_neg h]
      have hc : c ≠ BSL := by
        intro hb; subst hb; exact h (by decide)
      rw [unescShell_cons_plain c _ hc, ih]

/-- … but it passes a newline through raw: one name can span two output lines
    (known finding C20-newline: standard output of list/dup/diff/check is not line-unambiguous) -/
theorem shell_newline_raw : NL ∈ escShell [97, NL, 98] := by decide

/-! ### dup: grouping by the sequence of block hashes equals grouping by content -/

/-- two files with the same block size split are reported as duplicates iff their block-hash
    sequences are equal; with a hash that separates the blocks involved that is content equality -/
theorem dup_iff_equal {β Dg : Type} (H : β → Dg) (f g : List β)
    (hsep : ∀ x ∈ f, ∀ y ∈ g, H x = H y → x = y) :
    f.map H = g.map H ↔ f = g := by
  constructor
  · intro h
    induction f generalizing g with
    | nil => cases g <;> simp_all
    | cons x xs ih =>
      cases g with
      | nil => simp at h
      | cons y ys =>
        simp only [List.map_cons, List.cons.injEq] at h
        have hxy : x = y := hsep x (List.mem_cons_self ..) y (List.mem_cons_self ..) h.1
        rw [hxy, ih ys (fun a ha b hb => hsep a (List.mem_cons_of_mem _ ha) b (List.mem_cons_of_mem _ hb)) h.2]
  · intro h; rw [h]

/-! ### pool: the reconciliation leaves exactly the recorded names -/

/-- first occurrence of every name, in order (a name present on two disks is pooled once: the
    second symlink() fails with EEXIST and only a warning is printed) -/
def dedup : List S → List S
  | [] => []
  | x :: xs => x :: (dedup xs).filter (fun y => y != x)

theorem mem_dedup (l : List S) (n : S) : n ∈ dedup l ↔ n ∈ l := by
  induction l with
  | nil => simp [dedup]
  | cons x xs ih =>
    simp only [dedup, List.mem_cons, List.mem_filter, ih, bne_iff_ne, ne_eq]
    constructor
    · rintro (h | ⟨h, _⟩)
      · exact Or.inl h
      · exact Or.inr h
    · rintro (h | h)
      · exact Or.inl h
      · by_cases hx : n = x
        · exact Or.inl hx
        · exact Or.inr ⟨h, hx⟩

theorem nodup_dedup (l : List S) : (dedup l).Nodup := by
  induction l with
  | nil => simp [dedup]
  | cons x xs ih =>
    simp only [dedup, List.nodup_cons]
    refine ⟨?_, ih.sublist List.filter_sublist⟩
    intro h
    simp only [List.mem_filter, bne_iff_ne, ne_eq, not_true_eq_false, and_false] at h

/-- links in the pool directory after `pool`: every recorded name (files and links of all disks),
    stale links dropped; `recorded` = names in disk order, `existing` = links found before -/
def poolAfter (recorded _existing : List S) : List S := dedup recorded

/-- after pool the links are exactly the recorded names: nothing stale survives, nothing recorded is missing -/
theorem pool_exact (recorded existing : List S) (n : S) : n ∈ poolAfter recorded existing ↔ n ∈ recorded := by
  simp [poolAfter, mem_dedup]

theorem pool_one_link_per_name (recorded existing : List S) : (poolAfter recorded existing).Nodup :=
  nodup_dedup recorded

end SnapraidVerif.Props.C20
