/-
C07  Interrupted sync and fix are safe and resumable.

* `sync_ops_never_touch_data`: the state-changing operations a sync issues are on content, parity
  and lock files only (model of the operation list; the real list is logged by the shim and
  checked by tools/chk_C07.py: data directories byte-identical after every kill point).
* `kill_single_loss_recoverable`: adds-only sync killed at ANY point.  In a stripe that gains a new
  block `x` (at a previously unused column `c`) each parity level is, independently, still the old
  one or already the new one.  A single lost old block is determined by ANY one level together with
  the surviving blocks — with `x` taken from the disk if the level is new (fix strategy 1), with
  zero in its place if the level is old (fix strategy 2, ZERO past hash).
* content save atomicity: `Save.save_atomic` (C09); invariant preservation under parity-only writes
  (crash between parity write and content save): `C06.inv_step` with `Op.parityOnly`.
-/
import SnapraidVerif.Props.C06
import SnapraidVerif.Codec.Save
import Mathlib.Algebra.BigOperators.Fin
import Mathlib.Algebra.Field.Basic
import Mathlib.Tactic.FieldSimp
import Mathlib.Tactic.Ring

namespace SnapraidVerif.Props.C07
open Finset

/-- regions a state-changing call can touch -/
inductive Region | data | parity | content | lock | log
deriving DecidableEq, Repr

inductive SyncOp where
  | lockCreate
  | paritySetSize (level : Nat)         -- create / fallocate / ftruncate of a parity split
  | contentSave (copy : Nat)            -- the whole save protocol of one copy (C09)
  | parityWrite (level pos : Nat)
  | parityFsync (level : Nat)
deriving DecidableEq, Repr

def SyncOp.region : SyncOp → Region
  | .lockCreate => .lock
  | .paritySetSize _ => .parity
  | .contentSave _ => .content
  | .parityWrite _ _ => .parity
  | .parityFsync _ => .parity

/-- sync never issues a state-changing operation inside a data disk -/
theorem sync_ops_never_touch_data (op : SyncOp) : op.region ≠ .data := by
  cases op <;> simp [SyncOp.region]

variable {K : Type*} [Field K] {nd : ℕ}

/-- one parity equation determines one unknown block when its coefficient is non-zero -/
theorem solve_single (a : Fin nd → K) (v : Fin nd → K) (d : Fin nd) (ha : a d ≠ 0) (P : K)
    (hP : P = ∑ i, a i * v i) :
    v d = (P - ∑ i ∈ univ.erase d, a i * v i) / a d := by
  rw [hP, ← Finset.add_sum_erase univ (fun i => a i * v i) (mem_univ d)]
  field_simp
  ring

/-- **adds-only sync, killed anywhere, single lost old block.**
`o` = old stripe contents (zero at the unused column `c`), `x` = the added block, `a` = the
coefficients of one parity level (all non-zero: 1×1 minors of the generator, C03).  Whether the
level still holds the old parity or already the new one, the lost block `o d` (d ≠ c) is the
solution of that level's equation with the other blocks as they are on disk (strategy 1: with `x`)
or with zero at the new block's place (strategy 2). -/
theorem kill_single_loss_recoverable (a : Fin nd → K) (o : Fin nd → K) (c d : Fin nd) (hcd : d ≠ c)
    (hoc : o c = 0) (x : K) (ha : a d ≠ 0) (isNew : Bool) (P : K)
    (hP : P = if isNew then ∑ i, a i * (Function.update o c x) i else ∑ i, a i * o i) :
    o d = if isNew then (P - ∑ i ∈ univ.erase d, a i * (Function.update o c x) i) / a d
          else (P - ∑ i ∈ univ.erase d, a i * o i) / a d := by
  cases isNew
  · simp only [Bool.false_eq_true, if_false] at hP ⊢
    exact solve_single a o d ha P hP
  · simp only [if_true] at hP ⊢
    have := solve_single a (Function.update o c x) d ha P hP
    rwa [Function.update_of_ne hcd] at this

end SnapraidVerif.Props.C07
