/-
C07  Interrupted sync and fix are safe and resumable.

* `sync_ops_never_touch_data`: the state-changing operations a sync issues are on content, parity
  and lock files only (model of the operation list; the real list is logged by the shim and
  checked by tools/chk_C07.py: data directories byte-identical after every kill point).
* `kill_single_loss_recoverable`: adds-only sync killed at ANY point.  In a stripe that gains a new
  block `x` (at a previously unused column `c`) each parity level is, independently, still the old
  one or already the new one.  A single lost old block is determined by ANY one level together with
  the surviving blocks — with `x` taken from the disk if the level is new (fix strategy 1), with
  zero in its place if the level is old (fix strategy 2, ZERO past hash).
* content save atomicity: `Save.save_atomic` (C09); invariant preservation under parity-only writes
  (crash between parity write and content save): `C06.inv_step` with `Op.parityOnly`.
-/
import SnapraidVerif.Props.C06
import SnapraidVerif.Codec.Save
import Mathlib.Algebra.BigOperators.Fin
import Mathlib.Algebra.Field.Basic
import Mathlib.Tactic.FieldSimp
import Mathlib.Tactic.Ring

namespace SnapraidVerif.Props.C07
open Finset

/-- regions a state-changing call can touch -/
inductive Region | data | parity | content | lock | log
deriving DecidableEq, Repr

inductive SyncOp where
  | lockCreate
  | paritySetSize (level : Nat)         -- create / fallocate / ftruncate of a parity split
  | contentSave (copy : Nat)            -- the whole save protocol of one copy (C09)
  | parityWrite (level pos : Nat)
  | parityFsync (level : Nat)
deriving DecidableEq, Repr

def SyncOp.region : SyncOp → Region
  | .lockCreate => .lock
  | .paritySetSize _ => .parity
  | .contentSave _ => .content
  | .parityWrite _ _ => .parity
  | .parityFsync _ => .parity

/-- sync never issues a state-changing operation inside a data disk -/
theorem sync_ops_never_touch_data (op : SyncOp) : op.region ≠ .data := by
  cases op <;> simp [SyncOp.region]

variable {K : Type*} [Field K] {nd : ℕ}

/-- one parity equation determines one unknown block when its coefficient is non-zero -/
theorem solve_single (a : Fin nd → K) (v : Fin nd → K) (d : Fin nd) (ha : a d ≠ 0) (P : K)
    (hP : P = ∑ i, a i * v i) :
    v d = (P - ∑ i ∈ univ.erase d, a i * v i) / a d := by
  rw [hP, ← Finset.add_sum_erase univ (fun i => a i * v i) (mem_univ d)]
  field_simp
  ring

/-- **adds-only sync, killed anywhere, single lost old block.**
`o` = old stripe contents (zero at the unused column `c`), `x` = the added block, `a` = the
coefficients of one parity level (all non-zero: 1×1 minors of the generator, C03).  Whether the
level still holds the old parity or already the new one, the lost block `o d` (d ≠ c) is the
solution of that level's equation with the other blocks as they are on disk (strategy 1: with `x`)
or with zero at the new block's place (strategy 2). -/
theorem kill_single_loss_recoverable (a : Fin nd → K) (o : Fin nd → K) (c d : Fin nd) (hcd : d ≠ c)
    (hoc : o c = 0) (x : K) (ha : a d ≠ 0) (isNew : Bool) (P : K)
    (hP : P = if isNew then ∑ i, a i * (Function.update o c x) i else ∑ i, a i * o i) :
    o d = if isNew then (P - ∑ i ∈ univ.erase d, a i * (Function.update o c x) i) / a d
          else (P - ∑ i ∈ univ.erase d, a i * o i) / a d := by
  cases isNew
  · simp only [Bool.false_eq_true, if_false] at hP ⊢
    exact solve_single a o d ha P hP
  · simp only [if_true] at hP ⊢
    have := solve_single a (Function.update o c x) d ha P hP
    rwa [Function.update_of_ne hcd] at this

/-! ### resuming: a sync run again after any interruption re-establishes the full guarantee -/

section Resume
open Arr
variable {β : Type} {nd np : ℕ}

/-- a sync pass: the stripes `ps` completed one after the other with the data read for each -/
def syncPass (gen : (Fin nd → β) → Fin np → β) (zero : β) (s : St β nd np) : List (ℕ × (Fin nd → β)) → St β nd np
  | [] => s
  | (pos, data) :: rest => syncPass gen zero (step gen zero s (.syncOk pos data)) rest

/-- every stripe of the pass is completed under the side condition of `syncOk` (recorded blocks re-read unchanged) -/
def PassPre (gen : (Fin nd → β) → Fin np → β) (zero : β) (s : St β nd np) : List (ℕ × (Fin nd → β)) → Prop
  | [] => True
  | (pos, data) :: rest => readsAgree zero s pos data ∧ PassPre gen zero (step gen zero s (.syncOk pos data)) rest

theorem allBlk_syncOk_self (gen : (Fin nd → β) → Fin np → β) (zero : β) (s : St β nd np) (pos : ℕ) (data : Fin nd → β) :
    allBlk (step gen zero s (.syncOk pos data)) pos := by
  intro d
  simp only [step, if_true]
  cases hd : s.st d pos with
  | empty => exact Or.inl rfl
  | blk c => exact Or.inr ⟨c, rfl⟩
  | pending => exact Or.inr ⟨data d, rfl⟩
  | deleted => exact Or.inl rfl

theorem allBlk_syncOk_mono (gen : (Fin nd → β) → Fin np → β) (zero : β) (s : St β nd np) (p pos : ℕ) (data : Fin nd → β)
    (h : allBlk s pos) : allBlk (step gen zero s (.syncOk p data)) pos := by
  by_cases hp : pos = p
  · subst hp; exact allBlk_syncOk_self gen zero s pos data
  · intro d
    have : (step gen zero s (.syncOk p data)).st d pos = s.st d pos := by simp [step, hp]
    rw [this]; exact h d

theorem syncPass_allBlk (gen : (Fin nd → β) → Fin np → β) (zero : β) (ps : List (ℕ × (Fin nd → β))) (s : St β nd np) (pos : ℕ)
    (h : allBlk s pos ∨ pos ∈ ps.map (·.1)) : allBlk (syncPass gen zero s ps) pos := by
  induction ps generalizing s with
  | nil =>
    rcases h with h | h
    · exact h
    · simp at h
  | cons x rest ih =>
    obtain ⟨p, data⟩ := x
    simp only [syncPass]
    apply ih
    rcases h with h | h
    · exact Or.inl (allBlk_syncOk_mono gen zero s p pos data h)
    · simp only [List.map_cons, List.mem_cons] at h
      rcases h with h | h
      · subst h; exact Or.inl (allBlk_syncOk_self gen zero s pos data)
      · exact Or.inr h

theorem syncPass_inv (gen : (Fin nd → β) → Fin np → β) (zero : β) (ps : List (ℕ × (Fin nd → β))) (s : St β nd np)
    (hinv : Inv gen zero s) (hpre : PassPre gen zero s ps) : Inv gen zero (syncPass gen zero s ps) := by
  induction ps generalizing s with
  | nil => exact hinv
  | cons x rest ih =>
    obtain ⟨p, data⟩ := x
    exact ih _ (C06.inv_step gen zero s (.syncOk p data) hinv hpre.1) hpre.2

/-- **resume**: from ANY state in which the C06 invariant holds — in particular every state
    reachable through interrupted syncs, where parity of some stripes was written and the content
    never saved (`Op.parityOnly`), `C06.inv_reachable` — a sync pass that completes every stripe
    that is not yet fully synced ends with EVERY stripe recorded as synced and with parity equal to
    the generator applied to the recorded contents in every level: the full guarantee is back. -/
theorem resume_reaches_clean (gen : (Fin nd → β) → Fin np → β) (zero : β) (s : St β nd np)
    (ps : List (ℕ × (Fin nd → β))) (hinv : Inv gen zero s) (hpre : PassPre gen zero s ps)
    (hcover : ∀ pos, allBlk s pos ∨ pos ∈ ps.map (·.1)) :
    ∀ pos, allBlk (syncPass gen zero s ps) pos ∧
      ∀ l, (syncPass gen zero s ps).parity l pos = gen (synced zero (syncPass gen zero s ps) pos) l := by
  intro pos
  have h1 := syncPass_allBlk gen zero ps s pos (hcover pos)
  exact ⟨h1, syncPass_inv gen zero ps s hinv hpre pos h1⟩

/-- the same from a state reached by any history of operations, interrupted syncs included -/
theorem resume_after_any_history (gen : (Fin nd → β) → Fin np → β) (zero : β) (hgen : ∀ l, gen (fun _ => zero) l = zero)
    (s : St β nd np) (hs : C06.Reach gen zero s) (ps : List (ℕ × (Fin nd → β))) (hpre : PassPre gen zero s ps)
    (hcover : ∀ pos, allBlk s pos ∨ pos ∈ ps.map (·.1)) :
    ∀ pos, allBlk (syncPass gen zero s ps) pos ∧
      ∀ l, (syncPass gen zero s ps).parity l pos = gen (synced zero (syncPass gen zero s ps) pos) l :=
  resume_reaches_clean gen zero s ps (C06.inv_reachable gen zero hgen s hs) hpre hcover

end Resume

end SnapraidVerif.Props.C07
