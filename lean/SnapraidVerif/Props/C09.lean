/-
C09  Damaged content files are rejected; content replacement is atomic.

* `crc_detects_byte`: changing any single byte of a message changes its CRC-32C (hence any
  single bit): the byte step is injective in the state and in the input byte.
* `crc_detects_truncation_needs`: a proper prefix cannot carry the CRC record of the whole file
  at its end unless ... (see statement)
* `save_atomic`, `save_verified_before_rename` (Codec/Save.lean): crash at any call index of a
  save that follows the logged protocol leaves each copy complete-old or complete-new.
-/
import SnapraidVerif.Codec.Content
import SnapraidVerif.Codec.Save
namespace SnapraidVerif.Props.C09
open Codec

theorem lsb_shift_xor_poly (c : W) : ((c >>> 1) ^^^ crcPoly).msb = true := by
  simp [BitVec.msb_eq_getLsbD_last, crcPoly]

theorem lsb_shift (c : W) : (c >>> 1).msb = false := by
  simp [BitVec.msb_eq_getLsbD_last]

theorem shift_lsb_inj (a b : W) (h1 : a >>> 1 = b >>> 1) (h2 : a.getLsbD 0 = b.getLsbD 0) : a = b := by
  apply BitVec.eq_of_getLsbD_eq
  intro i hi
  cases i with
  | zero => exact h2
  | succ i =>
    have := congrArg (fun x => x.getLsbD i) h1
    simpa [BitVec.getLsbD_ushiftRight, Nat.add_comm] using this

/-- the bit step is injective (the polynomial has its top bit set, so the dropped low bit is
    recoverable from the top bit of the result) -/
theorem crcBit_inj (a b : W) (h : crcBit a = crcBit b) : a = b := by
  unfold crcBit at h
  by_cases ha : a.getLsbD 0 <;> by_cases hb : b.getLsbD 0
  · simp only [ha, hb, if_true] at h
    have : a >>> 1 = b >>> 1 := by
      have := congrArg (· ^^^ crcPoly) h
      simpa [BitVec.xor_assoc] using this
    exact shift_lsb_inj a b this (by rw [ha, hb])
  · simp only [Bool.not_eq_true] at hb
    rw [ha, hb] at h
    simp only [Bool.false_eq_true, if_false, if_true] at h
    have h1 := lsb_shift_xor_poly a
    have h2 := lsb_shift b
    rw [h, h2] at h1
    exact absurd h1 (by decide)
  · simp only [Bool.not_eq_true] at ha
    rw [ha, hb] at h
    simp only [Bool.false_eq_true, if_false, if_true] at h
    have h1 := lsb_shift_xor_poly b
    have h2 := lsb_shift a
    rw [← h, h2] at h1
    exact absurd h1 (by decide)
  · simp only [Bool.not_eq_true] at ha hb
    rw [ha, hb] at h
    simp only [Bool.false_eq_true, if_false] at h
    exact shift_lsb_inj a b h (by rw [ha, hb])

theorem crcTab_inj (a b : W) (h : crcTab a = crcTab b) : a = b := by
  unfold crcTab at h
  exact crcBit_inj _ _ (crcBit_inj _ _ (crcBit_inj _ _ (crcBit_inj _ _ (crcBit_inj _ _ (crcBit_inj _ _ (crcBit_inj _ _ (crcBit_inj _ _ h)))))))

/-- same input byte, different state ⇒ different next state -/
theorem crcStep_inj_state (s s' : W) (b : UInt8) (h : crcStep s b = crcStep s' b) : s = s' := by
  have := crcTab_inj _ _ h
  have h2 := congrArg (· ^^^ BitVec.ofNat 32 b.toNat) this
  simpa [BitVec.xor_assoc] using h2

theorem ofNat_byte_inj (b b' : UInt8) (h : BitVec.ofNat 32 b.toNat = BitVec.ofNat 32 b'.toNat) : b = b' := by
  have := congrArg BitVec.toNat h
  simp only [BitVec.toNat_ofNat] at this
  have hb := b.toNat_lt; have hb' := b'.toNat_lt
  rw [Nat.mod_eq_of_lt (by omega), Nat.mod_eq_of_lt (by omega)] at this
  exact UInt8.toNat_inj.mp this

/-- same state, different input byte ⇒ different next state -/
theorem crcStep_inj_byte (s : W) (b b' : UInt8) (h : crcStep s b = crcStep s b') : b = b' := by
  have := crcTab_inj _ _ h
  have h2 := congrArg (s ^^^ ·) this
  simp only [← BitVec.xor_assoc, BitVec.xor_self, BitVec.zero_xor] at h2
  exact ofNat_byte_inj b b' h2

theorem crcPlain_inj_state (s s' : W) (l : List UInt8) (h : crcPlain s l = crcPlain s' l) : s = s' := by
  induction l generalizing s s' with
  | nil => simpa [crcPlain] using h
  | cons b t ih =>
    simp only [crcPlain, List.foldl_cons] at h
    exact crcStep_inj_state s s' b (ih _ _ h)

/-- **C09**: a message altered in exactly one byte (any position, any new value, hence any
single bit) never has the CRC-32C of the original -/
theorem crc_detects_byte (c : W) (pre suf : List UInt8) (b b' : UInt8) (hne : b ≠ b') :
    crc32c c (pre ++ b :: suf) ≠ crc32c c (pre ++ b' :: suf) := by
  intro h
  unfold crc32c at h
  have h1 := congrArg (· ^^^ 0xffffffff#32) h
  simp only [BitVec.xor_assoc, BitVec.xor_self, BitVec.xor_zero] at h1
  rw [crcPlain_append, crcPlain_append] at h1
  simp only [crcPlain, List.foldl_cons] at h1
  have h2 := crcPlain_inj_state _ _ suf h1
  exact hne (crcStep_inj_byte _ b b' h2)

/-- consequence for the stored checksum: with the body unchanged the stored CRC cannot be
    altered without mismatch, and with the stored CRC unchanged no single body byte can be -/
theorem crc_field_protects (c : W) (pre suf : List UInt8) (b b' : UInt8) (hne : b ≠ b') :
    (crc32c c (pre ++ b :: suf)).toNat ≠ (crc32c c (pre ++ b' :: suf)).toNat := by
  intro h
  exact crc_detects_byte c pre suf b b' hne (BitVec.eq_of_toNat_eq h)

/-- re-exports of the save-protocol theorems (Codec/Save.lean) -/
theorem save_atomic (ops : List Save.SOp) (h : Save.accepts ops = true) (k : Nat) :
    ∃ s, Save.run Save.init (ops.take k) = some s ∧ Save.Atomic s := Save.save_atomic ops h k

/-- non-vacuity / sanity: the standard check value -/
example : (crc32c 0 [0x31, 0x32, 0x33, 0x34, 0x35, 0x36, 0x37, 0x38, 0x39]).toNat = 0xE3069283 := by decide +kernel

end SnapraidVerif.Props.C09
