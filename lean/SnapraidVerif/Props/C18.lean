/-
C18  Include/exclude and selection filters follow the documented rules.
-/
import SnapraidVerif.Filter.Rules
namespace SnapraidVerif.Props.C18
open Filter

/-- the first matching rule decides -/
theorem first_match_decides (r : Rule) (rs : List Rule) (disk sub : S) (isDir defInc : Bool)
    (h : (if r.isDisk then fnm false r.pattern disk else recurse r sub isDir) = true) :
    element (r :: rs) disk sub isDir defInc = !r.incl := by
  simp [element, element.go, h]

/-- a non-matching first rule is skipped (the rest decides, with the default flipped) -/
theorem no_match_falls_through (r : Rule) (rs : List Rule) (disk sub : S) (isDir defInc : Bool)
    (h : (if r.isDisk then fnm false r.pattern disk else recurse r sub isDir) = false) :
    element (r :: rs) disk sub isDir defInc = element.go disk sub isDir defInc (!r.incl) rs := by
  simp [element, element.go, h]

/-- with no match at all a file is excluded iff the last rule is an incl (and included when
    there is no rule) -/
theorem default_opposite_of_last (rs : List Rule) (disk sub : S) (isDir : Bool) (d : Bool)
    (h : ∀ r ∈ rs, (if r.isDisk then fnm false r.pattern disk else recurse r sub isDir) = false) :
    element.go disk sub isDir false d rs = !(match rs.getLast? with | some r => !r.incl | none => d) := by
  induction rs generalizing d with
  | nil => simp [element.go]
  | cons r rs ih =>
    have hr := h r (List.mem_cons_self ..)
    simp only [element.go, hr]
    rw [ih _ (fun x hx => h x (List.mem_cons_of_mem _ hx))]
    cases rs with
    | nil => simp
    | cons r' rs' =>
      simp only [List.getLast?_cons_cons]
      cases hlast : (r' :: rs').getLast? with
      | none => simp at hlast
      | some x => rfl

/-- directories are always entered unless a rule explicitly excludes them -/
theorem dirs_included_by_default (rs : List Rule) (disk sub : S) (d : Bool)
    (h : ∀ r ∈ rs, (if r.isDisk then fnm false r.pattern disk else recurse r sub true) = false) :
    element.go disk sub true true d rs = false := by
  induction rs generalizing d with
  | nil => simp [element.go]
  | cons r rs ih =>
    have hr := h r (List.mem_cons_self ..)
    simp only [element.go, hr]
    exact ih _ (fun x hx => h x (List.mem_cons_of_mem _ hx))

/-! the rest of the pattern after a bracket expression is a part of the pattern -/
theorem brChar_sub (p : S) (a : UInt8) (r : S) (h : brChar p = some (a, r)) : ∀ x ∈ r, x ∈ p := by
  cases p with
  | nil => simp [brChar] at h
  | cons c p' =>
    simp only [brChar] at h
    split at h
    · cases p' with
      | nil => simp at h
      | cons d p'' =>
        simp only [Option.some.injEq, Prod.mk.injEq] at h
        obtain ⟨_, rfl⟩ := h
        intro x hx; simp [hx]
    · simp only [Option.some.injEq, Prod.mk.injEq] at h
      obtain ⟨_, rfl⟩ := h
      intro x hx; simp [hx]

theorem brItems_sub (fuel : Nat) : ∀ (first : Bool) (p : S) (items : List Item) (rest : S),
    brItems fuel first p = some (items, rest) → ∀ x ∈ rest, x ∈ p := by
  induction fuel with
  | zero => intro first p items rest h; simp [brItems] at h
  | succ fuel ih =>
    intro first p items rest h
    cases p with
    | nil => simp [brItems] at h
    | cons c p' =>
      simp only [brItems] at h
      split at h
      · simp only [Option.some.injEq, Prod.mk.injEq] at h
        obtain ⟨_, rfl⟩ := h
        intro x hx; simp [hx]
      · split at h
        · simp at h
        · rename_i a p1 hbc
          have hsub1 := brChar_sub (c :: p') a p1 hbc
          split at h
          · rename_i d e p2
            split at h
            · split at h
              · simp at h
              · rename_i b p3 hbc2
                have hsub2 := brChar_sub (e :: p2) b p3 hbc2
                simp only [Option.map_eq_some_iff] at h
                obtain ⟨⟨it, rr⟩, hrec, heq⟩ := h
                simp only [Prod.mk.injEq] at heq
                obtain ⟨_, rfl⟩ := heq
                intro x hx
                have := ih false p3 it rr hrec x hx
                have := hsub2 x this
                exact hsub1 x (by simp at this ⊢; rcases this with h | h <;> simp [h])
            · simp only [Option.map_eq_some_iff] at h
              obtain ⟨⟨it, rr⟩, hrec, heq⟩ := h
              simp only [Prod.mk.injEq] at heq
              obtain ⟨_, rfl⟩ := heq
              intro x hx
              exact hsub1 x (ih false _ it rr hrec x hx)
          · simp only [Option.map_eq_some_iff] at h
            obtain ⟨⟨it, rr⟩, hrec, heq⟩ := h
            simp only [Prod.mk.injEq] at heq
            obtain ⟨_, rfl⟩ := heq
            intro x hx
            exact hsub1 x (ih false _ it rr hrec x hx)

theorem parseBracket_sub (p : S) (neg : Bool) (items : List Item) (rest : S)
    (h : parseBracket p = some (neg, items, rest)) : ∀ x ∈ rest, x ∈ p := by
  cases p with
  | nil => simp [parseBracket] at h
  | cons c p' =>
    simp only [parseBracket] at h
    split at h
    · simp only [Option.map_eq_some_iff] at h
      obtain ⟨⟨it, rr⟩, hrec, heq⟩ := h
      simp only [Prod.mk.injEq] at heq
      obtain ⟨_, _, rfl⟩ := heq
      intro x hx
      have := brItems_sub _ true p' it rr hrec x hx
      simp [this]
    · simp only [Option.map_eq_some_iff] at h
      obtain ⟨⟨it, rr⟩, hrec, heq⟩ := h
      simp only [Prod.mk.injEq] at heq
      obtain ⟨_, _, rfl⟩ := heq
      intro x hx
      exact brItems_sub _ true (c :: p') it rr hrec x hx

theorem no_slash_aux (n : Nat) : ∀ (p s : S), p.length + s.length ≤ n → SLASH ∉ p → SLASH ∈ s → fnm true p s = false := by
  induction n with
  | zero =>
    intro p s hn hp hs
    have : s = [] := by cases s <;> simp_all
    subst this; simp at hs
  | succ n ih =>
    intro p s hn hp hs
    cases p with
    | nil => cases s with
      | nil => simp at hs
      | cons x s' => simp [fnm]
    | cons c p =>
      have hc : c ≠ SLASH := fun h => hp (by simp [h])
      have hp' : SLASH ∉ p := fun h => hp (by simp [h])
      cases s with
      | nil => simp at hs
      | cons x s' =>
        have hrec : ∀ q, SLASH ∉ q → q.length ≤ (c :: p).length → x ≠ SLASH → fnm true q s' = false := by
          intro q hq hlen hx
          apply ih q s' (by simp at hn hlen ⊢; omega) hq
          simpa [Ne.symm hx] using hs
        unfold fnm
        by_cases hq : c = QM
        · simp only [hq, if_true]
          by_cases hx : x = SLASH
          · simp [hx]
          · simp only [hx, and_false, if_false]
            exact hrec p hp' (by simp) hx
        · simp only [hq, if_false]
          by_cases hb : c = BSL
          · simp only [hb, if_true]
            cases p with
            | nil => rfl
            | cons d p' =>
              simp only
              by_cases hx : x = d
              · have hd : d ≠ SLASH := fun h => hp' (by simp [h])
                simp only [hx, if_true]
                exact hrec p' (fun h => hp' (by simp [h])) (by simp; omega) (by rw [hx]; exact hd)
              · simp [hx]
          · simp only [hb, if_false]
            by_cases hst : c = STAR
            · simp only [hst, if_true]
              have h1 : fnm true p (x :: s') = false := ih p (x :: s') (by simp at hn ⊢; omega) hp' hs
              rw [h1, Bool.false_or]
              by_cases hx : x = SLASH
              · simp [hx]
              · simp only [hx, and_false, if_false]
                rw [← hst]
                exact hrec (c :: p) hp (by simp) hx
            · simp only [hst, if_false]
              by_cases hl : c = LBR
              · simp only [hl, if_true]
                cases hpb : parseBracket p with
                | none =>
                  simp only
                  by_cases hx : x = LBR
                  · simp only [hx, if_true]
                    exact hrec p hp' (by simp) (by rw [hx]; decide)
                  · simp [hx]
                | some r =>
                  obtain ⟨neg, items, rest⟩ := r
                  simp only
                  split
                  · by_cases hx : x = SLASH
                    · simp [hx]
                    · simp only [hx, and_false, if_false]
                      split
                      · rename_i hlt _
                        have hr : SLASH ∉ rest := fun h => hp' (parseBracket_sub p neg items rest hpb SLASH h)
                        exact hrec rest hr (by simp; omega) hx
                      · rfl
                  · rfl
              · simp only [hl, if_false]
                by_cases hx : x = c
                · simp only [hx, if_true]
                  exact hrec p hp' (by simp) (by rw [hx]; exact hc)
                · simp [hx]

/-- in pathname mode neither `*` nor `?` nor a bracket ever consumes a slash: a match implies the
    pattern and the string have the same number of unescaped-literal slashes … stated here in the
    form used by the rules: a pattern without any slash never matches a string containing one -/
theorem wildcard_never_crosses_slash (p s : S) (hp : SLASH ∉ p) (hs : SLASH ∈ s) : fnm true p s = false :=
  no_slash_aux _ p s (Nat.le_refl _) hp hs

end SnapraidVerif.Props.C18
