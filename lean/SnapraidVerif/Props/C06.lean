/-
C06  Stripes recorded as synced always have valid parity.

`inv_reachable`: for EVERY sequence of operations (scan marks, completed / skipped stripes,
parity written without content saved, fix, no-ops) from the empty array, every stripe whose
allocated blocks are all recorded as synced has parity = gen(synced contents) in every level.
The model is tied to the binary by the E2E-INV runtime check of exactly this invariant
(tools/chk_C06.py) after every command of generated histories.
-/
import SnapraidVerif.Array.SyncModel
namespace SnapraidVerif.Props.C06
open Arr

variable {β : Type} {nd np : Nat}

def init (zero : β) : St β nd np := { st := fun _ _ => .empty, parity := fun _ _ => zero }

/-- the empty array satisfies the invariant provided gen(0) = 0 (the generator is linear) -/
theorem inv_init (gen : (Fin nd → β) → Fin np → β) (zero : β) (hgen : ∀ l, gen (fun _ => zero) l = zero) :
    Inv gen zero (init zero : St β nd np) := by
  intro pos _ l
  simp only [init]
  have : synced zero (init zero : St β nd np) pos = fun _ => zero := by
    funext d; simp [synced, init]
  simp only [init] at this
  rw [this, hgen]

theorem synced_of_readsAgree (zero : β) (s : St β nd np) (pos : Nat) (data : Fin nd → β)
    (h : readsAgree zero s pos data) (hall : allBlk s pos) : synced zero s pos = data := by
  funext d
  rcases hall d with he | ⟨c, hc⟩
  · simp [synced, he, (h d).2.1 he]
  · simp [synced, hc, (h d).1 c hc]

/-- one step preserves the invariant -/
theorem inv_step (gen : (Fin nd → β) → Fin np → β) (zero : β) (s : St β nd np) (op : Op β nd np)
    (hinv : Inv gen zero s) (hpre : Pre zero s op) : Inv gen zero (step gen zero s op) := by
  intro pos hall l
  cases op with
  | markPending d p =>
    by_cases hp : pos = p
    · subst hp
      have := hall d
      simp [step, setSt] at this
    · have hst : ∀ d', (step gen zero s (.markPending d p)).st d' pos = s.st d' pos := by
        intro d'; simp [step, setSt, hp]
      have hall' : allBlk s pos := fun d' => by simpa [hst d'] using hall d'
      have hs : synced zero (step gen zero s (.markPending d p)) pos = synced zero s pos := by
        funext d'; simp [synced, hst d']
      rw [hs]; exact hinv pos hall' l
  | markDeleted d p =>
    by_cases hp : pos = p
    · subst hp
      have := hall d
      simp [step, setSt] at this
    · have hst : ∀ d', (step gen zero s (.markDeleted d p)).st d' pos = s.st d' pos := by
        intro d'; simp [step, setSt, hp]
      have hall' : allBlk s pos := fun d' => by simpa [hst d'] using hall d'
      have hs : synced zero (step gen zero s (.markDeleted d p)) pos = synced zero s pos := by
        funext d'; simp [synced, hst d']
      rw [hs]; exact hinv pos hall' l
  | syncOk p data =>
    by_cases hp : pos = p
    · subst hp
      simp only [step, if_true]
      congr 1
      funext d
      have hr := hpre d
      simp only [synced, if_true]
      cases hd : s.st d pos with
      | empty => simp [hr.2.1 hd]
      | blk c => simp [hr.1 c hd]
      | pending => simp
      | deleted => simp [hr.2.2 hd]
    · have hst : ∀ d', (step gen zero s (.syncOk p data)).st d' pos = s.st d' pos := by
        intro d'; simp [step, hp]
      have hall' : allBlk s pos := fun d' => by simpa [hst d'] using hall d'
      have hs : synced zero (step gen zero s (.syncOk p data)) pos = synced zero s pos := by
        funext d'; simp [synced, hst d']
      rw [hs]
      simp only [step, if_neg hp]
      exact hinv pos hall' l
  | syncSkip p => exact hinv pos hall l
  | parityOnly p data =>
    have hall' : allBlk s pos := hall
    have hs : synced zero (step gen zero s (.parityOnly p data)) pos = synced zero s pos := rfl
    rw [hs]
    by_cases hp : pos = p
    · subst hp
      simp only [step, if_true]
      rw [synced_of_readsAgree zero s pos data hpre hall']
    · simp only [step, if_neg hp]; exact hinv pos hall' l
  | fixParity p =>
    have hall' : allBlk s pos := hall
    have hs : synced zero (step gen zero s (.fixParity p)) pos = synced zero s pos := rfl
    rw [hs]
    by_cases hp : pos = p
    · subst hp; simp [step]
    · simp only [step, if_neg hp]; exact hinv pos hall' l
  | noop => exact hinv pos hall l

/-- executions: every operation is performed under its side condition -/
inductive Reach (gen : (Fin nd → β) → Fin np → β) (zero : β) : St β nd np → Prop
  | init : Reach gen zero (init zero)
  | step (s : St β nd np) (op : Op β nd np) : Reach gen zero s → Pre zero s op → Reach gen zero (Arr.step gen zero s op)

/-- C06 for every reachable state, any number of operations -/
theorem inv_reachable (gen : (Fin nd → β) → Fin np → β) (zero : β) (hgen : ∀ l, gen (fun _ => zero) l = zero)
    (s : St β nd np) (h : Reach gen zero s) : Inv gen zero s := by
  induction h with
  | init => exact inv_init gen zero hgen
  | step s op _ hpre ih => exact inv_step gen zero s op ih hpre

/-! ### extent map: allocation keeps "no two files share a position, every block mapped once" -/

/-- the block map of one disk: (position, file, index in file) -/
abbrev Ext := List (Nat × Nat × Nat)

def ExtWF (e : Ext) : Prop := (e.map (·.1)).Nodup ∧ (e.map fun x => (x.2.1, x.2.2)).Nodup

/-- allocating a free position to an unmapped block keeps the map well formed -/
theorem extent_wf_alloc (e : Ext) (pos file idx : Nat) (h : ExtWF e)
    (hfree : pos ∉ e.map (·.1)) (hnew : (file, idx) ∉ e.map fun x => (x.2.1, x.2.2)) :
    ExtWF ((pos, file, idx) :: e) := by
  constructor
  · simp only [List.map_cons, List.nodup_cons]; exact ⟨hfree, h.1⟩
  · simp only [List.map_cons, List.nodup_cons]; exact ⟨hnew, h.2⟩

theorem extent_wf_dealloc (e : Ext) (p : Nat × Nat × Nat → Bool) (h : ExtWF e) : ExtWF (e.filter p) := by
  constructor
  · exact (h.1.sublist ((List.filter_sublist).map _))
  · exact (h.2.sublist ((List.filter_sublist).map _))

/-- non-vacuity: a two-disk state with a completed stripe satisfies the premises and the invariant is not vacuous on it -/
example : allBlk (step (fun (d : Fin 2 → Nat) (_ : Fin 1) => d 0 + d 1) 0
    (step (fun d _ => d 0 + d 1) 0 (init 0 : St Nat 2 1) (.markPending 0 3)) (.syncOk 3 (fun d => if d = 0 then 7 else 0))) 3 := by
  intro d
  by_cases h : d = 0 <;> simp [step, setSt, init, h]

end SnapraidVerif.Props.C06
