/-
C14  Safety interlocks refuse destructive syncs and change nothing: the decision rules,
stated outright (scan.c:1828-1873, sync.c:1484-1526), as executable definitions + theorems.
-/
namespace SnapraidVerif.Props.C14

/-- per-disk counters of a scan -/
structure ScanCount where
  equal : Nat
  move : Nat
  restore : Nat
  remove : Nat
  change : Nat
  insert : Nat := 0
deriving DecidableEq, Repr

/-- "all the files previously present in the disk are now missing or have been rewritten" -/
def emptyTrigger (c : ScanCount) : Bool :=
  c.equal == 0 && c.move == 0 && c.restore == 0 && (c.remove != 0 || c.change != 0)

def refuseEmpty (forceEmpty : Bool) (disks : List ScanCount) : Bool := !forceEmpty && disks.any emptyTrigger

/-- the loop `if (l == 0 || file_paritymax > parityblocks) file_paritymax = parityblocks` -/
def minParity : List Nat → Nat
  | [] => 0
  | b :: rest => rest.foldl (fun m x => if m > x then x else m) b

def refuseParity (forceFull forceRealloc : Bool) (levelBlocks : List Nat) (used : Nat) : Bool :=
  !(forceRealloc || forceFull) && minParity levelBlocks < used

theorem foldl_min_le (l : List Nat) (m : Nat) : l.foldl (fun m x => if m > x then x else m) m ≤ m ∧
    ∀ x ∈ l, l.foldl (fun m x => if m > x then x else m) m ≤ x := by
  induction l generalizing m with
  | nil => simp
  | cons y ys ih =>
    simp only [List.foldl_cons]
    have h := ih (if m > y then y else m)
    have hm : (if m > y then y else m) ≤ m := by split <;> omega
    have hy : (if m > y then y else m) ≤ y := by split <;> omega
    constructor
    · exact Nat.le_trans h.1 hm
    · intro x hx
      rcases List.mem_cons.mp hx with rfl | hx'
      · exact Nat.le_trans h.1 hy
      · exact h.2 x hx'

/-- the size used by the interlock is not larger than the size of ANY level -/
theorem minParity_le (l : List Nat) (x : Nat) (hx : x ∈ l) : minParity l ≤ x := by
  cases l with
  | nil => simp at hx
  | cons b rest =>
    simp only [minParity]
    rcases List.mem_cons.mp hx with rfl | h
    · exact (foldl_min_le rest x).1
    · exact (foldl_min_le rest b).2 x h

/-- a parity level shorter than the recorded state requires makes sync refuse (unless a full rebuild is forced) -/
theorem short_parity_refused (levels : List Nat) (used : Nat) (x : Nat) (hx : x ∈ levels) (hshort : x < used) :
    refuseParity false false levels used = true := by
  have := minParity_le levels x hx
  simp [refuseParity]; omega

/-- with the override the same sync proceeds -/
theorem forced_proceeds (levels : List Nat) (used : Nat) : refuseParity true false levels used = false := by
  simp [refuseParity]

/-- the empty-disk rule stated outright, and its override -/
theorem empty_rule (c : ScanCount) : emptyTrigger c = true ↔
    (c.equal = 0 ∧ c.move = 0 ∧ c.restore = 0 ∧ (c.remove ≠ 0 ∨ c.change ≠ 0)) := by
  simp [emptyTrigger]; constructor
  · rintro ⟨⟨⟨h1, h2⟩, h3⟩, h4⟩; exact ⟨h1, h2, h3, h4⟩
  · rintro ⟨h1, h2, h3, h4⟩; exact ⟨⟨⟨h1, h2⟩, h3⟩, h4⟩

theorem force_empty_proceeds (disks : List ScanCount) : refuseEmpty true disks = false := by simp [refuseEmpty]

theorem all_missing_refused (disks : List ScanCount) (c : ScanCount) (hc : c ∈ disks)
    (h : c.equal = 0 ∧ c.move = 0 ∧ c.restore = 0 ∧ c.remove ≠ 0) : refuseEmpty false disks = true := by
  simp only [refuseEmpty, Bool.not_false, Bool.true_and, List.any_eq_true]
  exact ⟨c, hc, (empty_rule c).mpr ⟨h.1, h.2.1, h.2.2.1, Or.inl h.2.2.2⟩⟩

/-- non-vacuity: the seeded way to break it (treating 0 blocks as "unset") is excluded -/
example : minParity [5, 0, 5] = 0 ∧ refuseParity false false [5, 0, 5] 5 = true := by decide

end SnapraidVerif.Props.C14
