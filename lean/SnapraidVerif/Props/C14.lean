/-
C14  Safety interlocks refuse destructive syncs and change nothing: the decision rules,
stated outright (scan.c:1828-1873, sync.c:1484-1526), as executable definitions + theorems.
-/
namespace SnapraidVerif.Props.C14

/-- per-disk counters of a scan -/
structure ScanCount where
  equal : Nat
  move : Nat
  restore : Nat
  remove : Nat
  change : Nat
  insert : Nat := 0
deriving DecidableEq, Repr

/-- "all the files previously present in the disk are now missing or have been rewritten" -/
def emptyTrigger (c : ScanCount) : Bool :=
  c.equal == 0 && c.move == 0 && c.restore == 0 && (c.remove != 0 || c.change != 0)

def refuseEmpty (forceEmpty : Bool) (disks : List ScanCount) : Bool := !forceEmpty && disks.any emptyTrigger

/-- the loop `if (l == 0 || file_paritymax > parityblocks) file_paritymax = parityblocks` -/
def minParity : List Nat → Nat
  | [] => 0
  | b :: rest => rest.foldl (fun m x => if m > x then x else m) b

def refuseParity (forceFull forceRealloc : Bool) (levelBlocks : List Nat) (used : Nat) : Bool :=
  !(forceRealloc || forceFull) && minParity levelBlocks < used

theorem foldl_min_le (l : List Nat) (m : Nat) : l.foldl (fun m x => if m > x then x else m) m ≤ m ∧
    ∀ x ∈ l, l.foldl (fun m x => if m > x then x else m) m ≤ x := by
  induction l generalizing m with
  | nil => simp
  | cons y ys ih =>
    simp only [List.foldl_cons]
    have h := ih (if m > y then y else m)
    have hm : (if m > y then y else m) ≤ m := by split <;> omega
    have hy : (if m > y then y else m) ≤ y := by split <;> omega
    constructor
    · exact Nat.le_trans h.1 hm
    · intro x hx
      rcases List.mem_cons.mp hx with rfl | hx'
      · exact Nat.le_trans h.1 hy
      · exact h.2 x hx'

/-- the size used by the interlock is not larger than the size of ANY level -/
theorem minParity_le (l : List Nat) (x : Nat) (hx : x ∈ l) : minParity l ≤ x := by
  cases l with
  | nil => simp at hx
  | cons b rest =>
    simp only [minParity]
    rcases List.mem_cons.mp hx with rfl | h
    · exact (foldl_min_le rest x).1
    · exact (foldl_min_le rest b).2 x h

/-- a parity level shorter than the recorded state requires makes sync refuse (unless a full rebuild is forced) -/
theorem short_parity_refused (levels : List Nat) (used : Nat) (x : Nat) (hx : x ∈ levels) (hshort : x < used) :
    refuseParity false false levels used = true := by
  have := minParity_le levels x hx
  simp [refuseParity]; omega

/-- with the override the same sync proceeds -/
theorem forced_proceeds (levels : List Nat) (used : Nat) : refuseParity true false levels used = false := by
  simp [refuseParity]

/-- the empty-disk rule stated outright, and its override -/
theorem empty_rule (c : ScanCount) : emptyTrigger c = true ↔
    (c.equal = 0 ∧ c.move = 0 ∧ c.restore = 0 ∧ (c.remove ≠ 0 ∨ c.change ≠ 0)) := by
  simp [emptyTrigger]; constructor
  · rintro ⟨⟨⟨h1, h2⟩, h3⟩, h4⟩; exact ⟨h1, h2, h3, h4⟩
  · rintro ⟨h1, h2, h3, h4⟩; exact ⟨⟨⟨h1, h2⟩, h3⟩, h4⟩

theorem force_empty_proceeds (disks : List ScanCount) : refuseEmpty true disks = false := by simp [refuseEmpty]

theorem all_missing_refused (disks : List ScanCount) (c : ScanCount) (hc : c ∈ disks)
    (h : c.equal = 0 ∧ c.move = 0 ∧ c.restore = 0 ∧ c.remove ≠ 0) : refuseEmpty false disks = true := by
  simp only [refuseEmpty, Bool.not_false, Bool.true_and, List.any_eq_true]
  exact ⟨c, hc, (empty_rule c).mpr ⟨h.1, h.2.1, h.2.2.1, Or.inl h.2.2.2⟩⟩

/-- non-vacuity: the seeded way to break it (treating 0 blocks as "unset") is excluded -/
example : minParity [5, 0, 5] = 0 ∧ refuseParity false false [5, 0, 5] 5 = true := by decide

/-! ### the zero-size rule (scan.c scan_file: "has unexpected zero size")

A recorded file found again (by inode or by path) with another size or time-stamp is re-inserted;
if it was recorded with a non-zero size and is now empty, sync refuses unless `--force-zero`.
The rule looks at the recorded SIZE only: whether the blocks of the file ever reached the parity
(a file recorded by an interrupted or partial sync) plays no role. -/

/-- a recorded file met again by the scan: recorded size, how many of its blocks are synced, size now -/
structure Refound where
  recordedSize : Nat
  syncedBlocks : Nat
  totalBlocks : Nat
  sizeNow : Nat
  changed : Bool        -- size or time-stamp differ from the record (otherwise the file is kept as it is)

def zeroTrigger (f : Refound) : Bool := f.changed && f.recordedSize != 0 && f.sizeNow == 0

def refuseZero (forceZero : Bool) (files : List Refound) : Bool := !forceZero && files.any zeroTrigger

/-- any recorded non-empty file that turns up empty makes sync refuse — also when none or only some of
    its blocks were ever synced -/
theorem zero_size_refused (files : List Refound) (f : Refound) (hf : f ∈ files)
    (hrec : f.recordedSize ≠ 0) (hnow : f.sizeNow = 0) (hch : f.changed = true) : refuseZero false files = true := by
  simp only [refuseZero, Bool.not_false, Bool.true_and, List.any_eq_true]
  exact ⟨f, hf, by simp [zeroTrigger, hrec, hnow, hch]⟩

theorem zero_rule_ignores_sync_state (f : Refound) (k : Nat) :
    zeroTrigger { f with syncedBlocks := k } = zeroTrigger f := rfl

theorem force_zero_proceeds (files : List Refound) : refuseZero true files = false := by simp [refuseZero]

/-! ### the lock: `flock` on the file named `<content>.lock`

A lock is held on an inode, a command finds the inode through the name.  As long as nobody
unlinks the name every command locks the same inode, hence at most one command holds a lock;
a command that removes the lock file (for instance when it ends, even after being refused)
breaks exactly this. -/

structure LockSt where
  /-- inode the path names (none: the file does not exist) -/
  named : Option Nat
  /-- next fresh inode number -/
  fresh : Nat
  /-- inode → the process holding the flock on it -/
  holder : Nat → Option Nat

inductive LockOp where
  | acquire (p : Nat)     -- open(O_CREAT) + flock(LOCK_EX|LOCK_NB)
  | release (p : Nat)     -- the process ends: its locks go away
  | unlinkName            -- somebody removes the lock file

def lockInit : LockSt := { named := none, fresh := 0, holder := fun _ => none }

/-- returns the new state and, for `acquire`, whether the lock was granted -/
def lockStep (s : LockSt) : LockOp → LockSt × Bool
  | .acquire p =>
    match s.named with
    | some i =>
      if s.holder i = none then ({ s with holder := fun j => if j = i then some p else s.holder j }, true)
      else (s, false)
    | none =>
      let i := s.fresh
      ({ named := some i, fresh := i + 1, holder := fun j => if j = i then some p else s.holder j }, true)
  | .release p => ({ s with holder := fun j => if s.holder j = some p then none else s.holder j }, true)
  | .unlinkName => ({ s with named := none }, true)

def lockRun (s : LockSt) : List LockOp → LockSt
  | [] => s
  | o :: os => lockRun (lockStep s o).1 os

def noUnlink : List LockOp → Prop
  | [] => True
  | .unlinkName :: _ => False
  | _ :: os => noUnlink os

/-- invariant without unlink: only the named inode can be locked, and fresh inodes are unlocked -/
def LockInv (s : LockSt) : Prop :=
  (∀ j, s.holder j ≠ none → s.named = some j) ∧ (∀ i, s.named = some i → i < s.fresh) ∧ (∀ j, s.fresh ≤ j → s.holder j = none)

theorem lockInv_step (s : LockSt) (o : LockOp) (h : LockInv s) (ho : o ≠ .unlinkName) : LockInv (lockStep s o).1 := by
  obtain ⟨h1, h2, h3⟩ := h
  cases o with
  | unlinkName => exact absurd rfl ho
  | release p =>
    refine ⟨?_, h2, ?_⟩
    · intro j hj
      simp only [lockStep] at hj ⊢
      split at hj
      · exact absurd rfl hj
      · exact h1 j hj
    · intro j hj
      simp only [lockStep]
      split
      · rfl
      · exact h3 j hj
  | acquire p =>
    simp only [lockStep]
    split
    · rename_i i hn
      split
      · refine ⟨?_, ?_, ?_⟩
        · intro j hj
          dsimp only at hj ⊢
          by_cases hji : j = i
          · subst hji; exact hn
          · simp only [hji, if_false] at hj; exact h1 j hj
        · intro i' hi'; dsimp only at hi' ⊢; exact h2 i' hi'
        · intro j hj
          dsimp only at hj ⊢
          have hlt := h2 i hn
          have : j ≠ i := by omega
          simp only [this, if_false]; exact h3 j hj
      · exact ⟨h1, h2, h3⟩
    · rename_i hn
      refine ⟨?_, ?_, ?_⟩
      · intro j hj
        dsimp only at hj ⊢
        by_cases hji : j = s.fresh
        · subst hji; rfl
        · simp only [hji, if_false] at hj
          have := h1 j hj; rw [hn] at this; cases this
      · intro i hi; dsimp only at hi ⊢; simp only [Option.some.injEq] at hi; omega
      · intro j hj
        dsimp only at hj ⊢
        have : j ≠ s.fresh := by omega
        simp only [this, if_false]; exact h3 j (by omega)

theorem lockInv_run (s : LockSt) (ops : List LockOp) (h : LockInv s) (hn : noUnlink ops) : LockInv (lockRun s ops) := by
  induction ops generalizing s with
  | nil => exact h
  | cons o os ih =>
    cases o with
    | unlinkName => exact absurd hn (by simp [noUnlink])
    | acquire p => exact ih _ (lockInv_step s _ h (by simp)) (by simpa [noUnlink] using hn)
    | release p => exact ih _ (lockInv_step s _ h (by simp)) (by simpa [noUnlink] using hn)

/-- **mutual exclusion**: as long as nobody removes the lock file, whatever commands start and end,
    two different inodes are never locked at the same time - every holder holds THE named inode -/
theorem lock_exclusive (ops : List LockOp) (hn : noUnlink ops) (i j : Nat)
    (hi : (lockRun lockInit ops).holder i ≠ none) (hj : (lockRun lockInit ops).holder j ≠ none) : i = j := by
  have inv0 : LockInv lockInit := by
    refine ⟨?_, ?_, ?_⟩
    · intro j h; exact absurd rfl h
    · intro i h; simp [lockInit] at h
    · intro j _; rfl
  have inv := lockInv_run lockInit ops inv0 hn
  have a := inv.1 i hi
  have b := inv.1 j hj
  rw [a] at b; exact Option.some.inj b

/-- a second command is refused while the first one holds the lock (no unlink in between) -/
theorem second_is_refused : (lockStep (lockStep lockInit (.acquire 1)).1 (.acquire 2)).2 = false := by decide

/-- the refutation when the lock file is removed (e.g. by a refused command at its exit): the next
    command is granted a lock although the first one still runs -/
theorem lock_counter_unlink :
    let s := lockRun lockInit [.acquire 1, .acquire 2, .unlinkName]
    (lockStep s (.acquire 3)).2 = true ∧ (lockStep s (.acquire 3)).1.holder 0 = some 1 ∧ (lockStep s (.acquire 3)).1.holder 1 = some 3 := by
  decide

end SnapraidVerif.Props.C14
