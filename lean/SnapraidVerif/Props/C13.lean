/-
C13  Results do not depend on thread scheduling or I/O cache depth — the ring protocol part:
for every number of slots N ≥ 3, readers, writers, stripes and every interleaving of the
critical sections,
  * no buffer is used by the caller while a worker reads into or writes from it,
  * every stripe is handed to the caller exactly once, in order, with the data read for it,
    and every writer writes every scheduled stripe exactly once, in order,
  * no thread sleeps without somebody going to wake it (no lost wake-up, no deadlock),
  * every schedule is finite: the command terminates.
-/
import SnapraidVerif.Ring.Inv
import SnapraidVerif.Ring.Term
namespace SnapraidVerif.Props.C13
open Ring

variable {N R W M : Nat}

/-- while the caller owns a slot (from the moment it has collected reader `r` until the next
    io_read_next) reader `r` does not work in that slot: its buffer and task are the caller's -/
theorem caller_slot_free_of_collected_reader (hN : 3 ≤ N) (s : St) (h : Reachable N R W M s)
    (r : Nat) (hr : r < R) (hown : (s.pc = .collect ∧ r ∉ s.pend) ∨ s.pc = .wcollect ∨ (s.pc = .idle ∧ 1 ≤ s.I)) :
    s.a r % N ≠ ri N s := by
  have inv := inv_reachable hN s h
  have hI : s.I ≤ s.a r := by
    rcases hown with ⟨hpc, hnp⟩ | hpc | ⟨hpc, _⟩
    · exact inv.rleft hpc r hr hnp
    · exact inv.rleft' (Or.inr hpc) r hr
    · exact inv.rleft' (Or.inl hpc) r hr
  intro he
  have := (ring_eq_iff (N := N) (by omega) (inv.rlo r hr) (inv.rhi r hr)).mp he
  omega

/-- the slot io_read_next re-schedules (it overwrites the tasks of slot reader_index) is not in
    use by any reader: a slot is never reused one step too early -/
theorem rescheduled_slot_is_free (hN : 3 ≤ N) (s : St) (h : Reachable N R W M s)
    (hpc : s.pc = .idle) (hI : 1 ≤ s.I) : ∀ r, r < R → s.a r % N ≠ ri N s :=
  fun r hr => caller_slot_free_of_collected_reader hN s h r hr (Or.inr (Or.inr ⟨hpc, hI⟩))

/-- while the caller reads data from / computes parity into its slot, no writer is still
    writing from that slot (a writer's index is `(b + N - 1) % N`) -/
theorem caller_slot_free_of_writers (hN : 3 ≤ N) (s : St) (h : Reachable N R W M s)
    (hpc : s.pc = .collect ∨ s.pc = .wcollect) (w : Nat) (hw : w < W) :
    (s.b w + N - 1) % N ≠ ri N s := by
  have inv := inv_reachable hN s h
  have hJ := inv.ijBusy hpc
  have h1 := inv.wlo w hw
  have h2 := inv.whi w hw
  unfold ri
  -- b + N - 1 lies in (I + N - 1 - N, I + N - 1): J = I - 1, b ≤ J, J ≤ b + N - 2
  have hlt : s.b w + N - 1 < s.I + N - 1 := by omega
  have hgt : s.I + N - 1 < s.b w + N - 1 + N := by omega
  exact mod_ne_of_window hlt hgt

/-- the slot io_write_next schedules is not being written by any writer -/
theorem scheduled_write_slot_is_free (hN : 3 ≤ N) (s : St) (h : Reachable N R W M s)
    (w : Nat) (hw : w < W) (hb : 1 ≤ s.b w) : (s.b w + N - 1) % N ≠ wi N s := by
  have inv := inv_reachable hN s h
  have h1 := inv.wlo w hw
  have h2 := inv.whi w hw
  unfold wi
  have e : (s.b w + N - 1) % N = (s.b w - 1) % N := by
    have : s.b w + N - 1 = (s.b w - 1) + N := by omega
    rw [this, Nat.add_mod_right]
  rw [e]
  exact mod_ne_of_window (by omega) (by omega)

/-- every result the caller takes out of the ring is the data read for the stripe it is
    processing: stripes reach the caller exactly once each and in order, whatever the
    arrival order of the workers -/
theorem caller_gets_its_own_stripe (hN : 3 ≤ N) (s : St) (h : Reachable N R W M s) :
    ∀ t, t ∈ s.took → t.2.2 = t.1 := (inv_reachable hN s h).tookOk

/-- every writer has written exactly the first `b` scheduled stripes, each once, in order -/
theorem writers_in_order (hN : 3 ≤ N) (s : St) (h : Reachable N R W M s) (w : Nat) (hw : w < W) :
    s.wrote w = (List.range (s.b w)).reverse := (inv_reachable hN s h).wroteOk w hw

/-- when io_stop has returned, every writer has written every scheduled stripe -/
theorem all_written_at_the_end (hN : 3 ≤ N) (s : St) (h : Reachable N R W M s) (hf : final R W s)
    (w : Nat) (hw : w < W) : s.wrote w = (List.range s.J).reverse := by
  have inv := inv_reachable hN s h
  rw [inv.wroteOk w hw, (inv.wex w hw (hf.2.2 w hw)).2]

/-- no lost wake-up for the caller: whenever it sleeps, a worker step is enabled that wakes it -/
theorem sleeping_caller_is_woken (hN : 3 ≤ N) (s : St) (h : Reachable N R W M s) (hc : s.cwait = true) :
    ∃ act s', step N R W M s act = some s' ∧ s'.cwait = false := by
  have inv := inv_reachable hN s h
  rcases inv.cw hc with ⟨hpc, r, hr, hrR, he⟩ | ⟨hpc, w, hw, hwW, he⟩
  · have hnd : s.done = false := by
      cases hd : s.done with
      | false => rfl
      | true => have := inv.doneIff.mp hd; rw [hpc] at this; cases this
    have hnx : s.rexit r = false := by
      cases hx : s.rexit r with
      | false => rfl
      | true => have := inv.rex r hrR hx; rw [hnd] at this; cases this
    have hnw : s.rwait r = false := by
      cases hx : s.rwait r with
      | false => rfl
      | true => have := (inv.rw r hrR hx).2; omega
    have hguard : (s.a r + 1) % N ≠ ri N s := by
      intro hq
      have := (ring_next_eq_iff (N := N) (by omega) (inv.rlo r hrR) (inv.rhi r hrR)).mp hq
      omega
    have hsl : s.a r % N = ri N s := (ring_eq_iff (by omega) (inv.rlo r hrR) (inv.rhi r hrR)).mpr he
    cases hst : step N R W M s (.rAdvance r) with
    | none => simp only [step] at hst; rw [if_pos ⟨hrR, hnx, hnw, hnd, hguard⟩] at hst; cases hst
    | some s' =>
      refine ⟨_, s', hst, ?_⟩
      simp only [step] at hst; rw [if_pos ⟨hrR, hnx, hnw, hnd, hguard⟩] at hst; cases hst
      simp [hsl, hpc]
  · have hnx : s.wexit w = false := by
      cases hx : s.wexit w with
      | false => rfl
      | true =>
        have := (inv.wex w hwW hx).1
        have := inv.doneIff.mp this; rw [hpc] at this; cases this
    have hnw : s.wwait w = false := by
      cases hx : s.wwait w with
      | false => rfl
      | true => have := (inv.ww w hwW hx).2; omega
    have hguard : s.b w % N ≠ wi N s := by
      intro hq
      have := (wring_eq_iff (N := N) (inv.wlo w hwW) (by have := inv.whi w hwW; omega)).mp hq
      omega
    have hsl : (s.b w + N - 1) % N = (wi N s + 1) % N := (wring_busy_iff hN (inv.wlo w hwW) (inv.whi w hwW)).mpr he
    cases hst : step N R W M s (.wAdvance w) with
    | none => simp only [step] at hst; rw [if_pos ⟨hwW, hnx, hnw, hguard⟩] at hst; cases hst
    | some s' =>
      refine ⟨_, s', hst, ?_⟩
      simp only [step] at hst; rw [if_pos ⟨hwW, hnx, hnw, hguard⟩] at hst; cases hst
      simp [hsl, hpc]

/-- no deadlock: in every reachable state that is not final some step is enabled, and never
    only the caller's *early* stop: the witness is a stop only at the natural end of the loop
    (io_read_next returned a position ≥ block_max, i.e. I = M + 1) -/
theorem no_deadlock (hN : 3 ≤ N) (s : St) (h : Reachable N R W M s) (hnf : ¬ final R W s) :
    ∃ act, (step N R W M s act).isSome = true ∧ (act = .stop → s.pc = .collect ∧ s.I = M + 1 ∨ s.pc = .idle ∧ s.I = M + 1) := by
  have inv := inv_reachable hN s h
  by_cases hc : s.cwait = true
  · obtain ⟨act, s', hs, _⟩ := sleeping_caller_is_woken hN s h hc
    refine ⟨act, by rw [hs]; rfl, ?_⟩
    intro ha; subst ha
    simp only [step] at hs
    split at hs
    · rename_i hg; rw [hc] at hg; cases hg.2
    · cases hs
  have hcf : s.cwait = false := by cases hx : s.cwait <;> simp_all
  cases hpc : s.pc with
  | idle =>
    by_cases hIM : s.I ≤ M
    · exact ⟨.readNext, by simp only [step]; rw [if_pos ⟨hpc, hcf, hIM⟩]; rfl, by intro hx; cases hx⟩
    · refine ⟨.stop, by simp only [step]; rw [if_pos ⟨by rw [hpc]; simp, hcf⟩]; rfl, ?_⟩
      intro _
      -- the caller never goes beyond M + 1
      right
      refine ⟨rfl, ?_⟩
      have := bound_I s h; omega
  | collect =>
    by_cases hIM : s.I ≤ M
    · cases hp : s.pend with
      | nil => exact ⟨.compute, by simp only [step]; rw [if_pos ⟨hpc, hcf, hp, hIM⟩]; rfl, by intro hx; cases hx⟩
      | cons r rest =>
        by_cases hany : s.pend.any (fun r => s.a r % N == ri N s) = true
        · exact ⟨.cblock, by simp only [step]; rw [if_pos ⟨hpc, hcf, hany, hIM⟩]; rfl, by intro hx; cases hx⟩
        · have hr : r ∈ s.pend := by rw [hp]; simp
          have hne : s.a r % N ≠ ri N s := by
            intro he; apply hany
            rw [List.any_eq_true]; exact ⟨r, hr, by simpa using he⟩
          exact ⟨.collect r, by simp only [step]; rw [if_pos ⟨hpc, hcf, hr, hne, hIM⟩]; rfl, by intro hx; cases hx⟩
    · refine ⟨.stop, by simp only [step]; rw [if_pos ⟨by rw [hpc]; simp, hcf⟩]; rfl, ?_⟩
      intro _; left
      exact ⟨rfl, by have := bound_I s h; omega⟩
  | wcollect =>
    cases hp : s.pend with
    | nil => exact ⟨.writeNext, by simp only [step]; rw [if_pos ⟨hpc, hcf, hp⟩]; rfl, by intro hx; cases hx⟩
    | cons w rest =>
      by_cases hany : s.pend.any (fun w => (s.b w + N - 1) % N == (wi N s + 1) % N) = true
      · exact ⟨.wblock, by simp only [step]; rw [if_pos ⟨hpc, hcf, hany⟩]; rfl, by intro hx; cases hx⟩
      · have hw : w ∈ s.pend := by rw [hp]; simp
        have hne : (s.b w + N - 1) % N ≠ (wi N s + 1) % N := by
          intro he; apply hany
          rw [List.any_eq_true]; exact ⟨w, hw, by simpa using he⟩
        exact ⟨.wcollect w, by simp only [step]; rw [if_pos ⟨hpc, hcf, hw, hne⟩]; rfl, by intro hx; cases hx⟩
  | stopped =>
    have hd : s.done = true := inv.doneIff.mpr hpc
    -- some worker has not exited
    have : (∃ r, r < R ∧ s.rexit r = false) ∨ (∃ w, w < W ∧ s.wexit w = false) := by
      apply Classical.byContradiction
      intro hno
      apply hnf
      refine ⟨hpc, ?_, ?_⟩
      · intro r hr
        cases hx : s.rexit r with
        | true => rfl
        | false => exact absurd (Or.inl ⟨r, hr, hx⟩) hno
      · intro w hw
        cases hx : s.wexit w with
        | true => rfl
        | false => exact absurd (Or.inr ⟨w, hw, hx⟩) hno
    rcases this with ⟨r, hr, hx⟩ | ⟨w, hw, hx⟩
    · have hnw : s.rwait r = false := by
        cases hq : s.rwait r with
        | false => rfl
        | true => have := (inv.rw r hr hq).1; rw [hd] at this; cases this
      exact ⟨.rExit r, by simp only [step]; rw [if_pos ⟨hr, hx, hnw, hd⟩]; rfl, by intro hq; cases hq⟩
    · have hnw : s.wwait w = false := by
        cases hq : s.wwait w with
        | false => rfl
        | true => have := (inv.ww w hw hq).1; rw [hd] at this; cases this
      by_cases he : s.b w % N = wi N s
      · exact ⟨.wExit w, by simp only [step]; rw [if_pos ⟨hw, hx, hnw, hd, he⟩]; rfl, by intro hq; cases hq⟩
      · exact ⟨.wAdvance w, by simp only [step]; rw [if_pos ⟨hw, hx, hnw, he⟩]; rfl, by intro hq; cases hq⟩

/-- the command terminates: every schedule, whatever the interleaving, has at most `bound`
    steps (explicit in stripes, slots and workers); with `no_deadlock` every schedule that
    cannot be extended has reached the final state -/
theorem every_schedule_is_finite (hN : 3 ≤ N) (acts : List Act) (s : St)
    (hr : run N R W M (init N) acts = some s) : acts.length ≤ bound N R W M :=
  schedule_length_le_bound hN acts s hr

theorem maximal_schedule_is_final (hN : 3 ≤ N) (acts : List Act) (s : St)
    (hr : run N R W M (init N) acts = some s) (hmax : ∀ act, step N R W M s act = none) : final R W s := by
  apply Classical.byContradiction
  intro hnf
  obtain ⟨act, hs, _⟩ := no_deadlock hN s ⟨acts, hr⟩ hnf
  rw [hmax act] at hs; cases hs

/-! non-vacuity: a concrete complete schedule (N = 3, one reader, one writer, one stripe) is
    accepted step by step and ends in the final state with the stripe written -/
def demo : List Act :=
  [.readNext, .rAdvance 0, .collect 0, .compute, .wcollect 0, .writeNext, .wAdvance 0, .readNext, .stop,
   .rExit 0, .wExit 0]

example : (run 3 1 1 1 (init 3) demo).isSome = true := by decide
example : ((run 3 1 1 1 (init 3) demo).map fun s => (s.wrote 0, s.took, s.pc, s.rexit 0, s.wexit 0))
    = some ([0], [(0, 0, 0)], .stopped, true, true) := by decide

end SnapraidVerif.Props.C13
