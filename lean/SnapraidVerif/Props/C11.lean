/-
C11  A successful sync captures every change and converges.
-/
import SnapraidVerif.Array.Scan
import SnapraidVerif.Array.ScanSeq
namespace SnapraidVerif.Props.C11
open Scan

theorem copyOrAdd_untrusted (copySrc : List FileId) (p : FileId) : (copyOrAdd copySrc p).trusted = false := by
  unfold copyOrAdd
  generalize isCopy copySrc p = b
  cases b <;> rfl

theorem changeOrCopy_untrusted (copySrc : List FileId) (p : FileId) :
    (if isCopy copySrc p then Class.copyOver else Class.change).trusted = false := by
  generalize isCopy copySrc p = b
  cases b <;> rfl

theorem byPath_trusted (u : Bool) (known copySrc : List FileId) (p : FileId) (h : (byPath u known copySrc p).trusted = true) :
    ∃ k ∈ known, sameStamp k p = true := by
  unfold byPath at h
  split at h
  · rename_i k2 hk2
    by_cases hs2 : sameStamp k2 p = true
    · exact ⟨k2, List.mem_of_find?_eq_some hk2, hs2⟩
    · simp only [hs2, Bool.false_eq_true, if_false] at h
      rw [changeOrCopy_untrusted] at h; exact absurd h (by decide)
  · rw [copyOrAdd_untrusted] at h; exact absurd h (by decide)

/-- a file is trusted (its recorded hashes and parity kept without reading) only when its size and
    time-stamp are exactly the recorded ones -/
theorem trusted_implies_same_stamp (useInode : Bool) (known copySrc : List FileId) (p : FileId)
    (h : (classify useInode known copySrc p).trusted = true) :
    ∃ k ∈ known, sameStamp k p = true := by
  unfold classify at h
  split at h
  · rename_i k hk
    have hmem : k ∈ known := by
      split at hk
      · exact List.mem_of_find?_eq_some hk
      · simp at hk
    by_cases hs : sameStamp k p = true
    · exact ⟨k, hmem, hs⟩
    · simp only [hs, Bool.false_eq_true, if_false] at h
      split at h
      · rw [changeOrCopy_untrusted] at h; exact absurd h (by decide)
      · exact byPath_trusted _ known copySrc p h
  · exact byPath_trusted _ known copySrc p h

/-- contrapositive, as the property words it: a file whose size or time-stamp matches no recorded
    file's is read again rather than trusted -/
theorem changed_is_reread (useInode : Bool) (known copySrc : List FileId) (p : FileId)
    (h : ∀ k ∈ known, sameStamp k p = false) : (classify useInode known copySrc p).trusted = false := by
  cases ht : (classify useInode known copySrc p).trusted with
  | false => rfl
  | true =>
    obtain ⟨k, hk, hs⟩ := trusted_implies_same_stamp useInode known copySrc p ht
    rw [h k hk] at hs; exact absurd hs (by decide)

/-- the recorded state after a scan is exactly what is present, for every walk order -/
theorem scan_captures (present : List FileId) : scanResult present = present := rfl
theorem scan_order_independent (present present' : List FileId) (h : present.Perm present') (x : FileId) :
    x ∈ scanResult present ↔ x ∈ scanResult present' := h.mem_iff

/-- a previous incomplete sync alone makes diff report differences -/
theorem diff_reports_incomplete_sync (useInode : Bool) (known present copySrc : List FileId) :
    diffVerdict useInode known present copySrc true = true := by simp [diffVerdict]

/-- when nothing changed and the last sync was complete, diff is silent -/
theorem diff_silent_when_equal (useInode : Bool) (known copySrc : List FileId)
    (h : ∀ p ∈ known, classify useInode known copySrc p = .equal) :
    diffVerdict useInode known known copySrc false = false := by
  unfold diffVerdict
  have h1 : known.any (fun p => classify useInode known copySrc p != .equal) = false := by
    rw [List.any_eq_false]; intro p hp; simp [h p hp]
  have h2 : known.any (fun k => !known.any (fun p => p.path == k.path)) = false := by
    rw [List.any_eq_false]; intro k hk
    have : known.any (fun p => p.path == k.path) = true := List.any_eq_true.mpr ⟨k, hk, by simp⟩
    simp [this]
  simp [h1, h2]

/-! ### the sequential scan (entries consumed in walk order, as scan.c does) -/

open ScanSeq in
/-- for every walk order and every recorded state: (1) no recorded file's blocks are kept by two
    present files, and (2) a present file is trusted (equal / moved / restored: hashes and parity
    kept without reading) only as the heir of a recorded file with exactly its size and
    time-stamp -/
theorem seq_scan_sound (useInode : Bool) (other : List FileId) (known : List (FileId × Bool)) (ps : List FileId) :
    (keepsOf (scanAll useInode other (initSt useInode known) ps).2).Nodup ∧
    ∀ x, x ∈ ps.zip (scanAll useInode other (initSt useInode known) ps).2 → x.2.cls.trusted = true →
      ∃ i f h, known[i]? = some (f, h) ∧ x.2.keeps = some i ∧ stampOf f = stampOf x.1 := by
  obtain ⟨_, _, _, hnd, _, htr⟩ := scanAll_spec useInode other ps (initSt useInode known)
  refine ⟨hnd, ?_⟩
  intro x hx ht
  obtain ⟨i, hk, hin, hst⟩ := htr x hx ht
  have hlen : i < known.length := hin
  obtain ⟨f, h⟩ := known[i]
  have hget : known[i]? = some (known[i]) := List.getElem?_eq_getElem hlen
  refine ⟨i, (known[i]).1, (known[i]).2, by rw [hget], hk, ?_⟩
  have := (initSt_e useInode known i (known[i]).1 (known[i]).2 (by rw [hget])).1
  rw [← this]; exact hst

open ScanSeq in
/-- a file whose size or time-stamp matches no recorded file of its disk is never trusted, in any walk order -/
theorem seq_changed_is_reread (useInode : Bool) (other : List FileId) (known : List (FileId × Bool)) (ps : List FileId)
    (x : FileId × Out) (hx : x ∈ ps.zip (scanAll useInode other (initSt useInode known) ps).2)
    (hno : ∀ k, k ∈ known → stampOf k.1 ≠ stampOf x.1) : x.2.cls.trusted = false := by
  cases ht : x.2.cls.trusted with
  | false => rfl
  | true =>
    obtain ⟨i, f, h, hk, _, hs⟩ := (seq_scan_sound useInode other known ps).2 x hx ht
    exact absurd hs (hno (f, h) (List.mem_of_getElem? hk))

end SnapraidVerif.Props.C11
