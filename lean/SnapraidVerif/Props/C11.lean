/-
C11  A successful sync captures every change and converges.
-/
import SnapraidVerif.Array.Scan
import SnapraidVerif.Array.ScanSeq
namespace SnapraidVerif.Props.C11
open Scan

theorem copyOrAdd_untrusted (copySrc : List FileId) (p : FileId) : (copyOrAdd copySrc p).trusted = false := by
  unfold copyOrAdd
  generalize isCopy copySrc p = b
  cases b <;> rfl

theorem changeOrCopy_untrusted (copySrc : List FileId) (p : FileId) :
    (if isCopy copySrc p then Class.copyOver else Class.change).trusted = false := by
  generalize isCopy copySrc p = b
  cases b <;> rfl

theorem byPath_trusted (u : Bool) (known copySrc : List FileId) (p : FileId) (h : (byPath u known copySrc p).trusted = true) :
    ∃ k ∈ known, sameStamp k p = true := by
  unfold byPath at h
  split at h
  · rename_i k2 hk2
    by_cases hs2 : sameStamp k2 p = true
    · exact ⟨k2, List.mem_of_find?_eq_some hk2, hs2⟩
    · simp only [hs2, Bool.false_eq_true, if_false] at h
      rw [changeOrCopy_untrusted] at h; exact absurd h (by decide)
  · rw [copyOrAdd_untrusted] at h; exact absurd h (by decide)

/-- a file is trusted (its recorded hashes and parity kept without reading) only when its size and
    time-stamp are exactly the recorded ones -/
theorem trusted_implies_same_stamp (useInode : Bool) (known copySrc : List FileId) (p : FileId)
    (h : (classify useInode known copySrc p).trusted = true) :
    ∃ k ∈ known, sameStamp k p = true := by
  unfold classify at h
  split at h
  · rename_i k hk
    have hmem : k ∈ known := by
      split at hk
      · exact List.mem_of_find?_eq_some hk
      · simp at hk
    by_cases hs : sameStamp k p = true
    · exact ⟨k, hmem, hs⟩
    · simp only [hs, Bool.false_eq_true, if_false] at h
      split at h
      · rw [changeOrCopy_untrusted] at h; exact absurd h (by decide)
      · exact byPath_trusted _ known copySrc p h
  · exact byPath_trusted _ known copySrc p h

/-- contrapositive, as the property words it: a file whose size or time-stamp matches no recorded
    file's is read again rather than trusted -/
theorem changed_is_reread (useInode : Bool) (known copySrc : List FileId) (p : FileId)
    (h : ∀ k ∈ known, sameStamp k p = false) : (classify useInode known copySrc p).trusted = false := by
  cases ht : (classify useInode known copySrc p).trusted with
  | false => rfl
  | true =>
    obtain ⟨k, hk, hs⟩ := trusted_implies_same_stamp useInode known copySrc p ht
    rw [h k hk] at hs; exact absurd hs (by decide)

/-- the recorded state after a scan is exactly what is present, for every walk order -/
theorem scan_captures (present : List FileId) : scanResult present = present := rfl
theorem scan_order_independent (present present' : List FileId) (h : present.Perm present') (x : FileId) :
    x ∈ scanResult present ↔ x ∈ scanResult present' := h.mem_iff

/-- a previous incomplete sync alone makes diff report differences -/
theorem diff_reports_incomplete_sync (useInode : Bool) (known present copySrc : List FileId) :
    diffVerdict useInode known present copySrc true = true := by simp [diffVerdict]

/-- when nothing changed and the last sync was complete, diff is silent -/
theorem diff_silent_when_equal (useInode : Bool) (known copySrc : List FileId)
    (h : ∀ p ∈ known, classify useInode known copySrc p = .equal) :
    diffVerdict useInode known known copySrc false = false := by
  unfold diffVerdict
  have h1 : known.any (fun p => classify useInode known copySrc p != .equal) = false := by
    rw [List.any_eq_false]; intro p hp; simp [h p hp]
  have h2 : known.any (fun k => !known.any (fun p => p.path == k.path)) = false := by
    rw [List.any_eq_false]; intro k hk
    have : known.any (fun p => p.path == k.path) = true := List.any_eq_true.mpr ⟨k, hk, by simp⟩
    simp [this]
  simp [h1, h2]

/-! ### the sequential scan (entries consumed in walk order, as scan.c does) -/

open ScanSeq in
/-- for every walk order and every recorded state: (1) no recorded file's blocks are kept by two
    present files, and (2) a present file is trusted (equal / moved / restored: hashes and parity
    kept without reading) only as the heir of a recorded file with exactly its size and
    time-stamp -/
theorem seq_scan_sound (useInode : Bool) (other : List FileId) (known : List (FileId × Bool)) (ps : List FileId) :
    (keepsOf (scanAll useInode other (initSt useInode known) ps).2).Nodup ∧
    ∀ x, x ∈ ps.zip (scanAll useInode other (initSt useInode known) ps).2 → x.2.cls.trusted = true →
      ∃ i f h, known[i]? = some (f, h) ∧ x.2.keeps = some i ∧ stampOf f = stampOf x.1 := by
  obtain ⟨_, _, _, hnd, _, htr⟩ := scanAll_spec useInode other ps (initSt useInode known)
  refine ⟨hnd, ?_⟩
  intro x hx ht
  obtain ⟨i, hk, hin, hst⟩ := htr x hx ht
  have hlen : i < known.length := hin
  obtain ⟨f, h⟩ := known[i]
  have hget : known[i]? = some (known[i]) := List.getElem?_eq_getElem hlen
  refine ⟨i, (known[i]).1, (known[i]).2, by rw [hget], hk, ?_⟩
  have := (initSt_e useInode known i (known[i]).1 (known[i]).2 (by rw [hget])).1
  rw [← this]; exact hst

open ScanSeq in
/-- a file whose size or time-stamp matches no recorded file of its disk is never trusted, in any walk order -/
theorem seq_changed_is_reread (useInode : Bool) (other : List FileId) (known : List (FileId × Bool)) (ps : List FileId)
    (x : FileId × Out) (hx : x ∈ ps.zip (scanAll useInode other (initSt useInode known) ps).2)
    (hno : ∀ k, k ∈ known → stampOf k.1 ≠ stampOf x.1) : x.2.cls.trusted = false := by
  cases ht : x.2.cls.trusted with
  | false => rfl
  | true =>
    obtain ⟨i, f, h, hk, _, hs⟩ := (seq_scan_sound useInode other known ps).2 x hx ht
    exact absurd hs (hno (f, h) (List.mem_of_getElem? hk))


section Convergence
open ScanSeq
/-! ### convergence: scanning a disk that holds exactly the recorded files changes nothing -/

theorem find_unique (s : SSt) (q : KEntry → Bool) (i : Nat) (hi : i < s.n) (hq : q (s.e i) = true)
    (huniq : ∀ j, j < s.n → q (s.e j) = true → j = i) : s.find q = some i := by
  unfold SSt.find
  cases h : (List.range s.n).find? (fun i => q (s.e i)) with
  | none =>
    have := List.find?_eq_none.mp h i (List.mem_range.mpr hi)
    simp [hq] at this
  | some j =>
    have h1 := List.find?_some h
    have h2 := List.mem_range.mp (List.mem_of_find?_eq_some h)
    rw [huniq j h2 (by simpa using h1)]

theorem find_none' (s : SSt) (q : KEntry → Bool) (h : ∀ j, j < s.n → q (s.e j) = false) : s.find q = none := by
  unfold SSt.find
  apply List.find?_eq_none.mpr
  intro j hj
  simp [h j (List.mem_range.mp hj)]

/-- the state while a disk that holds exactly the recorded files `F 0 … F (n-1)` is scanned:
    nothing removed, identities untouched, `done` are the entries met so far -/
structure Conv (u : Bool) (n : Nat) (F : Nat → FileId) (s : SSt) (done : List Nat) : Prop where
  n_eq : s.n = n
  live : ∀ j, j < n → (s.e j).removed = false
  id_eq : ∀ j, j < n → (s.e j).id = F j
  pres : ∀ j, j < n → ((s.e j).present = true ↔ j ∈ done)
  hasI : ∀ j, j < n → (s.e j).hasInode = (u || (s.e j).present)

theorem conv_step (u : Bool) (other : List FileId) (n : Nat) (F : Nat → FileId)
    (hino : ∀ j k, j < n → k < n → (F j).inode = (F k).inode → j = k)
    (hpath : ∀ j k, j < n → k < n → (F j).path = (F k).path → j = k)
    (s : SSt) (done : List Nat) (hc : Conv u n F s done) (i : Nat) (hi : i < n) (hnd : i ∉ done) :
    (scanStep u other s (F i)).2.cls = .equal ∧ (scanStep u other s (F i)).2.keeps = some i ∧
      Conv u n F (scanStep u other s (F i)).1 (i :: done) := by
  have hpf : (s.e i).present = false := by
    cases h : (s.e i).present with
    | false => rfl
    | true => exact absurd ((hc.pres i hi).mp h) hnd
  have hstamp : sameStamp (s.e i).id (F i) = true := by
    rw [hc.id_eq i hi]; simp [sameStamp]
  -- the conclusion for the two ways the entry gets marked present
  have hfinal : ∀ v : KEntry, v.removed = false → v.id = F i → v.present = true → v.hasInode = true →
      Conv u n F (s.set i v) (i :: done) := by
    intro v h1 h2 h3 h4
    refine ⟨hc.n_eq, ?_, ?_, ?_, ?_⟩
    · intro j hj
      by_cases hji : j = i
      · subst hji; simpa using h1
      · rw [set_e_other _ _ _ _ hji]; exact hc.live j hj
    · intro j hj
      by_cases hji : j = i
      · subst hji; simpa using h2
      · rw [set_e_other _ _ _ _ hji]; exact hc.id_eq j hj
    · intro j hj
      by_cases hji : j = i
      · subst hji; simp [h3]
      · rw [set_e_other _ _ _ _ hji, hc.pres j hj]; simp [hji]
    · intro j hj
      by_cases hji : j = i
      · subst hji; simp [h3, h4]
      · rw [set_e_other _ _ _ _ hji]; exact hc.hasI j hj
  unfold scanStep
  by_cases hu : u = true
  · -- usable inodes: found by inode, same path
    have hfind : s.find (fun k => !k.removed && k.hasInode && k.id.inode == (F i).inode) = some i := by
      apply find_unique s _ i (by rw [hc.n_eq]; exact hi)
      · simp [hc.live i hi, hc.hasI i hi, hu, hc.id_eq i hi]
      · intro j hj hq
        rw [hc.n_eq] at hj
        simp only [Bool.and_eq_true, beq_iff_eq] at hq
        rw [hc.id_eq j hj] at hq
        exact hino j i hj hi hq.2
    rw [hfind]
    simp only [hstamp, if_true, hpf, Bool.false_eq_true, if_false]
    have hp : ((s.e i).id.path == (F i).path) = true := by rw [hc.id_eq i hi]; simp
    simp only [hp, if_true]
    refine ⟨trivial, trivial, hfinal _ ?_ ?_ ?_ ?_⟩
    · exact hc.live i hi
    · exact hc.id_eq i hi
    · rfl
    · show (s.e i).hasInode = true
      rw [hc.hasI i hi, hu]; rfl
  · -- no usable inodes: no entry not yet met is findable by inode, entries already met have other inodes
    have huf : u = false := by cases u <;> simp_all
    subst huf
    have hfind : s.find (fun k => !k.removed && k.hasInode && k.id.inode == (F i).inode) = none := by
      apply find_none'
      intro j hj
      rw [hc.n_eq] at hj
      by_cases hji : j = i
      · subst hji; simp [hc.hasI j hj, hpf]
      · have : ((s.e j).id.inode == (F i).inode) = false := by
          rw [hc.id_eq j hj]
          simp only [beq_eq_false_iff_ne, ne_eq]
          exact fun h => hji (hino j i hj hi h)
        simp [this]
    rw [hfind]
    simp only
    unfold byPathSeq
    have hfind2 : s.find (fun k => !k.removed && k.id.path == (F i).path) = some i := by
      apply find_unique s _ i (by rw [hc.n_eq]; exact hi)
      · simp [hc.live i hi, hc.id_eq i hi]
      · intro j hj hq
        rw [hc.n_eq] at hj
        simp only [Bool.and_eq_true, beq_iff_eq] at hq
        rw [hc.id_eq j hj] at hq
        exact hpath j i hj hi hq.2
    rw [hfind2]
    simp only [hpf, Bool.false_eq_true, if_false, hstamp, if_true]
    refine ⟨trivial, trivial, hfinal _ ?_ ?_ ?_ ?_⟩
    · exact hc.live i hi
    · show { (s.e i).id with inode := (F i).inode } = F i
      rw [hc.id_eq i hi]
    · rfl
    · rfl

theorem conv_all (u : Bool) (other : List FileId) (n : Nat) (F : Nat → FileId)
    (hino : ∀ j k, j < n → k < n → (F j).inode = (F k).inode → j = k)
    (hpath : ∀ j k, j < n → k < n → (F j).path = (F k).path → j = k)
    (order : List Nat) (s : SSt) (done : List Nat) (hc : Conv u n F s done)
    (hlt : ∀ i ∈ order, i < n) (hnd : order.Nodup) (hdis : ∀ i ∈ order, i ∉ done) :
    (∀ o ∈ (scanAll u other s (order.map F)).2, o.cls = .equal) ∧
      keepsOf (scanAll u other s (order.map F)).2 = order ∧
      Conv u n F (scanAll u other s (order.map F)).1 (order.reverse ++ done) := by
  induction order generalizing s done with
  | nil => simp [scanAll, keepsOf]; exact hc
  | cons i rest ih =>
    obtain ⟨h1, h2, h3⟩ := conv_step u other n F hino hpath s done hc i (hlt i List.mem_cons_self) (hdis i List.mem_cons_self)
    have hnd' := List.nodup_cons.mp hnd
    obtain ⟨a, b, c⟩ := ih (scanStep u other s (F i)).1 (i :: done) h3
      (fun j hj => hlt j (List.mem_cons_of_mem _ hj)) hnd'.2
      (by
        intro j hj hmem
        rcases List.mem_cons.mp hmem with rfl | hm
        · exact hnd'.1 hj
        · exact hdis j (List.mem_cons_of_mem _ hj) hm)
    simp only [List.map_cons, scanAll]
    refine ⟨?_, ?_, ?_⟩
    · intro o ho
      rcases List.mem_cons.mp ho with rfl | ho
      · exact h1
      · exact a o ho
    · rw [keepsOf_cons_some _ _ i h2, b]
    · have : (i :: rest).reverse ++ done = rest.reverse ++ (i :: done) := by simp
      rw [this]; exact c

/-- **convergence (scan level)**: a disk that holds exactly the files recorded for it — distinct
    paths, distinct inodes (no hardlinks), each with its recorded size and time-stamp — scanned in
    ANY walk order, with or without usable inodes, whatever the other disks hold: every entry is
    classified `equal` and keeps its own recorded blocks, and no recorded file is left over to be
    removed. This is what `diff` sees after a successful sync. -/
theorem scan_converges (u : Bool) (other : List FileId) (known : List (FileId × Bool)) (order : List Nat)
    (hperm : order.Perm (List.range known.length))
    (hino : (known.map (·.1.inode)).Nodup) (hpath : (known.map (·.1.path)).Nodup) :
    let F := fun i => ((initSt u known).e i).id
    let r := scanAll u other (initSt u known) (order.map F)
    (∀ o ∈ r.2, o.cls = .equal) ∧ keepsOf r.2 = order ∧ removedCount r.1 = 0 := by
  intro F r
  have hn : (initSt u known).n = known.length := rfl
  have hF : ∀ j, j < known.length → F j = (known[j]?.map (·.1)).getD dflt.id := by
    intro j hj
    simp only [F, initSt]
    rw [List.getElem?_eq_getElem hj]; rfl
  have hinj : ∀ {α : Type} (g : FileId → α), (known.map (fun x => g x.1)).Nodup →
      ∀ j k, j < known.length → k < known.length → g (F j) = g (F k) → j = k := by
    intro α g hnd j k hj hk hg
    rw [hF j hj, hF k hk, List.getElem?_eq_getElem hj, List.getElem?_eq_getElem hk] at hg
    simp only [Option.map_some, Option.getD_some] at hg
    have hpw := List.pairwise_iff_getElem.mp hnd
    have hj' : j < (known.map (fun x => g x.1)).length := by simpa using hj
    have hk' : k < (known.map (fun x => g x.1)).length := by simpa using hk
    rcases Nat.lt_trichotomy j k with h | h | h
    · exact absurd (by simpa using hg) (hpw j k hj' hk' h)
    · exact h
    · exact absurd (by simpa using hg.symm) (hpw k j hk' hj' h)
  have hc0 : Conv u known.length F (initSt u known) [] := by
    refine ⟨rfl, ?_, ?_, ?_, ?_⟩
    · intro j hj; simp only [initSt]; rw [List.getElem?_eq_getElem hj]
    · intro j hj; rfl
    · intro j hj; simp only [initSt]; rw [List.getElem?_eq_getElem hj]; simp
    · intro j hj; simp only [initSt]; rw [List.getElem?_eq_getElem hj]; simp
  have hlt : ∀ i ∈ order, i < known.length := fun i hi => List.mem_range.mp (hperm.mem_iff.mp hi)
  have hnd : order.Nodup := hperm.nodup_iff.mpr List.nodup_range
  obtain ⟨a, b, c⟩ := conv_all u other known.length F (hinj (·.inode) hino) (hinj (·.path) hpath) order
    (initSt u known) [] hc0 hlt hnd (fun _ _ h => by cases h)
  refine ⟨a, b, ?_⟩
  unfold removedCount
  rw [List.length_eq_zero_iff, List.filter_eq_nil_iff]
  intro j hj
  have hjn : j < known.length := by rw [c.n_eq] at hj; exact List.mem_range.mp hj
  have : ((scanAll u other (initSt u known) (order.map F)).1.e j).present = true := by
    rw [c.pres j hjn]
    simp only [List.append_nil, List.mem_reverse]
    exact hperm.mem_iff.mpr (List.mem_range.mpr hjn)
  simp [r, this]

/-- non-vacuity: three recorded files met in the order 2, 0, 1 without usable inodes -/
example :
    let known : List (FileId × Bool) := [(⟨[97], 10, 5, 1, 100⟩, true), (⟨[98], 10, 5, 1, 101⟩, true), (⟨[99], 0, 7, 0, 102⟩, false)]
    let r := scanAll false [] (initSt false known) [⟨[99], 0, 7, 0, 102⟩, ⟨[97], 10, 5, 1, 100⟩, ⟨[98], 10, 5, 1, 101⟩]
    r.2.map (·.cls) = [.equal, .equal, .equal] ∧ keepsOf r.2 = [2, 0, 1] ∧ removedCount r.1 = 0 := by decide

end Convergence

end SnapraidVerif.Props.C11
