/-
C08  I/O errors never turn into false protection.

Bookkeeping model of one stripe across sync/scrub: `allBlk` (every allocated block recorded
as synced) and `bad`.  A stripe is *protected* when it is recorded as synced and healthy.
-/
namespace SnapraidVerif.Props.C08

structure Stripe where
  allBlk : Bool
  bad : Bool
deriving DecidableEq, Repr

def Stripe.protected (s : Stripe) : Bool := s.allBlk && !s.bad

/-- outcome of reading the data / parity blocks of a stripe -/
inductive Read | ok | ioError | fileError
deriving DecidableEq, Repr

/-- sync.c:860-933,1150-1233 and scrub.c:422-460,594-613: what the stripe's books look like after
    the stripe was processed with the given read outcome.  `complete` = the stripe was completed
    (all reads fine and verified): blocks become BLK, bad cleared only by a verified pass. -/
def afterRead (before : Stripe) (o : Read) : Stripe :=
  match o with
  | .ok => { allBlk := true, bad := false }
  | .ioError => { allBlk := before.allBlk, bad := true }      -- "marked as bad", blocks unchanged
  | .fileError => before                                       -- stripe skipped, nothing recorded

/-- a stripe hit by an operating-system read error is never recorded as synced and healthy -/
theorem io_error_never_protects_reads (before : Stripe) : (afterRead before .ioError).protected = false := by
  simp [afterRead, Stripe.protected]

/-- a skipped stripe (file changed / unreadable while syncing) stays exactly as unprotected as it
    was: sync only processes stripes that are not protected -/
theorem skipped_stays_unprotected (before : Stripe) (h : before.protected = false) :
    (afterRead before .fileError).protected = false := by simpa [afterRead] using h

/-- processing one stripe does not touch the books of any other stripe -/
theorem other_stripes_unaffected (books : Nat → Stripe) (pos other : Nat) (o : Read) (h : other ≠ pos) :
    (fun p => if p = pos then afterRead (books p) o else books p) other = books other := by
  simp [h]

/-! ### parity writes are asynchronous

The computing thread records the stripe as BLK when it hands the buffers to the writer threads;
the result of the `pwrite`s is known later.  `collect` says which failed stripes the caller is
told about, with their positions, before the content is saved. -/

/-- books of stripe `i` after a sync in which the parity write of stripe `i` succeeded (`w i`) or
    failed, when the caller marks bad exactly the failed stripes it learns about -/
def afterWrites (w : Nat → Bool) (learned : Nat → Bool) (i : Nat) : Stripe :=
  { allBlk := true, bad := !w i && learned i }

/-- specification of a sound writer path: if every failed write is reported back with its position
    (`learned`), no stripe whose parity write failed is recorded as synced and healthy -/
theorem async_writer_sound_when_collected (w learned : Nat → Bool) (hl : ∀ i, w i = false → learned i = true) (i : Nat)
    (hf : w i = false) : (afterWrites w learned i).protected = false := by
  simp [afterWrites, Stripe.protected, hf, hl i hf]

/-- the pinned code before the repair: writer errors came back only as aggregate counters (threaded
    mode, and never for the last queued stripes) or not at all (single-thread mode), i.e.
    `learned = fun _ => false`: a stripe whose parity write failed stays recorded as synced and
    healthy.  Machine-checked counter-example, replayed on the binary with the shim. -/
theorem c08_counter_write : ∃ (w : Nat → Bool) (i : Nat), w i = false ∧ (afterWrites w (fun _ => false) i).protected = true :=
  ⟨fun _ => false, 0, rfl, by decide⟩

/-! ### the error limit (-L)

A run over the selected stripes stops at the I/O error that makes the count reach the limit.
`markLast` says whether the stripe of that last error is booked like the earlier ones (scrub after
the repair 3e5a191; sync never books it: its stripe stays unsynced because the run stops before
the blocks are recorded). -/

/-- books after a scrub over `work` (stripe books with the outcome of reading them) under error limit
    `lim`, `errs` I/O errors seen so far; stripes after the stop are untouched -/
def scrubRun (markLast : Bool) (lim : Nat) : Nat → List (Stripe × Read) → List Stripe
  | _, [] => []
  | errs, (s, o) :: rest =>
    match o with
    | .ioError =>
      if errs + 1 ≥ lim then (if markLast then afterRead s .ioError else s) :: rest.map (·.1)
      else afterRead s .ioError :: scrubRun markLast lim (errs + 1) rest
    | o => afterRead s o :: scrubRun markLast lim errs rest

/-- did the run reach stripe `k` (0-based) before stopping? -/
def reached (lim : Nat) : Nat → List (Stripe × Read) → Nat → Bool
  | _, [], _ => false
  | _, _ :: _, 0 => true
  | errs, (_, o) :: rest, k+1 =>
    match o with
    | .ioError => if errs + 1 ≥ lim then false else reached lim (errs + 1) rest k
    | _ => reached lim errs rest k

theorem scrubRun_length (m : Bool) (lim errs : Nat) (work : List (Stripe × Read)) :
    (scrubRun m lim errs work).length = work.length := by
  induction work generalizing errs with
  | nil => rfl
  | cons x rest ih =>
    obtain ⟨s, o⟩ := x
    cases o <;> simp only [scrubRun]
    · simp [ih]
    · split <;> simp [ih]
    · simp [ih]

/-- **with the limit-reaching stripe booked too**: every stripe the run reached whose read hit an
    operating-system error is not recorded as synced and healthy afterwards, whatever the limit and
    however many errors came before -/
theorem io_error_never_protects_with_limit (lim errs : Nat) (work : List (Stripe × Read)) (k : Nat) (s : Stripe)
    (hk : work[k]? = some (s, .ioError)) (hr : reached lim errs work k = true) :
    ∃ t, (scrubRun true lim errs work)[k]? = some t ∧ t.protected = false := by
  induction work generalizing errs k with
  | nil => simp at hk
  | cons x rest ih =>
    obtain ⟨s0, o⟩ := x
    cases k with
    | zero =>
      simp only [List.getElem?_cons_zero, Option.some.injEq, Prod.mk.injEq] at hk
      obtain ⟨rfl, rfl⟩ := hk
      simp only [scrubRun]
      split
      · exact ⟨_, rfl, io_error_never_protects_reads s0⟩
      · exact ⟨_, rfl, io_error_never_protects_reads s0⟩
    | succ k' =>
      rw [List.getElem?_cons_succ] at hk
      cases o with
      | ok =>
        simp only [reached] at hr
        obtain ⟨t, h1, h2⟩ := ih errs k' hk hr
        exact ⟨t, by simp only [scrubRun, List.getElem?_cons_succ]; exact h1, h2⟩
      | fileError =>
        simp only [reached] at hr
        obtain ⟨t, h1, h2⟩ := ih errs k' hk hr
        exact ⟨t, by simp only [scrubRun, List.getElem?_cons_succ]; exact h1, h2⟩
      | ioError =>
        simp only [reached] at hr
        split at hr
        · cases hr
        · rename_i hlim
          obtain ⟨t, h1, h2⟩ := ih (errs + 1) k' hk hr
          refine ⟨t, ?_, h2⟩
          simp only [scrubRun, hlim, if_false, List.getElem?_cons_succ]
          exact h1

/-- the code before the repair (`markLast = false`): with limit 1 the stripe of the first error,
    healthy before, is still recorded as synced and healthy.  Machine-checked counter-example,
    replayed on the binary by E2E-EIO (`-L 1`). -/
theorem c08_counter_limit :
    ∃ (work : List (Stripe × Read)) (t : Stripe), work[0]? = some (⟨true, false⟩, .ioError) ∧
      (scrubRun false 1 0 work)[0]? = some t ∧ t.protected = true :=
  ⟨[(⟨true, false⟩, .ioError)], ⟨true, false⟩, rfl, rfl, rfl⟩

/-! ### the block read loop (handle.c handle_read)

`do { r = pread(...); if (r < 0) error; if (r == 0) error (unexpected end of file); count += r; } while (count < size)`:
a block is read with as many `pread` calls as the kernel needs. -/

/-- what one `pread` call returns -/
inductive PRead where
  | bytes (n : Nat)     -- n > 0 bytes
  | eof                 -- 0
  | err                 -- -1 with errno
deriving DecidableEq, Repr

/-- outcome of reading a block of `size` bytes with the given sequence of `pread` results, `count` bytes read so
    far: `some true` = the whole block was read, `some false` = reported as a read error, `none` = the
    kernel results listed do not suffice (the loop would issue another call) -/
def readLoop (size : Nat) : Nat → List PRead → Option Bool
  | count, [] => if count ≥ size then some true else none
  | count, r :: rest =>
    if count ≥ size then some true else
    match r with
    | .bytes n => if n = 0 then some false else readLoop size (count + n) rest
    | .eof => some false
    | .err => some false

/-- a block counts as read only if no call reported an error or an end of file before the last byte:
    an error AFTER a short read is still an error of this block -/
theorem read_ok_means_no_error (size : Nat) (count : Nat) (rs : List PRead) (h : readLoop size count rs = some true) :
    ∃ k, (∀ r ∈ rs.take k, ∃ n, r = .bytes n ∧ n ≠ 0) ∧
      size ≤ count + ((rs.take k).map fun r => match r with | .bytes n => n | _ => 0).sum := by
  induction rs generalizing count with
  | nil =>
    refine ⟨0, by simp, ?_⟩
    simp only [readLoop] at h
    split at h
    · simpa using ‹count ≥ size›
    · cases h
  | cons r rest ih =>
    simp only [readLoop] at h
    split at h
    · exact ⟨0, by simp, by simpa using ‹count ≥ size›⟩
    · cases r with
      | eof => simp at h
      | err => simp at h
      | bytes n =>
        simp only at h
        split at h
        · cases h
        · rename_i hn
          obtain ⟨k, h1, h2⟩ := ih (count + n) h
          refine ⟨k + 1, ?_, ?_⟩
          · intro r hr
            simp only [List.take_succ_cons, List.mem_cons] at hr
            rcases hr with rfl | hr
            · exact ⟨n, rfl, hn⟩
            · exact h1 r hr
          · simp only [List.take_succ_cons, List.map_cons, List.sum_cons]
            omega

/-- a short read followed by an error is a read error (the seeded change C08e returned "read") -/
example : readLoop 1024 0 [.bytes 512, .err] = some false := by decide
example : readLoop 1024 0 [.bytes 512, .bytes 512] = some true := by decide

end SnapraidVerif.Props.C08
