/-
C08  I/O errors never turn into false protection.

Bookkeeping model of one stripe across sync/scrub: `allBlk` (every allocated block recorded
as synced) and `bad`.  A stripe is *protected* when it is recorded as synced and healthy.
-/
namespace SnapraidVerif.Props.C08

structure Stripe where
  allBlk : Bool
  bad : Bool
deriving DecidableEq, Repr

def Stripe.protected (s : Stripe) : Bool := s.allBlk && !s.bad

/-- outcome of reading the data / parity blocks of a stripe -/
inductive Read | ok | ioError | fileError
deriving DecidableEq, Repr

/-- sync.c:860-933,1150-1233 and scrub.c:422-460,594-613: what the stripe's books look like after
    the stripe was processed with the given read outcome.  `complete` = the stripe was completed
    (all reads fine and verified): blocks become BLK, bad cleared only by a verified pass. -/
def afterRead (before : Stripe) (o : Read) : Stripe :=
  match o with
  | .ok => { allBlk := true, bad := false }
  | .ioError => { allBlk := before.allBlk, bad := true }      -- "marked as bad", blocks unchanged
  | .fileError => before                                       -- stripe skipped, nothing recorded

/-- a stripe hit by an operating-system read error is never recorded as synced and healthy -/
theorem io_error_never_protects_reads (before : Stripe) : (afterRead before .ioError).protected = false := by
  simp [afterRead, Stripe.protected]

/-- a skipped stripe (file changed / unreadable while syncing) stays exactly as unprotected as it
    was: sync only processes stripes that are not protected -/
theorem skipped_stays_unprotected (before : Stripe) (h : before.protected = false) :
    (afterRead before .fileError).protected = false := by simpa [afterRead] using h

/-- processing one stripe does not touch the books of any other stripe -/
theorem other_stripes_unaffected (books : Nat → Stripe) (pos other : Nat) (o : Read) (h : other ≠ pos) :
    (fun p => if p = pos then afterRead (books p) o else books p) other = books other := by
  simp [h]

/-! ### parity writes are asynchronous

The computing thread records the stripe as BLK when it hands the buffers to the writer threads;
the result of the `pwrite`s is known later.  `collect` says which failed stripes the caller is
told about, with their positions, before the content is saved. -/

/-- books of stripe `i` after a sync in which the parity write of stripe `i` succeeded (`w i`) or
    failed, when the caller marks bad exactly the failed stripes it learns about -/
def afterWrites (w : Nat → Bool) (learned : Nat → Bool) (i : Nat) : Stripe :=
  { allBlk := true, bad := !w i && learned i }

/-- specification of a sound writer path: if every failed write is reported back with its position
    (`learned`), no stripe whose parity write failed is recorded as synced and healthy -/
theorem async_writer_sound_when_collected (w learned : Nat → Bool) (hl : ∀ i, w i = false → learned i = true) (i : Nat)
    (hf : w i = false) : (afterWrites w learned i).protected = false := by
  simp [afterWrites, Stripe.protected, hf, hl i hf]

/-- the pinned code before the repair: writer errors came back only as aggregate counters (threaded
    mode, and never for the last queued stripes) or not at all (single-thread mode), i.e.
    `learned = fun _ => false`: a stripe whose parity write failed stays recorded as synced and
    healthy.  Machine-checked counter-example, replayed on the binary with the shim. -/
theorem c08_counter_write : ∃ (w : Nat → Bool) (i : Nat), w i = false ∧ (afterWrites w (fun _ => false) i).protected = true :=
  ⟨fun _ => false, 0, rfl, by decide⟩

end SnapraidVerif.Props.C08
