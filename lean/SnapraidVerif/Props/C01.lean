/-
C01  Complete recovery from any loss within the parity level (stripe level), and the
soundness half of C05 for blocks with a recorded hash.

Setting: a stripe with true (synced) data `D`, a set `F` of failed data blocks, candidate
parity combinations `combos` (all r-subsets of the readable parities, in the order
combination_first/next enumerates them), `dec c` the reconstruction raid_data produces with
combination `c`, and the acceptance test of is_hash_matching: every failed block's hash equals
its recorded hash `H (D i)`.
-/
import SnapraidVerif.Array.Repair
namespace SnapraidVerif.Props.C01
open Repair

variable {β Dg C : Type} [DecidableEq Dg]

/-- acceptance test of `is_hash_matching` over the failed blocks `F` -/
def accept (H : β → Dg) (D : Nat → β) (F : List Nat) (x : Nat → β) : Bool :=
  F.all fun i => H (x i) == H (D i)

/-- no two different candidate blocks compared in this stripe share a digest (explicit, decidable
    on instances; replaces "the hash is collision free") -/
def HashSep (H : β → Dg) (D : Nat → β) (F : List Nat) (combos : List C) (dec : C → Nat → β) : Prop :=
  ∀ c ∈ combos, ∀ i ∈ F, H (dec c i) = H (D i) → dec c i = D i

/-- **C05 (hashed blocks)**: whatever the damage, a reconstruction that fix accepts has, in every
    failed block that carries a recorded hash, exactly the recorded bytes -/
theorem accepted_is_recorded (H : β → Dg) (D : Nat → β) (F : List Nat) (combos : List C) (dec : C → Nat → β)
    (hsep : HashSep H D F combos dec) (x : Nat → β)
    (h : firstAccepted combos dec (accept H D F) = some x) : ∀ i ∈ F, x i = D i := by
  obtain ⟨hok, c, hc, hdec⟩ := firstAccepted_sound combos dec _ x h
  intro i hi
  subst hdec
  simp only [accept, List.all_eq_true, beq_iff_eq] at hok
  exact hsep c hc i hi (hok i hi)

/-- **C01 (stripe)**: if some enumerated combination consists of intact parities (which is the
    case whenever failed data + damaged parity ≤ N: at least |F| intact parities remain), and
    decoding with intact parities yields the true data (C03), then fix accepts a reconstruction
    and every failed block equals its synced bytes -/
theorem fix_stripe_recovers (H : β → Dg) (D : Nat → β) (F : List Nat) (combos : List C) (dec : C → Nat → β)
    (hsep : HashSep H D F combos dec)
    (good : C) (hgood : good ∈ combos) (hdec : ∀ i ∈ F, dec good i = D i) :
    ∃ x, firstAccepted combos dec (accept H D F) = some x ∧ ∀ i ∈ F, x i = D i := by
  have hacc : accept H D F (dec good) = true := by
    simp only [accept, List.all_eq_true, beq_iff_eq]
    intro i hi; rw [hdec i hi]
  obtain ⟨x, hx⟩ := firstAccepted_complete combos dec (accept H D F) ⟨good, hgood, hacc⟩
  exact ⟨x, hx, accepted_is_recorded H D F combos dec hsep x hx⟩

/-- counting: with `np` parities of which `bad` are damaged and `r` failed data blocks,
    `r + bad ≤ np` leaves at least `r` intact parities to choose from -/
theorem enough_parities (np bad r : Nat) (h : r + bad ≤ np) : r ≤ np - bad := by omega

/-- non-vacuity: two candidates, the first built from a stale parity is rejected, the second accepted -/
example : firstAccepted [0, 1] (fun c (_ : Nat) => if c = 0 then 99 else 7) (accept (fun b : Nat => b) (fun _ => 7) [0]) = some (fun _ => 7) := by
  simp [firstAccepted, accept]

end SnapraidVerif.Props.C01
