import SnapraidVerif.GF256.Basic
import SnapraidVerif.GF256.Field
import SnapraidVerif.Raid.Gen
import SnapraidVerif.Raid.Mds
import SnapraidVerif.Raid.Cauchy
