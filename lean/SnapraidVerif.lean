import SnapraidVerif.GF256.Basic
import SnapraidVerif.GF256.Field
import SnapraidVerif.Raid.Gen
import SnapraidVerif.Raid.Mds
import SnapraidVerif.Raid.Cauchy
import SnapraidVerif.Raid.Tables
import SnapraidVerif.Raid.Spec
import SnapraidVerif.Props.C02
