#!/bin/bash
# Runs the thorough tier of every registered check on the current /repo tree, one after the other
# (maintenance tool: the thorough tiers are also runnable one by one through MANIFEST.json).
cd /verif
for i in $(seq -w 1 20); do
  id=C$i
  s=$(date +%s)
  out=$(VERIF_SEED=${VERIF_SEED:-1} ./check $id --tier thorough 2>&1)
  rc=$?
  echo "$id rc=$rc $(( $(date +%s) - s ))s $(echo "$out" | grep -v KNOWN-FINDING | grep -E 'VIOLATION|FAIL|Traceback' | head -3 | tr '\n' ' ' | cut -c1-400)"
done
