"""Shared by C02, C03, C16: table translator obligations, Lean oracle, raid harness."""
import os, re, shutil, subprocess, json
from concurrent.futures import ThreadPoolExecutor
import vlib, gen_tables

OK_PARTS = ['Mul', 'Exp', 'C0', 'C1', 'C2', 'C3', 'C4', 'C5', 'V']

TABLE_THEOREMS = {
    'Mul': ['SnapraidVerif.GenTabOk.gfmul_ok', 'SnapraidVerif.GenTabOk.mulpshufb_ok', 'SnapraidVerif.GenTabOk.cauchypshufb_chk'],
    'Exp': ['SnapraidVerif.GenTabOk.gfexp_ok', 'SnapraidVerif.GenTabOk.gfinv_ok'],
    'C0': ['SnapraidVerif.GenTabOk.gfcauchy_row0'], 'C1': ['SnapraidVerif.GenTabOk.gfcauchy_row1'],
    'C2': ['SnapraidVerif.GenTabOk.gfcauchy_row2'], 'C3': ['SnapraidVerif.GenTabOk.gfcauchy_row3'],
    'C4': ['SnapraidVerif.GenTabOk.gfcauchy_row4'], 'C5': ['SnapraidVerif.GenTabOk.gfcauchy_row5'],
    'V': ['SnapraidVerif.GenTabOk.gfvandermonde_rows'],
}

def table_obligations(chk):
    """translate /repo/raid/tables.c and re-check the table theorems with the kernel.
    Returns list of failed obligation names."""
    gdir = os.path.join(vlib.scratch(), 'gen')
    os.makedirs(gdir, exist_ok=True)
    src = os.path.join(gdir, 'GenTables.lean')
    probs = gen_tables.emit(os.path.join(vlib.REPO, 'raid', 'tables.c'), src)
    failed = []
    if probs:
        chk.oblig('translate raid/tables.c', False, '; '.join(probs))
        return ['translate:' + p for p in probs]
    chk.oblig('translate raid/tables.c', True)
    ok, out = vlib.compile_generated(gdir, 'GenTables', src)
    if not chk.oblig('compile GenTables.lean', ok, out[-300:]):
        return ['compile GenTables']
    def one(part):
        path = os.path.join(vlib.VERIF, 'gen', 'GenTablesOk%s.lean' % part)
        ok, out = vlib.check_lean_file(path, gdir)
        return part, ok, out
    with ThreadPoolExecutor(len(OK_PARTS)) as ex:
        res = list(ex.map(one, OK_PARTS))
    for part, ok, out in res:
        for thm in TABLE_THEOREMS[part]:
            m = re.search(r"'%s' depends on axioms: \[([^\]]*)\]" % re.escape(thm), out.replace('\n ', ' '))
            ax = [a.strip() for a in m.group(1).split(',')] if m else None
            good = ok and ax is not None and all(a in vlib.STD_AXIOMS for a in ax)
            chk.axioms[thm] = ax
            chk.oblig('kernel: ' + thm + ' (tables.c of this run)', good, '' if good else out[-400:])
            if not good:
                failed.append(thm)
    return failed

def make_oracle():
    """ask the Lean driver for the field tables and generator matrices (from the definitions)"""
    path = os.path.join(vlib.scratch(), 'oracle.txt')
    if os.path.exists(path):
        return path
    req = ['mulrow %d' % a for a in range(256)] + ['invtab', 'exptab'] + \
          ['genrow cauchy %d' % j for j in range(6)] + ['genrow power %d' % j for j in range(3)]
    rep = vlib.driver_query(req)
    assert len(rep) == len(req), (len(rep), len(req))
    with open(path, 'w') as f:
        f.write('\n'.join(rep) + '\n')
    return path

def run_harness(chk, tier, seed, what, tag='raid', extra=()):
    """returns dict family -> (cases, fails, failfile or None), info dict"""
    exe = vlib.build_raid_harness(tag, extra)
    outdir = os.path.join(vlib.scratch(), 'raidout-%s-%s' % (tag, what))
    os.makedirs(outdir, exist_ok=True)
    oracle = make_oracle()
    r = vlib.run([exe, oracle, outdir, str(seed), tier, what], timeout=7200)
    fams, info = {}, {}
    for line in r.stdout.split('\n'):
        m = re.match(r'RES family=(\S+) cases=(\d+) fail=(\d+)', line)
        if m:
            ff = os.path.join(outdir, m.group(1) + '.fail.txt')
            fams[m.group(1)] = (int(m.group(2)), int(m.group(3)), ff if os.path.exists(ff) else None)
        m = re.match(r'INFO (.*)', line)
        if m:
            for kv in m.group(1).split():
                if '=' in kv:
                    k, v = kv.split('=', 1); info[k] = v
        m = re.match(r'SKIP family=(\S+)', line)
        if m:
            info.setdefault('skipped', []).append(m.group(1))
    crashed = r.returncode != 0
    return fams, info, outdir, crashed, r.stdout[-3000:]

def lean_sampled(outdir, name):
    """send <name>.req through the Lean driver and compare with <name>.c_out; returns (n, mismatches[list of (req, c, lean)])"""
    req = os.path.join(outdir, name + '.req')
    if not os.path.exists(req):
        return 0, []
    lean = vlib.driver_file(req)
    c = open(os.path.join(outdir, name + '.c_out')).read().split('\n')[:-1]
    reqs = open(req).read().split('\n')[:-1]
    bad = []
    for i, (a, b) in enumerate(zip(c, lean)):
        if a != b:
            bad.append((reqs[i][:2000], a[:600], b[:600]))
    if len(c) != len(lean):
        bad.append(('line count', str(len(c)), str(len(lean))))
    return len(reqs), bad
