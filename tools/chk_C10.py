"""C10  Saving and reloading the array state is lossless (Lean codec vs real content files)."""
import os, vlib, e2e, sim, chk_C06, fixcommon as fx

STATIC_THEOREMS = [
    'SnapraidVerif.Codec.getVar_putVar',
    'SnapraidVerif.Codec.b32_roundtrip',
    'SnapraidVerif.Codec.b64_roundtrip',
    'SnapraidVerif.Codec.str_roundtrip',
    'SnapraidVerif.Codec.le32_roundtrip',
    'SnapraidVerif.Codec.raw_roundtrip',
    'SnapraidVerif.Codec.crc32c_append',
    'SnapraidVerif.Props.C10.hashes_roundtrip',
    'SnapraidVerif.Props.C10.run_roundtrip',
    'SnapraidVerif.Props.C10.simple_records_roundtrip',
    'SnapraidVerif.Props.C10.rec_roundtrip',
    'SnapraidVerif.Props.C10.recs_roundtrip',
    'SnapraidVerif.Props.C10.content_roundtrip',
]

def compare_views(a, s, dec, stats):
    """decoded state (Lean) vs what the binary reports after loading the same file"""
    probs = []
    r = a.cmd('list')
    if r.rc != 0:
        return ['list failed rc=%d' % r.rc]
    maps = [m[0].decode('latin-1') for m in dec.maps]
    want_files = sorted(('file:%s:%s:%d:%d:%d:%d' % (maps[f['mapping']], e2e_esc(f['sub']), f['size'], f['sec'],
                        (f['nsec'] - 1) if f['nsec'] else -1, f['inode'])) for f in dec.files)
    got_files = sorted(t for t in r.tags if t.startswith('file:'))
    stats['list_lines'] = stats.get('list_lines', 0) + len(got_files)
    if want_files != got_files:
        d = set(want_files) ^ set(got_files)
        probs.append('list differs from decoded state: %r' % sorted(d)[:3])
    want_links = sorted('link_%s:%s:%s:%s' % ('symlink' if k == 's' else 'hardlink', maps[m], e2e_esc(sub), e2e_esc(lt)) for k, m, sub, lt in dec.links)
    got_links = sorted(t for t in r.tags if t.startswith('link_'))
    if want_links != got_links:
        probs.append('links differ: %r' % (sorted(set(want_links) ^ set(got_links))[:3],))
    r = a.cmd('status', '-G')
    got = {}
    for t in r.tags:
        p = t.split(':')
        if p[0] == 'block' and len(p) >= 7:
            got[int(p[1])] = (int(p[2]), p[5] == 'bad', p[6] == 'rehash')
        elif p[0] == 'block_noinfo':
            got[int(p[1])] = None
    for pos in range(dec.blockmax):
        inf = dec.info.get(pos)
        g = got.get(pos, 'absent')
        if g == 'absent':
            continue      # status only lists used positions
        w = (inf[1], inf[2], inf[3]) if inf else None
        stats['status_blocks'] = stats.get('status_blocks', 0) + 1
        if g != w:
            probs.append('status block %d: binary %r, decoded %r' % (pos, g, w))
    return probs

def e2e_esc(b):
    """esc_tag of support.c applied to raw bytes, returned as latin-1 str"""
    out = bytearray()
    for c in b:
        if c == 0x3a: out += b'\\d'
        elif c == 0x0a: out += b'\\n'
        elif c == 0x0d: out += b'\\r'
        elif c == 0x5c: out += b'\\\\'
        else: out.append(c)
    return out.decode('latin-1')

def one_history(exe, root, seed, steps, stats, shim=None):
    rng = e2e.Rng(seed)
    a = e2e.Arr(root, exe, ndisks=1 + rng.below(4), nparity=1 + rng.below(6), hashsize=rng.choice([16, 16, 8, 4, 2, 12]),
                splits=rng.choice([1, 1, 2, 3]), ncontent=1 + rng.below(4))
    s = sim.Sim(a, rng.fork())
    s.populate(3 + rng.below(3))
    s.churn = rng.chance(1, 3)
    if shim and seed % 4 != 0:
        s.shim = shim; s.fake_now = 1_600_000_000 + rng.below(10**7)      # three quarters of the histories: commands hours to days apart
    s.sync(*rng.choice([[], ['--test-force-murmur3'], ['--test-force-spooky2']]))
    prev_hashes = None      # (disk, position) -> hashes recorded there by the previous content file (any block kind)
    for step in range(steps):
        s.fs_random(1 + rng.below(5))
        name, r = chk_C06.commands(rng, s)
        if not os.path.exists(a.contents[0]):
            continue
        blobs = [open(c, 'rb').read() for c in a.contents]
        stats['files'] = stats.get('files', 0) + 1
        stats['bytes'] = stats.get('bytes', 0) + len(blobs[0])
        cfg = 'ndisks=%d nparity=%d hashsize=%d splits=%d ncontent=%d seed=%d' % (a.ndisks, a.nparity, a.hashsize, a.splits, a.ncontent, seed)
        def fail(msg, extra=''):
            hist = '\n'.join(s.history)
            a.destroy()
            return ('after %r (%s): %s' % (name, cfg, msg), 'config: %s\n%s\n%s\ncontent(hex)=%s\nhistory:\n%s' % (cfg, msg, extra, blobs[0].hex()[:20000], hist))
        if any(b != blobs[0] for b in blobs):
            return fail('content copies differ after a successful command')
        dec, reser = e2e.lean_decode([blobs[0]], 0)[0]
        if not dec.ok:
            return fail('Lean decoder rejects a content file written by the binary')
        if reser != blobs[0].hex():
            # find first differing offset
            rb = bytes.fromhex(reser) if reser != 'reject' else b''
            off = next((i for i in range(min(len(rb), len(blobs[0]))) if rb[i] != blobs[0][i]), min(len(rb), len(blobs[0])))
            return fail('Lean re-serialisation of the decoded records differs from the file at offset %d' % off, 'lean=%s' % reser[:4000])
        v3 = (a.hashsize != 16 or a.splits > 1)
        if dec.version != (3 if v3 else 2):
            return fail('format version %d unexpected' % dec.version)
        stats['v%d' % dec.version] = stats.get('v%d' % dec.version, 0) + 1
        for k in set(b[1] for f in dec.files for b in f['blocks']):
            stats['blk_' + k] = stats.get('blk_' + k, 0) + 1
        if dec.deleted and any(dec.deleted.values()):
            stats['with_deleted'] = stats.get('with_deleted', 0) + 1
        if any(i[2] for i in dec.info.values()): stats['with_bad'] = stats.get('with_bad', 0) + 1
        if any(i[3] for i in dec.info.values()): stats['with_rehash'] = stats.get('with_rehash', 0) + 1
        if any(i[4] for i in dec.info.values()): stats['with_justsynced'] = stats.get('with_justsynced', 0) + 1
        # deleted blocks with their hashes: a DELETED block comes from a recorded block of that disk at that position and
        # keeps ITS hash (or loses it: INVALID / ZERO patterns) - never the hash of another position
        cur = {}
        for f in dec.files:
            dn = dec.maps[f['mapping']][0]
            for (pos, kind, h) in f['blocks']: cur.setdefault((dn, pos), set()).add(h)
        for m, dd in dec.deleted.items():
            dn = dec.maps[m][0]
            for pos, h in dd.items():
                cur.setdefault((dn, pos), set()).add(h)
                if prev_hashes is not None and (dn, pos) in prev_hashes and h.strip('0') and h.lower().strip('f') and h not in prev_hashes[(dn, pos)]:
                    stats['deleted_hash_checked'] = stats.get('deleted_hash_checked', 0) + 1
                    return fail('[deleted-hash] the DELETED block of disk %s at position %d carries hash %s, but the previous content file recorded %s at that position' % (dn.decode('latin-1'), pos, h, sorted(prev_hashes[(dn, pos)])))
                stats['deleted_hash_checked'] = stats.get('deleted_hash_checked', 0) + 1
        prev_hashes = cur
        pr = compare_views(a, s, dec, stats)
        if pr:
            return fail('binary view of the loaded state differs from the decoded state: ' + pr[0], '\n'.join(pr[:10]))
        if rng.chance(1, 2):
            r2 = a.cmd('test-rewrite')
            blobs2 = [open(c, 'rb').read() for c in a.contents]
            stats['rewrites'] = stats.get('rewrites', 0) + 1
            if r2.rc != 0 or any(b != blobs[0] for b in blobs2):
                return fail('test-rewrite does not reproduce the content file byte for byte (rc=%d)' % r2.rc)
    a.destroy()
    return None

def deleted_hole(exe, root, seed, stats):
    """a run of DELETED blocks with a hole cleared in its MIDDLE by a ranged sync (the stripe of the hole holds no live file
    on any disk, stripes before and after it still do): the blocks after the hole must be saved with the hashes of their own
    positions"""
    rng = e2e.Rng(seed)
    a = e2e.Arr(root, exe, ndisks=2, nparity=1 + rng.below(2), hashsize=rng.choice([16, 8]), ncontent=1)
    s = sim.Sim(a, rng.fork(), weird_names=False)
    bs = a.block
    na = 6 + rng.below(5)                 # d1/A: positions 0 .. na-1
    hole = 2 + rng.below(na - 4)          # strictly inside, at least one block of A after it
    a.write('d1', 'A', rng.bytes(na * bs - rng.below(100)), s.tick())
    a.write('d2', 'P', rng.bytes(hole * bs), s.tick())            # positions 0 .. hole-1
    a.write('d2', 'Q', rng.bytes(bs - rng.below(50)), s.tick())   # position hole
    a.write('d2', 'R', rng.bytes((na - hole - 1) * bs), s.tick()) # positions hole+1 .. na-1
    if s.sync().rc != 0:
        a.destroy(); return None
    d0 = fx.decode(a)
    A = [f for f in d0.files if f['sub'] == b'A']
    Q = [f for f in d0.files if f['sub'] == b'Q']
    if not A or not Q or Q[0]['blocks'][0][0] != hole or [b[0] for b in A[0]['blocks']] != list(range(na)):
        a.destroy(); return None          # another layout than intended: nothing claimed
    want = {b[0]: b[2] for b in A[0]['blocks']}
    os.unlink(a.path('d1', 'A')); os.unlink(a.path('d2', 'Q')); s.log('d1/A and d2/Q deleted')
    a.write('d1', 'keep', rng.bytes(10), s.tick())
    r = s.run('sync', '-S', str(hole), '-B', '1', '--force-empty')
    stats['deleted_hole'] = stats.get('deleted_hole', 0) + 1
    d1 = fx.decode(a)
    problem = None
    if r.rc != 0 or not d1.ok:
        a.destroy(); return None
    for m, dd in d1.deleted.items():
        if d1.maps[m][0] != b'd1': continue
        for pos, h in dd.items():
            if h.strip('0') and h.lower().strip('f') and pos in want and h != want[pos]:
                problem = '[deleted-hash] after sync -S %d -B 1 the DELETED block of d1 at position %d is saved with hash %s, its own hash was %s (that hash belongs to position %s)' % (
                    hole, pos, h, want[pos], [q for q, x in want.items() if x == h])
                break
    hist = '\n'.join(s.history)
    a.destroy()
    return ('%s; deleted-hole na=%d hole=%d seed=%d' % (problem, na, hole, seed), problem + '\n' + hist) if problem else None

def big_deleted_run(exe, root, seed, stats):
    """long runs: one run of DELETED blocks that covers 4 GiB (256 blocks of 16 MiB, sparse files) saved by a ranged sync:
    the saved state must load again, re-serialise byte for byte and sync to the end (a 4 GiB parity file is written
    and removed: about 7 s)"""
    rng = e2e.Rng(seed)
    kib = 16384
    a = e2e.Arr(root, exe, ndisks=2, nparity=1, block_kib=kib, ncontent=2)
    bs = a.block; nb = (1 << 32) // bs + 1
    def sparse(path, t):
        os.makedirs(os.path.dirname(path), exist_ok=True)
        with open(path, 'wb') as f:
            for b in (0, 1, nb // 2, nb - 1):
                f.seek(b * bs); f.write(rng.bytes(48))
            f.truncate(nb * bs)
        os.utime(path, ns=(t, t))
    sparse(a.path('d1', 'big'), 1_600_000_000_000_000_321)
    r = a.cmd('sync', timeout=900)
    if r.rc != 0:
        a.destroy(); return None
    os.unlink(a.path('d1', 'big'))
    sparse(a.path('d2', 'keep'), 1_600_000_100_000_000_321)
    a.write('d1', 'small', rng.bytes(1000), 1_600_000_200_000_000_321)
    r = a.cmd('sync', '-B', '1', '--force-empty', timeout=900)
    stats['big_deleted_run'] = stats.get('big_deleted_run', 0) + 1
    problem = None
    blobs = [open(c, 'rb').read() for c in a.contents]
    dec, reser = e2e.lean_decode([blobs[0]], 0)[0]
    ndel = sum(len(dd) for dd in dec.deleted.values()) if dec.ok else -1
    if r.rc != 0: problem = 'sync -B 1 over a 4 GiB deleted file exits %d' % r.rc
    elif not dec.ok or reser != blobs[0].hex(): problem = 'the Lean model does not reproduce the saved content with a run of %d deleted blocks' % ndel
    else:
        t = a.cmd('test-rewrite', timeout=900)
        if t.rc != 0 or [open(c, 'rb').read() for c in a.contents] != blobs:
            problem = 'test-rewrite of the state with a run of %d deleted blocks (4 GiB) exits %d / does not reproduce the file' % (ndel, t.rc)
        else:
            l = a.cmd('list', timeout=900); r3 = a.cmd('sync', timeout=900)
            if l.rc != 0 or r3.rc != 0: problem = 'the state with a run of %d deleted blocks cannot be used: list exits %d, the final sync %d' % (ndel, l.rc, r3.rc)
    a.destroy()
    return ('[long-deleted-run] ' + problem, problem) if problem else None

def emptied_disk_history(exe, root, seed, stats):
    """a disk loses all its files while its longest extent reaches beyond every live file; a partial sync saves the
    state with DELETED blocks still referenced by the parity: the saved state must keep that disk and those blocks
    (judged by the C06 parity oracle on the reloaded state and by recovering a file of another disk)"""
    rng = e2e.Rng(seed)
    a = e2e.Arr(root, exe, ndisks=2 + rng.below(3), nparity=1 + rng.below(2), hashsize=rng.choice([16, 8]), ncontent=1 + rng.below(2))
    s = sim.Sim(a, rng.fork(), weird_names=False)
    big = rng.choice(a.disks)
    for d in a.disks:
        for i in range(1 + rng.below(2)):
            a.write(d, 'f%d' % i, rng.bytes(a.block * (1 + rng.below(3)) + rng.below(2) * 17), s.tick())
    a.write(big, 'zz_big', rng.bytes(a.block * (9 + rng.below(6))), s.tick())
    r = s.sync()
    cfg = 'ndisks=%d nparity=%d hashsize=%d emptied=%s seed=%d' % (a.ndisks, a.nparity, a.hashsize, big, seed)
    def fail(msg, extra=''):
        hist = '\n'.join(s.history); a.destroy()
        return ('emptied-disk history (%s): %s' % (cfg, msg), '%s\n%s\n%s\nhistory:\n%s' % (cfg, msg, extra, hist))
    if r.rc != 0:
        a.destroy(); return None
    snap = a.snapshot()
    fx.wipe_disk(a, big); s.log('wipe all files of %s' % big)
    r = s.run('sync', '-E', '-B', str(1 + rng.below(3)))
    stats['emptied'] = stats.get('emptied', 0) + 1
    if r.rc != 0:
        a.destroy(); return None
    blobs = [open(c, 'rb').read() for c in a.contents]
    if any(b != blobs[0] for b in blobs):
        return fail('content copies differ')
    dec, reser = e2e.lean_decode([blobs[0]], 0)[0]
    if not dec.ok or reser != blobs[0].hex():
        return fail('Lean decode / re-serialisation of the saved state fails')
    probs, st = s.invariant_problems(dec)
    if probs:
        return fail('the saved state lost blocks the parity still depends on: ' + probs[0], '\n'.join(probs[:6]))
    # a file of another disk must still be recoverable from the reloaded state
    others = [(d, rel) for (d, rel), v in snap.items() if d != big and v[0] == 'f' and len(v[1]) > 0]
    # (per stripe: the lost block plus the DELETED block of the emptied disk whose data is gone = two unknowns)
    if others and a.nparity >= 2:
        d, rel = rng.choice(others)
        os.unlink(a.path(d, rel)); s.log('lose %s/%r' % (d, rel))
        f = s.run('fix', '-d', d)
        if not os.path.isfile(a.path(d, rel)) or a.read(d, rel) != snap[(d, rel)][1]:
            return fail('%s/%r is not recoverable after the state was saved and reloaded (fix exit %d): %s' % (d, rel, f.rc, [t for t in f.tags if 'unrecoverable' in t][:2]), f.out[-600:])
        stats['emptied_recovered'] = stats.get('emptied_recovered', 0) + 1
    a.destroy()
    return None

def main(tier, seed):
    chk = vlib.Check('C10', 'proof', tier, seed)
    chk.assumptions = ['the record-level round trip is proved for the primitive fields, block runs and the simple records; for whole files it is checked on every content file the binary produced in the generated histories (byte-identical re-serialisation by the Lean model)',
                       'names containing NUL cannot occur (C strings)']
    ok, log = vlib.ensure_lean_built()
    chk.oblig('lake build', ok, log[-300:])
    hits = vlib.forbidden_tokens()
    chk.oblig('no sorry/admit/axiom/native_decide in library', not hits, '; '.join(hits))
    okA, ax, out = vlib.axioms_audit(STATIC_THEOREMS, ['SnapraidVerif.Props.C10'])
    chk.axioms.update(ax)
    for t in STATIC_THEOREMS:
        chk.oblig('axiom audit: ' + t, ax.get(t) is not None and all(x in vlib.STD_AXIOMS for x in ax[t]), str(ax.get(t)))
    try:
        exe = vlib.build_snapraid(); shim = vlib.build_shim()
    except vlib.BuildError as e:
        chk.violation('build of /repo failed: ' + str(e)[:300], str(e), False, 'build'); chk.finish()
    nhist = 60 if tier == 'quick' else 600
    steps = 8 if tier == 'quick' else 12
    stats = {}
    from concurrent.futures import ThreadPoolExecutor
    def job(i):
        return i, one_history(exe, os.path.join(vlib.scratch(), 'h%d' % i), seed * 100000 + 50000 + i, steps, stats, shim)
    nemp = 24 if tier == 'quick' else 300
    def job2(i):
        return nhist + i, emptied_disk_history(exe, os.path.join(vlib.scratch(), 'e%d' % i), seed * 100000 + 55000 + i, stats)
    with ThreadPoolExecutor(vlib.NCPU) as ex:
        res = list(ex.map(job, range(nhist))) + list(ex.map(job2, range(nemp))) + list(ex.map(lambda i: (nhist + nemp + i, deleted_hole(exe, os.path.join(vlib.scratch(), 'dh%d' % i), seed * 100000 + 56000 + i, stats)), range(8 if tier == 'quick' else 80)))
    if tier == 'thorough':      # writes a 4 GiB parity file: kept out of the quick tier
        res.append((10**6, big_deleted_run(exe, os.path.join(vlib.scratch(), 'bigdel'), seed * 100000 + 57000, stats)))
    nbad = 0
    for i, r in res:
        if r:
            nbad += 1
            if nbad <= 3:
                chk.violation('C10 history %d: %s' % (i, r[0]), r[1], True, 'hist%d' % i)
    for o in chk.obligations:
        if not o[1]:
            chk.violation('C10 static obligation failed: ' + o[0], o[0] + '\n' + o[2], False, 'static')
    chk.evaluations = stats.get('files', 0)
    chk.distinct = stats.get('files', 0)
    chk.rule = ('every content file left by every command of %d seeded histories (grammar of C06): Lean decode -> Lean re-serialise must be byte-identical; all copies identical; decoded files/links/per-stripe info must equal `list -l` and `status -G -l` of the binary; `test-rewrite` byte-identical (1/2 of steps); the commands of three quarters of the histories run hours to days apart (frozen clock); plus %d emptied-disk histories (a disk loses every file while its extent reaches beyond all live files, partial sync -E -B k saves the state): C06 parity oracle on the reloaded state and fix of a lost file of another disk; every DELETED block must carry a hash the previous content file recorded at ITS position (history oracle), incl. directed runs of deleted blocks with a hole cleared in the middle by a ranged sync, and (thorough tier) one run of deleted blocks that covers 4 GiB (16 MiB blocks, sparse files)' % (nhist, nemp))
    chk.samples = [dict(stats)]
    chk.corr['CODEC'] = dict(stats)
    chk.finish()

def replay(path):
    print(open(path).read()[:6000]); return 0
