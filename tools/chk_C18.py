"""C18  Include/exclude and selection filters follow the documented rules."""
import os, shutil, vlib, e2e, sim, fixcommon as fx
from concurrent.futures import ThreadPoolExecutor

STATIC_THEOREMS = [
    'SnapraidVerif.Props.C18.first_match_decides',
    'SnapraidVerif.Props.C18.no_match_falls_through',
    'SnapraidVerif.Props.C18.default_opposite_of_last',
    'SnapraidVerif.Props.C18.dirs_included_by_default',
    'SnapraidVerif.Props.C18.parseBracket_sub',
    'SnapraidVerif.Props.C18.wildcard_never_crosses_slash',
]

PAT_ALPHA = [b'a', b'b', b'c', b'/', b'*', b'?', b'[', b']', b'!', b'-', b'\\', b'.', b'x']
STR_ALPHA = [b'a', b'b', b'c', b'/', b'.', b'x', b'*', b'[', b']', b'\\', b'-', b'?', b'!']

def hx(b):
    return b.hex() if b else '-'

def gen_pattern(rng, n=None):
    n = n if n is not None else 1 + rng.below(7)
    out = b''
    for _ in range(n):
        k = rng.below(12)
        if k == 0:
            # a well-formed bracket
            body = b''.join(rng.choice([b'a', b'b', b'c', b'x', b'a-c', b'b-x', b'.', b'\\]', b'-']) for _ in range(1 + rng.below(3)))
            out += b'[' + (rng.choice([b'', b'!', b'^'])) + body + b']'
        else:
            out += rng.choice(PAT_ALPHA)
    return out

def gen_string(rng):
    return b''.join(rng.choice(STR_ALPHA) for _ in range(rng.below(8)))

def fnm_sweep(leaf, seed, stats, n):
    rng = e2e.Rng(seed)
    reqs = []
    cases = []
    # exhaustive short strings over a small alphabet first
    small_p = [b'a', b'*', b'?', b'/', b'[a]', b'\\', b'[', b']']
    small_s = [b'', b'a', b'/', b'b', b'[', b'\\', b'a/', b'/a', b'aa', b'a/a']
    for p1 in small_p:
        for p2 in [b''] + small_p:
            for s in small_s:
                for fl in (0, 1):
                    cases.append((fl, p1 + p2, s))
    for _ in range(n):
        p = gen_pattern(rng)
        if b'[.' in p or b'[=' in p or b'[:' in p:
            # POSIX collating symbols / equivalence classes / character classes inside a bracket expression
            # depend on the locale tables of the C library: outside the model (stated in the assumptions)
            stats['skipped_collating'] = stats.get('skipped_collating', 0) + 1
            continue
        # strings biased to be near-matches: mutate the pattern's literals
        s = gen_string(rng) if rng.chance(1, 2) else bytes(c for c in p if c not in b'*?[]!\\') + (rng.choice([b'', b'a', b'/', b'/a']))
        cases.append((rng.below(2), p, s))
    for fl, p, s in cases:
        reqs.append('fnm %d %s %s' % (fl, hx(p), hx(s)))
    lean = vlib.driver_query(reqs)
    real, rc, err = vlib.leaf_query(leaf, reqs)
    problems = []
    vend_diff = 0
    for (fl, p, s), l, r in zip(cases, lean, real):
        stats['fnm'] += 1
        g = r.split(' ')[0].split('=')[1]
        v = r.split(' ')[1].split('=')[1]
        if v != g:
            vend_diff += 1
        if l == '1': stats['fnm_match'] += 1
        if l != g:
            problems.append(('fnmatch(%r, %r, %s) = %s in the binary (libc), %s in the Lean model (vendored cmdline/fnmatch.c: %s)' % (p, s, 'FNM_PATHNAME' if fl else '0', g, l, v), 'request: fnm %d %s %s' % (fl, hx(p), hx(s))))
            if len(problems) > 3: break
        # property predicate, directly on the implementation: in pathname mode a pattern without '/' never matches a string with '/'
        if fl == 1 and b'/' not in p and b'/' in s and g == '1':
            problems.append(('fnmatch with FNM_PATHNAME lets a wildcard cross a slash: pattern %r matches %r' % (p, s), ''))
    stats['vendored_differs_from_libc'] += vend_diff
    return problems

def gen_rule(rng):
    k = rng.below(10)
    name = rng.choice([b'a', b'b', b'*.tmp', b'x?', b'[ab]*', b'sub', b'deep', b'f1', b'*', b'.hid', b'a\\*', b'q\\]r'])
    if k < 3:
        pat = name                      # file, any component
    elif k < 5:
        pat = name + b'/'               # dir, any component
    elif k < 7:
        pat = b'/' + rng.choice([b'sub/', b'', b'sub/deep/', b'*/']) + name        # rooted file
    elif k < 9:
        pat = b'/' + rng.choice([b'', b'sub/']) + name + b'/'                      # rooted dir
    else:
        pat = rng.choice([b'', b'.', b'..', b'a/b', b'/', b'sub//x', b'./a', b'/a/../b', b'...'])    # malformed stream
    return ('i' if rng.chance(1, 2) else 'e') + ':' + hx(pat)

PATHS = [b'a', b'b', b'x1', b'f.tmp', b'sub/a', b'sub/f.tmp', b'sub/deep/a', b'sub/deep/f1', b'deep/sub/b', b'.hid', b'sub/.hid', b'a/b', b'ab', b'a*', b'q]r', b'sub/x?', b'b/sub/a']

def filter_sweep(leaf, seed, stats, n):
    rng = e2e.Rng(seed)
    reqs = []
    for _ in range(n):
        nr = rng.below(5)
        rules = [gen_rule(rng) for _ in range(nr)]
        if rng.chance(1, 6):
            rules.append(('I' if rng.chance(1, 2) else 'E') + ':' + hx(rng.choice([b'd1', b'd*', b'd2'])))
        kind = rng.choice(['f', 'f', 'd', 'e'])
        path = rng.choice(PATHS)
        reqs.append('filter %d %s %s %s %s' % (len(rules), ' '.join(rules), kind, hx(rng.choice([b'd1', b'd2'])), hx(path)))
    reqs = [' '.join(r.split()) for r in reqs]
    lean = vlib.driver_query(reqs)
    real, rc, err = vlib.leaf_query(leaf, reqs)
    problems = []
    for q, l, r in zip(reqs, lean, real):
        stats['filter'] += 1
        stats['filter_results'][r.split(' ')[0]] = stats['filter_results'].get(r.split(' ')[0], 0) + 1
        if l != r:
            problems.append(('filter rules give %s in the binary and %s in the Lean model' % (r, l), 'request: ' + q))
            if len(problems) > 3: break
    return problems

def e2e_rules(exe, root, seed, stats):
    """rules in the configuration: what enters the array (list) must be what the Lean model includes; fix -f selects exactly"""
    rng = e2e.Rng(seed)
    rules = []
    for _ in range(1 + rng.below(4)):
        k = rng.choice(['include', 'exclude'])
        pat = rng.choice(['*.tmp', 'sub/', '/sub/deep/', 'a', '/b', 'f?', '[ab]', '*.keep', '/sub/*.tmp', 'deep/', 'q\\]r', 'x\\*y'])
        rules.append((k, pat))
    a = e2e.Arr(root, exe, ndisks=2, nparity=1, ncontent=1, extra_conf=['%s %s' % r for r in rules] + (['nohidden'] if rng.chance(1, 3) else []))
    nohidden = any(x == 'nohidden' for x in a.extra_conf)
    names = ['a', 'b', 'f1', 'f.tmp', 'k.keep', 'sub/a', 'sub/f.tmp', 'sub/deep/a', 'sub/deep/g.tmp', 'deep/z', '.hid', 'sub/.hid2', 'q]r', 'x*y', 'xzy', 'sub/k.keep']
    rr = e2e.Rng(seed + 7)
    for d in a.disks:
        for n in names:
            if rr.chance(3, 4):
                a.write(d, n, rr.bytes(100 + rr.below(2000)))
    r = a.cmd('sync')
    lst = a.cmd('list')
    got = set()
    for t in lst.tags:
        p = t.split(':')
        if p[0] == 'file':
            got.add((p[1], e2e.unesc_tag(p[2])))
    # model: a file enters iff every ancestor dir passes filter_subdir and the file passes filter_path
    reqs, keys = [], []
    rl = ' '.join(('i' if k == 'include' else 'e') + ':' + pat.encode().hex() for k, pat in rules)
    present = [(d, rel) for d, rel in sim.Sim(a, e2e.Rng(1)).existing_files()]
    for d, rel in present:
        parts = rel.split('/')
        for i in range(1, len(parts)):
            reqs.append('filter %d %s d %s %s' % (len(rules), rl, d.encode().hex(), '/'.join(parts[:i]).encode().hex())); keys.append((d, rel, 'd'))
        reqs.append('filter %d %s f %s %s' % (len(rules), rl, d.encode().hex(), rel.encode().hex())); keys.append((d, rel, 'f'))
    rep = vlib.driver_query(reqs)
    excluded = set()
    for (d, rel, k), v in zip(keys, rep):
        if v != '0':
            excluded.add((d, rel))
    want = set()
    for d, rel in present:
        if (d, rel) in excluded:
            continue
        if nohidden and any(part.startswith('.') for part in rel.split('/')):
            continue
        want.add((d, rel.encode()))
    stats['e2e_files'] += len(present)
    problems = []
    if r.rc != 0:
        problems.append(('sync with rules %s fails: %s' % (rules, r.out[-200:]), ''))
    elif got != want:
        problems.append(('with rules %s%s the array holds %s, the documented rules (Lean model) give %s' % (rules, ' nohidden' if nohidden else '', sorted(got ^ want)[:4], 'the opposite'), 'rules=%s\nin array=%s\nmodel=%s' % (rules, sorted(got), sorted(want))))
    # selection: fix -f on a damaged tree writes exactly the selected files
    if not problems and want:
        sel = rng.choice(['sub/', 'a', '*.keep', 'deep/', 'f1'])
        before = {}
        want = set(x for x in want if x[0] == 'd1')      # one lost disk: recoverable with one parity
        for d, rel in sorted(want):
            p = a.path(d, os.fsdecode(rel))
            os.unlink(p)
        fixr = a.cmd('fix', '-f', sel)
        qs = []
        wl = sorted(want)
        for d, rel in wl:
            qs.append('filter 1 i:%s f %s %s' % (sel.encode().hex(), d.encode().hex(), rel.hex()))
        rp = vlib.driver_query(qs)
        for (d, rel), v in zip(wl, rp):
            exists = os.path.exists(a.path(d, os.fsdecode(rel)))
            stats['selection_files'] += 1
            if (v == '0') != exists:
                problems.append(('fix -f %r: %s/%r %s although the selection %s it' % (sel, d, rel, 'was written' if exists else 'was not restored', 'excludes' if exists else 'includes'), fixr.out[-300:]))
                break
    a.destroy()
    return problems

def selection_beyond_parity(exe, root, seed, stats):
    """nothing outside the selection is written, also when the selected stripes cannot be repaired: silent damage in
    more blocks of a stripe than there are parities, on selected and on unselected files; fix -d / -f then may rename
    or rewrite selected files only"""
    rng = e2e.Rng(seed)
    a = e2e.Arr(root, exe, ndisks=2 + rng.below(2), nparity=1, ncontent=1)
    s = sim.Sim(a, rng.fork(), weird_names=False)
    s.populate(3 + rng.below(2))
    if s.sync().rc != 0:
        a.destroy(); return []
    lay = fx.Layout(a, fx.decode(a))
    shared = [pos for pos, bl in lay.by_pos.items() if len(set(b['disk'] for b in bl)) >= 2]
    if not shared:
        a.destroy(); return []
    damaged = set()
    for pos in [rng.choice(sorted(shared)) for _ in range(1 + rng.below(3))]:
        for b in lay.by_pos[pos][:2 + rng.below(2)]:
            if fx.flip_data_block(a, rng, b): damaged.add((b['disk'], os.fsdecode(b['sub'])))
    dsel = rng.choice(sorted(set(d for d, _ in damaged)))
    if rng.chance(1, 2):
        args = ['-d', dsel]; selected = lambda d, rel: d == dsel
    else:
        target = rng.choice(sorted(rel for d, rel in damaged if d == dsel))
        args = ['-f', '/' + target]; selected = lambda d, rel: rel == target
    before = a.snapshot()
    r = a.cmd('fix', *args)
    after = a.snapshot()
    stats['selection_beyond'] = stats.get('selection_beyond', 0) + 1
    problems = []
    for key, v in before.items():
        if v[0] != 'f' or selected(*key): continue
        w = after.get(key)
        if w is None or w[0] != 'f' or w[1] != v[1]:
            problems.append(('[outside-selection] fix %s %s %s/%r, which is outside the selection (stripes with more damaged blocks than parities)' % (' '.join(args), 'removed or renamed' if w is None else 'rewrote', key[0], key[1]),
                             '\n'.join(t for t in r.tags if t.split(':')[0] in ('status', 'fixed', 'unrecoverable', 'error'))[:2000] + '\n' + '\n'.join(s.history)))
            break
    extra = [k for k in after if k not in before and not selected(k[0], k[1][:-len('.unrecoverable')] if k[1].endswith('.unrecoverable') else k[1])]
    if not problems and extra:
        problems.append(('[outside-selection] fix %s created %s/%r outside the selection' % (' '.join(args), extra[0][0], extra[0][1]), '\n'.join(s.history)))
    a.destroy()
    return problems

def own_files(exe, root, seed, stats):
    """the tool's own content, temporary and lock files are always skipped, wherever the configuration puts them:
    content copies in the root AND in nested sub-directories of data disks, a stale .tmp left by a crash"""
    rng = e2e.Rng(seed)
    a = e2e.Arr(root, exe, ndisks=2, nparity=1, ncontent=1)
    depth = rng.choice([0, 1, 2, 3])
    sub = '/'.join(['meta', 'state', 'x'][:depth])
    d = rng.choice(a.disks)
    cdir = os.path.join(a.ddir(d), sub) if sub else a.ddir(d)
    os.makedirs(cdir, exist_ok=True)
    cname = rng.choice(['array.content', 'snapraid.content', 'c'])
    a.extra_conf.append('content %s' % os.path.join(cdir, cname)); a.write_conf()
    s = sim.Sim(a, rng.fork(), weird_names=False)
    s.populate(2 + rng.below(3))
    problems = []
    cfg = 'content copy %s/%s on data disk %s seed=%d' % (sub or '.', cname, d, seed)
    for rnd in range(3):
        r = s.sync()
        if rnd == 0:
            # a temporary file left by a crash while saving
            with open(os.path.join(cdir, cname + '.tmp'), 'wb') as f: f.write(b'stale temporary content')
        s.fs_create()
        if r.rc != 0:
            problems.append(('[own-files] sync %d fails (exit %d) on an array with a %s' % (rnd + 1, r.rc, cfg), r.out[-600:])); break
        lst = a.cmd('list')
        own = [t for t in lst.tags if t.startswith('file:') and cname in t]
        stats['own_file_lists'] = stats.get('own_file_lists', 0) + 1
        if own:
            problems.append(('[own-files] the array lists the tool`s own files %s (%s)' % ([t.split(':')[2] for t in own][:3], cfg), '\n'.join(own))); break
    if not problems:
        s.sync()
        c = a.cmd('check')
        if c.rc != 0:
            problems.append(('[own-files] check fails (exit %d) on an array with a %s' % (c.rc, cfg), c.out[-600:]))
    a.destroy()
    return problems

def missing_selection(exe, root, seed, stats):
    """-m selects the files, links and empty directories that are MISSING, and nothing else is written: present objects that
    differ from the record (links pointing elsewhere now - dangling or not - edited files, a file where a directory was
    recorded) stay exactly as they are, and so do objects that are not recorded at all"""
    rng = e2e.Rng(seed)
    a = e2e.Arr(root, exe, ndisks=2 + rng.below(2), nparity=1 + rng.below(2), ncontent=1)
    s = sim.Sim(a, rng.fork(), weird_names=False)
    s.populate(3 + rng.below(2))
    d0 = rng.choice(a.disks)
    os.makedirs(a.path(d0, 'docs'), exist_ok=True)
    a.write(d0, 'docs/v1.txt', rng.bytes(1500), s.tick()); a.write(d0, 'docs/v2.txt', rng.bytes(1700), s.tick())
    os.symlink('v1.txt', a.path(d0, 'docs/latest'))            # resolves
    os.symlink('nowhere-yet', a.path(d0, 'docs/pending'))      # dangling from the start
    os.symlink('v2.txt', a.path(d0, 'docs/other'))
    os.makedirs(a.path(d0, 'docs/emptydir'), exist_ok=True)
    if s.sync().rc != 0:
        a.destroy(); return []
    # changes to PRESENT objects
    for name, tgt in (('latest', 'v9-not-there.txt'), ('pending', 'still-nowhere'), ('other', 'v1.txt')):
        if rng.chance(2, 3):
            os.unlink(a.path(d0, 'docs/' + name)); os.symlink(tgt, a.path(d0, 'docs/' + name)); s.log('link docs/%s now points to %s' % (name, tgt))
    if rng.chance(1, 2):
        os.unlink(a.path(d0, 'docs/v1.txt')); s.log('docs/v1.txt deleted (the target of a recorded link)')
    # missing objects
    files = [f for f in s.existing_files() if not f[1].startswith('docs/')]
    gone = []
    for d, rel in files:
        if rng.chance(1, 3): os.unlink(a.path(d, rel)); gone.append((d, rel))
    if rng.chance(1, 2) and os.path.isdir(a.path(d0, 'docs/emptydir')): os.rmdir(a.path(d0, 'docs/emptydir'))
    present_before = {}
    for dp, dn, fn in os.walk(a.root):
        for n in fn + dn:
            q = os.path.join(dp, n)
            if '/par/' in q or '/c0/' in q or q.endswith('.txt') and '/log' in q: continue
            stq = os.lstat(q)
            present_before[q] = ('l', os.readlink(q)) if os.path.islink(q) else (('d',) if os.path.isdir(q) else ('f', stq.st_size, stq.st_mtime_ns, open(q, 'rb').read()))
    chkr = a.cmd('check', '-m')
    r = a.cmd('fix', '-m')
    stats['missing_selection'] = stats.get('missing_selection', 0) + 1
    problems = []
    for q, v in present_before.items():
        if '/log' in q or q.endswith('.lock') or q.endswith('snapraid.conf'): continue
        if not os.path.lexists(q):
            problems.append(('[missing-selection] fix -m removed %s, which was present' % q.replace(a.root, '$A'), '')); break
        w = ('l', os.readlink(q)) if os.path.islink(q) else (('d',) if os.path.isdir(q) else ('f', os.lstat(q).st_size, os.lstat(q).st_mtime_ns, open(q, 'rb').read()))
        if w != v:
            problems.append(('[missing-selection] fix -m rewrote %s, which was present (%s -> %s)' % (q.replace(a.root, '$A'), v[:2], w[:2]), '')); break
    if not problems:
        wrong = [t for t in chkr.tags if t.startswith(('symlink_error', 'hardlink_error')) and any(('docs/' + n) in t for n in ('latest', 'pending', 'other'))]
        if wrong:
            problems.append(('[missing-selection] check -m reports %s for a link that is present' % wrong[0][:120], ''))
    if not problems and a.nparity >= 1:
        back = [g for g in gone if not os.path.exists(a.path(*g))]
        if back and len(set(d for d, _ in gone)) <= a.nparity and r.rc == 0:
            problems.append(('[missing-selection] fix -m exits 0 but the missing file %s/%r is not restored' % back[0], ''))
    hist = '\n'.join(s.history)
    a.destroy()
    return [(t, b + hist + '\n' + '\n'.join(x for x in r.tags if x.split(':')[0] in ('status', 'fixed', 'symlink_error', 'symlink_fixed'))[:1500]) for t, b in problems]

def main(tier, seed):
    chk = vlib.Check('C18', 'proof', tier, seed)
    chk.assumptions = ['the build links the C library fnmatch(3) (HAVE_FNMATCH); the vendored cmdline/fnmatch.c is compiled separately and compared too, differences between the two are counted, the model is tied to the one in use',
                       'character classes [:alpha:] etc. and locale collation are outside the model and the generators']
    ok, log = vlib.ensure_lean_built()
    chk.oblig('lake build', ok, log[-300:])
    hits = vlib.forbidden_tokens()
    chk.oblig('no sorry/admit/axiom/native_decide in library', not hits, '; '.join(hits))
    okA, ax, out = vlib.axioms_audit(STATIC_THEOREMS, ['SnapraidVerif.Props.C18'])
    chk.axioms.update(ax)
    for t in STATIC_THEOREMS:
        chk.oblig('axiom audit: ' + t, ax.get(t) is not None and all(x in vlib.STD_AXIOMS for x in ax[t]), str(ax.get(t)))
    try:
        exe = vlib.build_snapraid(); leaf = vlib.build_leaf_harness()
    except vlib.BuildError as e:
        chk.violation('build of /repo failed: ' + str(e)[:300], str(e), False, 'build'); chk.finish()
    stats = {'fnm': 0, 'fnm_match': 0, 'vendored_differs_from_libc': 0, 'filter': 0, 'filter_results': {}, 'e2e_files': 0, 'selection_files': 0}
    nf, nr, ne = (6000, 6000, 24) if tier == 'quick' else (80000, 80000, 200)
    jobs = [('fnm', i) for i in range(4)] + [('flt', i) for i in range(4)] + [('e2e', i) for i in range(ne)] + [('own', i) for i in range(8 if tier == 'quick' else 60)] + [('sel', i) for i in range(16 if tier == 'quick' else 160)] + [('mis', i) for i in range(12 if tier == 'quick' else 120)]
    def job(j):
        kind, i = j
        if kind == 'fnm':
            return fnm_sweep(leaf, seed * 1000 + i, stats, nf // 4)
        if kind == 'flt':
            return filter_sweep(leaf, seed * 1000 + 100 + i, stats, nr // 4)
        if kind == 'sel':
            return selection_beyond_parity(exe, os.path.join(vlib.scratch(), 's%d' % i), seed * 1000 + 700 + i, stats)
        if kind == 'mis':
            return missing_selection(exe, os.path.join(vlib.scratch(), 'm%d' % i), seed * 1000 + 800 + i, stats)
        if kind == 'own':
            return own_files(exe, os.path.join(vlib.scratch(), 'o%d' % i), seed * 1000 + 600 + i, stats)
        return e2e_rules(exe, os.path.join(vlib.scratch(), 'r%d' % i), seed * 1000 + 200 + i, stats)
    with ThreadPoolExecutor(vlib.NCPU) as ex:
        res = list(ex.map(job, jobs))
    k = 0
    for r in res:
        for text, body in (r or [])[:2]:
            k += 1
            if k <= 4:
                chk.violation('C18 ' + text, body, True, 'filter')
    for o in chk.obligations:
        if not o[1]:
            chk.violation('C18 static obligation failed: ' + o[0], o[0] + '\n' + o[2], False, 'static')
    chk.evaluations = stats['fnm'] + stats['filter'] + stats['e2e_files']
    chk.distinct = stats['fnm_match'] + stats['filter']
    chk.rule = ('FNM: all pairs of 1-2 pattern atoms x 10 short strings x both flag values + %d seeded (pattern, string) pairs over {a b c / * ? [ ] ! - \\ . x} incl. well-formed brackets, ranges, escapes, near-match strings: libc fnmatch as linked into the binary vs the Lean model (vendored fnmatch.c also run). RULES: %d seeded rule lists (file/dir, rooted/unrooted, globs, escapes, malformed) x paths x {file, dir-descent, empty dir}: filter_path/filter_subdir/filter_emptydir of the binary vs the Lean model incl. rejected rules. E2E: %d arrays with rules in the configuration: list after sync must equal the model; fix -f must restore exactly the selected files; arrays with a content copy in the root or a nested sub-directory of a data disk plus a stale .tmp: never listed, sync and check succeed; fix -m / check -m on arrays whose PRESENT links were re-pointed (dangling or not): only missing objects are selected and written' % (nf, nr, ne))
    chk.samples = [dict(stats)]
    chk.corr['FILTER'] = dict(stats)
    chk.finish()

def replay(path):
    print(open(path).read()[:8000]); return 0
