"""C01  Complete recovery from any loss within the parity level."""
import os, shutil, vlib, e2e, sim, fixcommon as fx
from concurrent.futures import ThreadPoolExecutor

STATIC_THEOREMS = [
    'SnapraidVerif.Repair.firstAccepted_sound',
    'SnapraidVerif.Repair.firstAccepted_complete',
    'SnapraidVerif.Props.C01.accepted_is_recorded',
    'SnapraidVerif.Props.C01.fix_stripe_recovers',
    'SnapraidVerif.Props.C01.enough_parities',
    'SnapraidVerif.Props.C03.rec_unique',
    'SnapraidVerif.Props.C03.cauchy_decode_exact',
    'SnapraidVerif.Props.C03.power_decode_exact',
    'SnapraidVerif.Props.C03.decode_with_intact',
    'SnapraidVerif.Props.C03.decode_with_intact_z',
]

LEVN = e2e.LEV_NAMES

def scenario(exe, root, seed, stats):
    rng = e2e.Rng(seed)
    a, s = fx.build_array(exe, root, rng)
    if a is None:
        stats['not_clean'] += 1
        shutil.rmtree(root, ignore_errors=True)
        return None
    # same-size files on a disk (sometimes): what an exchange of names or a reused inode can confuse
    if rng.chance(3, 4):
        sure = rng.choice(a.disks)
        for d in a.disks:
            if d == sure or rng.chance(1, 2):
                sz = 1 + rng.below(3 * a.block)
                for t in range(2 + rng.below(2)):
                    a.write(d, 'twin/t%d' % t, rng.bytes(sz), s.tick())
        s.sync()
        if s.run('diff').rc != 0:
            stats['not_clean'] += 1; a.destroy(); return None
    # hash migration in progress (sometimes): rehash, then only part of the array is converted to the new hash
    # (a partial scrub, and/or files synced after the rehash), so stripes of both kinds exist when the damage comes
    migrating = False
    if rng.chance(1, 3):
        r = a.cmd('rehash')
        if r.rc == 0:
            how = rng.below(3)
            if how in (0, 2): a.cmd('scrub', '-p', '40', '-o', '0')
            if how in (1, 2):
                for _ in range(1 + rng.below(4)): s.fs_create()
                s.sync()
            d = s.run('diff')
            if d.rc != 0:
                stats['not_clean'] += 1; a.destroy(); return None
            migrating = True
            stats['migrating'] = stats.get('migrating', 0) + 1
    snap = fx.snapshot(a)
    dec = fx.decode(a)
    lay = fx.Layout(a, dec)
    N = a.nparity
    cfg = 'ndisks=%d nparity=%d zmode=%s hashsize=%d splits=%d ncontent=%d migrating=%s seed=%d' % (a.ndisks, N, a.zmode, a.hashsize, a.splits, a.ncontent, migrating, seed)
    backup = root + '.bak'
    shutil.copytree(a.root, backup, symlinks=True)
    results = []
    for rep in range(3):
        shutil.rmtree(a.root); shutil.copytree(backup, a.root, symlinks=True)
        kind = rng.choice(['devices', 'devices', 'stripes', 'mixed', 'exchange'])
        desc = []
        cols = a.disks + ['P%d' % l for l in range(N)]
        force_x = kind == 'exchange'
        if force_x:
            kind = 'mixed'
            tw = [d for d in a.disks if os.path.isdir(a.path(d, 'twin'))]
            cols = tw or list(a.disks)
        if kind == 'devices':
            k = min(1 + rng.below(N), len(cols))
            chosen = []
            while len(chosen) < k:
                c = rng.choice(cols)
                if c not in chosen: chosen.append(c)
            for c in chosen:
                if c.startswith('P'):
                    if rng.chance(1, 2):
                        fx.remove_parity(a, int(c[1:])); desc.append('parity level %s lost' % c[1:])
                    else:
                        for pos in range(dec.blockmax):
                            fx.flip_parity_block(a, rng, int(c[1:]), pos, 'block')
                        desc.append('parity level %s overwritten with garbage' % c[1:])
                else:
                    fx.wipe_disk(a, c); desc.append('disk %s lost' % c)
        elif kind == 'stripes':
            # per stripe: at most N damaged blocks, different columns from stripe to stripe, silent
            for pos in range(dec.blockmax):
                present = [b for b in lay.by_pos.get(pos, [])]
                cand = [('d', b) for b in present] + [('p', l) for l in range(N)]
                k = rng.below(N + 1)
                picked = []
                while len(picked) < min(k, len(cand)):
                    c = rng.choice(cand)
                    if c not in picked: picked.append(c)
                for t, x in picked:
                    if t == 'd':
                        if fx.flip_data_block(a, rng, x): desc.append('stripe %d: data block of %s/%r silently changed' % (pos, x['disk'], x['sub']))
                    else:
                        if fx.flip_parity_block(a, rng, x, pos): desc.append('stripe %d: parity level %d silently changed' % (pos, x))
        else:
            # damage confined to <= N columns: files deleted / truncated / flipped, parity partly corrupted
            k = min(1 + rng.below(N), len(cols))
            chosen = []
            while len(chosen) < k:
                c = rng.choice(cols)
                if c not in chosen: chosen.append(c)
            for c in chosen:
                if c.startswith('P'):
                    for pos in range(dec.blockmax):
                        if rng.chance(1, 2):
                            fx.flip_parity_block(a, rng, int(c[1:]), pos)
                    desc.append('parity level %s partly corrupted' % c[1:])
                else:
                    # files of the disk exchanged in pairs (rename): every path then holds the bytes, time-stamp and inode
                    # recorded for ANOTHER path of the same disk (same-size pairs preferred)
                    if force_x or rng.chance(1, 2):
                        # (non-empty files only: exchanging two empty files changes nothing but time-stamps, and a
                        # time-stamp-only change is not damage fix is asked to undo)
                        mine = [(d, rel) for (d, rel) in s.existing_files() if d == c and os.path.getsize(a.path(d, rel)) > 0]
                        bysize = {}
                        for (d, rel) in mine: bysize.setdefault(os.path.getsize(a.path(d, rel)), []).append(rel)
                        pairs = [v[:2] for v in bysize.values() if len(v) >= 2]
                        if not pairs and len(mine) >= 2 and not force_x: pairs = [[mine[0][1], mine[-1][1]]]
                        for r1, r2 in pairs[:1 + rng.below(3)]:
                            p1, p2 = a.path(c, r1), a.path(c, r2); tmpx = p1 + '.xchg'
                            if open(p1, 'rb').read() == open(p2, 'rb').read(): continue
                            os.rename(p1, tmpx); os.rename(p2, p1); os.rename(tmpx, p2)
                            desc.append('%s: %r and %r exchanged' % (c, r1, r2))
                            stats['exchanged'] = stats.get('exchanged', 0) + 1
                    for (d, rel) in s.existing_files():
                        if d != c: continue
                        p = a.path(d, rel); st = os.lstat(p)
                        m = rng.below(4)
                        if m == 0:
                            os.unlink(p); desc.append('%s/%r deleted' % (d, rel))
                        elif m == 1 and st.st_size > 0:
                            with open(p, 'r+b') as f: f.truncate(rng.below(st.st_size))
                            desc.append('%s/%r truncated' % (d, rel))
                        elif m == 2:
                            for b in lay.blocks:
                                if b['disk'] == d and os.fsdecode(b['sub']) == rel and rng.chance(1, 2):
                                    fx.flip_data_block(a, rng, b)
                            desc.append('%s/%r blocks silently changed' % (d, rel))
                    # links and dirs of that disk
                    for dp, dn, fn in os.walk(a.ddir(c), topdown=False):
                        for n in fn:
                            p = os.path.join(dp, n)
                            if os.path.islink(p) and rng.chance(1, 2): os.unlink(p)
                        for n in dn:
                            p = os.path.join(dp, n)
                            if os.path.islink(p):
                                if rng.chance(1, 2): os.unlink(p)
                            elif not os.listdir(p) and rng.chance(1, 2): os.rmdir(p)
        # only one content copy survives (sometimes)
        if a.ncontent > 1 and rng.chance(1, 2):
            keep = rng.below(a.ncontent)
            for i, c in enumerate(a.contents):
                if i != keep: os.unlink(c)
            desc.append('only content copy %d survives' % keep)
        # corrupted files do not always keep their time-stamp: a third of the damaged-in-place files get a new one
        # (a corrupted block plus a wrong time-stamp is still damage of that one device)
        if rng.chance(1, 2):
            now_snap = a.snapshot()
            for key, v in snap.items():
                w = now_snap.get(key)
                if v[0] == 'f' and w is not None and w[0] == 'f' and w[1] != v[1] and len(w[1]) == len(v[1]) and rng.chance(1, 3):
                    p = a.path(key[0], key[1])
                    os.utime(p, ns=(v[2] + 7_000_000_007, v[2] + 7_000_000_007))
                    desc.append('%s/%r also has a new time-stamp' % key)
                    stats['retimed'] = stats.get('retimed', 0) + 1
        stats['kinds'][kind] = stats['kinds'].get(kind, 0) + 1
        stats['damage_ops'] += len(desc)
        r = a.cmd('fix')
        diffs = fx.compare_snapshot(a, snap)
        unrec = [t for t in r.tags if t.startswith('status:unrecoverable') or t.startswith('unrecoverable:')]
        eu = r.summary('error_unrecoverable')
        problem = None
        if diffs:
            problem = 'after fix: ' + diffs[0]
        elif r.rc != 0:
            problem = 'fix exit status %d' % r.rc
        elif unrec or (eu not in (None, '0')):
            problem = 'fix reports unrecoverable errors (%s)' % (unrec[:1] or eu)
        else:
            c = a.cmd('check')
            if c.rc != 0:
                problem = 'check after fix exits %d: %s' % (c.rc, [t for t in c.tags if 'error' in t][:2])
        stats['fixes'] += 1
        if problem:
            body = 'config: %s\ndamage (%s):\n%s\nproblem: %s\nfix tags:\n%s\nhistory:\n%s' % (cfg, kind, '\n'.join(desc[:60]), problem,
                    '\n'.join(t for t in r.tags if t.split(':')[0] in ('error', 'entry', 'fixed', 'parity_error', 'parity_fixed', 'status', 'summary', 'recover_sync', 'recover_unsync', 'strategy_error', 'unrecoverable', 'hash_error'))[:4000], '\n'.join(s.history))
            results.append(('(%s; %s) %s' % (cfg, kind, problem), body))
            break
    shutil.rmtree(backup, ignore_errors=True)
    a.destroy()
    return results or None

def copy_then_loss(exe, root, seed, stats):
    """the sync that completes comes after a history of provisional hashes: a copy with preserved time-stamp (copy detection),
    a partial sync that does not reach it, the copy touched / appended / rewritten with the same bytes, then the full
    sync; then the disk of the copy (or of the source) is lost: fix must bring everything back"""
    rng = e2e.Rng(seed)
    a = e2e.Arr(root, exe, ndisks=2 + rng.below(2), nparity=1 + rng.below(2), ncontent=1, hashsize=rng.choice([16, 8]))
    s = sim.Sim(a, rng.fork(), weird_names=False)
    s.populate(2 + rng.below(3))
    big = rng.bytes(a.block * (3 + rng.below(6)) + rng.below(2) * 33)
    t0 = s.tick()
    a.write('d1', 'big.bin', big, t0)
    if s.sync().rc != 0:
        a.destroy(); return None
    dst = rng.choice(['d2/big.bin', 'd2/copies/big.bin'])
    dd, drel = dst.split('/', 1)
    a.write(dd, drel, big, t0); s.log('cp -p d1/big.bin %s' % dst)
    how = rng.below(3)
    if how == 0: s.run('sync', '--test-run', 'touch "%s"' % a.path('d1', 'big.bin'))
    elif how == 1: s.run('sync', '-B', str(1 + rng.below(2)))
    else: s.run('sync', '--test-run', 'touch "%s"' % a.path(dd, drel))
    p = a.path(dd, drel)
    k = rng.below(3)
    if k == 0:
        t = s.tick(); os.utime(p, ns=(t, t)); s.log('touch %s' % dst)
    elif k == 1:
        with open(p, 'ab') as f: f.write(rng.bytes(1 + rng.below(2000)))
        t = s.tick(); os.utime(p, ns=(t, t)); s.log('append to %s' % dst)
    else:
        with open(p, 'r+b') as f: f.write(big)
        t = s.tick(); os.utime(p, ns=(t, t)); s.log('rewrite %s in place with the same bytes' % dst)
    r = s.sync()
    if r.rc != 0: r = s.sync()
    if r.rc != 0 or s.run('diff').rc != 0:
        a.destroy(); return None
    stats['copy_then_loss'] = stats.get('copy_then_loss', 0) + 1
    snap = fx.snapshot(a)
    lost = rng.choice([dd, dd, 'd1'])
    fx.wipe_disk(a, lost); s.log('disk %s lost' % lost)
    f = a.cmd('fix')
    diffs = fx.compare_snapshot(a, snap)
    cfg = 'copy-then-loss ndisks=%d nparity=%d hashsize=%d seed=%d' % (a.ndisks, a.nparity, a.hashsize, seed)
    problem = None
    if diffs: problem = 'after fix: ' + diffs[0]
    elif f.rc != 0: problem = 'fix exit status %d' % f.rc
    else:
        c = a.cmd('check')
        if c.rc != 0: problem = 'check after fix exits %d' % c.rc
    hist = '\n'.join(s.history)
    a.destroy()
    return [('(%s) %s' % (cfg, problem), '%s\n%s\nhistory:\n%s' % (cfg, problem, hist))] if problem else None

def directed_exchange(exe, root, seed):
    """two files of one disk with the same size (different bytes and time-stamps) exchanged by rename, another pair with
    different sizes and equal time-stamps: fix puts bytes AND time-stamps back (a time-stamp may stay unset only when the file
    that owns the inode in the record has the same size and the same time-stamp)"""
    rng = e2e.Rng(seed)
    a = e2e.Arr(root, exe, ndisks=2, nparity=1 + rng.below(2), ncontent=1)
    s = sim.Sim(a, rng.fork(), weird_names=False)
    sz = 1 + rng.below(3 * a.block)
    a.write('d1', 'twin/t0', rng.bytes(sz), s.tick()); a.write('d1', 'twin/t1', rng.bytes(sz), s.tick())
    t = s.tick()
    a.write('d1', 'same/u0', rng.bytes(1500), t); a.write('d1', 'same/u1', rng.bytes(2500), t)
    a.write('d2', 'x', rng.bytes(3000), s.tick())
    if s.sync().rc != 0:
        a.destroy(); return None
    snap = fx.snapshot(a)
    for r1, r2 in (('twin/t0', 'twin/t1'), ('same/u0', 'same/u1')):
        p1, p2 = a.path('d1', r1), a.path('d1', r2)
        os.rename(p1, p1 + '.x'); os.rename(p2, p1); os.rename(p1 + '.x', p2)
    f = a.cmd('fix')
    diffs = fx.compare_snapshot(a, snap)
    a.destroy()
    if diffs or f.rc != 0:
        return '[exchanged-names] same-size files (and files with equal time-stamps) of d1 exchanged by rename: after fix %s (fix exit %d)' % (diffs[:1] or 'all restored', f.rc)
    return None

def main(tier, seed):
    chk = vlib.Check('C01', 'proof', tier, seed)
    chk.assumptions = ['theorems are stripe level (search over parity combinations with hash acceptance + C03 uniqueness); whole-array recovery, time-stamps, links, directories, POSIX effects are decided by the E2E-RECOVER correspondence only (partial)',
                       'HashSep: generated data never collides under the configured hash size on the compared blocks (2-byte hashes excluded from generation)']
    ok, log = vlib.ensure_lean_built()
    chk.oblig('lake build', ok, log[-300:])
    hits = vlib.forbidden_tokens()
    chk.oblig('no sorry/admit/axiom/native_decide in library', not hits, '; '.join(hits))
    okA, ax, out = vlib.axioms_audit(STATIC_THEOREMS, ['SnapraidVerif.Props.C01', 'SnapraidVerif.Props.C03'])
    chk.axioms.update(ax)
    for t in STATIC_THEOREMS:
        chk.oblig('axiom audit: ' + t, ax.get(t) is not None and all(x in vlib.STD_AXIOMS for x in ax[t]), str(ax.get(t)))
    try:
        exe = vlib.build_snapraid()
    except vlib.BuildError as e:
        chk.violation('build of /repo failed: ' + str(e)[:300], str(e), False, 'build'); chk.finish()
    n = 48 if tier == 'quick' else 500
    stats = {'fixes': 0, 'kinds': {}, 'damage_ops': 0, 'not_clean': 0}
    def job(i):
        return scenario(exe, os.path.join(vlib.scratch(), 'r%d' % i), seed * 100000 + 10000 + i, stats)
    with ThreadPoolExecutor(vlib.NCPU) as ex:
        res = list(ex.map(job, range(n))) + list(ex.map(lambda i: copy_then_loss(exe, os.path.join(vlib.scratch(), 'cl%d' % i), seed * 100000 + 15000 + i, stats), range(24 if tier == 'quick' else 240)))
    dx = directed_exchange(exe, os.path.join(vlib.scratch(), 'dx'), seed * 100000 + 16000)
    stats['directed_exchange'] = dx or 'ok'
    if dx:
        chk.violation('C01 ' + dx, dx, True, 'exchange')
    k = 0
    for r in res:
        if r:
            for text, body in r[:1]:
                k += 1
                if k <= 3:
                    chk.violation('C01 ' + text, body, True, 'recover')
    for o in chk.obligations:
        if not o[1]:
            chk.violation('C01 static obligation failed: ' + o[0], o[0] + '\n' + o[2], False, 'static')
    chk.evaluations = stats['fixes']
    chk.distinct = stats['fixes']
    chk.rule = ('%d seeded arrays (1-4 data disks, 1-6 parities incl. z-mode, hash size 4/8/16, both hash kinds, split parity, 1-3 content copies, history with partial/killed/-R syncs ending clean) x 3 damage patterns from {<=N whole devices lost or overwritten, per-stripe <=N silently changed blocks in varying columns, <=N columns with deleted/truncated/flipped files, lost links/dirs, partly corrupted parity}, optionally a single surviving content copy; names of same-size files exchanged by rename}, optionally a single surviving content copy, damaged-in-place files with new time-stamps, a hash migration in progress; plus copy-then-loss histories (a copy with preserved stamp, a partial sync, the copy touched/appended/rewritten, the full sync, then the disk of the copy or of the source lost); fix must restore every byte, time-stamp, link, dir, report nothing unrecoverable, exit 0, and check must then exit 0' % n)
    chk.samples = [dict(stats)]
    chk.corr['E2E-RECOVER'] = dict(stats)
    chk.finish()

def replay(path):
    print(open(path).read()[:8000]); return 0
