"""C07  Interrupted sync and fix are safe and resumable (kill / signal at state-changing calls)."""
import os, re, shutil, signal, vlib, e2e, sim, fixcommon as fx, chk_C09
from concurrent.futures import ThreadPoolExecutor

STATIC_THEOREMS = [
    'SnapraidVerif.Props.C07.solve_single',
    'SnapraidVerif.Props.C07.kill_single_loss_recoverable',
    'SnapraidVerif.Props.C07.sync_ops_never_touch_data',
    'SnapraidVerif.Save.save_atomic',
    'SnapraidVerif.Props.C06.inv_step',
    'SnapraidVerif.Props.C07.resume_reaches_clean',
    'SnapraidVerif.Props.C07.resume_after_any_history',
]

def data_digest(a):
    return chk_C09.tree_digest(a.root, skip=('/par/', '/c0/', '/c1/', '/c2/', '/c3/', 'snapraid.conf', '/log', '.bak'))

def count_calls(a, shim, cmd, args):
    cnt = os.path.join(vlib.scratch(), 'cnt_%d_%d' % (os.getpid(), id(a) % 100000))
    r = a.cmd(cmd, *args, env={'LD_PRELOAD': shim, 'VERIF_COUNT': cnt}, uselog=False)
    n = int(re.search(r'mutating=(\d+)', open(cnt).read()).group(1))
    os.unlink(cnt)
    return n, r

def old_files_recoverable(a, s, old_snap, rng, nlost, cfg):
    """previously synced files must come back from `nlost` lost devices (only files of the old snapshot are judged)"""
    cols = a.disks + ['P%d' % l for l in range(a.nparity)]
    lost = []
    while len(lost) < nlost:
        c = rng.choice(cols)
        if c not in lost: lost.append(c)
    gone = []
    for c in lost:
        if c.startswith('P'): fx.remove_parity(a, int(c[1:]))
        else: fx.wipe_disk(a, c)
        # a device usually hosts a content copy as well (content /mnt/diskN/snapraid.content): half of the lost devices
        # take one of the copies with them, any of them, as long as one copy survives
        alive = [i for i in range(a.ncontent) if i not in gone]
        if len(alive) > 1 and rng.chance(2, 3):
            i = alive[0] if rng.chance(1, 2) else rng.choice(alive); gone.append(i)
            if os.path.exists(a.contents[i]): os.unlink(a.contents[i])
    r = a.cmd('fix')
    now = a.snapshot()
    for k, v in old_snap.items():
        if v[0] != 'f':
            continue
        w = now.get(k)
        if w is None or w[0] != 'f' or w[1] != v[1]:
            return 'previously synced file %s/%r not recovered after losing %s%s (fix exit %d)' % (k[0], k[1], lost, ' with content copies %s' % gone if gone else '', r.rc)
    return None

def sync_scenario(exe, shim, root, seed, stats, tier):
    rng = e2e.Rng(seed)
    out = []
    adds_only = rng.chance(1, 2)
    a = e2e.Arr(root, exe, ndisks=2 + rng.below(2), nparity=1 + rng.below(3), ncontent=1 + rng.below(3), hashsize=16,
                splits=rng.choice([1, 1, 2]), autosave=None)
    s = sim.Sim(a, rng.fork(), weird_names=False)
    s.populate(2 + rng.below(2))
    s.sync()
    old_snap = a.snapshot()
    if adds_only:
        for _ in range(2 + rng.below(4)):
            s.fs_create(rel='new%d/%s' % (rng.below(2), 'n%d' % rng.below(50)))
    else:
        s.fs_random(3 + rng.below(5))
        if rng.chance(1, 3):
            # a data disk completely emptied (every file, link and directory gone) in the change set that gets interrupted
            de = rng.choice(a.disks); fx.wipe_disk(a, de); s.log('disk %s emptied' % de)
            stats['emptied_disk'] = stats.get('emptied_disk', 0) + 1
    s.remember()
    backup = root + '.bak'
    shutil.copytree(a.root, backup, symlinks=True)
    args = ['--force-empty', '--force-zero'] + (['--test-force-autosave-at', '2'] if rng.chance(1, 3) else [])
    cfg = 'ndisks=%d nparity=%d ncontent=%d splits=%d adds_only=%s args=%s seed=%d' % (a.ndisks, a.nparity, a.ncontent, a.splits, adds_only, ' '.join(args), seed)
    total, r0 = count_calls(a, shim, 'sync', args)
    if r0.rc != 0 or total == 0:
        shutil.rmtree(backup, ignore_errors=True); a.destroy(); return None
    ks = list(range(1, total + 1))
    if tier != 'thorough' and len(ks) > 10:
        ks = sorted(set([1, total] + [1 + rng.below(total) for _ in range(8)]))
    for k in ks:
        mode = rng.choice(['before', 'after', 'mid', 'sigint'])
        shutil.rmtree(a.root); shutil.copytree(backup, a.root, symlinks=True)
        before = data_digest(a)
        klog = os.path.join(vlib.scratch(), 'klog_%d_%d' % (seed, k))
        env = {'LD_PRELOAD': shim, 'VERIF_LOG': klog}
        par_sizes = {pf: os.path.getsize(pf) for l in range(a.nparity) for pf in a.parity_files(l) if os.path.exists(pf)}
        if mode == 'sigint':
            env['VERIF_SIGNAL'] = '%d:%d' % (k, signal.SIGINT)
        else:
            env['VERIF_KILL'] = '%d:%s' % (k, mode)
        r = a.cmd('sync', *args, env=env, uselog=False)
        stats['runs'] += 1
        stats['modes'][mode] = stats['modes'].get(mode, 0) + 1
        if mode != 'sigint' and r.rc != -9:
            stats['not_fired'] += 1
            continue
        # did the interrupted run shrink a parity file without having replaced the content file yet?
        shrunk = False
        torn = False
        if os.path.exists(klog):
            renamed = False
            for line in open(klog, errors='replace'):
                t = line.rstrip('\n').split(' ')
                if len(t) < 3: continue
                if t[1] == 'KILL-mid-pwrite' and '/par/' in t[2]: torn = True
                if t[1] == 'rename' and '/content' in line: renamed = True
                if t[1] == 'ftruncate' and t[2] in par_sizes and not renamed:
                    kv = dict(x.split('=') for x in t[3:] if '=' in x)
                    if int(kv.get('len', '0')) < par_sizes[t[2]]: shrunk = True
            os.unlink(klog)
        desc = '%s: sync %s at state-changing call %d of %d%s' % (cfg, 'receives SIGINT' if mode == 'sigint' else 'killed ' + mode, k, total,
                                                                 ' [parity-shrunk-before-content-save]' if shrunk and mode != 'sigint' else '')
        problem = None
        if data_digest(a) != before:
            problem = 'a data file was modified by the interrupted sync'
        else:
            st = a.cmd('status')
            if st.rc != 0:
                problem = 'no valid content file can be loaded after the interruption (status exit %d): %s' % (st.rc, st.out[-200:].replace('\n', ' '))
        if not problem and adds_only and rng.chance(1, 2):
            # meanwhile every previously synced file stays recoverable
            nlost = 1 if mode != 'sigint' else 1 + rng.below(a.nparity)
            work = root + '.w'
            shutil.copytree(a.root, work, symlinks=True)
            cur = a.root
            # run the loss experiment on the array itself, then restore
            p = old_files_recoverable(a, s, old_snap, rng, nlost, cfg)
            stats['recover_meanwhile'] += 1
            shutil.rmtree(a.root); shutil.copytree(work, a.root, symlinks=True); shutil.rmtree(work)
            if p:
                problem = ('after %s: ' % ('graceful stop' if mode == 'sigint' else 'kill')) + p
                if torn and a.nparity == 1:
                    # the only parity block of a stripe was half written when the process died
                    problem += ' [torn-parity-write]'
        if not problem:
            if not adds_only and rng.chance(1, 2):
                # before resuming, files deleted in the interrupted change set come back with the same bytes
                # (restored from a backup: new inode and time-stamp)
                for key, v in old_snap.items():
                    if v[0] == 'f' and not os.path.lexists(a.path(key[0], key[1])):
                        try:
                            a.write(key[0], key[1], v[1], s.tick())
                            s.log('restore (same bytes) %s/%r' % key)
                        except OSError:
                            pass
            r2 = s.sync()
            if r2.rc != 0:
                problem = 'running sync again after the interruption fails (exit %d): %s' % (r2.rc, r2.out[-200:].replace('\n', ' '))
            else:
                pr, _ = s.invariant_problems()
                if pr:
                    problem = 'after re-running sync: ' + pr[0]
                else:
                    c = a.cmd('check')
                    if c.rc != 0:
                        problem = 'check fails after re-running sync (exit %d)' % c.rc
        if problem:
            out.append(('%s; %s' % (problem, desc), '%s\n%s\nhistory:\n%s' % (problem, desc, '\n'.join(s.history))))
            break
    shutil.rmtree(backup, ignore_errors=True)
    a.destroy()
    return out or None

def fix_scenario(exe, shim, root, seed, stats, tier):
    rng = e2e.Rng(seed)
    out = []
    a, s = fx.build_array(exe, root, rng, weird=False, ncontent=1)
    if a is None:
        return None
    snap = a.snapshot()
    # damage <= N devices
    N = a.nparity
    cols = a.disks + ['P%d' % l for l in range(N)]
    lost = []
    while len(lost) < 1 + rng.below(N):
        c = rng.choice(cols)
        if c not in lost: lost.append(c)
    for c in lost:
        if c.startswith('P'): fx.remove_parity(a, int(c[1:]))
        else: fx.wipe_disk(a, c)
    # sometimes: a first fix could not rebuild everything (more damage than parities in some stripes) and left
    # *.unrecoverable files behind; the fix that is interrupted below starts from that state
    prior = False
    if rng.chance(1, 3):
        lay0 = fx.Layout(a, fx.decode(a))
        for pos in sorted(lay0.by_pos)[:1 + rng.below(3)]:
            blks = [b for b in lay0.by_pos[pos] if os.path.isfile(a.path(b['disk'], os.fsdecode(b['sub'])))]
            for b in blks[:N + 1]:
                try: fx.flip_data_block(a, rng, b)
                except OSError: pass
        a.cmd('fix')
        prior = True
    backup = root + '.bak'
    shutil.copytree(a.root, backup, symlinks=True)
    total, r0 = count_calls(a, shim, 'fix', [])
    ref = a.snapshot()
    refdiff = fx.compare_snapshot(a, snap)
    cfg = 'ndisks=%d nparity=%d lost=%s seed=%d' % (a.ndisks, N, lost, seed)
    if total == 0:
        shutil.rmtree(backup, ignore_errors=True); a.destroy(); return None
    ks = list(range(1, total + 1))
    if tier != 'thorough' and len(ks) > 8:
        ks = sorted(set([1, total] + [1 + rng.below(total) for _ in range(6)]))
    for k in ks:
        mode = rng.choice(['before', 'after', 'mid', 'sigint'])
        shutil.rmtree(a.root); shutil.copytree(backup, a.root, symlinks=True)
        fenv = {'LD_PRELOAD': shim}
        if mode == 'sigint': fenv['VERIF_SIGNAL'] = '%d:%d' % (k, signal.SIGINT)
        else: fenv['VERIF_KILL'] = '%d:%s' % (k, mode)
        r = a.cmd('fix', env=fenv, uselog=False)
        stats['runs'] += 1
        stats['modes']['fix-' + mode] = stats['modes'].get('fix-' + mode, 0) + 1
        if mode != 'sigint' and r.rc != -9:
            stats['not_fired'] += 1
            continue
        r2 = a.cmd('fix')
        now = a.snapshot()
        desc = '%s%s: fix %s state-changing call %d of %d, then run again' % (cfg, ' (after an earlier fix that left unrecoverable files)' if prior else '', 'stopped by SIGINT at' if mode == 'sigint' else 'killed ' + mode, k, total)
        problem = None
        for key, v in ref.items():
            w = now.get(key)
            if w is None or w[0] != v[0]:
                problem = '%s/%r differs from the result of an uninterrupted fix (missing / other kind)' % key; break
            if v[0] == 'f' and v[1] != w[1]:
                problem = '%s/%r has other bytes than after an uninterrupted fix' % key; break
            if v[0] == 'l' and v[1] != w[1]:
                problem = '%s/%r link differs from an uninterrupted fix' % key; break
        # the *.unrecoverable copies keep what could be saved: an interrupted and re-run fix must not lose more of them
        if not problem:
            for key, v in ref.items():
                if key[1].endswith('.unrecoverable') and v[0] == 'f':
                    w = now.get(key)
                    if w is None or w[0] != 'f' or len(w[1]) < len(v[1]):
                        problem = '%s/%r (what an uninterrupted fix keeps of an unrecoverable file) is %s after the interrupted and re-run fix' % (key[0], key[1], 'gone' if w is None else 'shorter (%d < %d bytes)' % (len(w[1]), len(v[1]))); break
        extra = [k2 for k2 in now if k2 not in ref and not k2[1].endswith('.unrecoverable')]
        if not problem and extra:
            problem = 'extra entries after the re-run fix: %s' % extra[:2]
        if problem:
            out.append(('%s; %s' % (problem, desc), '%s\n%s\nhistory:\n%s' % (problem, desc, '\n'.join(s.history))))
            break
    shutil.rmtree(backup, ignore_errors=True)
    a.destroy()
    return out or None

def directed_torn(exe, shim, root):
    """the recorded finding C07-torn-parity, replayed on every run: one parity, a file added next to a synced one,
    sync killed in the middle of the parity pwrite of their common stripe, the disk of the old file lost"""
    a = e2e.Arr(root, exe, ndisks=2, nparity=1, ncontent=1)
    rng = e2e.Rng(13)
    s = sim.Sim(a, rng, weird_names=False)
    A = rng.bytes(3 * 1024)
    a.write('d1', 'A', A, s.tick())
    s.sync()
    a.write('d2', 'N', rng.bytes(3 * 1024), s.tick())
    lg = os.path.join(vlib.scratch(), 'dtorn.log')
    backup = root + '.bak'
    shutil.copytree(a.root, backup, symlinks=True)
    a.cmd('sync', '--test-io-cache=1', env={'LD_PRELOAD': shim, 'VERIF_LOG': lg}, uselog=False)
    k = None
    for line in open(lg, errors='replace'):
        t = line.split(' ')
        if len(t) > 2 and t[1] == 'pwrite' and '/par/' in t[2]:
            k = int(t[0]); break
    os.unlink(lg)
    shutil.rmtree(a.root); shutil.copytree(backup, a.root, symlinks=True); shutil.rmtree(backup)
    if k is None:
        a.destroy(); return None
    r = a.cmd('sync', '--test-io-cache=1', env={'LD_PRELOAD': shim, 'VERIF_KILL': '%d:mid' % k, 'VERIF_LOG': lg}, uselog=False)
    torn = os.path.exists(lg) and any('KILL-mid-pwrite' in l and '/par/' in l for l in open(lg, errors='replace'))
    if os.path.exists(lg): os.unlink(lg)
    fx.wipe_disk(a, 'd1')
    f = a.cmd('fix')
    got = a.read('d1', 'A') if os.path.isfile(a.path('d1', 'A')) else None
    a.destroy()
    if r.rc == -9 and torn and got != A:
        return 'after kill: previously synced file d1/A not recovered after losing d1 (fix exit %d); directed history: one parity, d1/A synced, d2/N added, sync killed in the middle of the parity pwrite (call %d) of their first common stripe [torn-parity-write]' % (f.rc, k)
    return None

def directed_copies(exe, shim, root, seed):
    """several content copies, adds-only sync interrupted after its parity writes (every kill point from the first parity
    write to the last state-changing call, three of them per run), then the device that hosts ONE content copy and a data
    disk is lost: whichever copy survives must still let fix bring back every previously synced file of that disk"""
    rng = e2e.Rng(seed)
    a = e2e.Arr(root, exe, ndisks=3, nparity=2, ncontent=3)
    s = sim.Sim(a, rng.fork(), weird_names=False)
    for d in a.disks:
        for i in range(2): a.write(d, 'old%d' % i, rng.bytes(1024 * ((5 if d == 'd1' else 1) + rng.below(3))), s.tick())
    if s.sync().rc != 0:
        a.destroy(); return None
    old_snap = a.snapshot()
    for d in a.disks[1:]:
        a.write(d, 'new', rng.bytes(1024 * (3 + rng.below(4))), s.tick())
    backup = root + '.bak'
    shutil.copytree(a.root, backup, symlinks=True)
    lg = os.path.join(vlib.scratch(), 'dcopies.log')
    a.cmd('sync', env={'LD_PRELOAD': shim, 'VERIF_LOG': lg}, uselog=False)
    first = last = None
    for line in open(lg, errors='replace'):
        t = line.split(' ')
        if len(t) > 2 and t[0].isdigit():
            last = int(t[0])
            if first is None and t[1] == 'pwrite' and '/par/' in t[2]: first = int(t[0])
    os.unlink(lg)
    out = None
    if first is not None:
        for ki, k in enumerate(sorted(set([first + 1, (first + last) // 2, first + rng.below(last - first + 1)]))):
            shutil.rmtree(a.root); shutil.copytree(backup, a.root, symlinks=True)
            r = a.cmd('sync', env={'LD_PRELOAD': shim, 'VERIF_KILL': '%d:before' % k}, uselog=False)
            if r.rc != -9: continue
            lostc = ki if ki < 3 else rng.below(3)
            fx.wipe_disk(a, 'd1')
            if os.path.exists(a.contents[lostc]): os.unlink(a.contents[lostc])
            f = a.cmd('fix')
            now = a.snapshot()
            for key, v in old_snap.items():
                if v[0] == 'f' and key[0] == 'd1':
                    w = now.get(key)
                    if w is None or w[0] != 'f' or w[1] != v[1]:
                        out = '[content-copies] after kill: previously synced file %s/%r not recovered after losing d1 together with content copy %d of 3 (fix exit %d); adds-only sync killed before state-changing call %d (first parity write is call %d of %d)' % (key[0], key[1], lostc, f.rc, k, first, last)
                        break
            if out: break
    shutil.rmtree(backup, ignore_errors=True)
    a.destroy()
    return out

def directed_emptied(exe, shim, root, seed):
    """a data disk completely emptied, the sync that follows (-E) interrupted in the middle of its parity writes by a kill or
    a SIGINT: the second sync must bring the parity of EVERY stripe that held blocks of the emptied disk up to date
    (C06 invariant, clean check, a lost disk recoverable)"""
    rng = e2e.Rng(seed)
    a = e2e.Arr(root, exe, ndisks=3, nparity=2, ncontent=2)
    s = sim.Sim(a, rng.fork(), weird_names=False)
    for d in a.disks:
        for i in range(3): a.write(d, 'f%d' % i, rng.bytes(1024 * (8 + rng.below(10))), s.tick())
    if s.sync().rc != 0:
        a.destroy(); return None
    de = rng.choice(a.disks)
    fx.wipe_disk(a, de); s.log('disk %s emptied' % de)
    s.remember()
    lg = os.path.join(vlib.scratch(), 'dempt.log')
    backup = root + '.bak'
    shutil.copytree(a.root, backup, symlinks=True)
    a.cmd('sync', '--force-empty', env={'LD_PRELOAD': shim, 'VERIF_LOG': lg}, uselog=False)
    pw = [int(l.split(' ')[0]) for l in open(lg, errors='replace') if ' pwrite ' in l and '/par/' in l and l.split(' ')[0].isdigit()]
    os.unlink(lg)
    out = None
    if len(pw) > 4:
        for mode in ('kill', 'sigint'):
            shutil.rmtree(a.root); shutil.copytree(backup, a.root, symlinks=True)
            k = pw[1 + rng.below(len(pw) // 2)]
            env = {'LD_PRELOAD': shim}
            if mode == 'kill': env['VERIF_KILL'] = '%d:before' % k
            else: env['VERIF_SIGNAL'] = '%d:%d' % (k, signal.SIGINT)
            r = a.cmd('sync', '--force-empty', env=env, uselog=False)
            r2 = s.sync()
            if r2.rc != 0:
                out = '[emptied-disk] the sync after an interrupted sync (%s at call %d) of an emptied disk %s fails (exit %d)' % (mode, k, de, r2.rc); break
            pr, st = s.invariant_problems()
            c = a.cmd('check')
            if pr or c.rc != 0:
                out = '[emptied-disk] disk %s emptied, sync -E interrupted (%s at state-changing call %d), second sync exits 0, but %s' % (de, mode, k, pr[0] if pr else 'check exits %d' % c.rc); break
    shutil.rmtree(backup, ignore_errors=True)
    a.destroy()
    return out

def directed_shrink(exe, shim, root):
    """the recorded finding C07-shrink, replayed on every run: returns violation text or None"""
    a = e2e.Arr(root, exe, ndisks=2, nparity=1, ncontent=1)
    rng = e2e.Rng(11)
    s = sim.Sim(a, rng, weird_names=False)
    a.write('d1', 'A', rng.bytes(1024), s.tick())
    F = rng.bytes(7 * 1024)
    a.write('d2', 'F', F, s.tick())
    s.sync()
    os.unlink(a.path('d2', 'F'))
    lg = os.path.join(vlib.scratch(), 'dshrink.log')
    backup = root + '.bak'
    shutil.copytree(a.root, backup, symlinks=True)
    a.cmd('sync', '--force-empty', env={'LD_PRELOAD': shim, 'VERIF_LOG': lg}, uselog=False)
    k = None
    for line in open(lg, errors='replace'):
        t = line.split(' ')
        if len(t) > 2 and t[1] == 'ftruncate' and '/par/' in t[2]:
            k = int(t[0]); break
    os.unlink(lg)
    shutil.rmtree(a.root); shutil.copytree(backup, a.root, symlinks=True); shutil.rmtree(backup)
    if k is None:
        a.destroy(); return None
    r = a.cmd('sync', '--force-empty', env={'LD_PRELOAD': shim, 'VERIF_KILL': '%d:after' % k}, uselog=False)
    a.write('d2', 'F', F, s.tick())
    s.remember()
    r2 = s.sync()
    pr, _ = s.invariant_problems()
    a.destroy()
    if r.rc == -9 and pr:
        return 'after re-running sync: %s; directed history: sync, delete the last file, sync killed right after the parity ftruncate (call %d), file restored with the same bytes, sync [parity-shrunk-before-content-save]' % (pr[0], k)
    return None

def main(tier, seed):
    chk = vlib.Check('C07', 'fault_enumeration', tier, seed)
    chk.assumptions = ['process death is SIGKILL raised inside the LD_PRELOAD shim just before / just after / in the middle (half write) of the k-th state-changing libc call; page cache survives (power-loss reordering below the fsync contract is out of scope, see C09 for the content save)',
                       'graceful stop = SIGINT delivered at the k-th state-changing call']
    ok, log = vlib.ensure_lean_built()
    chk.oblig('lake build', ok, log[-300:])
    hits = vlib.forbidden_tokens()
    chk.oblig('no sorry/admit/axiom/native_decide in library', not hits, '; '.join(hits))
    okA, ax, out = vlib.axioms_audit(STATIC_THEOREMS, ['SnapraidVerif.Props.C07'])
    chk.axioms.update(ax)
    for t in STATIC_THEOREMS:
        chk.oblig('axiom audit: ' + t, ax.get(t) is not None and all(x in vlib.STD_AXIOMS for x in ax[t]), str(ax.get(t)))
    try:
        exe = vlib.build_snapraid(); shim = vlib.build_shim()
    except vlib.BuildError as e:
        chk.violation('build of /repo failed: ' + str(e)[:300], str(e), False, 'build'); chk.finish()
    dv = directed_shrink(exe, shim, os.path.join(vlib.scratch(), 'dshrink'))
    chk.extra['directed_C07_shrink'] = dv or 'not reproduced'
    if dv:
        chk.violation('C07 ' + dv, dv, True, 'known_shrink')
    dv = directed_torn(exe, shim, os.path.join(vlib.scratch(), 'dtorn'))
    chk.extra['directed_C07_torn'] = dv or 'not reproduced'
    if dv:
        chk.violation('C07 ' + dv, dv, True, 'known_torn')
    for rep in range(3 if tier == 'quick' else 20):
        dv = directed_copies(exe, shim, os.path.join(vlib.scratch(), 'dcopies%d' % rep), seed * 100000 + 58000 + rep)
        if dv:
            chk.violation('C07 ' + dv, dv, True, 'copies'); break
    chk.extra['directed_C07_copies'] = dv or 'ok'
    for rep in range(2 if tier == 'quick' else 20):
        dv = directed_emptied(exe, shim, os.path.join(vlib.scratch(), 'dempt%d' % rep), seed * 100000 + 59000 + rep)
        if dv:
            chk.violation('C07 ' + dv, dv, True, 'emptied'); break
    chk.extra['directed_C07_emptied'] = dv or 'ok'
    ns, nf = (24, 10) if tier == 'quick' else (160, 60)
    stats = {'runs': 0, 'not_fired': 0, 'modes': {}, 'recover_meanwhile': 0}
    jobs = [('sync', i) for i in range(ns)] + [('fix', i) for i in range(nf)]
    def job(j):
        kind, i = j
        root = os.path.join(vlib.scratch(), '%s%d' % (kind, i))
        if kind == 'sync':
            return sync_scenario(exe, shim, root, seed * 100000 + 50000 + i, stats, tier)
        return fix_scenario(exe, shim, root, seed * 100000 + 60000 + i, stats, tier)
    with ThreadPoolExecutor(vlib.NCPU) as ex:
        res = list(ex.map(job, jobs))
    k = 0
    for r in res:
        if r:
            k += 1
            if k <= 4:
                chk.violation('C07 ' + r[0][0], r[0][1], True, 'crash')
    for o in chk.obligations:
        if not o[1]:
            chk.violation('C07 static obligation failed: ' + o[0], o[0] + '\n' + o[2], False, 'static')
    chk.evaluations = stats['runs']
    chk.distinct = stats['runs'] - stats['not_fired']
    chk.rule = ('%d sync scenarios (adds only / mixed pending changes, 1-3 parities, 1-3 content copies, split parity, forced autosave) and %d fix scenarios; the process is killed before/after/in the middle of state-changing call k (all k in thorough, 10 seeded incl. first and last in quick) or receives SIGINT there; oracle: data dirs byte-identical, status loads a content file, (adds only) previously synced files recoverable from 1 lost device after a kill and up to N after a graceful stop, re-run sync succeeds, C06 invariant + check pass; fix re-run equals the uninterrupted fix; lost devices may take one content copy along; emptied disks in interrupted change sets; directed: several content copies with kill points after the first parity write, and an emptied disk with the sync -E interrupted by kill / SIGINT' % (ns, nf))
    chk.samples = [dict(stats)]
    chk.corr['E2E-CRASH'] = dict(stats)
    chk.finish()

def replay(path):
    print(open(path).read()[:8000]); return 0
