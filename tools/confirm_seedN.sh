#!/bin/bash
# confirm a seeded change of round N: usage confirm_seedN.sh <id> [N]; worktree /tmp/wtN/<id> (change applied), clean /tmp/wtN/base, seed dir /tmp/seedN/<id>
id=$1; N=${2:-3}; sd=/tmp/seed$N/$id; wt=/tmp/wt$N/$id; log=$sd/confirm.log
{
echo "== confirm $id $(date -u +%FT%TZ)"
cd $wt || exit 1
git diff > $sd/patch.current.diff
if ! cmp -s $sd/patch.current.diff $sd/patch.diff; then echo "NOTE: worktree diff differs from patch.diff (using worktree state)"; cp $sd/patch.current.diff $sd/patch.diff; fi
make -j4 >/dev/null 2>&1; echo "build_rc=$?"
( git -C /tmp/wt$N/base diff --quiet && echo base_clean=yes )
bash $sd/demo.sh /tmp/wt$N/base > $sd/demo.clean.out 2>&1; echo "demo_clean_rc=$?"
bash $sd/demo.sh $wt > $sd/demo.changed.out 2>&1; echo "demo_changed_rc=$?"
make check > $sd/makecheck.confirm.out 2>&1; echo "make_check_rc=$?"
tail -2 $sd/makecheck.confirm.out
} > $log 2>&1
