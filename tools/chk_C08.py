"""C08  I/O errors never turn into false protection (fault enumeration with the LD_PRELOAD shim)."""
import os, re, shutil, errno, vlib, e2e, sim, fixcommon as fx
from concurrent.futures import ThreadPoolExecutor

STATIC_THEOREMS = [
    'SnapraidVerif.Props.C08.io_error_never_protects_reads',
    'SnapraidVerif.Props.C08.other_stripes_unaffected',
    'SnapraidVerif.Props.C08.async_writer_sound_when_collected',
    'SnapraidVerif.Props.C08.c08_counter_write',
    'SnapraidVerif.Props.C08.io_error_never_protects_with_limit',
    'SnapraidVerif.Props.C08.c08_counter_limit',
    'SnapraidVerif.Props.C08.read_ok_means_no_error',
]

def parse_failed_call(logpath):
    """the injected failure from the shim log: (op, path, offset)"""
    out = []
    if not os.path.exists(logpath):
        return out
    for line in open(logpath, errors='replace'):
        t = line.rstrip('\n').split(' ')
        if len(t) > 2 and t[1].startswith('FAIL-'):
            kv = dict(x.split('=') for x in t[3:] if '=' in x)
            out.append((t[1][5:], t[2], int(kv.get('off', '0'))))
    return out

def stripe_state(a, dec, pos):
    """(all allocated blocks BLK and no deleted block, bad mark) of a stripe in the decoded content"""
    lay = fx.Layout(a, dec)
    blocks = lay.by_pos.get(pos, [])
    allblk = all(b['kind'] == 'b' for b in blocks) and not any(pos in d for d in dec.deleted.values())
    inf = dec.info.get(pos)
    bad = bool(inf and inf[2])
    return allblk, bad, len(blocks)

def scenario(exe, shim, root, seed, stats, tier):
    rng = e2e.Rng(seed)
    out = []
    nd = 2 + rng.below(2)
    npar = 1 + rng.below(3)
    a = e2e.Arr(root, exe, ndisks=nd, nparity=npar, ncontent=1, hashsize=16, splits=1)
    s = sim.Sim(a, rng.fork(), weird_names=False, links=False)
    s.populate(2 + rng.below(2))
    s.sync()
    cmdkind = rng.choice(['sync', 'sync', 'scrub'])
    if cmdkind == 'sync':
        s.fs_random(3 + rng.below(4))        # pending changes to sync
    elif rng.chance(1, 2):
        # scrub over an array with files changed since the last sync (stripes scrub treats as unsynced)
        for _ in range(1 + rng.below(3)):
            rng.choice([s.fs_touch, s.fs_modify])()
    backup = root + '.bak'
    shutil.copytree(a.root, backup, symlinks=True)
    iocache = rng.choice(['1', '3', '4', '16', '128'])
    base_args = ['--test-io-cache', iocache]
    if cmdkind == 'sync':
        args = base_args + ['--force-empty', '--force-zero'] + (['-h'] if rng.chance(1, 3) else [])      # -h: reads also happen in the pre-hash phase
    else:
        args = base_args + ['-p', 'full']
    # error limit (-L): a third of the arrays run with a small limit and as many (or one fewer) consecutive faults,
    # so that the fault that REACHES the limit is exercised too; the others keep the default limit of 100
    limit = rng.choice([None, None, 1, 2, 3])
    nfault = 1
    if limit is not None:
        args = args + ['-L', str(limit)]
        nfault = max(1, limit - rng.below(2))
    cfg = 'ndisks=%d nparity=%d cmd=%s%s io-cache=%s limit=%s faults=%d seed=%d' % (nd, npar, cmdkind, ' -h' if '-h' in args else '', iocache, limit, nfault, seed)
    # count the calls of each class in a fault-free run
    lg = os.path.join(vlib.scratch(), 'c08log%d' % seed)
    classes = []
    for op, sub in (('pread', '/d'), ('pread', '/par/'), ('pwrite', '/par/')):
        if op == 'pwrite' and cmdkind != 'sync':
            continue
        if op == 'pread' and sub == '/par/' and cmdkind == 'sync':
            continue   # sync reads parity only while repairing silent errors
        classes.append((op, sub))
    op, sub = rng.choice(classes)
    # how many such calls exist
    shutil.rmtree(a.root); shutil.copytree(backup, a.root, symlinks=True)
    cnt = lg + '.cnt'
    if os.path.exists(lg): os.unlink(lg)
    r0 = a.cmd(cmdkind, *args, env={'LD_PRELOAD': shim, 'VERIF_FAIL': '%s:%s:%d:%d' % (op, sub, 10**9, errno.EIO), 'VERIF_LOG': lg}, uselog=True)
    total = 0
    # the shim counts matching calls only when VERIF_FAIL is armed; count from a dry log instead
    if op == 'pwrite':
        total = sum(1 for line in open(lg, errors='replace') if ' pwrite ' in line and sub in line) if os.path.exists(lg) else 0
    else:
        # preads are not logged: estimate from sizes
        if sub == '/par/':
            total = fx.decode(a).blockmax * npar
        else:
            total = sum((os.path.getsize(a.path(d, rel)) + a.block - 1) // a.block for d, rel in s.existing_files())
    if os.path.exists(lg): os.unlink(lg)
    if total == 0:
        shutil.rmtree(backup, ignore_errors=True); a.destroy(); return None
    ks = sorted(set([1, total, max(1, total - 1), max(1, total // 2)] + [1 + rng.below(total) for _ in range(3 if tier == 'quick' else 12)]))
    for k in ks:
        shutil.rmtree(a.root); shutil.copytree(backup, a.root, symlinks=True)
        err = errno.ENOSPC if (op == 'pwrite' and rng.chance(1, 3)) else errno.EIO
        env = {'LD_PRELOAD': shim, 'VERIF_FAIL': '%s:%s:%d:%d' % (op, sub, k, err), 'VERIF_LOG': lg, 'VERIF_COUNT': cnt, 'VERIF_FAIL_N': str(nfault)}
        if op == 'pread' and nfault == 1 and rng.chance(1, 2):
            # a bad sector in the MIDDLE of a block: the read that hits it returns the bytes before it (a legal short read),
            # the error comes with the read that continues the block
            env['VERIF_FAIL_SHORT'] = '1'
            stats['short_then_error'] = stats.get('short_then_error', 0) + 1
        r = a.cmd(cmdkind, *args, env=env)
        fails = parse_failed_call(lg)
        if os.path.exists(lg): os.unlink(lg)
        stats['runs'] += 1
        if not fails:
            stats['not_fired'] += 1
            continue
        stats['fired'] += 1
        stats['classes']['%s %s %s' % (cmdkind, op, 'data' if sub == '/d' else 'parity')] = stats['classes'].get('%s %s %s' % (cmdkind, op, 'data' if sub == '/d' else 'parity'), 0) + 1
        if limit is not None: stats['limited'] = stats.get('limited', 0) + 1
        if limit is not None and len(fails) >= limit: stats['limit_reached'] = stats.get('limit_reached', 0) + 1
        fop, fpath, foff = fails[0]
        desc = '%s: %s of %s at offset %d fails with errno %d (call #%d of %d%s)' % (cfg, fop, fpath.replace(a.root, '$A'), foff, err, k, total, '; %d calls failed' % len(fails) if len(fails) > 1 else '')
        dec = fx.decode(a) if os.path.exists(a.contents[0]) else None
        problems = []
        if dec is None or not dec.ok:
            problems.append('no loadable content file after the faulty run')
        else:
          unm = 0
          # when the run stops at the error limit ("Stopping at block N"), reads of LATER stripes may already have been
          # issued by the read-ahead threads: those stripes were never processed, their errors never collected
          import re as _re
          mstop = _re.search(r'Stopping at block (\d+)', r.out)
          stop_at = int(mstop.group(1)) if mstop else None
          for fop, fpath, foff in fails:
            # which stripe was hit
            if sub == '/par/':
                pos = foff // a.block
            else:
                rel = os.path.relpath(fpath, a.root).split('/', 1)
                disk, sub_rel = rel[0], os.fsencode(rel[1])
                pos = None
                for f in dec.files:
                    if dec.maps[f['mapping']][0].decode() == disk and f['sub'] == sub_rel:
                        idx = foff // a.block
                        if idx < len(f['blocks']):
                            pos = f['blocks'][idx][0]
                if pos is None:
                    stats['unmapped'] += 1
                    continue
            if stop_at is not None and pos > stop_at:
                stats['beyond_stop'] = stats.get('beyond_stop', 0) + 1
                continue
            allblk, bad, nblk = stripe_state(a, dec, pos)
            tag = '%s-%s' % ('write' if op == 'pwrite' else 'read', 'parity' if sub == '/par/' else 'data')
            if r.rc == 0:
                problems.append('[%s] command exits 0 although the OS reported an error' % tag)
            eio = r.summary('error_io')
            if eio in (None, '0') and r.rc != 0 and err == errno.EIO and False:
                problems.append('[%s] error not counted as I/O error' % tag)
            if nblk > 0 and allblk and not bad:
                problems.append('[%s] stripe %d hit by the error is recorded as synced and healthy (all blocks BLK, not marked bad)' % (tag, pos))
        if problems:
            out.append(('%s %s' % (problems[0], desc), 'problems:\n%s\n%s\nexit=%d summary:error_io=%s\noutput tail:\n%s\nhistory:\n%s' % (
                '\n'.join(problems), desc, r.rc, r.summary('error_io'), r.out[-800:], '\n'.join(s.history))))
            break
        # repair path: without the fault, the next sync (or fix -e + scrub -p bad) restores the invariant
        if cmdkind == 'sync':
            r2 = s.sync()
        else:
            a.cmd('fix', '-e'); r2 = a.cmd('scrub', '-p', 'bad')
        pr, st = s.invariant_problems()
        if pr:
            out.append(('after the follow-up repair the C06 invariant fails: %s; %s' % (pr[0], desc), '\n'.join(pr[:5]) + '\n' + desc))
            break
        c = a.cmd('check')
        if cmdkind == 'sync' and r2.rc == 0 and c.rc != 0:
            out.append(('check fails after the follow-up sync: %s' % desc, c.out[-500:]))
            break
    shutil.rmtree(backup, ignore_errors=True)
    a.destroy()
    return out or None

def directed_write(exe, shim, root):
    """the recorded finding C08-write, replayed on every run"""
    a = e2e.Arr(root, exe, ndisks=2, nparity=1, ncontent=1)
    rng = e2e.Rng(5)
    s = sim.Sim(a, rng, weird_names=False)
    for i in range(3):
        a.write('d1', 'f%d' % i, rng.bytes(2048), s.tick())
    lg = os.path.join(vlib.scratch(), 'dwrite.log')
    r = a.cmd('sync', '--test-io-cache', '1', env={'LD_PRELOAD': shim, 'VERIF_FAIL': 'pwrite:/par/:2:%d' % errno.EIO, 'VERIF_LOG': lg})
    fails = parse_failed_call(lg)
    if os.path.exists(lg): os.unlink(lg)
    out = None
    if fails and os.path.exists(a.contents[0]):
        dec = fx.decode(a)
        pos = fails[0][2] // a.block
        allblk, bad, nblk = stripe_state(a, dec, pos)
        if nblk and allblk and not bad:
            out = '[write-parity] stripe %d hit by the error is recorded as synced and healthy (all blocks BLK, not marked bad); directed: EIO on the 2nd parity pwrite of a first sync with --test-io-cache 1, exit status %d' % (pos, r.rc)
    a.destroy()
    return out

def main(tier, seed):
    chk = vlib.Check('C08', 'fault_enumeration', tier, seed)
    chk.assumptions = ['faults are injected at the libc boundary (pread64/pwrite64) by an LD_PRELOAD shim; a run counts only if the shim reports the fault fired',
                       'single-file parity so that the failing offset identifies the stripe']
    ok, log = vlib.ensure_lean_built()
    chk.oblig('lake build', ok, log[-300:])
    hits = vlib.forbidden_tokens()
    chk.oblig('no sorry/admit/axiom/native_decide in library', not hits, '; '.join(hits))
    okA, ax, out = vlib.axioms_audit(STATIC_THEOREMS, ['SnapraidVerif.Props.C08'])
    chk.axioms.update(ax)
    for t in STATIC_THEOREMS:
        chk.oblig('axiom audit: ' + t, ax.get(t) is not None and all(x in vlib.STD_AXIOMS for x in ax[t]), str(ax.get(t)))
    try:
        exe = vlib.build_snapraid(); shim = vlib.build_shim()
    except vlib.BuildError as e:
        chk.violation('build of /repo failed: ' + str(e)[:300], str(e), False, 'build'); chk.finish()
    dv = directed_write(exe, shim, os.path.join(vlib.scratch(), 'dwrite'))
    chk.extra['directed_C08_write'] = dv or 'not reproduced'
    if dv:
        chk.violation('C08 ' + dv, dv, True, 'known_write')
    n = 48 if tier == 'quick' else 400
    stats = {'runs': 0, 'fired': 0, 'not_fired': 0, 'unmapped': 0, 'classes': {}}
    def job(i):
        return scenario(exe, shim, os.path.join(vlib.scratch(), 'io%d' % i), seed * 100000 + 40000 + i, stats, tier)
    with ThreadPoolExecutor(vlib.NCPU) as ex:
        res = list(ex.map(job, range(n)))
    k = 0
    seen = set()
    for r in res:
        if r:
            text, body = r[0]
            key = text.split(']')[0]
            if key in seen and k >= 2:
                continue
            seen.add(key)
            k += 1
            if k <= 5:
                chk.violation('C08 ' + text, body, True, 'eio')
    for o in chk.obligations:
        if not o[1]:
            chk.violation('C08 static obligation failed: ' + o[0], o[0] + '\n' + o[2], False, 'static')
    chk.evaluations = stats['runs']
    chk.distinct = stats['fired']
    chk.rule = ('%d seeded arrays x {sync with pending changes, scrub -p full} x --test-io-cache in {1,3,4,16,128}; one call class per array (data pread, parity pread, parity pwrite) failing with EIO (ENOSPC for 1/3 of the writes) at call index k in {first, middle, last-1, last, seeded}; oracle: non-zero exit, the stripe of the failing offset is not (all BLK and not bad) in the Lean-decoded content written afterwards, follow-up sync / fix -e + scrub -p bad re-establishes the C06 invariant. distinct_nontrivial = runs in which the shim reports the fault fired; a third of the arrays run with -L 1..3 and as many (or one fewer) consecutive faults, only stripes up to the stop position are judged; half of the single read faults are a short read followed by the error on the continuing read' % n)
    chk.samples = [dict(stats)]
    chk.corr['E2E-EIO'] = dict(stats)
    chk.finish()

def replay(path):
    print(open(path).read()[:8000]); return 0
