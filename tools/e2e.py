"""End-to-end harness: drives the real snapraid binary (built from /repo's working tree)
on generated arrays.  All random choices derive from one SplitMix64 state."""
import os, shutil, subprocess, stat, time, json, re
import vlib

class Rng:
    def __init__(self, seed):
        self.s = (seed * 0x9e3779b97f4a7c15 + 0x1234567) & 0xffffffffffffffff
    def next(self):
        self.s = (self.s + 0x9e3779b97f4a7c15) & 0xffffffffffffffff
        z = self.s
        z = ((z ^ (z >> 30)) * 0xbf58476d1ce4e5b9) & 0xffffffffffffffff
        z = ((z ^ (z >> 27)) * 0x94d049bb133111eb) & 0xffffffffffffffff
        return z ^ (z >> 31)
    def below(self, n):
        return self.next() % n if n > 0 else 0
    def choice(self, seq):
        return seq[self.below(len(seq))]
    def chance(self, num, den):
        return self.below(den) < num
    def bytes(self, n):
        out = bytearray()
        while len(out) < n:
            out += self.next().to_bytes(8, 'little')
        return bytes(out[:n])
    def fork(self):
        return Rng(self.next())

BASE_OPTS = ['--test-skip-self', '--test-skip-device', '--test-skip-sign', '--test-fake-uuid',
             '--test-force-order-alpha', '--no-warnings', '-q', '-q', '-q']

LEV_NAMES = ['parity', '2-parity', '3-parity', '4-parity', '5-parity', '6-parity']

class Result:
    def __init__(self, rc, out, tags):
        self.rc, self.out, self.tags = rc, out, tags
    def tag(self, prefix):
        return [t for t in self.tags if t.startswith(prefix)]
    def summary(self, key):
        v = None
        for t in self.tags:
            if t.startswith('summary:%s:' % key):
                v = t.split(':', 2)[2]
        return v

class Arr:
    """a small array in a scratch directory"""
    def __init__(self, root, exe, ndisks=3, nparity=2, block_kib=1, hashsize=16, ncontent=2,
                 splits=1, zmode=False, extra_conf=(), autosave=None, pool=False):
        self.root, self.exe = root, exe
        self.ndisks, self.nparity, self.block = ndisks, nparity, block_kib * 1024
        self.hashsize, self.ncontent, self.splits, self.zmode = hashsize, ncontent, splits, zmode
        os.makedirs(root, exist_ok=True)
        self.disks = ['d%d' % (i + 1) for i in range(ndisks)]
        for d in self.disks:
            os.makedirs(self.ddir(d), exist_ok=True)
        os.makedirs(os.path.join(root, 'par'), exist_ok=True)
        self.contents = []
        for i in range(ncontent):
            cd = os.path.join(root, 'c%d' % i)
            os.makedirs(cd, exist_ok=True)
            self.contents.append(os.path.join(cd, 'content'))
        self.conf = os.path.join(root, 'snapraid.conf')
        self.extra_conf = list(extra_conf)
        self.autosave = autosave
        self.pool = os.path.join(root, 'pool') if pool else None
        if pool:
            os.makedirs(self.pool, exist_ok=True)
        self.write_conf()
        self.nlog = 0

    def ddir(self, d):
        return os.path.join(self.root, d)

    def level_splits(self, level):
        """number of split files of a parity level (`level_split_counts` overrides the array-wide `splits`)"""
        lsc = getattr(self, 'level_split_counts', None)
        return lsc[level] if lsc else self.splits

    def parity_files(self, level):
        base = os.path.join(self.root, 'par', LEV_NAMES[level])
        n = self.level_splits(level)
        return [base + ('.%d' % s if n > 1 else '') for s in range(n)]

    def write_conf(self, disks=None, blocksize=None, hashsize=None, nparity=None, splits_override=None):
        L = ['blocksize %d' % ((blocksize or self.block) // 1024)]
        hs = hashsize or self.hashsize
        if hs != 16:
            L.append('hashsize %d' % hs)
        for l in range(nparity if nparity is not None else self.nparity):
            name = LEV_NAMES[l]
            if self.zmode and l == 2:
                name = 'z-parity'
            files = self.parity_files(l)
            if splits_override is not None:
                files = files[:splits_override]
            L.append('%s %s' % (name, ','.join(files)))
        for c in self.contents:
            L.append('content %s' % c)
        for d in (disks if disks is not None else self.disks):
            L.append('data %s %s/' % (d, self.ddir(d)))
        if self.autosave:
            L.append('autosave %d' % self.autosave)
        if self.pool:
            L.append('pool %s' % self.pool)
        L += self.extra_conf
        with open(self.conf, 'w') as f:
            f.write('\n'.join(L) + '\n')

    def cmd(self, op, *args, env=None, opts=None, timeout=120, stdin=None, uselog=True):
        self.nlog += 1
        log = os.path.join(self.root, 'log%d.txt' % self.nlog)
        argv = [self.exe] + (BASE_OPTS if opts is None else list(opts)) + ['-c', self.conf] + (['-l', log] if uselog else []) + list(args) + [op]
        e = dict(os.environ)
        if env:
            e.update(env)
        try:
            p = subprocess.run(argv, stdout=subprocess.PIPE, stderr=subprocess.STDOUT, env=e, timeout=timeout, cwd=self.root)
            rc, out = p.returncode, p.stdout.decode('latin-1')
        except subprocess.TimeoutExpired as ex:
            rc, out = -999, (ex.stdout or b'').decode('latin-1')
        tags = []
        if os.path.exists(log):
            with open(log, 'rb') as f:
                tags = f.read().decode('latin-1').split('\n')
            os.unlink(log)
        return Result(rc, out, tags)

    # ---- data-disk operations -------------------------------------------------------
    def path(self, d, rel):
        return os.path.join(self.ddir(d), rel)

    def write(self, d, rel, data, mtime_ns=None):
        p = self.path(d, rel)
        os.makedirs(os.path.dirname(p), exist_ok=True)
        with open(p, 'wb') as f:
            f.write(data)
        if mtime_ns is not None:
            os.utime(p, ns=(mtime_ns, mtime_ns))

    def read(self, d, rel):
        with open(self.path(d, rel), 'rb') as f:
            return f.read()

    def snapshot(self):
        """(disk, relpath) -> ('f', bytes, mtime_ns) | ('l', target) | ('d',) for empty dirs"""
        snap = {}
        for d in self.disks:
            base = self.ddir(d)
            for dp, dn, fn in os.walk(base):
                rel = os.path.relpath(dp, base)
                if rel != '.' and not dn and not fn:
                    snap[(d, rel)] = ('d',)
                for n in fn:
                    p = os.path.join(dp, n)
                    r = os.path.relpath(p, base)
                    st = os.lstat(p)
                    if stat.S_ISLNK(st.st_mode):
                        snap[(d, r)] = ('l', os.readlink(p))
                    elif stat.S_ISREG(st.st_mode):
                        with open(p, 'rb') as f:
                            snap[(d, r)] = ('f', f.read(), st.st_mtime_ns, st.st_ino, st.st_nlink)
                for n in dn:
                    p = os.path.join(dp, n)
                    if os.path.islink(p):
                        snap[(d, os.path.relpath(p, base))] = ('l', os.readlink(p))
        return snap

    def content_bytes(self, i=0):
        with open(self.contents[i], 'rb') as f:
            return f.read()

    def parity_bytes(self, level):
        out = b''
        for p in self.parity_files(level):
            if os.path.exists(p):
                with open(p, 'rb') as f:
                    out += f.read()
        return out

    def destroy(self):
        shutil.rmtree(self.root, ignore_errors=True)

# --------------------------------------------------------------------------------------
# Lean content decoder as independent oracle

class Decoded:
    """parsed reply of the Lean driver's `content-dump`"""
    def __init__(self, line):
        self.ok = line.startswith('ok ')
        self.raw = line
        self.recs = []
        if not self.ok:
            return
        parts = line.split(' | ')
        hdr = dict(kv.split('=') for kv in parts[0].split()[1:])
        self.version = int(hdr['v']); self.block_size = int(hdr['bs']); self.blockmax = int(hdr['bmax']); self.hash_size = int(hdr['hs'])
        self.maps = []      # (name, pos, total, free, uuid)
        self.files = []     # dict(mapping,size,sec,nsec,inode,sub,blocks=[(pos,kind,hash)])
        self.links = []     # (kind, mapping, sub, linkto)
        self.dirs = []      # (mapping, sub)
        self.deleted = {}   # mapping -> {pos: hash}
        self.info = {}      # pos -> (present, time, bad, rehash, justsynced)
        self.parity = []    # (level,total,free,[(path,uuid,size)])
        self.hash = None; self.prevhash = None
        for p in parts[1:]:
            t = p.split(' ')
            k = t[0]
            if k == 'M':
                self.maps.append((bytes.fromhex(t[1]), int(t[2]), int(t[3]), int(t[4]), bytes.fromhex(t[5]) if len(t) > 5 else b''))
            elif k == 'f':
                blocks = []
                for r in t[7:]:
                    if not r:
                        continue
                    kind, pos, count, hs = r.split(':')
                    hl = hs.split(',') if hs else []
                    for j in range(int(count)):
                        blocks.append((int(pos) + j, kind, hl[j] if j < len(hl) else ''))
                self.files.append(dict(mapping=int(t[1]), size=int(t[2]), sec=int(t[3]), nsec=int(t[4]), inode=int(t[5]),
                                       sub=bytes.fromhex(t[6]), blocks=blocks))
            elif k in ('s', 'a'):
                self.links.append((k, int(t[1]), bytes.fromhex(t[2]), bytes.fromhex(t[3]) if len(t) > 3 else b''))
            elif k == 'r':
                self.dirs.append((int(t[1]), bytes.fromhex(t[2])))
            elif k == 'h':
                m = int(t[1]); pos = 0; dd = self.deleted.setdefault(m, {})
                for r in t[2:]:
                    if not r:
                        continue
                    if r.startswith('O'):
                        pos += int(r[1:])
                    else:
                        for h in r[1:].split(','):
                            dd[pos] = h; pos += 1
            elif k == 'i':
                oldest = int(t[1]); pos = 0
                for r in t[2:]:
                    if not r:
                        continue
                    count, flag, tm = [int(x) for x in r.split(':')]
                    for j in range(count):
                        if flag & 1:
                            self.info[pos] = (True, tm + oldest, bool(flag & 2), bool(flag & 4), bool(flag & 8))
                        pos += 1
            elif k in ('P', 'Q'):
                sp = []
                for r in t[4:]:
                    if r:
                        a, b, c = r.split(':'); sp.append((bytes.fromhex(a), bytes.fromhex(b), int(c)))
                self.parity.append((int(t[1]), int(t[2]), int(t[3]), sp))
            elif k == 'c':
                self.hash = (t[1], t[2])
            elif k == 'C':
                self.prevhash = (t[1], t[2])

def lean_decode(blobs, block_size=0):
    """decode content files with the Lean decoder; returns list of (Decoded, reserialized_hex_or_None)"""
    req = []
    for b in blobs:
        req.append('content-dump %d %s' % (block_size, b.hex()))
        req.append('content-reser %d %s' % (block_size, b.hex()))
    rep = vlib.driver_query(req)
    out = []
    for i in range(len(blobs)):
        out.append((Decoded(rep[2 * i]), rep[2 * i + 1]))
    return out

def unesc_tag(s):
    """inverse of esc_tag (support.c): \\d ':' , \\n newline, \\r CR, \\\\ backslash"""
    out = bytearray(); i = 0
    b = s.encode('latin-1')
    while i < len(b):
        c = b[i]
        if c == 0x5c and i + 1 < len(b):
            n = b[i + 1]
            out.append({0x64: 0x3a, 0x6e: 0x0a, 0x72: 0x0d, 0x5c: 0x5c}.get(n, n)); i += 2
        else:
            out.append(c); i += 1
    return bytes(out)

def split_tag(line):
    """split a log line on unescaped ':' (esc_tag never leaves a raw ':' inside a field)"""
    return line.split(':')
