"""C12  Commands modify only what they are documented to modify (syscall monitoring against the Lean spec)."""
import os, shutil, stat, vlib, e2e, sim, fixcommon as fx
from concurrent.futures import ThreadPoolExecutor

STATIC_THEOREMS = [
    'SnapraidVerif.Props.C12.readonly_commands',
    'SnapraidVerif.Props.C12.scrub_only_content',
    'SnapraidVerif.Props.C12.sync_never_data',
    'SnapraidVerif.Props.C12.fix_never_content',
    'SnapraidVerif.Props.C12.pool_only_pool',
    'SnapraidVerif.Props.C12.touch_only_subsecond',
]

MUT = ('create', 'open-trunc', 'write', 'pwrite', 'rename', 'unlink', 'remove', 'rmdir', 'mkdir', 'truncate', 'ftruncate', 'fallocate', 'symlink', 'link', 'utimens')

_allowed_cache = {}
def allowed(cmd, region):
    k = (cmd, region)
    if k not in _allowed_cache:
        _allowed_cache[k] = vlib.driver_query(['effects-allowed %s %s' % (cmd, region)])[0] == '1'
    return _allowed_cache[k]

def region_of(a, path, logpath):
    if path == logpath: return 'log'
    for d in a.disks:
        if path.startswith(a.ddir(d) + '/') or path == a.ddir(d): return 'data'
    if path.startswith(os.path.join(a.root, 'par') + '/'): return 'parity'
    for c in a.contents:
        if path == c + '.lock': return 'lock'
        if path == c or path == c + '.tmp': return 'content'
    if a.pool and (path.startswith(a.pool + '/') or path == a.pool): return 'pool'
    if os.path.basename(path).startswith('log') and path.startswith(a.root): return 'log'
    return 'other'

def tree_state(a):
    """(region, relpath) -> (kind, size, mtime_ns, sha) for everything under the array root"""
    import hashlib
    out = {}
    for dp, dn, fn in os.walk(a.root):
        for n in fn + dn:
            p = os.path.join(dp, n)
            st = os.lstat(p)
            if stat.S_ISREG(st.st_mode):
                with open(p, 'rb') as f: h = hashlib.sha1(f.read()).hexdigest()
                out[p] = ('f', st.st_size, st.st_mtime_ns, h)
            elif stat.S_ISLNK(st.st_mode):
                out[p] = ('l', os.readlink(p), 0, '')
            else:
                out[p] = ('d', 0, 0, '')
    return out

def scenario(exe, shim, root, seed, stats):
    rng = e2e.Rng(seed)
    out = []
    a = e2e.Arr(root, exe, ndisks=2 + rng.below(2), nparity=1 + rng.below(2), ncontent=1 + rng.below(2), hashsize=16, pool=True)
    s = sim.Sim(a, rng.fork(), weird_names=False)
    s.populate(3)
    # some files with a zero sub-second time-stamp (what touch is about)
    for d in a.disks:
        p = a.path(d, 'zero_%s.bin' % d)
        a.write(d, 'zero_%s.bin' % d, rng.bytes(1500), 1_600_000_000_000_000_000 + rng.below(1000) * 10**9)
    s.fs_link(); s.fs_dir()
    # a symbolic link of the array that RESOLVES to a directory of the disk, the directory holding a file and an empty
    # sub-directory (all three are recorded); pool makes a link to the link: following it leads into the data disk
    dl = rng.choice(a.disks)
    os.makedirs(os.path.join(a.ddir(dl), 'album', 'incoming'), exist_ok=True)
    a.write(dl, 'album/track.bin', rng.bytes(2500), s.tick())
    if not os.path.lexists(a.path(dl, 'latest')): os.symlink('album', a.path(dl, 'latest'))
    if rng.chance(1, 2):
        os.makedirs(os.path.join(a.ddir(dl), 'deep', 'er', 'empty'), exist_ok=True)
        if not os.path.lexists(a.path(dl, 'album/up')): os.symlink('../deep', a.path(dl, 'album/up'))
    # a hard-linked pair (recorded as a file and a hardlink to it)
    dh = rng.choice(a.disks)
    a.write(dh, 'hl/target.bin', rng.bytes(1800), s.tick())
    if not os.path.lexists(a.path(dh, 'hl/link.bin')): os.link(a.path(dh, 'hl/target.bin'), a.path(dh, 'hl/link.bin'))
    if rng.chance(1, 2) and len(a.disks) > 1:
        # the same name is a link to a directory on one disk and a real directory on another: the pool entry of the
        # second must not be created THROUGH the pool link of the first (that would be inside the data disk)
        do = rng.choice([d for d in a.disks if d != dl])
        if not os.path.lexists(a.path(do, 'latest')):
            os.makedirs(a.path(do, 'latest'))
            a.write(do, 'latest/other.bin', rng.bytes(1200), s.tick())
    s.sync()
    state = rng.choice(['healthy', 'unsynced', 'damaged', 'lost'])
    if state in ('unsynced', 'damaged', 'lost'):
        s.fs_random(3 + rng.below(4))
        # a zero-nsec file modified after the sync
        d = rng.choice(a.disks); p = a.path(d, 'zero_%s.bin' % d)
        if os.path.exists(p):
            with open(p, 'ab') as f: f.write(b'more')
            os.utime(p, ns=(1_650_000_000_000_000_000, 1_650_000_000_000_000_000))
    if state in ('damaged', 'lost'):
        lay = fx.Layout(a, fx.decode(a))
        for _ in range(1 + rng.below(3)):
            if lay.blocks:
                try: fx.flip_data_block(a, rng, rng.choice(lay.blocks))
                except OSError: pass
        if state == 'lost':
            fx.wipe_disk(a, rng.choice(a.disks))
        elif rng.chance(1, 2):
            # some files lost while their neighbours on the same disk stay (and may have been edited since the sync)
            for (d, rel) in s.existing_files():
                if rng.chance(1, 4): os.unlink(a.path(d, rel))
        if rng.chance(1, 2):
            a.cmd('scrub', '-p', 'full')      # leaves bad marks for fix -e
    if rng.chance(1, 2):
        # a recorded EMPTY file replaced by a symbolic link: to a healthy non-empty file of another disk, or to a path that
        # does not exist outside the data disks; whatever fix does about the path, it must not write THROUGH the link
        dz = fx.decode(a)
        empties = [(dz.maps[f['mapping']][0].decode(), os.fsdecode(f['sub'])) for f in dz.files if f['size'] == 0] if dz.ok else []
        empties = [(d, rel) for d, rel in empties if os.path.isfile(a.path(d, rel)) and not os.path.islink(a.path(d, rel))]
        targets = [(d, rel) for d, rel in s.existing_files() if os.path.getsize(a.path(d, rel)) > 0]
        for d, rel in empties[:2]:
            os.unlink(a.path(d, rel))
            if targets and rng.chance(1, 2):
                td, trel = rng.choice([t for t in targets if t[0] != d] or targets)
                os.symlink(a.path(td, trel), a.path(d, rel)); s.log('empty file %s/%r replaced by a link to %s/%r' % (d, rel, td, trel))
            else:
                os.makedirs(os.path.join(a.root, 'outside'), exist_ok=True)
                os.symlink(os.path.join(a.root, 'outside', 'made-by-fix-%s' % d), a.path(d, rel)); s.log('empty file %s/%r replaced by a dangling link' % (d, rel))
            stats['empty_to_link'] = stats.get('empty_to_link', 0) + 1
    hl_case = False
    if rng.chance(1, 2) and os.path.exists(a.path(dh, 'hl/target.bin')) and os.path.exists(a.path(dh, 'hl/link.bin')):
        # one name of the hard-linked pair is gone, the other still holds the data; a fix that selects only the surviving name
        # has nothing to write there
        gone_n, kept_n = rng.choice([('hl/target.bin', 'hl/link.bin'), ('hl/link.bin', 'hl/target.bin')])
        os.unlink(a.path(dh, gone_n)); s.log('%s/%s removed, %s/%s (same inode) kept' % (dh, gone_n, dh, kept_n))
        hl_case = kept_n
    dec = fx.decode(a)
    zero_nsec = set()
    for f in dec.files:
        if f['nsec'] == 1:     # encoded nsec+1: recorded sub-second part is zero
            zero_nsec.add(a.path(dec.maps[f['mapping']][0].decode(), os.fsdecode(f['sub'])))
    backup = root + '.bak'
    shutil.copytree(a.root, backup, symlinks=True)
    cmds = [('status', []), ('status', ['-G']), ('diff', []), ('list', []), ('dup', []), ('check', []), ('check', ['-a']), ('check', ['-d', a.disks[0]]),
            ('check', ['-f', 'base0/']), ('scrub', ['-p', 'full']), ('scrub', ['-p', '50', '-o', '0']), ('sync', ['--force-empty', '--force-zero']),
            ('sync', ['--force-empty', '--force-zero', '-B', '2']), ('fix', []), ('fix', ['-d', a.disks[0]]), ('fix', ['-m']), ('fix', ['-f', 'base1/']), ('fix', ['-e']), ('fix', ['-S', '0', '-B', str(1 + rng.below(6))]), ('fix', ['-S', str(rng.below(4)), '-B', str(1 + rng.below(4))]),
            ('pool', []), ('touch', []), ('devices', [])]
    picks = [cmds[rng.below(len(cmds))] for _ in range(7)] + ([('fix', ['-f', '/' + hl_case])] if hl_case else []) + [('pool', []), ('touch', []), ('fix', []), ('sync', ['--force-empty', '--force-zero']), ('fix', ['-e']), ('fix', ['-S', '0', '-B', str(1 + rng.below(6))])]
    for cmd, args in picks:
        shutil.rmtree(a.root); shutil.copytree(backup, a.root, symlinks=True)
        lg = os.path.join(vlib.scratch(), 'mon_%d_%d.log' % (seed, stats['runs']))
        before = tree_state(a)
        snaplog = os.path.join(a.root, 'log%d.txt' % (a.nlog + 1))
        par_before = {pf: open(pf, 'rb').read() for l in range(a.nparity) for pf in a.parity_files(l) if os.path.exists(pf)} if cmd == 'fix' else {}
        r = a.cmd(cmd, *args, env={'LD_PRELOAD': shim, 'VERIF_LOG': lg})
        after = tree_state(a)
        stats['runs'] += 1
        stats['cmds'][cmd] = stats['cmds'].get(cmd, 0) + 1
        desc = 'state=%s command=%s %s exit=%d seed=%d' % (state, cmd, ' '.join(args), r.rc, seed)
        reported = set()
        for t in r.tags:
            p = t.split(':')
            if p[0] in ('status', 'fixed', 'unrecoverable', 'recovered') and len(p) >= 4:
                # status:<kind>:<disk>:<file>  /  fixed:<pos>:<disk>:<file>
                reported.add(a.path(p[2], os.fsdecode(e2e.unesc_tag(p[3]))))
            if p[0].startswith(('link_', 'dir_', 'symlink', 'hardlink')) or p[0] in ('fixed', 'recovered'):
                pass
        problem = None
        # 1. every logged state-changing call is in an allowed region
        if os.path.exists(lg):
            for line in open(lg, errors='replace'):
                t = line.rstrip('\n').split(' ')
                if len(t) < 3 or t[1] not in MUT: continue
                paths = [t[2]] + ([t[3]] if t[1] in ('rename', 'link') and len(t) > 3 and t[3].startswith('/') else [])
                for pth in paths:
                    reg = region_of(a, pth, snaplog)
                    stats['ops'] += 1
                    if reg == 'other' or not allowed(cmd, reg):
                        if t[1] in ('remove', 'unlink') and 'ret=-1' in line: continue     # removing a stale tmp that is not there
                        problem = '%s issues %s on %s (region %s), which it is not documented to modify' % (cmd, t[1], pth.replace(a.root, '$A'), reg); break
                if problem: break
            os.unlink(lg)
        # 2. effect check on the trees (independent of the shim)
        if not problem:
            for pth in set(before) | set(after):
                if before.get(pth) == after.get(pth): continue
                reg = region_of(a, pth, snaplog)
                if reg in ('log', 'lock'): continue
                if reg == 'other' or not allowed(cmd, reg):
                    problem = '%s changed %s (region %s)' % (cmd, pth.replace(a.root, '$A'), reg); break
                if cmd == 'touch' and reg == 'data':
                    b, af = before.get(pth), after.get(pth)
                    if b is None or af is None or b[0] != 'f' or b[1] != af[1] or b[3] != af[3]:
                        problem = 'touch changed more than a time-stamp of %s' % pth.replace(a.root, '$A'); break
                    if b[2] // 10**9 != af[2] // 10**9:
                        problem = 'touch changed the SECONDS of the time-stamp of %s (%d -> %d)' % (pth.replace(a.root, '$A'), b[2] // 10**9, af[2] // 10**9); break
                    if pth not in zero_nsec and b[2] % 10**9 != 0:
                        problem = 'touch changed a time-stamp whose sub-second part was not zero (neither recorded nor on disk): %s' % pth.replace(a.root, '$A'); break
                if cmd == 'fix' and reg == 'data':
                    base = pth[:-len('.unrecoverable')] if pth.endswith('.unrecoverable') else pth
                    af = after.get(pth)
                    is_file_change = (before.get(pth) or af)[0] == 'f'
                    if is_file_change and base not in reported and not any(x.startswith(base) for x in reported):
                        # directories created as ancestors and links/dirs are reported with other tags
                        problem = 'fix wrote the data file %s which it does not report as fixed/recovered/unrecoverable' % pth.replace(a.root, '$A'); break
        # 3. fix and the parity: it writes parity blocks it repaired, it never shortens a parity file, and with a block
        #    range it leaves every parity block outside the range as it was
        if not problem and cmd == 'fix':
            rng_s = rng_b = None
            if '-S' in args: rng_s = int(args[args.index('-S') + 1])
            if '-B' in args: rng_b = int(args[args.index('-B') + 1])
            for pf, b0 in par_before.items():
                b1 = open(pf, 'rb').read() if os.path.exists(pf) else b''
                if len(b1) < len(b0):
                    problem = 'fix %s shortens the parity file %s from %d to %d bytes' % (' '.join(args), pf.replace(a.root, '$A'), len(b0), len(b1)); break
                if rng_b is not None:
                    lo = (rng_s or 0) * a.block; hi = lo + rng_b * a.block
                    if b1[:lo] != b0[:lo] or b1[hi:len(b0)] != b0[hi:]:
                        problem = 'fix %s changes parity blocks of %s outside the requested range of stripes' % (' '.join(args), pf.replace(a.root, '$A')); break
        if problem:
            out.append(('%s; %s' % (problem, desc), '%s\n%s\noutput tail:\n%s\ntags:\n%s\nhistory:\n%s' % (problem, desc, r.out[-600:], '\n'.join(t for t in r.tags if t.split(':')[0] in ('status', 'fixed', 'unrecoverable', 'recovered', 'error', 'entry', 'summary'))[:3000], '\n'.join(s.history))))
            break
    shutil.rmtree(backup, ignore_errors=True)
    a.destroy()
    return out or None

def main(tier, seed):
    chk = vlib.Check('C12', 'other', tier, seed)
    chk.assumptions = ['runtime monitoring: the theorems are about the specification table; the binary is judged call by call (LD_PRELOAD log) and by before/after comparison of the whole array tree',
                       'only libc-level calls made through the PLT are seen by the shim; the tree comparison is independent of it']
    ok, log = vlib.ensure_lean_built()
    chk.oblig('lake build', ok, log[-300:])
    hits = vlib.forbidden_tokens()
    chk.oblig('no sorry/admit/axiom/native_decide in library', not hits, '; '.join(hits))
    okA, ax, out = vlib.axioms_audit(STATIC_THEOREMS, ['SnapraidVerif.Props.C12'])
    chk.axioms.update(ax)
    for t in STATIC_THEOREMS:
        chk.oblig('axiom audit: ' + t, ax.get(t) is not None and all(x in vlib.STD_AXIOMS for x in ax[t]), str(ax.get(t)))
    try:
        exe = vlib.build_snapraid(); shim = vlib.build_shim()
    except vlib.BuildError as e:
        chk.violation('build of /repo failed: ' + str(e)[:300], str(e), False, 'build'); chk.finish()
    n = 32 if tier == 'quick' else 300
    stats = {'runs': 0, 'ops': 0, 'cmds': {}}
    def job(i):
        return scenario(exe, shim, os.path.join(vlib.scratch(), 'm%d' % i), seed * 100000 + 98000 + i, stats)
    with ThreadPoolExecutor(vlib.NCPU) as ex:
        res = list(ex.map(job, range(n)))
    k = 0
    for r in res:
        if r:
            k += 1
            if k <= 4:
                chk.violation('C12 ' + r[0][0], r[0][1], True, 'monitor')
    for o in chk.obligations:
        if not o[1]:
            chk.violation('C12 static obligation failed: ' + o[0], o[0] + '\n' + o[2], False, 'static')
    chk.evaluations = stats['runs']
    chk.distinct = stats['ops']
    chk.extra['explanation'] = 'Lean specification table Props.C12.allowed (with theorems for each sentence of the property) evaluated by the driver on every state-changing call logged by the shim and on every before/after difference of the array tree'
    chk.rule = ('%d arrays in states healthy / unsynced / damaged / partially lost x 10 commands drawn from status, status -G, diff, list, dup, check (-a, -d, -f), scrub (full, percentage), sync (full, -B), fix (plain, -d, -m, -f), pool, touch, devices incl. runs that end in errors; every logged create/write/rename/unlink/truncate/utimens and every changed path must be in a region the Lean table allows for that command; touch: only sub-second part of zero-nsec files; fix: only files it reports; arrays hold a resolvable link to a directory with an empty sub-directory, names that are a link on one disk and a directory on another, recorded empty files replaced by symlinks (to a healthy file or dangling); pool is always among the commands' % n)
    chk.samples = [dict(stats)]
    chk.corr['MONITOR'] = dict(stats)
    chk.finish()

def replay(path):
    print(open(path).read()[:8000]); return 0
