#!/usr/bin/env python3
"""Regenerates /verif/MANIFEST.json from the table below (kept here so the file stays valid)."""
import json, os
V = os.path.dirname(os.path.dirname(os.path.abspath(__file__)))

CHECKS = {
 'C02': dict(cat='proof', tech='Lean 4 theorems (GF(2^8) field, generator definition, genSpec = each implementation family) + per-run kernel re-check of translated tables.c/gf.h + differential harness over every raid_gen* variant',
   text='Theorems: the three implementation families (table loops, Horner x2/d2 loops, PSHUFB nibble tables) equal the byte-wise specification sum_i A[j][i]*D_i for every nd, size and content; every entry of the seven tables of raid/tables.c, re-translated on each run, is proved equal to the field product / inverse / power / generator entry by the kernel; the gf.h word tricks, re-translated on each run, are proved lane-wise x2 / /2 (bv_decide). Tie for the code that is modelled rather than translated (loops, SIMD asm): every exported variant is executed against the Lean-computed specification on the per-disk byte basis in every lane and dense data.',
   note='Trusted: Lean kernel; bv_decide axioms for the four gf.h lane lemmas; translators (cross-checked against the linked C tables); x86 instruction semantics, CPUID dispatch, sfence ordering and memory safety are not modelled (guard pages + execution only).', ref='6 C02'),
 'C03': dict(cat='proof', tech='Lean 4 + Mathlib theorem: extended Cauchy matrices are non-singular => all minors of the 6x251 generator invertible => unique erasure recovery and minimum distance np+1; per-run kernel check that tables.c is that matrix; differential harness over every decoder',
   text='Theorems (no bound on k, nd<=251, np<=6): every square sub-matrix of the generator is invertible; the surviving blocks determine up to np lost blocks uniquely for any admissible parity subset; two stripes differ in >= np+1 blocks (so a candidate set leaving a corrupted block unlisted cannot be consistent). The per-run obligations prove raid_gfcauchy of today is that matrix. That each decoder variant computes that unique solution and modifies nothing else is checked by executing all of them (exhaustive failure sets for small geometries, seeded for large) against the Lean-computed generator.',
   note='Trusted: Lean kernel, Mathlib; the decoders are tied by correspondence, not proved; z-mode (power matrix) MDS is harness-only; raid_invert is compared with the Lean Gauss-Jordan model on sampled minors.', ref='6 C03'),
 'C06': dict(cat='proof', tech='Lean 4 invariant proof by induction over operations on an abstract sync state machine + runtime check of the same invariant with an independent oracle (Lean content decoder + Lean genSpec + harness version store) after every command of generated histories',
   text='Theorem inv_reachable: for every sequence of scan marks, completed/skipped stripes, parity written without the content saved, fix and no-op commands, every stripe whose allocated blocks are all recorded as synced has parity = gen(synced contents) in every level (gen abstract, any nd, np). Tie: after EVERY command of seeded histories (full/partial/-S -B/killed/-h/-F/-R/autosave syncs, scrub, filtered fix, touch, rehash, interleaved file operations incl. pending-focused churn) the content file is decoded by the Lean decoder and parity of every fully synced stripe is recomputed by the Lean genSpec from the harness own copy of every file version and compared with the parity files; extent well-formedness is checked on the decoded map.',
   note='The abstract machine is hand-written (partial): the C scan/sync code is tied to it only through the runtime invariant check on sampled histories; fault-free histories only.', ref='6 C06'),
 'C09': dict(cat='proof', tech='Lean 4 theorems (CRC-32C single-byte detection by injectivity of the bit step; save-protocol acceptor with power-loss crash model) + sweep of damaged content files on an ASan/UBSan build + shim syscall logs accepted by the proved acceptor + kill sweep',
   text='Theorems: changing any single byte (hence bit) of a message changes its CRC-32C; any call trace accepted by the save protocol leaves, after a crash at any call index and loss of everything not fsynced, each content copy complete-old or complete-new, and every rename is preceded by fsync-after-last-write, close and verification. Tie: every truncation and single-byte mutation of three content shapes is run against the sanitizer build (must exit non-zero, modify nothing) and the Lean decoder (must reject); real save sequences with 1..5 copies logged by the LD_PRELOAD shim must be accepted by the Lean acceptor; kill before/after/mid each content call.',
   note='"Never loaded" for a byte that re-segments the parse rests on the CRC reaching an N record (2^-32 coincidence not excluded by theorem); memory safety is sanitizer evidence only; POSIX rename/fsync semantics assumed.', ref='6 C09'),
 'C10': dict(cat='proof', tech='Lean 4 round-trip theorems for the content codec primitives, block runs and simple records + byte-identical re-serialisation by the Lean model of every content file the binary writes in generated histories',
   text='Theorems: getb32/getb64/getStr/getLe32/getRaw invert their writers for every value (varint length boundaries included, no bound), hash lists and block runs of file records and the simple records are read back exactly. Tie: for every content file left by every command of seeded histories, Lean parse -> Lean serialise is byte-identical to the file (so the Lean record model IS the format), all copies are identical, the decoded files/links/per-stripe info equal `list -l`/`status -G -l`, and test-rewrite reproduces the bytes.',
   note='Whole-file round trip (all record kinds composed) is established by the byte-identical correspondence on sampled files, not by a single theorem; in-memory state before a save is not observable, so a save that drops state consistently is only caught through C06-style semantic oracles.', ref='6 C10'),
 'C01': dict(cat='proof', tech='Lean 4 theorems (first-accepted search over parity combinations with hash acceptance is complete and sound; C03 uniqueness) + E2E recovery sweep of the real binary against the harness snapshot',
   text='Theorems (stripe level, any number of blocks/parities): if some enumerated combination consists of intact parities (always the case when failed data + damaged parity <= N) fix accepts a reconstruction and every failed block equals its synced bytes (fix_stripe_recovers), and anything accepted has the recorded bytes in every hashed block (accepted_is_recorded), under the explicit HashSep hypothesis. Tie: generated arrays (1-6 parities, z-mode, hash sizes, split parity, fragmented histories) damaged by <= N lost/overwritten devices, per-stripe <= N silent block changes, deleted/truncated files, lost links and dirs, single surviving content copy; fix must restore bytes, time-stamps, links, dirs, report nothing unrecoverable and check must pass.',
   note='Partial: whole-array recovery, time-stamp restoration, links/dirs and POSIX effects are established by the E2E sweep only; the theorems cover the per-stripe search logic with abstract decoder and hash.', ref='6 C01'),
 'C04': dict(cat='proof', tech='Lean 4 stripe-model theorems (detect_data, detect_parity, no_false_alarm, bad_marks_exact) + E2E detection sweep comparing the exact sets of error tags and bad marks with the damaged blocks',
   text='Theorems: in a synced stripe a changed data block is reported at its own disk/position (under HashSep) and only changed blocks are, a changed parity level is reported iff it differs from gen(data), an undamaged stripe raises nothing, and the stripe is marked bad iff some block really changed. Tie: for generated synced arrays (incl. hash migration in progress, reduced hash sizes) the undamaged twin must be silent and unmarked; for damage sets (one block, a few, per-stripe <= N mixed data/parity; bit/byte/block/zero shapes, time-stamp kept) the SETS of error:<pos>:<disk>:<file> and parity_error:<pos>:<level> tags of check -a, check and scrub and the stripes marked bad must equal the damaged ones; a second pass and a restore + scrub -p bad pass must be consistent.',
   note='Partial: scrub does not reconstruct data, so in a stripe that has a damaged data block AND a damaged parity block it names the data error only (stripe still marked bad) - the check expects parity levels only for stripes with intact data; plan coverage is C15.', ref='6 C04'),
 'C05': dict(cat='proof', tech='Lean 4 theorems (accepted reconstructions have the recorded bytes in hashed blocks; CHG verdict sound under the past-hash condition; machine-checked counter-examples for the two ways it fails) + E2E fix sweep with a version-store oracle and filters',
   text='Theorems: accepted_is_recorded (any damage), fix_never_wrong_partial / zero_past_sound / lost_never_trusted for pending blocks, and refutations c05_counter_skip, c05_counter_length of the unrestricted statement (both replayed on the binary on every run). Tie: histories with partial/killed/pre-hash syncs, stripes skipped because a file moved/changed during sync, copy-detected files, then damage on any number of devices and fix with -d/-f/-m filters; every selected recorded file must hold the recorded bytes or be reported unrecoverable with failing exit; nothing reported recovered with other bytes; unselected and unknown files untouched.',
   note='Known finding C05-length (KNOWN_FINDINGS.txt) is reported as KNOWN-FINDING, three related defects were repaired by fix: commits (C05-skip, C05-hashsize, C05-search-abort). Detectable damage only (blocks with a recorded hash, missing/short files).', ref='6 C05, 7'),
 'C08': dict(cat='fault_enumeration', tech='LD_PRELOAD fault injection (EIO/ENOSPC at the k-th pread/pwrite of a data or parity file) during sync and scrub at several io-cache depths, stripe state read back through the Lean content decoder; Lean bookkeeping model with theorems for reads and a machine-checked counter-example for asynchronous parity writes',
   text='Every injected fault that fired is judged: non-zero exit, the stripe of the failing offset is not (all BLK and not bad) in the content written afterwards, and the follow-up sync / fix -e + scrub -p bad re-establishes the C06 invariant. Lean: io_error_never_protects_reads, other_stripes_unaffected, async_writer_sound_when_collected (specification of a sound writer path) and c08_counter_write (the pinned behaviour).',
   note='Known finding C08-write (parity pwrite errors are not attributed to their stripe) is reported as KNOWN-FINDING; repairing it needs failing positions to travel back through the writer queue (io.c/io.h/sync.c), judged not small enough for a fix: commit.', ref='6 C08, 7'),
 'C07': dict(cat='fault_enumeration', tech='process death (SIGKILL before/after/in the middle of the k-th state-changing libc call) and SIGINT injected by an LD_PRELOAD shim into sync and fix; Lean theorems for single-loss recoverability after a kill of an adds-only sync, region discipline of sync operations, content-save atomicity (C09) and invariant preservation under parity-only writes (C06)',
   text='Every kill/signal point that fired is judged: data directories byte-identical, a content file loads (status), for adds-only change sets previously synced files are recoverable from one lost device after a kill and up to N after a graceful stop, re-running sync succeeds (also after deleted files came back with the same bytes) and re-establishes the C06 invariant and a clean check; an interrupted fix re-run ends as the uninterrupted fix. Lean: kill_single_loss_recoverable (any level old or new independently, any field), sync_ops_never_touch_data, Save.save_atomic, C06.inv_step for parityOnly.',
   note='Known finding C07-shrink (parity truncated before the content save) is reported as KNOWN-FINDING (directed replay on every run). Page cache survives a process kill: power-loss reordering is only covered for the content save (C09).', ref='6 C07, 7'),
 'C15': dict(cat='proof', tech='Lean 4 executable model of the scrub plan (limit computation over sorted times, block_is_enabled with its running counter) and book-keeping, with theorems; compared with the binary under a frozen clock on synthesized per-stripe info (Lean decode -> edit -> Lean encode)',
   text='Theorems: bad stripes always, unused never, full = all used, new = just-synced, bad plan = only bad; percentage plans: selected non-bad stripes are not younger than the time limit (auto_age), oldest first (auto_oldest_first), the exactly-at-limit counter never exceeds lastlimit, timelimit <= age limit, countlimit <= requested share; books: refresh and clear only on verified stripes, bad only on silent/io errors, unsynced differences untouched. Tie: count_limit/time_limit/last_limit tags and the info of every stripe after scrub must equal the model for plans full/new/bad/percentage x age/default, with silent damage, files changed since the last sync and stripes left pending by a partial sync.',
   note='"Repeated default scrubs eventually cover every stripe" is not proved (follows from oldest-first + bound but is not stated as a theorem); the number of non-bad stripes strictly older than the limit being <= countlimit - lastlimit relies on the sortedness of the time list (checked by correspondence, not proved).', ref='6 C15'),
 'C17': dict(cat='proof', tech='Lean 4 model of parity_split_find / parity_handle_fill / parity_chsize with theorems (lookup is the inverse of concatenation, total, injective, no stripe straddles, growth bounds, sizes add up, fixed splits keep their size); call-by-call comparison with the real parity_chsize on real files; twin arrays split vs unsplit',
   text='Theorems: find_spec/find_total/find_injective/find_no_straddle for every size vector, fill never exceeds target or limit and never shrinks, successful chsize makes recorded sizes add up to the request, a split followed by a used split keeps its size. Tie: leaf harness linked with the binary objects drives parity_create/parity_chsize over growth, shrink and re-open sequences with aligned / non-aligned / mid-growth limits and compares return code, recorded sizes and file sizes with the Lean model (incl. the 32-bit pseudo-random per-split test limits); twin arrays with identical history: concatenated splits byte-identical to single-file parity after every sync and after fix of a lost split.',
   note='The file system is abstracted as a per-split size limit; exact value of fill (= min(target, aligned limit)) is established by correspondence, the theorems give bounds; C01/C06 on split parity are exercised by the other checks drawing split layouts.', ref='6 C17'),
 'C18': dict(cat='proof', tech='Lean 4 model of fnmatch (flags 0 / FNM_PATHNAME) and of the include/exclude rule machinery with theorems; compared with the fnmatch actually linked (libc) and the vendored one, with filter_path/filter_subdir/filter_emptydir of the binary, and end-to-end with list and fix -f',
   text='Theorems: first match decides, a non-matching rule falls through with the default flipped, with no match a file is excluded iff the last rule is an include, directories are entered by default, and in pathname mode a pattern without a slash never matches a string containing one (wildcard_never_crosses_slash, proved through bracket parsing). Tie: ~12k (pattern, string) pairs incl. all short combinations, 6k rule lists x paths x {file, dir descent, empty dir} incl. malformed rules, arrays whose configuration rules decide what list shows, fix -f selection.',
   note='Character classes and locale collation are outside model and generators; -d/-m/-e selection is exercised in C05; the vendored cmdline/fnmatch.c differs from libc on a few dozen corner inputs (counted in the evidence) and is not what this build links.', ref='6 C18'),
}

NOT_YET = {}

def main():
    props = [json.loads(l) for l in open(os.path.join(V, 'properties.jsonl'))]
    ids = [p['id'] for p in props]
    checks = []
    for pid in ids:
        if pid in CHECKS:
            c = CHECKS[pid]
            checks.append({
                'property_id': pid,
                'quick_cmd': './check %s --tier quick' % pid,
                'thorough_cmd': './check %s --tier thorough' % pid,
                'evidence_file': '/verif/evidence/%s.json' % pid,
                'replay_cmd_template': './check %s --replay {path}' % pid,
                'engine': 'lean4+correspondence',
                'level_claimed': {'category': c['cat'], 'text': c['text'], 'design_ref': 'DESIGN.md section ' + c['ref']},
                'level_note': c['note'],
                'technique': c['tech'],
            })
    na = [{'property_id': pid, 'reason': NOT_YET.get(pid, 'check not built yet in this round (planned, DESIGN.md section 6); not claimed until its model, theorems and correspondence exist')}
          for pid in ids if pid not in CHECKS]
    man = {
        'version': 1,
        'setup_cmd': 'cd /verif/lean && lake build 2>&1 | tail -3',
        'hooks': {
            'guard': 'SNAPRAID_VERIF',
            'enable': 'checks compile /repo sources themselves with -DSNAPRAID_VERIF (tools/vlib.py BASE_CFLAGS)',
            'baseline_off_cmd': 'cd /repo && make -j8 >/dev/null && make check',
            'source_commits': [],
            'add_only': True,
        },
        'engines': [
            {'name': 'lean4+correspondence', 'path': '/verif/lean, /verif/gen, /verif/tools, /verif/harness',
             'serves_properties': sorted(CHECKS), 'kind_free_text': 'Lean 4 library SnapraidVerif (models + theorems), per-run generated obligations, compiled Lean driver, C/Python correspondence harnesses'},
        ],
        'checks': checks,
        'not_applicable': na,
        'notes': 'See DESIGN.md. Every check rebuilds what it needs from /repo\'s working tree into a scratch directory under /var/tmp and removes it.',
    }
    json.dump(man, open(os.path.join(V, 'MANIFEST.json'), 'w'), indent=1)

if __name__ == '__main__':
    main()
