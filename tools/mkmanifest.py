#!/usr/bin/env python3
"""Regenerates /verif/MANIFEST.json from the table below (kept here so the file stays valid)."""
import json, os
V = os.path.dirname(os.path.dirname(os.path.abspath(__file__)))

CHECKS = {
 'C02': dict(cat='proof', tech='Lean 4 theorems (GF(2^8) field, generator definition, genSpec = each implementation family) + per-run kernel re-check of translated tables.c/gf.h + differential harness over every raid_gen* variant',
   text='Theorems: the three implementation families (table loops, Horner x2/d2 loops, PSHUFB nibble tables) equal the byte-wise specification sum_i A[j][i]*D_i for every nd, size and content; every entry of the seven tables of raid/tables.c, re-translated on each run, is proved equal to the field product / inverse / power / generator entry by the kernel; the gf.h word tricks, re-translated on each run, are proved lane-wise x2 / /2 (bv_decide). Tie for the code that is modelled rather than translated (loops, SIMD asm): every exported variant is executed against the Lean-computed specification on the per-disk byte basis in every lane and dense data.',
   note='Trusted: Lean kernel; bv_decide axioms for the four gf.h lane lemmas; translators (cross-checked against the linked C tables); x86 instruction semantics, CPUID dispatch, sfence ordering and memory safety are not modelled (guard pages + execution only).', ref='6 C02'),
 'C03': dict(cat='proof', tech='Lean 4 + Mathlib theorem: extended Cauchy matrices are non-singular => all minors of the 6x251 generator invertible => unique erasure recovery and minimum distance np+1; per-run kernel check that tables.c is that matrix; differential harness over every decoder',
   text='Theorems (no bound on k, nd<=251, np<=6): every square sub-matrix of the generator is invertible; the surviving blocks determine up to np lost blocks uniquely for any admissible parity subset; two stripes differ in >= np+1 blocks (so a candidate set leaving a corrupted block unlisted cannot be consistent). The per-run obligations prove raid_gfcauchy of today is that matrix. That each decoder variant computes that unique solution and modifies nothing else is checked by executing all of them (exhaustive failure sets for small geometries, seeded for large) against the Lean-computed generator.',
   note='Trusted: Lean kernel, Mathlib; the decoders are tied by correspondence, not proved; z-mode (power matrix) MDS is harness-only; raid_invert is compared with the Lean Gauss-Jordan model on sampled minors.', ref='6 C03'),
}

NOT_YET = {}

def main():
    props = [json.loads(l) for l in open(os.path.join(V, 'properties.jsonl'))]
    ids = [p['id'] for p in props]
    checks = []
    for pid in ids:
        if pid in CHECKS:
            c = CHECKS[pid]
            checks.append({
                'property_id': pid,
                'quick_cmd': './check %s --tier quick' % pid,
                'thorough_cmd': './check %s --tier thorough' % pid,
                'evidence_file': '/verif/evidence/%s.json' % pid,
                'replay_cmd_template': './check %s --replay {path}' % pid,
                'engine': 'lean4+correspondence',
                'level_claimed': {'category': c['cat'], 'text': c['text'], 'design_ref': 'DESIGN.md section ' + c['ref']},
                'level_note': c['note'],
                'technique': c['tech'],
            })
    na = [{'property_id': pid, 'reason': NOT_YET.get(pid, 'check not built yet in this round (planned, DESIGN.md section 6); not claimed until its model, theorems and correspondence exist')}
          for pid in ids if pid not in CHECKS]
    man = {
        'version': 1,
        'setup_cmd': 'cd /verif/lean && lake build 2>&1 | tail -3',
        'hooks': {
            'guard': 'SNAPRAID_VERIF',
            'enable': 'checks compile /repo sources themselves with -DSNAPRAID_VERIF (tools/vlib.py BASE_CFLAGS)',
            'baseline_off_cmd': 'cd /repo && make -j8 >/dev/null && make check',
            'source_commits': [],
            'add_only': True,
        },
        'engines': [
            {'name': 'lean4+correspondence', 'path': '/verif/lean, /verif/gen, /verif/tools, /verif/harness',
             'serves_properties': sorted(CHECKS), 'kind_free_text': 'Lean 4 library SnapraidVerif (models + theorems), per-run generated obligations, compiled Lean driver, C/Python correspondence harnesses'},
        ],
        'checks': checks,
        'not_applicable': na,
        'notes': 'See DESIGN.md. Every check rebuilds what it needs from /repo\'s working tree into a scratch directory under /var/tmp and removes it.',
    }
    json.dump(man, open(os.path.join(V, 'MANIFEST.json'), 'w'), indent=1)

if __name__ == '__main__':
    main()
