"""C02  Parity equals its algebraic definition in every implementation."""
import os, vlib, raidcommon

STATIC_THEOREMS = [
    'SnapraidVerif.Props.C02.genSpec_length',
    'SnapraidVerif.Props.C02.genParity_get',
    'SnapraidVerif.Props.C02.int8_gen_eq_spec',
    'SnapraidVerif.Props.C02.horner2_eq_spec',
    'SnapraidVerif.Props.C02.hornerz_eq_spec',
    'SnapraidVerif.Props.C02.pshufb_split',
    'SnapraidVerif.Props.C02.pshufb_gen_eq_spec',
    'SnapraidVerif.Props.C02.xorAll_eq_spec',
    'SnapraidVerif.Props.C02.cauchy_row1',
    'SnapraidVerif.Props.C02.cauchy_col0',
    'SnapraidVerif.Props.C02.x2byte_eq',
    'SnapraidVerif.Props.C02.d2byte_eq',
    'SnapraidVerif.Props.C02.gen_linear',
]

def main(tier, seed):
    chk = vlib.Check('C02', 'proof', tier, seed)
    chk.assumptions = [
        'x86 SIMD instruction semantics, CPUID dispatch and sfence ordering are not modelled; SIMD variants are tied by the RAID-GEN correspondence (every exported variant executed)',
        'translator tools/gen_tables.py and tools/gen_gfh.py copy numbers / loop-free expressions faithfully (cross-checked against the linked C tables)',
    ]
    ok, log = vlib.ensure_lean_built()
    chk.oblig('lake build (static library: field, generator, specification theorems)', ok, log[-400:])
    hits = vlib.forbidden_tokens()
    chk.oblig('no sorry/admit/axiom/native_decide/implemented_by/unsafe in library and templates', not hits, '; '.join(hits))
    okA, ax, out = vlib.axioms_audit(STATIC_THEOREMS, ['SnapraidVerif.Props.C02'])
    chk.axioms.update(ax)
    for t in STATIC_THEOREMS:
        chk.oblig('axiom audit: ' + t, ax.get(t) is not None and all(a in vlib.STD_AXIOMS for a in ax[t]), str(ax.get(t)))
    failed_tables = raidcommon.table_obligations(chk)
    failed_gfh = gfh_obligations(chk)

    # correspondence RAID-GEN
    try:
        fams, info, outdir, crashed, tail = raidcommon.run_harness(chk, tier, seed, 'tables', 'raid')
        fams2, info2, outdir2, crashed2, tail2 = raidcommon.run_harness(chk, tier, seed, 'gen', 'raid')
    except vlib.BuildError as e:
        chk.violation('build of /repo raid sources failed: ' + str(e)[:300], str(e), found_input=False, name='build')
        chk.finish()
    fams.update(fams2); info.update(info2)
    total = 0
    found_input = False
    for fam, (cases, fails, ff) in sorted(fams.items()):
        chk.corr[fam] = {'cases': cases, 'fail': fails}
        total += cases
        if fails:
            body = open(ff).read() if ff else ''
            first = body.split('\n')[0:2]
            chk.violation('C02 %s: %d of %d cases differ from the specification; %s' % (fam, fails, cases, ' '.join(first)[:300]), body[:200000], True, fam)
            found_input = True
    if crashed or crashed2:
        chk.violation('raid harness crashed (assert/guard page/signal) while running the generators: ' + (tail2 if crashed2 else tail)[-300:].replace('\n', ' | '),
                      (tail2 if crashed2 else tail), True, 'crash')
        found_input = True
    n, bad = raidcommon.lean_sampled(outdir2, 'genspec')
    chk.corr['lean_genSpec_sampled'] = {'cases': n, 'fail': len(bad)}
    total += n
    if bad:
        chk.violation('C02 Lean genSpec disagrees with the C generator on a sampled case: ' + bad[0][0][:200],
                      {'request': bad[0][0], 'c_output': bad[0][1], 'lean_genSpec': bad[0][2]}, True, 'genspec')
        found_input = True
    for name in failed_tables + failed_gfh:
        if not found_input:
            chk.violation('C02 obligation no longer checks: ' + name, 'theorem/obligation: %s\nno input on which an implementation differs from the specification was found by the harness' % name, False, 'oblig')
    bad_static = [o for o in chk.obligations if not o[1] and (o[0].startswith('lake') or o[0].startswith('axiom') or o[0].startswith('no sorry'))]
    for o in bad_static:
        chk.violation('C02 static obligation failed: ' + o[0], o[0] + '\n' + o[2], False, 'static')
    chk.evaluations = total
    chk.distinct = total
    chk.rule = ('every exported raid_gen* variant the CPU runs x nd in {1,2,3,4,5,8,31,32,33,64,128,250,251} (thorough: 1..251, byte basis on every disk for nd <= 16 and on ~14 disks per nd above) x '
                '{dense seeded data at sizes 64/128/192/4096, all-0xff, per-disk byte basis: every value 0..255 in every one of the 64 lanes, single-disk random}; '
                'expected value = sum_i A[j][i]*D_i with field and matrix computed by the Lean definitions; data blocks and guard pages compared; '
                'a case is distinct by (variant, nd, size, pattern, basis disk)')
    chk.samples = [{'variant': k, **v} for k, v in list(chk.corr.items())[:8]]
    chk.extra['cpu'] = info
    chk.finish()

def gfh_obligations(chk):
    import gen_gfh
    gdir = os.path.join(vlib.scratch(), 'gen')
    os.makedirs(gdir, exist_ok=True)
    src = os.path.join(gdir, 'GenGfh.lean')
    probs = gen_gfh.emit(os.path.join(vlib.REPO, 'raid', 'gf.h'), src)
    if probs:
        chk.oblig('translate raid/gf.h', False, '; '.join(probs))
        return ['translate gf.h: ' + probs[0]]
    chk.oblig('translate raid/gf.h', True)
    ok, out = vlib.compile_generated(gdir, 'GenGfh', src)
    if not chk.oblig('compile GenGfh.lean', ok, out[-300:]):
        return ['compile GenGfh']
    ok, out = vlib.check_lean_file(os.path.join(vlib.VERIF, 'gen', 'GenGfhOk.lean'), gdir)
    import re
    flat = out.replace('\n ', ' ')
    failed = []
    for fn in ('x2_32', 'd2_32', 'x2_64', 'd2_64'):
        thm = 'SnapraidVerif.GenGfhOk.%s_lanes' % fn
        m = re.search(r"'%s' depends on axioms: \[([^\]]*)\]" % re.escape(thm), flat)
        ax = [a.strip() for a in m.group(1).split(',')] if m else None
        good = ok and ax is not None and all(a in vlib.STD_AXIOMS or re.fullmatch(r'(SnapraidVerif\.GenGfhOk\.)?%s_lanes\._native\.bv_decide\.ax_\w+' % fn, a) for a in ax)
        chk.axioms[thm] = ax
        chk.oblig('kernel+bv_decide: %s of gf.h (as translated today) is lane-wise multiplication/division by 2' % fn, good, '' if good else out[-300:])
        if not good:
            failed.append(thm)
    if any(a and any('bv_decide' in x for x in a) for a in chk.axioms.values()):
        chk.trusted.append('bv_decide (CaDiCaL + natively compiled LRAT checker) for the four gf.h lane lemmas: axioms <thm>._native.bv_decide.ax_*')
    return failed

def replay(path):
    print(open(path).read()[:4000])
    return 0
