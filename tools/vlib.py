"""Shared machinery for the /verif checks (see DESIGN.md section 4).

Everything a check needs is rebuilt from /repo's current working tree into a scratch
directory outside /repo, /verif and /tmp, which is removed on exit.
"""
import atexit, hashlib, json, os, re, shutil, signal, subprocess, sys, tempfile, time
from concurrent.futures import ThreadPoolExecutor

VERIF = os.path.dirname(os.path.dirname(os.path.abspath(__file__)))
REPO = os.environ.get('VERIF_REPO', '/repo')
LEAN_DIR = os.path.join(VERIF, 'lean')
LEAN_LIB = os.path.join(LEAN_DIR, '.lake', 'build', 'lib', 'lean')
DRIVER = os.path.join(LEAN_DIR, '.lake', 'build', 'bin', 'driver')
GUARD = 'SNAPRAID_VERIF'
NCPU = os.cpu_count() or 4

STD_AXIOMS = {'propext', 'Classical.choice', 'Quot.sound'}

_scratch = None

def scratch():
    """per-process scratch directory, outside /repo, /verif and /tmp; removed at exit"""
    global _scratch
    if _scratch is None:
        base = os.environ.get('VERIF_SCRATCH_BASE', '/var/tmp')
        os.makedirs(base, exist_ok=True)
        _scratch = tempfile.mkdtemp(prefix='snapraid-verif.', dir=base)
        atexit.register(lambda: shutil.rmtree(_scratch, ignore_errors=True))
        def _sig(signum, frame):
            shutil.rmtree(_scratch, ignore_errors=True)
            os._exit(130)
        signal.signal(signal.SIGTERM, _sig)
        signal.signal(signal.SIGINT, _sig)
    return _scratch

def run(cmd, **kw):
    kw.setdefault('stdout', subprocess.PIPE)
    kw.setdefault('stderr', subprocess.STDOUT)
    kw.setdefault('text', True)
    return subprocess.run(cmd, **kw)

# --------------------------------------------------------------------------------------
# building /repo's working tree

def repo_sources():
    """source list of the snapraid binary, from Makefile.am"""
    am = open(os.path.join(REPO, 'Makefile.am')).read()
    m = re.search(r'snapraid_SOURCES\s*=\s*((?:.*\\\n)*.*\n)', am)
    return [t for t in m.group(1).replace('\\\n', ' ').split() if t.endswith('.c')]

BASE_CFLAGS = ['-DHAVE_CONFIG_H', '-D' + GUARD, '-I' + REPO, '-pthread', '-fno-common', '-w',
               '-DSYSCONFDIR="/etc"']

def _cc(args):
    src, obj, flags = args
    r = run(['gcc'] + flags + ['-c', src, '-o', obj])
    return (src, r.returncode, r.stdout)

_cfg_done = False
def ensure_configured():
    """/repo is normally configured (its own test suite needs that).  If config.h is missing (a pristine checkout), it is
    generated OUT OF TREE in the scratch directory, so that nothing is written to /repo beyond what autogen.sh creates when
    even `configure` is absent."""
    global _cfg_done
    if _cfg_done or os.path.exists(os.path.join(REPO, 'config.h')):
        _cfg_done = True; return
    cfg = os.path.join(scratch(), 'cfg')
    os.makedirs(cfg, exist_ok=True)
    if not os.path.exists(os.path.join(REPO, 'configure')):
        run(['sh', './autogen.sh'], cwd=REPO)
    r = run([os.path.join(REPO, 'configure')], cwd=cfg)
    if r.returncode != 0 or not os.path.exists(os.path.join(cfg, 'config.h')):
        raise BuildError('config.h is missing in %s and configure failed:\n%s' % (REPO, (r.stdout or '')[-1500:]))
    BASE_CFLAGS.insert(0, '-I' + cfg)
    _cfg_done = True

def build_objects(srcs, outdir, extra=(), opt='-O1'):
    ensure_configured()
    os.makedirs(outdir, exist_ok=True)
    jobs = []
    for s in srcs:
        obj = os.path.join(outdir, s.replace('/', '_')[:-2] + '.o')
        jobs.append((os.path.join(REPO, s), obj, BASE_CFLAGS + [opt, '-g'] + list(extra)))
    with ThreadPoolExecutor(NCPU) as ex:
        res = list(ex.map(_cc, jobs))
    bad = [(s, out) for s, rc, out in res if rc != 0]
    if bad:
        raise BuildError('compile failed: ' + bad[0][0] + '\n' + bad[0][1][-2000:])
    return [j[1] for j in jobs]

class BuildError(Exception):
    pass

def build_snapraid(tag='plain', extra=(), opt='-O1', ldextra=()):
    """build the snapraid binary from /repo's current tree (hook guard on); returns its path"""
    out = os.path.join(scratch(), 'build-' + tag)
    exe = os.path.join(out, 'snapraid')
    if os.path.exists(exe):
        return exe
    objs = build_objects(repo_sources(), out, extra, opt)
    r = run(['gcc', '-pthread', '-rdynamic'] + list(extra) + ['-o', exe] + objs + ['-lblkid', '-lm'] + list(ldextra))
    if r.returncode != 0:
        # libblkid may be absent at link time in some restores: retry without
        r2 = run(['gcc', '-pthread', '-rdynamic'] + list(extra) + ['-o', exe] + objs + ['-lm'] + list(ldextra))
        if r2.returncode != 0:
            raise BuildError('link failed:\n' + r.stdout[-2000:])
    return exe

def build_raid_harness(tag='raid', extra=()):
    out = os.path.join(scratch(), 'build-' + tag)
    exe = os.path.join(out, 'raid_harness')
    if os.path.exists(exe):
        return exe
    srcs = [s for s in repo_sources() if s.startswith('raid/') and not s.endswith('test.c')]
    objs = build_objects(srcs, out, extra, '-O2')
    hobj = os.path.join(out, 'raid_harness.o')
    r = run(['gcc'] + BASE_CFLAGS + ['-O1', '-g', '-I' + os.path.join(REPO, 'raid')] + list(extra) +
            ['-c', os.path.join(VERIF, 'harness', 'raid_harness.c'), '-o', hobj])
    if r.returncode != 0:
        raise BuildError('harness compile failed:\n' + r.stdout[-3000:])
    r = run(['gcc', '-pthread'] + list(extra) + ['-o', exe, hobj] + objs)
    if r.returncode != 0:
        raise BuildError('harness link failed:\n' + r.stdout[-3000:])
    return exe

def build_leaf_harness(tag='leaf', extra=()):
    """all objects of the snapraid binary (main renamed) + vendored fnmatch.c + harness/leaf_harness.c"""
    out = os.path.join(scratch(), 'build-' + tag)
    exe = os.path.join(out, 'leaf_harness')
    if os.path.exists(exe):
        return exe
    srcs = repo_sources()
    objs = build_objects([s for s in srcs if s != 'cmdline/snapraid.c'], out, extra, '-O1')
    mobj = os.path.join(out, 'cmdline_snapraid_nomain.o')
    r = run(['gcc'] + BASE_CFLAGS + ['-O1', '-g', '-Dmain=snapraid_main'] + list(extra) + ['-c', os.path.join(REPO, 'cmdline', 'snapraid.c'), '-o', mobj])
    if r.returncode != 0:
        raise BuildError('snapraid.c compile failed:\n' + r.stdout[-2000:])
    fobj = os.path.join(out, 'vendored_fnmatch.o')
    # the vendored glibc fnmatch of cmdline/fnmatch.c is only compiled on platforms without fnmatch();
    # build it here under another name so that it can be compared too
    r = run(['gcc', '-std=gnu89', '-I' + REPO, '-I' + os.path.join(REPO, 'cmdline'), '-O1', '-g', '-w',
             '-DHAVE_FNMATCH=0', '-DHAVE_FNMATCH_H=1', '-DHAVE_STRING_H=1', '-DSTDC_HEADERS=1', '-Dfnmatch=vendored_fnmatch',
             '-c', os.path.join(VERIF, 'harness', 'vendored_fnmatch_wrap.c'), '-o', fobj])
    if r.returncode != 0:
        raise BuildError('vendored fnmatch compile failed:\n' + r.stdout[-2000:])
    hobj = os.path.join(out, 'leaf_harness.o')
    r = run(['gcc'] + BASE_CFLAGS + ['-O1', '-g', '-I' + os.path.join(REPO, 'cmdline')] + list(extra) +
            ['-c', os.path.join(VERIF, 'harness', 'leaf_harness.c'), '-o', hobj])
    if r.returncode != 0:
        raise BuildError('leaf harness compile failed:\n' + r.stdout[-3000:])
    r = run(['gcc', '-pthread', '-rdynamic'] + list(extra) + ['-o', exe, hobj, mobj, fobj] + objs + ['-lblkid', '-lm'])
    if r.returncode != 0:
        raise BuildError('leaf harness link failed:\n' + r.stdout[-3000:])
    return exe

def leaf_query(exe, lines, timeout=600):
    p = subprocess.run([exe], input='\n'.join(lines) + '\n', stdout=subprocess.PIPE, stderr=subprocess.PIPE, text=True, timeout=timeout)
    return p.stdout.split('\n')[:-1], p.returncode, p.stderr

def build_shim():
    out = os.path.join(scratch(), 'shim.so')
    if os.path.exists(out):
        return out
    r = run(['gcc', '-O1', '-g', '-shared', '-fPIC', '-w', '-o', out, os.path.join(VERIF, 'harness', 'shim.c'), '-ldl', '-lpthread'])
    if r.returncode != 0:
        raise BuildError('shim compile failed:\n' + r.stdout[-2000:])
    return out

# --------------------------------------------------------------------------------------
# Lean side

def lean_env(extra_path=None):
    env = dict(os.environ)
    paths = [LEAN_LIB]
    if extra_path:
        paths.append(extra_path)
    env['LEAN_PATH'] = ':'.join(paths)
    return env

def ensure_lean_built():
    """`lake build` (no-op after setup_cmd); returns (ok, log)"""
    r = run(['lake', 'build'], cwd=LEAN_DIR)
    return r.returncode == 0, r.stdout

FORBIDDEN = re.compile(r'\bsorry\b|\badmit\b|^\s*axiom\s|\bnative_decide\b|\bimplemented_by\b|\bunsafe\s|maxHeartbeats\s+0\b', re.M)

def strip_lean_comments(s):
    # block comments (nested not handled beyond one level) and line comments
    out, i, depth = [], 0, 0
    while i < len(s):
        if s.startswith('/-', i):
            depth += 1; i += 2; continue
        if s.startswith('-/', i) and depth:
            depth -= 1; i += 2; continue
        if depth == 0:
            if s.startswith('--', i):
                j = s.find('\n', i)
                i = len(s) if j < 0 else j
                continue
            out.append(s[i])
        i += 1
    return ''.join(out)

def forbidden_tokens():
    """grep the library, the driver and the per-run templates for sorry/admit/axiom/…"""
    hits = []
    for root in (os.path.join(LEAN_DIR, 'SnapraidVerif'), os.path.join(LEAN_DIR, 'Driver'), os.path.join(VERIF, 'gen')):
        for dp, dn, fn in os.walk(root):
            for f in fn:
                if f.endswith('.lean'):
                    p = os.path.join(dp, f)
                    txt = strip_lean_comments(open(p).read())
                    for m in FORBIDDEN.finditer(txt):
                        hits.append('%s: %s' % (os.path.relpath(p, VERIF), m.group(0).strip()))
    return hits

def axioms_audit(theorems, imports, extra_path=None, allowed_extra=()):
    """run `#print axioms` on every listed theorem; returns (ok, {thm: [axioms]}, log).
    A theorem that does not exist, or depends on sorryAx / an undeclared axiom, fails."""
    d = scratch()
    path = os.path.join(d, 'audit_%d.lean' % (abs(hash(tuple(theorems))) % 10**9))
    with open(path, 'w') as f:
        for im in imports:
            f.write('import %s\n' % im)
        for t in theorems:
            f.write('#print axioms %s\n' % t)
    r = run(['lean', path], env=lean_env(extra_path))
    res = {}
    ok = r.returncode == 0
    for t in theorems:
        m = re.search(r"'%s' depends on axioms: \[([^\]]*)\]" % re.escape(t), r.stdout.replace('\n ', ' '))
        m0 = re.search(r"'%s' does not depend on any axioms" % re.escape(t), r.stdout)
        if m:
            ax = [a.strip() for a in m.group(1).split(',') if a.strip()]
        elif m0:
            ax = []
        else:
            ok = False
            res[t] = None
            continue
        res[t] = ax
        for a in ax:
            if a not in STD_AXIOMS and not any(re.fullmatch(p, a) for p in allowed_extra):
                ok = False
    return ok, res, r.stdout

def compile_generated(gen_dir, modname, src_path):
    """compile a generated module to .olean inside gen_dir (never into /verif/lean)"""
    dst = os.path.join(gen_dir, modname + '.lean')
    if os.path.abspath(src_path) != os.path.abspath(dst):
        shutil.copy(src_path, dst)
    r = run(['lean', '-o', modname + '.olean', modname + '.lean'], env=lean_env(gen_dir), cwd=gen_dir)
    return r.returncode == 0, r.stdout

def check_lean_file(path, extra_path=None, timeout=900):
    """elaborate + kernel-check one Lean file; returns (ok, output)"""
    try:
        r = run(['lean', path], env=lean_env(extra_path), timeout=timeout)
    except subprocess.TimeoutExpired:
        return False, 'timeout'
    out = r.stdout
    ok = r.returncode == 0 and 'sorryAx' not in out and 'error' not in out
    return ok, out

def driver_query(lines, timeout=600):
    """run the compiled Lean driver on request lines; returns reply lines"""
    p = subprocess.run([DRIVER], input='\n'.join(lines) + '\n', stdout=subprocess.PIPE, stderr=subprocess.PIPE,
                       text=True, timeout=timeout)
    if p.returncode != 0:
        raise RuntimeError('driver failed: ' + p.stderr[-500:])
    return p.stdout.split('\n')[:-1]

def driver_file(req_path, timeout=1800):
    with open(req_path) as f:
        p = subprocess.run([DRIVER], stdin=f, stdout=subprocess.PIPE, stderr=subprocess.PIPE, text=True, timeout=timeout)
    if p.returncode != 0:
        raise RuntimeError('driver failed: ' + p.stderr[-500:])
    return p.stdout.split('\n')[:-1]

# --------------------------------------------------------------------------------------
# reporting

class Check:
    """collects what one run of one property check did, then writes evidence and exits"""
    def __init__(self, pid, level, tier, seed):
        self.pid, self.level, self.tier, self.seed = pid, level, tier, seed
        self.t0 = time.time()
        self.obligations = []       # (name, ok, detail)
        self.trusted = ['Lean 4 kernel (lean 4.33.0)', 'translator/correspondence harness of /verif', 'gcc, libc']
        self.axioms = {}
        self.corr = {}              # family -> dict(cases, fail, …)
        self.samples = []
        self.violations = []        # (replay_path, text, no_input_found)
        self.known = []
        self.assumptions = []
        self.extra = {}
        self.evaluations = 0
        self.distinct = 0
        self.rule = ''

    def oblig(self, name, ok, detail=''):
        self.obligations.append((name, bool(ok), detail))
        return ok

    def violation(self, text, replay_body, found_input=True, name=None):
        os.makedirs(os.path.join(VERIF, 'evidence', 'replay'), exist_ok=True)
        n = len(self.violations)
        path = os.path.join(VERIF, 'evidence', 'replay', '%s_%s_%d.txt' % (self.pid, name or 'v', n))
        with open(path, 'w') as f:
            f.write(text + '\n')
            f.write(replay_body if isinstance(replay_body, str) else json.dumps(replay_body, indent=1))
            f.write('\n')
        self.violations.append((path, text, not found_input))

    def finish(self):
        known = load_known_findings(self.pid)
        reported = []
        for path, text, nofound in self.violations:
            k = match_known(known, text)
            if k is not None:
                if k not in self.known:
                    self.known.append(k)
                continue
            reported.append((path, text, nofound))
        wall = time.time() - self.t0
        nob = len(self.obligations)
        ndis = sum(1 for o in self.obligations if o[1])
        cov = {
            'obligations': nob, 'discharged': ndis,
            'checker_cmd': 'lake build && lean (kernel) on per-run generated obligations && #print axioms audit; see check script',
            'trusted_base': self.trusted + ['axioms used: ' + ', '.join(sorted({a for v in self.axioms.values() if v for a in v}) or ['none'])],
            'obligation_list': [{'name': n, 'ok': ok, 'detail': d[:300]} for n, ok, d in self.obligations],
            'correspondence': self.corr,
            'evaluations': int(self.evaluations), 'distinct_nontrivial': int(self.distinct),
            'rule': self.rule, 'samples': self.samples[:12] or ['(none)'],
            'axioms_per_theorem': self.axioms,
            'known_findings_matched': self.known,
        }
        cov.update(self.extra)
        ev = {'property_id': self.pid, 'tier': self.tier, 'seed': int(self.seed), 'level': self.level,
              'coverage': cov, 'assumptions': self.assumptions, 'wall_s': round(wall, 2),
              'violations': len(reported)}
        os.makedirs(os.path.join(VERIF, 'evidence'), exist_ok=True)
        with open(os.path.join(VERIF, 'evidence', self.pid + '.json'), 'w') as f:
            json.dump(ev, f, indent=1)
        for k in self.known:
            print('KNOWN-FINDING: property=%s %s' % (self.pid, k))
        for path, text, nofound in reported:
            print('  ' + text.split('\n')[0][:400])
            print('VIOLATION property=%s replay=%s%s' % (self.pid, path, ' no-failing-input-found' if nofound else ''))
        print('%s %s tier=%s seed=%s obligations=%d/%d corr_cases=%d wall=%.1fs' % (
            self.pid, 'FAIL' if reported else 'ok', self.tier, self.seed, ndis, nob, self.evaluations, wall))
        sys.stdout.flush()
        sys.exit(1 if reported else 0)

def load_known_findings(pid):
    """KNOWN_FINDINGS.txt: lines `finding: property=<id> signature=<regex> :: <what fails>`;
    `fixed:` lines are documentation only and suppress nothing."""
    out = []
    p = os.path.join(VERIF, 'KNOWN_FINDINGS.txt')
    if not os.path.exists(p):
        return out
    for line in open(p):
        line = line.strip()
        m = re.match(r'finding:\s+property=(\S+)\s+signature=(\S+)\s+::\s+(.*)$', line)
        if m and m.group(1) == pid:
            out.append((m.group(2), m.group(3)))
    return out

def match_known(known, text):
    for sig, what in known:
        if re.search(sig, text):
            return what
    return None

def tier_seed():
    tier = os.environ.get('VERIF_TIER', 'quick')
    seed = int(os.environ.get('VERIF_SEED', '1') or 1)
    return tier, seed
