"""C11  A successful sync captures every change and converges."""
import os, shutil, stat, vlib, e2e, sim, fixcommon as fx
from concurrent.futures import ThreadPoolExecutor

STATIC_THEOREMS = [
    'SnapraidVerif.Props.C11.trusted_implies_same_stamp',
    'SnapraidVerif.Props.C11.changed_is_reread',
    'SnapraidVerif.Props.C11.scan_captures',
    'SnapraidVerif.Props.C11.scan_order_independent',
    'SnapraidVerif.Props.C11.diff_reports_incomplete_sync',
    'SnapraidVerif.Props.C11.diff_silent_when_equal',
    'SnapraidVerif.Props.C11.seq_scan_sound',
    'SnapraidVerif.Props.C11.seq_changed_is_reread',
    'SnapraidVerif.Props.C11.scan_converges',
]

def present_files(a):
    """disk -> list of (rel bytes, size, sec, nsec, inode); links: disk -> {rel: target}; hardlinked files flagged"""
    files, links, nlinks = {}, {}, {}
    for d in a.disks:
        fl, ll = [], {}
        base = a.ddir(d)
        for dp, dn, fn in os.walk(base):
            for n in fn + [x for x in dn if os.path.islink(os.path.join(dp, x))]:
                p = os.path.join(dp, n)
                st = os.lstat(p)
                rel = os.fsencode(os.path.relpath(p, base))
                if stat.S_ISREG(st.st_mode):
                    fl.append((rel, st.st_size, st.st_mtime_ns // 10**9, st.st_mtime_ns % 10**9, st.st_ino, st.st_nlink))
                elif stat.S_ISLNK(st.st_mode):
                    ll[rel] = os.fsencode(os.readlink(p))
        files[d] = sorted(fl); links[d] = ll
    return files, links

def walk_order(a, d, alpha):
    """regular files of disk d in the order scan.c meets them: depth first, the entries of a directory sorted by
    name (--test-force-order-alpha) or by inode number (every other order on a file system with persistent inodes)"""
    base = os.fsencode(a.ddir(d))
    out = []
    def rec(dirp):
        ents = []
        for n in os.listdir(dirp):
            st = os.lstat(os.path.join(dirp, n))
            ents.append((n, st))
        ents.sort(key=(lambda x: x[0]) if alpha else (lambda x: x[1].st_ino))
        for n, st in ents:
            q = os.path.join(dirp, n)
            if stat.S_ISREG(st.st_mode):
                out.append((os.path.relpath(q, base), st.st_size, st.st_mtime_ns // 10**9, st.st_mtime_ns % 10**9, st.st_ino, st.st_nlink))
            elif stat.S_ISDIR(st.st_mode):
                rec(q)
    rec(base)
    return out

def ent(rel, size, sec, nsec, ino):
    return '%s:%d:%d:%d:%d' % (rel.hex() if rel else '-', size, sec, nsec, ino)

def special_ops(s, rng):
    """replacements of a file by a directory or link and back, swaps, inode reuse"""
    a = s.arr
    k = rng.below(9)
    if k == 7: k = 6
    files = s.existing_files()
    if k == 8:
        # a file recorded with a whole-second time-stamp is rewritten within the same second: same size, other bytes,
        # same seconds, non-zero sub-second part
        ws = [(d0, r0) for (d0, r0) in files if r0.startswith('whole/') and os.path.getsize(a.path(d0, r0)) > 0]
        if not ws: return
        d0, r0 = rng.choice(ws); p0 = a.path(d0, r0); st0 = os.stat(p0)
        newb = rng.bytes(st0.st_size)
        if rng.chance(1, 2):
            with open(p0, 'r+b') as f: f.write(newb)
        else:
            os.unlink(p0)
            with open(p0, 'wb') as f: f.write(newb)
        t0 = (st0.st_mtime_ns // 10**9) * 10**9 + 1 + rng.below(999_999_998)
        os.utime(p0, ns=(t0, t0)); s.log('same-second rewrite %s/%r' % (d0, r0)); return
    if not files: return
    d, rel = rng.choice(files)
    p = a.path(d, rel)
    if k == 0:      # file -> directory holding a file
        os.unlink(p); os.makedirs(p); a.write(d, rel + '/inner', rng.bytes(100 + rng.below(2000)), s.tick()); s.log('file->dir %s/%r' % (d, rel))
    elif k == 1:    # file -> symlink
        os.unlink(p); os.symlink('target_%d' % rng.below(5), p); s.log('file->link %s/%r' % (d, rel))
    elif k == 2:    # swap two files' names (rename), keeping inodes
        others = [f for f in files if f[0] == d and f[1] != rel]
        if others:
            d2, rel2 = rng.choice(others); q = a.path(d2, rel2)
            tmp = p + '.swaptmp'
            os.rename(p, tmp); os.rename(q, p); os.rename(tmp, q); s.log('swap %s/%r <-> %r' % (d, rel, rel2))
    elif k == 3:    # delete + create under the same name (inode possibly reused)
        data = rng.bytes(os.path.getsize(p))
        os.unlink(p); a.write(d, rel, data, s.tick()); s.log('delete+create %s/%r' % (d, rel))
    elif k == 5:    # restored from a backup: same name, size, time-stamp, new inode, same content (other content under the same stamp is outside the property: indistinguishable from silent corruption)
        st = os.stat(p); data = open(p, 'rb').read()
        tmp = p + '.restoretmp'
        with open(tmp, 'wb') as f: f.write(data)
        os.utime(tmp, ns=(st.st_mtime_ns, st.st_mtime_ns)); os.rename(tmp, p); s.log('restore %s/%r' % (d, rel))
    elif k == 6:    # a link changes kind at the same path: symlink -> hardlink of a file of the disk, hardlink -> symlink
        for dp, dn, fn in os.walk(a.ddir(d)):
            for n in fn:
                q = os.path.join(dp, n)
                if os.path.islink(q):
                    os.unlink(q); os.link(p, q); s.log('symlink %s becomes a hardlink to %s/%r' % (q, d, rel)); return
                if os.path.isfile(q) and os.lstat(q).st_nlink > 1 and q != p:
                    os.unlink(q); os.symlink('was_hardlink', q); s.log('hardlink %s becomes a symlink' % q); return
        # no link yet: make a symlink that a later op can turn into a hardlink
        q = p + '.lnk'
        if not os.path.lexists(q): os.symlink(os.path.basename(p), q); s.log('symlink %s created' % q)
    else:           # link retarget / link -> file
        for dp, dn, fn in os.walk(a.ddir(d)):
            for n in fn:
                q = os.path.join(dp, n)
                if os.path.islink(q):
                    os.unlink(q)
                    if rng.chance(1, 2): os.symlink('retargeted', q)
                    else:
                        with open(q, 'wb') as f: f.write(rng.bytes(300))
                    s.log('link changed %s' % q); return

def scenario(exe, root, seed, stats):
    rng = e2e.Rng(seed)
    out = []
    order = rng.choice(['--test-force-order-alpha', '--test-force-order-inode', '--test-force-order-dir', '--test-force-order-physical'])
    opts = [o for o in e2e.BASE_OPTS if not o.startswith('--test-force-order')] + [order]
    if rng.chance(1, 4): opts = [o for o in opts if o != '--test-fake-uuid']
    if rng.chance(1, 2): opts = opts + ['--test-skip-multi-scan']
    a = e2e.Arr(root, exe, ndisks=1 + rng.below(3), nparity=1 + rng.below(2), ncontent=1, hashsize=16)
    s = sim.Sim(a, rng.fork(), weird_names=rng.chance(1, 2))
    s.populate(3 + rng.below(3))
    # files with a whole-second time-stamp (zero sub-second part recorded)
    for i in range(rng.below(3)):
        dz = rng.choice(a.disks)
        a.write(dz, 'whole/w%d' % i, rng.bytes(1 + rng.below(3 * a.block)), (s.tick() // 10**9) * 10**9)
    s.churn = rng.chance(1, 3)       # more copies with preserved stamps, touches and re-touches
    cfg = 'ndisks=%d order=%s uuid=%s scan=%s seed=%d' % (a.ndisks, order.split('-')[-1], '--test-fake-uuid' in opts, 'sequential' if '--test-skip-multi-scan' in opts else 'threads', seed)
    r = s.sync(opts=opts)
    for rnd in range(4):
        if not os.path.exists(a.contents[0]): break
        if rnd and rng.chance(1, 3):
            # the previous sync is followed by changes and an INCOMPLETE sync (partial range, killed before the final
            # content save, or a file touched while it runs): the round then starts from that state
            s.fs_random(1 + rng.below(3))
            k = rng.below(3)
            if k == 0: s.run('sync', '-B', str(1 + rng.below(3)), '--force-empty', '--force-zero', opts=opts)
            elif k == 1: s.run('sync', '--test-kill-after-sync', '--force-empty', '--force-zero', opts=opts)
            else:
                fl = s.existing_files()
                if fl:
                    dd, rr = rng.choice(fl)
                    s.run('sync', '--force-empty', '--force-zero', '--test-run', 'touch "%s"' % a.path(dd, rr), opts=opts)
            stats['incomplete_syncs'] = stats.get('incomplete_syncs', 0) + 1
            if not os.path.exists(a.contents[0]): break
        dec = fx.decode(a)
        n_ops = rng.below(6)
        for _ in range(n_ops):
            if rng.chance(1, 4): special_ops(s, rng)
            else: s.fs_random(1)
        files, links = present_files(a)
        # ---- diff: exit status and counters vs the Lean classification
        d = s.run('diff', opts=opts)
        counts = {k: int(d.summary(k) or 0) for k in ('equal', 'added', 'removed', 'updated', 'moved', 'copied', 'restored')}
        maps = {m[0].decode('latin-1'): (i, m) for i, m in enumerate(dec.maps)}
        def hashed(f):
            return f['size'] > 0 and all(b[1] in ('b', 'p') for b in f['blocks'])
        bydisk = {}
        for f in dec.files:
            bydisk.setdefault(dec.maps[f['mapping']][0].decode('latin-1'), []).append(f)
        model = {'e': 0, 'm': 0, 'r': 0, 'u': 0, 'c': 0, 'a': 0, 'o': 0, 'h': 0}
        removed = 0
        hardlinks = False
        alpha = order.endswith('alpha')
        seqscan = '--test-skip-multi-scan' in opts
        carried = []      # copy sources left by the disks already scanned (sequential scan): (sub, size, sec, nsec, inode)
        for di, disk in enumerate(a.disks):
            known = bydisk.get(disk, [])
            uuid_ok = disk in maps and len(maps[disk][1][4]) > 0
            pres = walk_order(a, disk, alpha)
            if any(x[5] > 1 for x in pres): hardlinks = True
            later = [f for dd in a.disks[di + 1:] for f in bydisk.get(dd, []) if hashed(f)]
            if not seqscan:      # threads: every other disk is seen in its recorded state (up to the known race)
                later = [f for dd in a.disks if dd != disk for f in bydisk.get(dd, []) if hashed(f)]
            others = [ent(f['sub'], f['size'], f['sec'], (f['nsec'] - 1) if f['nsec'] else 0, f['inode']) for f in later] + (carried if seqscan else [])
            q = 'scan-seq %d K %s O %s P %s' % (1 if uuid_ok else 0,
                        ' '.join(ent(f['sub'], f['size'], f['sec'], (f['nsec'] - 1) if f['nsec'] else 0, f['inode']) + (':1' if hashed(f) else ':0') for f in known),
                        ' '.join(others), ' '.join(ent(*x[:5]) for x in pres))
            ans = vlib.driver_query([' '.join(q.split())])[0]
            parts = ans.split(' ') if ans != 'bad-op' else ['', '0', '']
            if parts[0].isdigit(): parts = [''] + parts      # no present entry at all
            while len(parts) < 4: parts.append('')
            cl, rem, remidx = parts[0], parts[1], parts[2]
            fpaths = parts[3].split(',') if parts[3] else []
            for c in cl: model[c] += 1
            removed += int(rem or 0)
            gone = set(int(x) for x in remidx.split(',') if x)
            for i, f in enumerate(known):
                if hashed(f) and i not in gone:
                    sub = bytes.fromhex(fpaths[i]) if i < len(fpaths) and fpaths[i] not in ('', '-') else f['sub']
                    carried.append(ent(sub, f['size'], f['sec'], (f['nsec'] - 1) if f['nsec'] else 0, f['inode']))
            for c, x in zip(cl, pres):
                if c in 'co' and x[1] > 0: carried.append(ent(*x[:5]))
        stats['diffs'] += 1
        for k2, v in model.items(): stats['classes'][k2] = stats['classes'].get(k2, 0) + v
        link_changed = False
        lk = {'equal': 0, 'updated': 0, 'added': 0, 'removed': 0}
        for disk in a.disks:
            rec = {sub: lt for kk, m, sub, lt in dec.links if dec.maps[m][0].decode('latin-1') == disk}
            # hardlinks: the first path of an inode met by the walk is the file, every later one a link to it
            first = {}
            for x in walk_order(a, disk, alpha):
                if x[5] > 1:
                    if x[4] in first: links[disk][x[0]] = first[x[4]]
                    else: first[x[4]] = x[0]
            if rec != links[disk]: link_changed = True
            for sub, lt in links[disk].items():
                if sub not in rec: lk['added'] += 1
                elif rec[sub] == lt: lk['equal'] += 1
                else: lk['updated'] += 1
            lk['removed'] += sum(1 for sub in rec if sub not in links[disk])
        incomplete = any(b[1] != 'b' for f in dec.files for b in f['blocks']) or any(dd for dd in dec.deleted.values())
        changed = (model['m'] + model['r'] + model['u'] + model['c'] + model['a'] + model['o'] + removed) > 0 or link_changed
        want_rc = 2 if (changed or incomplete) else 0
        desc = '%s round %d' % (cfg, rnd)
        problem = None
        if d.rc != want_rc and d.rc in (0, 2):
            problem = 'diff exits %d, expected %d (changed=%s incomplete_previous_sync=%s links_changed=%s; model classes %s removed=%d; binary counters %s)' % (d.rc, want_rc, changed, incomplete, link_changed, model, removed, counts)
        elif d.rc not in (0, 2):
            problem = 'diff exits %d: %s' % (d.rc, d.out[-200:])
        elif not hardlinks:
            mine = {'equal': model['e'], 'added': model['a'], 'removed': removed, 'updated': model['u'], 'moved': model['m'], 'copied': model['c'] + model['o'], 'restored': model['r']}
            for k3, v3 in lk.items(): mine[k3] += v3
            if mine != counts:
                stats['counter_mismatch'] += 1
                race = all(mine[k] == counts[k] for k in ('equal', 'removed', 'moved', 'restored')) and not seqscan
                if not race:
                    problem = '[counters] diff counts %s, the sequential Lean scan model (same walk order%s) %s' % (counts, ', disks one after the other' if seqscan else '', mine)
                else:
                    stats['copy_race_seen'] = stats.get('copy_race_seen', 0) + 1
        # ---- changed files are re-read rather than trusted: state recorded right after the scan
        if not problem and rng.chance(1, 2):
            work = root + '.w'
            shutil.copytree(a.root, work, symlinks=True)
            r0 = a.cmd('sync', '--test-kill-after-sync', '--force-empty', '--force-zero', opts=opts)
            if r0.rc == 0 and os.path.exists(a.contents[0]):
                # the content now on disk is the one written right after the scan (the final write is skipped)
                dec2 = fx.decode(a)
                if dec2.ok:
                    srcs = set()
                    # a recorded file renamed since (found again by its inode under another path) is a source under its NEW name
                    byino = {}
                    for dd_ in a.disks:
                        for dp_, dn_, fn_ in os.walk(a.ddir(dd_)):
                            for n_ in fn_:
                                q_ = os.path.join(dp_, n_)
                                if os.path.isfile(q_) and not os.path.islink(q_): byino.setdefault((dd_, os.lstat(q_).st_ino), set()).add(os.fsencode(n_))
                    for f in dec.files:
                        if f['size'] > 0 and all(b[1] == 'b' for b in f['blocks']):
                            srcs.add((os.path.basename(f['sub']), f['size'], f['sec'], f['nsec']))
                            for n_ in byino.get((dec.maps[f['mapping']][0].decode('latin-1'), f['inode']), ()):
                                srcs.add((n_, f['size'], f['sec'], f['nsec']))
                    for disk in a.disks:
                        kn = set((f['size'], f['sec'], (f['nsec'] - 1) if f['nsec'] else 0) for f in dec.files if dec.maps[f['mapping']][0].decode('latin-1') == disk)
                        for f in dec2.files:
                            if dec2.maps[f['mapping']][0].decode('latin-1') != disk: continue
                            stamp = (f['size'], f['sec'], (f['nsec'] - 1) if f['nsec'] else 0)
                            if stamp not in kn and f['size'] > 0:
                                stats['reread_checked'] += 1
                                kinds = set(b[1] for b in f['blocks'])
                                if 'b' in kinds:
                                    problem = '[trusted-changed] the scan keeps blocks of %s/%r as synced although no recorded file of the disk has its size and time-stamp %s' % (disk, f['sub'], stamp)
                                elif 'p' in kinds and (os.path.basename(f['sub']), f['size'], f['sec'], f['nsec']) not in srcs:
                                    problem = '[copy-without-source] %s/%r inherits hashes (REP) but no fully synced file with its name, size and time-stamp was recorded' % (disk, f['sub'])
                    # nothing changed on the disks since that scan: diff must exit 2 exactly when that sync was incomplete
                    inc2 = any(b[1] != 'b' for f in dec2.files for b in f['blocks']) or any(dd for dd in dec2.deleted.values())
                    d3 = a.cmd('diff', opts=opts)
                    stats['incomplete_diffs'] = stats.get('incomplete_diffs', 0) + (1 if inc2 else 0)
                    fs_diff = sum(int(d3.summary(k) or 0) for k in ('added', 'removed', 'updated', 'moved', 'copied', 'restored'))
                    if not problem and d3.rc in (0, 2) and fs_diff == 0 and d3.rc != (2 if inc2 else 0):
                        problem = '[incomplete-sync-verdict] with no file-system difference and the previous sync %s, diff exits %d' % ('incomplete (blocks without parity recorded)' if inc2 else 'complete', d3.rc)
            shutil.rmtree(a.root); shutil.copytree(work, a.root, symlinks=True); shutil.rmtree(work)
        if problem:
            out.append(('%s; %s' % (problem, desc), '%s\n%s\nhistory:\n%s' % (problem, desc, '\n'.join(s.history)))); break
        # ---- sync, then convergence
        r = s.sync(opts=opts)
        if r.rc != 0:
            # a refusal by an interlock is handled by Sim.sync; anything else is a failed sync: no claim
            stats['failed_syncs'] += 1
            continue
        stats['syncs'] += 1
        d2 = s.run('diff', opts=opts)
        if d2.rc != 0:
            problem = 'after a successful sync diff exits %d (%s)' % (d2.rc, {k: d2.summary(k) for k in ('added', 'removed', 'updated', 'moved', 'copied', 'restored')})
        else:
            lst = a.cmd('list', opts=opts)
            files, links = present_files(a)
            got = set(); gotl = set()
            for t in lst.tags:
                p = t.split(':')
                if p[0] == 'file': got.add((p[1], e2e.unesc_tag(p[2]), int(p[3]), int(p[4]), int(p[5])))
                elif p[0].startswith('link_symlink'): gotl.add((p[1], e2e.unesc_tag(p[2]), e2e.unesc_tag(p[3])))
            want = set((dd, x[0], x[1], x[2], x[3]) for dd in a.disks for x in files[dd] if x[5] == 1)
            wantl = set((dd, k3, v) for dd in a.disks for k3, v in links[dd].items())
            if not hardlinks and got != want:
                problem = 'list after sync differs from the files present: %s' % sorted(got ^ want)[:3]
            elif gotl != wantl:
                problem = 'links listed after sync differ from the links present: %s' % sorted(gotl ^ wantl)[:3]
            else:
                c = a.cmd('check', opts=opts)
                if c.rc != 0:
                    problem = 'check fails after a successful sync (exit %d)' % c.rc
        if problem:
            out.append(('%s; %s' % (problem, desc), '%s\n%s\nhistory:\n%s' % (problem, desc, '\n'.join(s.history)))); break
    a.destroy()
    return out or None

def copy_chain(exe, root, seed, stats):
    """a copy with preserved time-stamp (provisional hashes), an incomplete sync that does not reach it, a time-stamp-only
    change or identical rewrite of the copy, then a successful sync: diff must exit 0, list must match, check must pass"""
    rng = e2e.Rng(seed)
    a = e2e.Arr(root, exe, ndisks=2 + rng.below(2), nparity=1 + rng.below(2), ncontent=1, hashsize=rng.choice([16, 8]))
    s = sim.Sim(a, rng.fork(), weird_names=False)
    s.populate(2 + rng.below(3))
    big = rng.bytes(a.block * (3 + rng.below(6)) + rng.below(2) * 33)
    t0 = s.tick()
    a.write('d1', 'big.bin', big, t0)
    if s.sync().rc != 0:
        a.destroy(); return None
    dst = rng.choice(['d2/big.bin', 'd2/copies/big.bin', 'd1/copies/big.bin'])
    dd, drel = dst.split('/', 1)
    a.write(dd, drel, big, t0); s.log('cp -p d1/big.bin %s' % dst)
    how = rng.below(3)
    if how == 0: s.run('sync', '--test-run', 'touch "%s"' % a.path('d1', 'big.bin'))
    elif how == 1: s.run('sync', '-B', '1')
    else: s.run('sync', '--test-run', 'touch "%s"' % a.path(dd, drel))
    k = rng.below(3)
    p = a.path(dd, drel)
    if k == 0:
        t = s.tick(); os.utime(p, ns=(t, t)); s.log('touch %s' % dst)
    elif k == 1:
        os.unlink(p); a.write(dd, drel, big, s.tick()); s.log('recreate %s with the same bytes' % dst)
    else:
        with open(p, 'r+b') as f: f.write(big)
        t = s.tick(); os.utime(p, ns=(t, t)); s.log('rewrite %s in place with the same bytes' % dst)
    stats['copy_chains'] = stats.get('copy_chains', 0) + 1
    r = s.sync()
    if r.rc != 0:
        r = s.sync()
    cfg = 'copy-chain ndisks=%d nparity=%d hashsize=%d seed=%d' % (a.ndisks, a.nparity, a.hashsize, seed)
    problem = None
    if r.rc == 0:
        d = s.run('diff')
        if d.rc != 0:
            problem = '[copy-chain] after a successful sync diff exits %d' % d.rc
        else:
            c = a.cmd('check')
            if c.rc != 0:
                problem = '[copy-chain] check fails after a successful sync (exit %d): %s' % (c.rc, [t for t in c.tags if t.startswith('error') or t.startswith('parity_error')][:3])
    hist = '\n'.join(s.history)
    a.destroy()
    return [('%s; %s' % (problem, cfg), '%s\n%s\nhistory:\n%s' % (problem, cfg, hist))] if problem else None

def restore_links(exe, root, seed, stats):
    """files with hard links (and symlinks beside them) restored from a backup: same paths, sizes and time-stamps, NEW inodes
    (cp -a back), some of them only partly (one name of a pair), in every scan order, with and without usable inodes: after
    the sync diff must exit 0, list must show exactly the files and links present, check must pass"""
    rng = e2e.Rng(seed)
    order = rng.choice(['--test-force-order-alpha', '--test-force-order-inode', '--test-force-order-dir', '--test-force-order-physical'])
    opts = [o for o in e2e.BASE_OPTS if not o.startswith('--test-force-order')] + [order]
    if rng.chance(1, 4): opts = [o for o in opts if o != '--test-fake-uuid']
    a = e2e.Arr(root, exe, ndisks=1 + rng.below(2), nparity=1, ncontent=1, hashsize=16)
    s = sim.Sim(a, rng.fork(), weird_names=False)
    s.populate(2)
    groups = []
    for g in range(1 + rng.below(3)):
        d = rng.choice(a.disks)
        names = rng.choice([['a_first', 'z_link'], ['z_first', 'a_link'], ['m/a', 'm/b', 'c'], ['k1', 'k2']])
        names = ['hl%d/%s' % (g, n) for n in names]
        a.write(d, names[0], rng.bytes(1 + rng.below(3 * a.block)), s.tick())
        for n in names[1:]:
            os.makedirs(os.path.dirname(a.path(d, n)), exist_ok=True)
            os.link(a.path(d, names[0]), a.path(d, n))
        if rng.chance(1, 2): os.symlink('a_first', a.path(d, 'hl%d/sym' % g))
        groups.append((d, names))
    if s.sync(opts=opts).rc != 0:
        a.destroy(); return None
    for d, names in groups:
        k = rng.below(4)
        src = a.path(d, names[0]); st = os.stat(src); data = open(src, 'rb').read()
        if k == 3: continue
        order_n = names if rng.chance(1, 2) else names[::-1]
        # the new copy is written while the old inode still exists, so that it cannot get the same inode number
        tmpn = a.path(d, 'hl_restore.tmp')
        with open(tmpn, 'wb') as f: f.write(data)
        os.utime(tmpn, ns=(st.st_mtime_ns, st.st_mtime_ns))
        for n in names: os.unlink(a.path(d, n))
        os.rename(tmpn, a.path(d, order_n[0]))
        if k == 0:        # the whole group comes back as hard links of the new inode
            for n in order_n[1:]: os.link(a.path(d, order_n[0]), a.path(d, n))
            s.log('group %s restored with a new inode (first created: %s)' % (names, order_n[0]))
        elif k == 1:      # every name comes back as an independent file (the backup did not keep hard links)
            keepino = open(a.path(d, 'hl_keep.tmp'), 'wb'); keepino.close()
            for n in order_n[1:]:
                with open(a.path(d, n), 'wb') as f: f.write(data)
                os.utime(a.path(d, n), ns=(st.st_mtime_ns, st.st_mtime_ns))
            os.unlink(a.path(d, 'hl_keep.tmp'))
            s.log('group %s restored as independent files' % names)
        else:             # only one name comes back
            s.log('group %s: only %s restored' % (names, order_n[0]))
    stats['restore_links'] = stats.get('restore_links', 0) + 1
    r = s.sync(opts=opts)
    cfg = 'restore-links ndisks=%d order=%s uuid=%s seed=%d' % (a.ndisks, order.split('-')[-1], '--test-fake-uuid' in opts, seed)
    problem = None
    if r.rc == 0:
        d2 = s.run('diff', opts=opts)
        if d2.rc != 0:
            problem = '[restore-links] after a successful sync diff exits %d (%s)' % (d2.rc, {k: d2.summary(k) for k in ('added', 'removed', 'updated', 'moved', 'copied', 'restored')})
        else:
            lst = a.cmd('list', opts=opts)
            nfile = sum(1 for t in lst.tags if t.startswith('file:'))
            nlink = sum(1 for t in lst.tags if t.startswith('link_'))
            # every inode of the disks is one file record, every further name of it and every symlink one link record
            want_f = want_l = 0
            for d in a.disks:
                seen = set()
                for dp, dn, fn in os.walk(a.ddir(d)):
                    for n in fn:
                        q = os.path.join(dp, n); stq = os.lstat(q)
                        if os.path.islink(q): want_l += 1
                        elif stq.st_ino in seen: want_l += 1
                        else: seen.add(stq.st_ino); want_f += 1
            if (nfile, nlink) != (want_f, want_l):
                problem = '[restore-links] list after sync shows %d files and %d links, the disks hold %d files and %d links (hard links and symlinks)' % (nfile, nlink, want_f, want_l)
            else:
                c = a.cmd('check', opts=opts)
                if c.rc != 0: problem = '[restore-links] check fails after a successful sync (exit %d)' % c.rc
    hist = '\n'.join(s.history)
    a.destroy()
    return [('%s; %s' % (problem, cfg), '%s\n%s\nhistory:\n%s' % (problem, cfg, hist))] if problem else None

def links_only_disk(exe, root, seed, stats):
    """a data disk that holds links and empty directories but not a single regular file (now, or after its files were
    removed): after the sync diff exits 0 and list shows every link"""
    rng = e2e.Rng(seed)
    a = e2e.Arr(root, exe, ndisks=2 + rng.below(2), nparity=1, ncontent=1, hashsize=16)
    s = sim.Sim(a, rng.fork(), weird_names=False)
    lonely = rng.choice(a.disks)
    for d in a.disks:
        if d != lonely or rng.chance(1, 2):
            a.write(d, 'f', rng.bytes(1 + rng.below(3 * a.block)), s.tick())
    os.symlink('somewhere', a.path(lonely, 'lnk1'))
    os.makedirs(a.path(lonely, 'dir'), exist_ok=True); os.symlink('../lnk1', a.path(lonely, 'dir/lnk2'))
    if rng.chance(1, 2): os.makedirs(a.path(lonely, 'emptydir'), exist_ok=True)
    problem = None
    cfg = 'links-only-disk ndisks=%d lonely=%s seed=%d' % (a.ndisks, lonely, seed)
    for rnd in range(3):
        r = s.sync()
        if r.rc != 0: break
        stats['links_only'] = stats.get('links_only', 0) + 1
        d2 = s.run('diff')
        if d2.rc != 0:
            problem = '[links-only-disk] after a successful sync (round %d) diff exits %d (%s)' % (rnd, d2.rc, {k: d2.summary(k) for k in ('added', 'removed', 'updated')}); break
        lst = a.cmd('list')
        nl = sum(1 for t in lst.tags if t.startswith('link_') and (':%s:' % lonely) in t)
        if nl != 2:
            problem = '[links-only-disk] list shows %d links of disk %s, it holds 2' % (nl, lonely); break
        if rnd == 0 and os.path.exists(a.path(lonely, 'f')):
            os.unlink(a.path(lonely, 'f')); s.log('%s/f removed: the disk now holds only links and directories' % lonely)
        elif rnd == 1:
            a.write(rng.choice([d for d in a.disks if d != lonely]), 'g', rng.bytes(100), s.tick())
    hist = '\n'.join(s.history)
    a.destroy()
    return [('%s; %s' % (problem, cfg), '%s\n%s\nhistory:\n%s' % (problem, cfg, hist))] if problem else None

def main(tier, seed):
    chk = vlib.Check('C11', 'proof', tier, seed)
    chk.assumptions = ['the classification model covers regular files; hardlinks, links and empty directories are judged by the end-to-end predicates only',
                       'the per-class diff counters of the binary are compared with the model but a mismatch alone is recorded, not reported (scan processes entries incrementally: with swapped names / reused inodes the same change set can be counted as move+update or remove+add); exit status, convergence and list equality are the decided predicates']
    ok, log = vlib.ensure_lean_built()
    chk.oblig('lake build', ok, log[-300:])
    hits = vlib.forbidden_tokens()
    chk.oblig('no sorry/admit/axiom/native_decide in library', not hits, '; '.join(hits))
    okA, ax, out = vlib.axioms_audit(STATIC_THEOREMS, ['SnapraidVerif.Props.C11'])
    chk.axioms.update(ax)
    for t in STATIC_THEOREMS:
        chk.oblig('axiom audit: ' + t, ax.get(t) is not None and all(x in vlib.STD_AXIOMS for x in ax[t]), str(ax.get(t)))
    try:
        exe = vlib.build_snapraid()
    except vlib.BuildError as e:
        chk.violation('build of /repo failed: ' + str(e)[:300], str(e), False, 'build'); chk.finish()
    n = 48 if tier == 'quick' else 500
    stats = {'diffs': 0, 'syncs': 0, 'failed_syncs': 0, 'classes': {}, 'counter_mismatch': 0, 'reread_checked': 0}
    def job(i):
        return scenario(exe, os.path.join(vlib.scratch(), 'sc%d' % i), seed * 100000 + 99000 + i, stats)
    ncc = 24 if tier == 'quick' else 240
    with ThreadPoolExecutor(vlib.NCPU) as ex:
        res = list(ex.map(job, range(n))) + list(ex.map(lambda i: copy_chain(exe, os.path.join(vlib.scratch(), 'cc%d' % i), seed * 100000 + 99500 + i, stats), range(ncc))) + list(ex.map(lambda i: restore_links(exe, os.path.join(vlib.scratch(), 'rl%d' % i), seed * 100000 + 99700 + i, stats), range(ncc))) + list(ex.map(lambda i: links_only_disk(exe, os.path.join(vlib.scratch(), 'lo%d' % i), seed * 100000 + 99800 + i, stats), range(8 if tier == 'quick' else 80)))
    k = 0
    for r in res:
        if r:
            k += 1
            if k <= 4:
                chk.violation('C11 ' + r[0][0], r[0][1], True, 'scan')
    for o in chk.obligations:
        if not o[1]:
            chk.violation('C11 static obligation failed: ' + o[0], o[0] + '\n' + o[2], False, 'static')
    chk.evaluations = stats['diffs'] + stats['syncs']
    chk.distinct = stats['diffs']
    chk.rule = ('%d arrays x 4 rounds of 0-5 operations {create, overwrite same size, append, truncate, delete, rename, move across disks, copy, copy-over, touch, file->dir, file->link, swapped names, delete+create, link retarget} under a random scan order (alpha/inode/dir/physical) with or without usable UUIDs; diff must exit 2 exactly when the Lean classification of the walk against the decoded content finds a non-equal entry, a removed file, a link change or an incomplete previous sync; after a successful sync diff exits 0, list equals the files/links present with sizes and time-stamps, check passes; plus copy-chain and restore-links families (hard-linked groups and symlinks restored from a backup with new inodes: whole, as independent files, or one name only)' % n)
    chk.samples = [dict(stats)]
    chk.corr['E2E-SCAN'] = dict(stats)
    chk.finish()

def replay(path):
    print(open(path).read()[:8000]); return 0
