"""C16  Arrays written by the reference version stay readable and repairable."""
import os, json, shutil, tarfile, vlib, e2e, sim, raidcommon, fixcommon as fx, mk_golden
from concurrent.futures import ThreadPoolExecutor

STATIC_THEOREMS = [
    'SnapraidVerif.Props.C16.murmur3_empty',
    'SnapraidVerif.Props.C16.murmur3_abc',
    'SnapraidVerif.Props.C16.crc32c_check',
    'SnapraidVerif.Props.C16.cauchy_head',
    'SnapraidVerif.Props.C16.power_head',
    'SnapraidVerif.Codec.b32_roundtrip',
    'SnapraidVerif.Props.C09.crc_detects_byte',
]

G = os.path.join(vlib.VERIF, 'golden')

def vectors(leaf, stats):
    gold = {}
    for line in open(os.path.join(G, 'vectors.txt')):
        k, v = line.rstrip('\n').rsplit(' ', 1)
        gold[k] = v
    reqs, keys = [], []
    for n in range(0, 1101):
        d = mk_golden.data_for(n, n % 7)
        for si, sd in enumerate(mk_golden.SEEDS):
            for kind in (1, 2):
                reqs.append('hash %d %s %s' % (kind, sd.hex(), d.hex() if d else '-')); keys.append('h %d %d %d' % (kind, si, n))
        reqs.append('crc %s' % (d.hex() if d else '-')); keys.append('c %d' % n)
    cur, rc, err = vlib.leaf_query(leaf, reqs)
    lean_reqs = [('crc32c ' + q.split(' ', 1)[1]).replace('crc32c -', 'crc32c') if q.startswith('crc') else q for q in reqs]
    lean = vlib.driver_query(lean_reqs)
    problems = []
    for k, q, c, l in zip(keys, reqs, cur, lean):
        stats['vectors'] += 1
        g = gold.get(k)
        if k.startswith('c'):
            vals = dict(x.split('=') for x in c.split(' '))
            for variant, v in vals.items():
                if v != g:
                    problems.append(('crc32c (%s variant) of the %s-byte vector is %s, the reference version gives %s' % (variant, k.split(' ')[1], v, g), q[:3000]))
            if l != g:
                problems.append(('Lean crc32c differs from the golden vector for length %s' % k.split(' ')[1], q[:3000]))
        else:
            _, kind, si, n = k.split(' ')
            if c != g:
                problems.append(('%s digest of the %s-byte vector (seed #%s) is %s, the reference version gives %s' % ('murmur3' if kind == '1' else 'spooky2', n, si, c, g), q[:3000]))
            if l != g:
                problems.append(('Lean %s model differs from the golden vector for length %s seed #%s' % ('murmur3' if kind == '1' else 'spooky2', n, si), q[:3000]))
        if len(problems) > 3:
            break
    return problems

def golden_array(exe, spec, variant, stats):
    name = spec['name']
    root = os.path.join(vlib.scratch(), 'g_%s_%d' % (name, variant))
    os.makedirs(root, exist_ok=True)
    with tarfile.open(os.path.join(G, name + '.tar.gz')) as t:
        t.extractall(root)
    aroot = os.path.join(root, name)
    mt = json.load(open(os.path.join(G, name + '.mtimes.json')))
    for rel, ns in mt.items():
        p = os.path.join(aroot, rel)
        if os.path.exists(p):
            os.utime(p, ns=(ns, ns))
    a = e2e.Arr(aroot, exe, ndisks=spec['ndisks'], nparity=spec['nparity'], hashsize=spec['hashsize'], ncontent=1, splits=spec['splits'], zmode=spec['zmode'])
    if variant == 1:
        # same configuration, parity lines in another order (their order in the file is free)
        lines = open(a.conf).read().split('\n')
        par = [l for l in lines if 'parity ' in l.split('/')[0]]
        rest = [l for l in lines if l not in par]
        par = par[1:] + par[:1] if len(par) > 1 else par
        if spec['zmode']:
            z = [l for l in par if l.startswith('z-parity')]; o = [l for l in par if not l.startswith('z-parity')]
            par = o[:1] + z + o[1:]
        open(a.conf, 'w').write('\n'.join(rest[:1] + par + rest[1:]) + '\n')
    lim = ['--test-parity-limit=%d' % spec.get('limit', 9000)] if spec['splits'] > 1 else []
    problems = []
    tag = '%s (%s)' % (name, 'parity lines reordered' if variant else 'standard config')
    # the Lean decoder reads the golden content exactly as recorded when it was produced
    dump = e2e.lean_decode([a.content_bytes(0)], a.block)[0][0].raw
    want = open(os.path.join(G, name + '.dump')).read().rstrip('\n')
    stats['arrays'] += 1
    if dump != want:
        problems.append(('%s: the Lean decoder no longer reads the golden content file as recorded' % tag, dump[:1500]))
    snap = a.snapshot()
    # the standard-config variant runs the commands the way users do: WITH the start-up self test (the harness default
    # skips it for speed); the self test must not leave anything behind that changes how the array is read
    opts = [o for o in e2e.BASE_OPTS if o != '--test-skip-self'] if variant == 0 else None
    r = a.cmd('check', *lim, opts=opts)
    if r.rc != 0:
        problems.append(('%s: check of the array written by the reference version fails (exit %d): %s' % (tag, r.rc, [t for t in r.tags if 'error' in t][:3]), r.out[-800:]))
    else:
        # lose as many data disks as there are parities (at most all but ... every disk), rebuild from golden parity
        lost = a.disks[:min(spec['nparity'], len(a.disks))]
        for d in lost: fx.wipe_disk(a, d)
        f = a.cmd('fix', *lim, opts=opts)
        diffs = fx.compare_snapshot(a, snap)
        stats['rebuilds'] += 1
        if diffs or f.rc != 0:
            problems.append(('%s: disks %s not rebuilt from the reference parity (fix exit %d): %s' % (tag, lost, f.rc, diffs[:2]), f.out[-800:]))
    shutil.rmtree(root, ignore_errors=True)
    return problems

def main(tier, seed):
    chk = vlib.Check('C16', 'translation_validation', tier, seed)
    chk.assumptions = ['"all future versions" can only mean the version in /repo at each run', 'golden artefacts were produced once by the pinned reference build (tools/mk_golden.py) and are never regenerated by a check',
                       'MetroHash is compiled in but never selected by any command: not covered']
    ok, log = vlib.ensure_lean_built()
    chk.oblig('lake build', ok, log[-300:])
    hits = vlib.forbidden_tokens()
    chk.oblig('no sorry/admit/axiom/native_decide in library', not hits, '; '.join(hits))
    okA, ax, out = vlib.axioms_audit(STATIC_THEOREMS, ['SnapraidVerif.Props.C16', 'SnapraidVerif.Props.C09', 'SnapraidVerif.Codec.Varint'])
    chk.axioms.update(ax)
    for t in STATIC_THEOREMS:
        chk.oblig('axiom audit: ' + t, ax.get(t) is not None and all(x in vlib.STD_AXIOMS for x in ax[t]), str(ax.get(t)))
    failed_tables = raidcommon.table_obligations(chk)
    try:
        exe = vlib.build_snapraid(); leaf = vlib.build_leaf_harness()
    except vlib.BuildError as e:
        chk.violation('build of /repo failed: ' + str(e)[:300], str(e), False, 'build'); chk.finish()
    stats = {'vectors': 0, 'arrays': 0, 'rebuilds': 0}
    specs = json.load(open(os.path.join(G, 'arrays.json')))
    jobs = [('vec', None, 0)] + [('arr', s, v) for s in specs for v in (0, 1)]
    def job(j):
        kind, spec, v = j
        if kind == 'vec':
            return vectors(leaf, stats)
        return golden_array(exe, spec, v, stats)
    with ThreadPoolExecutor(vlib.NCPU) as ex:
        res = list(ex.map(job, jobs))
    k = 0
    found = False
    for r in res:
        for text, body in (r or [])[:2]:
            k += 1; found = True
            if k <= 5:
                chk.violation('C16 ' + text, body, True, 'stable')
    for name in failed_tables:
        if not found:
            chk.violation('C16 obligation no longer checks: ' + name, name, False, 'oblig')
    for o in chk.obligations:
        if not o[1] and (o[0].startswith('lake') or o[0].startswith('axiom') or o[0].startswith('no sorry')):
            chk.violation('C16 static obligation failed: ' + o[0], o[0] + '\n' + o[2], False, 'static')
    chk.evaluations = stats['vectors'] + stats['arrays'] + stats['rebuilds']
    chk.distinct = stats['vectors']
    chk.extra.update({'programs': 3 + len(specs), 'disagreements_checked': chk.evaluations,
                      'explanation': 'programs = murmur3, spooky2, crc32c (2 variants) and %d golden arrays' % len(specs)})
    chk.rule = ('digests of murmur3 and spooky2 for every length 0..1100 x 4 seeds and CRC-32C (table, SSE4.2 and chained) for every length 0..1100: current build = vendored vectors of the reference build = Lean executable model; %d golden arrays (both hash kinds, hash sizes 4/8/16, 1..6 parities, z-mode, split parity, content v2/v3, one array half way through a rehash with both hash kinds and seeds live) x 2 configuration line orders (one of them with the start-up self test enabled): Lean decode equals the recorded dump, check passes, min(np, nd) wiped disks are rebuilt from the golden parity byte for byte; generator tables re-proved against the definition' % len(specs))
    chk.samples = [dict(stats)]
    chk.corr['STABLE'] = dict(stats)
    chk.finish()

def replay(path):
    print(open(path).read()[:8000]); return 0
