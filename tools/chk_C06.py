"""C06  Stripes recorded as synced always have valid parity (runtime check of the invariant
with an independent oracle after every command of generated histories)."""
import os, vlib, e2e, sim, fixcommon as fx

STATIC_THEOREMS = [
    'SnapraidVerif.Props.C06.inv_init',
    'SnapraidVerif.Props.C06.inv_step',
    'SnapraidVerif.Props.C06.inv_reachable',
    'SnapraidVerif.Props.C06.extent_wf_alloc',
    'SnapraidVerif.Alloc.allocFile_spec',
    'SnapraidVerif.Alloc.alloc_two_disjoint',
    'SnapraidVerif.Alloc.removeAt_blocks',
]

def commands(rng, s):
    """one random command of the history grammar; returns (name, result)"""
    a = s.arr
    k = rng.below(20)
    if getattr(s, 'churn', False):
        k = rng.choice([0, 0, 5, 5, 5, 8, 9, 14])
    if k < 5:
        return 'sync', s.sync()
    if k < 8:
        return 'sync -B', s.sync('-B', str(1 + rng.below(3)))
    if k < 9:
        return 'sync -S -B', s.sync('-S', str(rng.below(4)), '-B', str(1 + rng.below(3)))
    if k < 11:
        return 'sync kill', s.sync('--test-kill-after-sync')
    if k < 12:
        return 'sync -h', s.sync('-h')
    if k < 13:
        return 'sync -F', s.sync('-F')
    if k < 14:
        return 'sync -R', s.sync('-R')
    if k < 15:
        return 'sync autosave', s.sync('--test-force-autosave-at', str(1 + rng.below(6)))
    if k < 17:
        plan = rng.choice(['full', 'new', 'bad', '50', '100'])
        return 'scrub', s.run('scrub', '-p', plan, *(['-o', '0'] if plan.isdigit() else []))
    if k < 18:
        return 'fix', s.run('fix', *rng.choice([[], ['-e'], ['-f', 'base0/'], ['-d', a.disks[0]]]))
    if k < 19:
        return 'touch', s.run('touch')
    return 'rehash', s.run('rehash')

def one_history(exe, root, seed, steps, chk, stats):
    rng = e2e.Rng(seed)
    a = e2e.Arr(root, exe, ndisks=1 + rng.below(4), nparity=1 + rng.below(4) if rng.chance(3, 4) else 1 + rng.below(6),
                hashsize=rng.choice([16, 16, 8, 4, 2]), splits=rng.choice([1, 1, 1, 2, 3]), ncontent=1 + rng.below(3),
                zmode=False)
    if a.nparity == 3 and rng.chance(1, 3):
        a.zmode = True; a.write_conf()
    s = sim.Sim(a, rng.fork())
    s.populate(3 + rng.below(3))
    s.churn = rng.chance(1, 2)
    s.resurrect = (seed % 3 == 0)      # a third of the histories: deleted files come back with the same bytes
    force = rng.choice([[], ['--test-force-murmur3'], ['--test-force-spooky2']])
    r = s.sync(*force)
    for step in range(steps):
        s.fs_random(1 + rng.below(5))
        heal = None
        if rng.chance(1, 5):
            # a silent error: one byte of a file changes, size and time-stamp stay (the harness keeps the recorded bytes)
            # only in files that are recorded and fully hashed as they are now: changing a file that was never read by a
            # sync is not a silent error, it is just other content
            fl = []
            if os.path.exists(a.contents[0]):
                dsil = fx.decode(a)
                if dsil.ok:
                    for f in dsil.files:
                        dn = dsil.maps[f['mapping']][0].decode('latin-1'); rel = os.fsdecode(f['sub']); pth = a.path(dn, rel)
                        if f['size'] > 0 and all(b[1] == 'b' for b in f['blocks']) and os.path.isfile(pth) and not os.path.islink(pth):
                            stq = os.stat(pth)
                            if stq.st_size == f['size'] and stq.st_mtime_ns == f['sec'] * 10**9 + max(0, f['nsec'] - 1) and f['nsec'] != 0:
                                fl.append((dn, rel))
            if fl:
                s.remember()
                d0, r0 = rng.choice(fl); p0 = a.path(d0, r0); st0 = os.stat(p0)
                with open(p0, 'r+b') as f:
                    off = rng.below(st0.st_size); f.seek(off); c = f.read(1); f.seek(off); f.write(bytes([c[0] ^ (1 << rng.below(8))]))
                os.utime(p0, ns=(st0.st_mtime_ns, st0.st_mtime_ns))
                s.log('silent error in %s/%r at offset %d (for the next command only)' % (d0, r0, off)); stats['silent_errors'] = stats.get('silent_errors', 0) + 1
                heal = (p0, off, c, st0)
        name, r = commands(rng, s)
        if heal:
            # the error is taken back after the command (the harness tracks file versions by path, size and time-stamp: a
            # corrupted file that is later moved or copied would be taken for a new version)
            p0, off, c, st0 = heal
            if os.path.isfile(p0) and not os.path.islink(p0) and os.stat(p0).st_size == st0.st_size and os.stat(p0).st_mtime_ns == st0.st_mtime_ns:
                with open(p0, 'r+b') as f: f.seek(off); f.write(c)
                os.utime(p0, ns=(st0.st_mtime_ns, st0.st_mtime_ns))
            heal = None
        stats['commands'][name] = stats['commands'].get(name, 0) + 1
        if not os.path.exists(a.contents[0]):
            continue
        blobs = [open(c, 'rb').read() for c in a.contents if os.path.exists(c)]
        pr, st = s.invariant_problems()
        for k2, v in st.items():
            stats[k2] = stats.get(k2, 0) + v
        if pr:
            hist = '\n'.join(s.history)
            cfg = 'ndisks=%d nparity=%d hashsize=%d splits=%d zmode=%s seed=%d' % (a.ndisks, a.nparity, a.hashsize, a.splits, a.zmode, seed)
            a.destroy()
            return ('after command %r (%s): %s' % (name, cfg, pr[0]), 'config: %s\nproblems:\n%s\nhistory:\n%s' % (cfg, '\n'.join(pr[:10]), hist))
    a.destroy()
    return None

def ranged_fix(exe, root, seed, stats):
    """fix restricted to a block range (-S/-B) on a fully synced array, healthy or with one silently changed block inside or
    outside the range: afterwards the parity files still hold every synced stripe and the C06 invariant holds.  (Ranged fix
    is kept out of the random histories: on files changed since the sync it leaves files that carry the recorded time-stamp
    with other bytes in the blocks outside the range, which the harness cannot follow through later moves and copies.)"""
    rng = e2e.Rng(seed)
    a = e2e.Arr(root, exe, ndisks=1 + rng.below(3), nparity=1 + rng.below(3), hashsize=rng.choice([16, 8]), splits=rng.choice([1, 1, 2, 3]), ncontent=1)
    s = sim.Sim(a, rng.fork(), weird_names=False)
    s.populate(3 + rng.below(3))
    if s.sync().rc != 0:
        a.destroy(); return None
    dec = fx.decode(a)
    if rng.chance(1, 2):
        lay = fx.Layout(a, dec)
        if lay.blocks: fx.flip_data_block(a, rng, rng.choice(lay.blocks))
    args = rng.choice([['-S', str(rng.below(3)), '-B', str(1 + rng.below(3))], ['-B', str(1 + rng.below(4))], ['-S', str(max(0, dec.blockmax - 2))]])
    r = a.cmd('fix', *args)
    stats['ranged_fix'] = stats.get('ranged_fix', 0) + 1
    pr, st = s.invariant_problems()
    cfg = 'ranged-fix ndisks=%d nparity=%d splits=%d blockmax=%d args=%s seed=%d' % (a.ndisks, a.nparity, a.splits, dec.blockmax, ' '.join(args), seed)
    a.destroy()
    if pr:
        return ('after fix %s on a synced array (%s): %s' % (' '.join(args), cfg, pr[0]), cfg + '\n' + '\n'.join(pr[:10]))
    return None

def comeback_history(exe, root, seed, stats):
    """parity updated but the state not saved, then the old bytes come back: files are deleted (or rewritten), a
    sync updates the parity and dies before the final content save, the deleted files return with the same bytes
    (same or new time-stamp), a plain sync follows.  The recorded DELETED/past hashes then describe data the parity
    no longer holds; every stripe recorded as synced must still have parity = gen(data)"""
    rng = e2e.Rng(seed)
    a = e2e.Arr(root, exe, ndisks=2 + rng.below(3), nparity=1 + rng.below(3), hashsize=rng.choice([16, 16, 8]), ncontent=1)
    s = sim.Sim(a, rng.fork(), weird_names=False)
    s.populate(3 + rng.below(3))
    if s.sync().rc != 0:
        a.destroy(); return None
    files = [(d, rel) for d, rel in s.existing_files() if os.path.getsize(a.path(d, rel)) > 0]
    if not files:
        a.destroy(); return None
    victims = []
    for _ in range(1 + rng.below(3)):
        d, rel = rng.choice(files)
        if (d, rel) in [v[:2] for v in victims]: continue
        p = a.path(d, rel)
        victims.append((d, rel, a.read(d, rel), os.stat(p).st_mtime_ns))
        os.unlink(p); s.log('delete %s/%r' % (d, rel))
    how = rng.choice(['kill-after-sync', 'kill-after-sync', 'partial-then-kill'])
    if how == 'partial-then-kill':
        s.run('sync', '-B', str(1 + rng.below(3)), '--force-empty')
    s.run('sync', '--test-kill-after-sync', '--force-empty')
    for d, rel, data, mt in victims:
        same = rng.chance(1, 2)
        a.write(d, rel, data, mt if same else s.tick()); s.log('%s/%r comes back with the same bytes (%s time-stamp)' % (d, rel, 'same' if same else 'new'))
    if rng.chance(1, 3): s.fs_create()
    r = s.run('sync', '--force-empty')
    stats['comeback'] = stats.get('comeback', 0) + 1
    cfg = 'comeback ndisks=%d nparity=%d hashsize=%d seed=%d' % (a.ndisks, a.nparity, a.hashsize, seed)
    pr, st = s.invariant_problems()
    res = None
    if pr:
        res = ('after the final sync (%s): %s' % (cfg, pr[0]), 'config: %s\nproblems:\n%s\nhistory:\n%s' % (cfg, '\n'.join(pr[:10]), '\n'.join(s.history)))
    elif r.rc == 0:
        c = a.cmd('check')
        if c.rc != 0:
            res = ('check fails after a successful sync (%s): exit %d' % (cfg, c.rc), 'config: %s\n%s\nhistory:\n%s' % (cfg, c.out[-800:], '\n'.join(s.history)))
    a.destroy()
    return res

def main(tier, seed):
    chk = vlib.Check('C06', 'proof', tier, seed)
    chk.assumptions = ['fault-free histories (faults are C08, crashes C07)', 'version store keyed by (disk, path, size, mtime): the harness never changes a file without a new mtime']
    ok, log = vlib.ensure_lean_built()
    chk.oblig('lake build', ok, log[-300:])
    hits = vlib.forbidden_tokens()
    chk.oblig('no sorry/admit/axiom/native_decide in library', not hits, '; '.join(hits))
    okA, ax, out = vlib.axioms_audit(STATIC_THEOREMS, ['SnapraidVerif.Props.C06', 'SnapraidVerif.Array.Alloc'])
    chk.axioms.update(ax)
    for t in STATIC_THEOREMS:
        chk.oblig('axiom audit: ' + t, ax.get(t) is not None and all(x in vlib.STD_AXIOMS for x in ax[t]), str(ax.get(t)))
    try:
        exe = vlib.build_snapraid()
    except vlib.BuildError as e:
        chk.violation('build of /repo failed: ' + str(e)[:300], str(e), False, 'build'); chk.finish()
    nhist = 160 if tier == "quick" else 1200
    steps = 10 if tier == "quick" else 14
    stats = {'commands': {}}
    from concurrent.futures import ThreadPoolExecutor
    def job(i):
        return i, one_history(exe, os.path.join(vlib.scratch(), 'h%d' % i), seed * 100000 + i, steps, chk, stats)
    ncb = 32 if tier == 'quick' else 300
    def job2(i):
        return nhist + i, comeback_history(exe, os.path.join(vlib.scratch(), 'cb%d' % i), seed * 100000 + 7000 + i, stats)
    nem = 24 if tier == 'quick' else 200
    def job3(i):
        # a disk loses every file while its extent reaches beyond all live files, partial sync saves the state
        # (shared with C10: the reloaded state must still describe what the parity holds)
        import chk_C10
        return nhist + ncb + i, chk_C10.emptied_disk_history(exe, os.path.join(vlib.scratch(), 'em%d' % i), seed * 100000 + 8000 + i, stats)
    with ThreadPoolExecutor(vlib.NCPU) as ex:
        res = list(ex.map(job, range(nhist))) + list(ex.map(job2, range(ncb))) + list(ex.map(job3, range(nem))) + list(ex.map(lambda i: (nhist + ncb + nem + i, ranged_fix(exe, os.path.join(vlib.scratch(), 'rf%d' % i), seed * 100000 + 9000 + i, stats)), range(24 if tier == 'quick' else 240)))
    nbad = 0
    for i, r in res:
        if r:
            nbad += 1
            if nbad <= 3:
                chk.violation('C06 invariant broken in history %d: %s' % (i, r[0]), r[1], True, 'hist%d' % i)
    for o in chk.obligations:
        if not o[1]:
            chk.violation('C06 static obligation failed: ' + o[0], o[0] + '\n' + o[2], False, 'static')
    chk.evaluations = stats.get('checked_levels', 0)
    chk.distinct = stats.get('synced_stripes', 0)
    chk.rule = ('%d seeded histories x %d commands from {sync, -B, -S -B, kill-after-sync, -h, -F, -R, forced autosave, scrub, fix (filtered), touch, rehash} interleaved with 1-5 random file operations; after EVERY command the content file is decoded by the Lean decoder and, for every stripe whose allocated blocks are all BLK, parity of every level is recomputed by the Lean genSpec from the harness version store and compared with the parity files; extent well-formedness checked on the decoded map. plus %d emptied-disk histories (partial sync -E -B k after a disk lost all its files) and %d come-back histories (files deleted, parity updated by a sync killed before the content save, the same bytes restored, plain sync). evaluations = stripe-levels compared, distinct_nontrivial = fully synced stripes examined; the histories include silent errors (one byte of a fully hashed file, for one command); plus directed fixes restricted to a block range on fully synced arrays' % (nhist, steps, nem, ncb))
    chk.samples = [dict(stats)]
    chk.corr['E2E-INV'] = {k: v for k, v in stats.items() if k != 'commands'}
    chk.extra['command_distribution'] = stats['commands']
    chk.finish()

def replay(path):
    print(open(path).read()[:6000]); return 0
