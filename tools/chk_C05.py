"""C05  Fix never silently leaves or produces wrong data."""
import os, shutil, stat, vlib, e2e, sim, fixcommon as fx
from concurrent.futures import ThreadPoolExecutor

STATIC_THEOREMS = [
    'SnapraidVerif.Props.C01.accepted_is_recorded',
    'SnapraidVerif.Props.C05.fix_never_wrong_partial',
    'SnapraidVerif.Props.C05.zero_past_sound',
    'SnapraidVerif.Props.C05.lost_never_trusted',
    'SnapraidVerif.Props.C05.c05_counter_skip',
    'SnapraidVerif.Props.C05.c05_counter_length',
]

def file_state(a):
    """(disk, rel) -> (bytes, mtime_ns) for regular files, incl. *.unrecoverable"""
    out = {}
    for d in a.disks:
        base = a.ddir(d)
        for dp, dn, fn in os.walk(base):
            for n in fn:
                p = os.path.join(dp, n)
                st = os.lstat(p)
                if stat.S_ISREG(st.st_mode):
                    with open(p, 'rb') as f:
                        out[(d, os.fsencode(os.path.relpath(p, base)))] = (f.read(), st.st_mtime_ns)
    return out

def oracle(a, s, dec, before, after, res, selected, fixargs, pre):
    """returns list of problem strings"""
    probs = []
    maps = [m[0].decode('latin-1') for m in dec.maps]
    unrec = set(); recov = set()
    for t in res.tags:
        p = t.split(':')
        if p[0] == 'status' and len(p) >= 4:
            key = (p[2], e2e.unesc_tag(p[3]))
            if p[1] == 'unrecoverable': unrec.add(key)
            elif p[1] == 'recovered': recov.add(key)
    recorded = set()
    for f in dec.files:
        disk = maps[f['mapping']]
        key = (disk, f['sub'])
        recorded.add(key)
        want = s.file_version(disk, f)
        now = after.get(key)
        sel = selected(disk, f['sub'], key in before)
        if not sel:
            # never written: identical bytes and time-stamp, or identically absent
            if before.get(key) != now:
                probs.append('UNSELECTED recorded file %s/%r was written by fix %s' % (disk, f['sub'], ' '.join(fixargs)))
            continue
        if want is None:
            continue   # version unknown to the harness (invalid nsec): no verdict
        if pre.get(key) is None or pre[key][0] != want:
            # before the damage the disk did not hold the recorded version (file changed since the content was
            # saved, e.g. the last sync was refused): that is an unsynced change, not damage; only the
            # "reported recovered with other bytes" clause applies
            if key in recov and (now is None or now[0] != want):
                probs.append('%s/%r reported RECOVERED but holds other bytes than the recorded version' % (disk, f['sub']))
            continue
        if key in recov and (now is None or now[0] != want):
            probs.append('%s/%r reported RECOVERED but holds other bytes than the recorded version (size %s vs %d)' % (disk, f['sub'], len(now[0]) if now else None, len(want)))
        elif now is not None and now[0] != want and key not in unrec:
            # left under its name with other content and not reported
            if before.get(key) == now:
                # fix did not touch it: it must at least not claim success for it
                if res.rc == 0:
                    probs.append('%s/%r holds other bytes than the recorded version, fix left it under its name, reported nothing and exited 0' % (disk, f['sub']))
            else:
                probs.append('%s/%r was rewritten by fix with bytes that are not the recorded version and is not reported unrecoverable' % (disk, f['sub']))
        elif now is None and key not in unrec and res.rc == 0:
            if (disk, f['sub'] + b'.unrecoverable') not in after:
                probs.append('%s/%r is missing after fix, not reported unrecoverable, exit 0' % (disk, f['sub']))
    if unrec and res.rc == 0:
        probs.append('files reported unrecoverable but fix exits 0')
    eu = res.summary('error_unrecoverable')
    if unrec and eu in (None, '0'):
        probs.append('files reported unrecoverable but not counted in the summary')
    # unknown files are never written
    for key, v in before.items():
        if key not in recorded and not key[1].endswith(b'.unrecoverable'):
            if after.get(key) != v:
                probs.append('file %s/%r unknown to the content file was modified by fix' % key)
    return probs

def scenario(exe, root, seed, stats):
    rng = e2e.Rng(seed)
    a, s = fx.build_array(exe, root, rng, clean=False, weird=False, track=True)
    # more interrupted / skipped-stripe history
    churn_hist = rng.chance(1, 2)
    for _ in range((2 + rng.below(4)) if churn_hist else (1 + rng.below(3))):
        s.churn = churn_hist or rng.chance(1, 2)
        if os.path.exists(a.contents[0]):
            s.set_focus(fx.decode(a))
        s.fs_random(1 + rng.below(4))
        k = rng.choice([0, 0, 1, 1, 2]) if churn_hist else rng.below(7)
        if k == 0: s.sync('-B', str(1 + rng.below(3)))
        elif k == 1: s.sync('-S', str(rng.below(5)), '-B', str(1 + rng.below(3)))
        elif k == 2: s.sync('--test-kill-after-sync')
        elif k == 3:
            # a file disappears / changes while the sync runs: its stripes are skipped
            files = s.existing_files()
            if files:
                d, rel = rng.choice(files)
                p = a.path(d, rel)
                cmdline = rng.choice(['mv "%s" "%s.moved"' % (p, p), 'echo x >> "%s"' % p])
                r = s.run('sync', '--test-run', cmdline)
                stats['skipped_syncs'] += 1
                if os.path.exists(p + '.moved'):
                    os.rename(p + '.moved', p)
        elif k == 4: s.sync('-h')
        else: s.sync()
    if not os.path.exists(a.contents[0]):
        a.destroy(); return None
    s.remember()
    dec = fx.decode(a)
    if not dec.ok:
        a.destroy(); return None
    lay = fx.Layout(a, dec)
    N = a.nparity
    cfg = 'ndisks=%d nparity=%d zmode=%s hashsize=%d splits=%d seed=%d' % (a.ndisks, N, a.zmode, a.hashsize, a.splits, seed)
    backup = root + '.bak'
    shutil.copytree(a.root, backup, symlinks=True)
    pre = file_state(a)
    out = []
    for rep in range(3):
        shutil.rmtree(a.root); shutil.copytree(backup, a.root, symlinks=True)
        desc = []
        # detectable damage on ANY number of devices
        for (d, rel) in s.existing_files():
            m = rng.below(10)
            p = a.path(d, rel); st = os.lstat(p)
            if m == 0:
                os.unlink(p); desc.append('%s/%r deleted' % (d, rel))
            elif m == 1 and st.st_size > 1:
                with open(p, 'r+b') as f: f.truncate(rng.below(st.st_size))
                desc.append('%s/%r truncated' % (d, rel))
            elif m == 2:
                for b in lay.blocks:
                    if b['disk'] == d and os.fsdecode(b['sub']) == rel and b['kind'] in ('b', 'p') and rng.chance(1, 2):
                        # only blocks with a recorded hash of the recorded version, and only if the file on disk IS the recorded version
                        v = s.file_version(d, b['file'])
                        if v is not None and v == open(p, 'rb').read():
                            if fx.flip_data_block(a, rng, b): desc.append('%s/%r block %d silently changed' % (d, rel, b['idx']))
        if rng.chance(1, 3):
            d = rng.choice(a.disks); fx.wipe_disk(a, d); desc.append('disk %s lost' % d)
        for l in range(N):
            m = rng.below(6)
            if m == 0:
                fx.remove_parity(a, l); desc.append('parity %d lost' % l)
            elif m == 1:
                for pos in range(dec.blockmax):
                    if rng.chance(1, 3): fx.flip_parity_block(a, rng, l, pos)
                desc.append('parity %d partly stale/corrupted' % l)
        # an unknown file (never synced)
        unk = a.path(rng.choice(a.disks), 'unknown_%d.bin' % rep)
        os.makedirs(os.path.dirname(unk), exist_ok=True)
        with open(unk, 'wb') as f: f.write(rng.bytes(100))
        before = file_state(a)
        # filters
        fk = rng.below(6)
        if fk == 0:
            dsel = rng.choice(a.disks); fixargs = ['-d', dsel]
            selected = lambda disk, sub, present: disk == dsel
        elif fk == 1:
            pat = rng.choice(['base0/', 'base1/', 'sub/'])
            fixargs = ['-f', pat]
            selected = lambda disk, sub, present: sub.startswith(pat.encode())
        elif fk == 2:
            fixargs = ['-m']
            selected = lambda disk, sub, present: not present
        else:
            fixargs = []
            selected = lambda disk, sub, present: True
        r = a.cmd('fix', *fixargs)
        # a fix that dies with a fatal error ("... disappeared. If you moved it, please rerun the same command")
        # has not completed: it is an interrupted fix (C07) and is rerun as its message asks; the verdict is
        # taken on the run that completes (has a summary:exit tag), merging the reports of the aborted runs
        reruns = 0
        tags_all = list(r.tags)
        while 'rerun the same command' in r.out and reruns < 3:
            reruns += 1
            stats['aborted_fix_reruns'] = stats.get('aborted_fix_reruns', 0) + 1
            r = a.cmd('fix', *fixargs)
            tags_all += r.tags
        if 'rerun the same command' in r.out:
            out.append(('(%s; fix %s) fix never completes: aborted %d times' % (cfg, ' '.join(fixargs), reruns + 1), r.out[-2000:]))
            break
        r.tags = tags_all + [t for t in r.tags if t.startswith('summary:')]
        after = file_state(a)
        stats['fixes'] += 1
        stats['filters'][' '.join(fixargs) and fixargs[0] or 'none'] = stats['filters'].get(' '.join(fixargs) and fixargs[0] or 'none', 0) + 1
        for t in r.tags:
            if t.startswith('status:'):
                k2 = t.split(':')[1]; stats['status'][k2] = stats['status'].get(k2, 0) + 1
        probs = oracle(a, s, dec, before, after, r, selected, fixargs, pre)
        if probs:
            ent = [t for t in r.tags if t.split(':')[0] in ('entry', 'hash_unknown', 'recover_sync', 'recover_unsync', 'fixed', 'status', 'summary', 'error', 'unrecoverable')]
            # signature: is the wrongly recovered file one whose pending (CHG) block replaces, at its parity
            # position, a block of ANOTHER length (the recorded known finding C05-length)?
            sig = 'other'
            bad_subs = set()
            for pr in probs:
                if 'reported RECOVERED' in pr or 'rewritten by fix' in pr:
                    for f in dec.files:
                        if repr(f['sub']) in pr: bad_subs.add(f['sub'])
            mism = []
            for f in dec.files:
                if f['sub'] in bad_subs:
                    col = dec.maps[f['mapping']][1]
                    for idx, (pos, kind, h) in enumerate(f['blocks']):
                        if kind == 'g':
                            oldlen = getattr(s, 'synced_len', {}).get((col, pos))
                            newlen = min(dec.block_size, f['size'] - idx * dec.block_size)
                            mism.append(oldlen is not None and oldlen != newlen)
            if mism and any(mism):
                sig = 'chg-length-mismatch'
            elif any(t.startswith('entry:') and ':change:' in t for t in ent):
                sig = 'chg'
            out.append(('(%s; fix %s) [%s] %s' % (cfg, ' '.join(fixargs), sig, probs[0]),
                        'config: %s\nfix args: %s\ndamage:\n%s\nproblems:\n%s\ntags:\n%s\nhistory:\n%s' % (cfg, fixargs, '\n'.join(desc[:50]), '\n'.join(probs[:10]), '\n'.join(ent)[:5000], '\n'.join(s.history))))
            break
    shutil.rmtree(backup, ignore_errors=True)
    a.destroy()
    return out or None

def rep_chain(exe, root, seed, stats):
    """provisional (REP) hashes that never reached the parity, then replaced again, then lost: a file synced as V0
    becomes REP with the hash of V1 (copy detection or pre-hash) while a partial sync does not reach its stripes, is
    rewritten to V2 with another partial sync, then lost.  The parity still holds V0; fix must give V2 or fail"""
    rng = e2e.Rng(seed)
    a = e2e.Arr(root, exe, ndisks=2 + rng.below(2), nparity=2 + rng.below(2), ncontent=1, hashsize=rng.choice([16, 16, 8]))
    s = sim.Sim(a, rng.fork(), weird_names=False)
    bs = a.block
    nb = 1 + rng.below(4)
    size = nb * bs - rng.below(2) * (1 + rng.below(100))
    lead = 1 + rng.below(2)
    for d in a.disks:
        for i in range(lead):
            a.write(d, 'A%d' % i, rng.bytes(bs), s.tick())
    V0, V1, V2 = rng.bytes(size), rng.bytes(size), rng.bytes(size)
    t1 = s.tick()
    a.write('d1', 'F', V0, s.tick()); a.write('d2', 'F', V1, t1)
    cfg = 'rep-chain ndisks=%d nparity=%d hashsize=%d blocks=%d lead=%d seed=%d' % (a.ndisks, a.nparity, a.hashsize, nb, lead, seed)
    if s.sync().rc != 0:
        a.destroy(); return None
    how = rng.choice(['copy', 'prehash'])
    if how == 'copy':
        a.write('d1', 'F', V1, t1); s.log('d1/F overwritten by a copy of d2/F (same stamp)')
        r = s.run('sync', '-B', str(lead))
    else:
        a.write('d1', 'F', V1, s.tick()); s.log('d1/F rewritten (V1)')
        r = s.run('sync', '-h', '-B', str(lead))
    a.write('d1', 'F', V2, s.tick()); s.log('d1/F rewritten (V2)')
    r = s.run('sync', '-B', str(lead))
    if r.rc != 0 or not os.path.exists(a.contents[0]):
        a.destroy(); return None
    dec = fx.decode(a)
    kinds = ''.join(sorted(set(b[1] for f in dec.files if f['sub'] == b'F' and dec.maps[f['mapping']][0] == b'd1' for b in f['blocks'])))
    stats['rep_chain'] = stats.get('rep_chain', 0) + 1
    stats['rep_chain_kinds'] = stats.get('rep_chain_kinds', {}); stats['rep_chain_kinds'][how + ':' + kinds] = stats['rep_chain_kinds'].get(how + ':' + kinds, 0) + 1
    os.unlink(a.path('d1', 'F')); s.log('d1/F lost')
    r = a.cmd('fix')
    p = a.path('d1', 'F')
    got = open(p, 'rb').read() if os.path.isfile(p) else None
    rec = any(t.startswith('status:recovered:d1:F') for t in r.tags)
    hist = '\n'.join(s.history)
    a.destroy()
    if got is not None and got != V2:
        which = 'V0 (two versions ago, what the parity holds)' if got == V0 else ('V1' if got == V1 else 'other bytes')
        return [('(%s) [rep-chain] fix leaves d1/F with %s instead of the recorded version, exit %d, reported recovered=%s (REP made by %s, recorded states %s)' % (cfg, which, r.rc, rec, how, kinds),
                 hist + '\n' + '\n'.join(t for t in r.tags if t.split(':')[0] in ('entry', 'hash_unknown', 'fixed', 'status', 'summary', 'unrecoverable'))[:3000])]
    if got is None and r.rc == 0:
        return [('(%s) [rep-chain] d1/F not restored but fix exits 0' % cfg, hist)]
    return None

def zero_chain(exe, root, seed, stats):
    """a ZERO past hash that outlives the parity it described: a new file V1 is synced into unused parity space by a
    sync killed before the final content save (content: pending block with the ZERO past hash, parity: V1), rewritten
    to V2, then a sync during which the file changes skips its stripes but saves the content, then the file is lost.
    The parity holds V1; fix must give V2 or fail"""
    rng = e2e.Rng(seed)
    a = e2e.Arr(root, exe, ndisks=2 + rng.below(2), nparity=2 + rng.below(2), ncontent=1, hashsize=rng.choice([16, 16, 8]))
    s = sim.Sim(a, rng.fork(), weird_names=False)
    bs = a.block
    for d in a.disks:
        a.write(d, 'A', rng.bytes(bs * (1 + rng.below(2))), s.tick())
    if s.sync().rc != 0:
        a.destroy(); return None
    nb = 1 + rng.below(3)
    size = nb * bs - rng.below(2) * (1 + rng.below(100))
    V1, V2 = rng.bytes(size), rng.bytes(size)
    d = rng.choice(a.disks)
    a.write(d, 'new', V1, s.tick()); s.log('%s/new created (V1)' % d)
    s.run('sync', '--test-kill-after-sync')
    a.write(d, 'new', V2, s.tick()); s.log('%s/new rewritten (V2)' % d)
    p = a.path(d, 'new')
    r = s.run('sync', '--test-run', 'touch "%s"' % p)
    # the touch changed the time-stamp after the scan: put the recorded one back so that the file IS the recorded version
    if not os.path.exists(a.contents[0]):
        a.destroy(); return None
    dec = fx.decode(a)
    rec = [f for f in dec.files if f['sub'] == b'new' and dec.maps[f['mapping']][0].decode() == d]
    if not rec or rec[0]['size'] != size:
        a.destroy(); return None
    kinds = ''.join(sorted(set(b[1] for b in rec[0]['blocks'])))
    stats['zero_chain'] = stats.get('zero_chain', 0) + 1
    stats['zero_chain_kinds'] = stats.get('zero_chain_kinds', {}); stats['zero_chain_kinds'][kinds] = stats['zero_chain_kinds'].get(kinds, 0) + 1
    cfg = 'zero-chain ndisks=%d nparity=%d hashsize=%d blocks=%d seed=%d' % (a.ndisks, a.nparity, a.hashsize, nb, seed)
    os.unlink(p); s.log('%s/new lost' % d)
    r = a.cmd('fix')
    got = open(p, 'rb').read() if os.path.isfile(p) else None
    rec_tag = any(t.startswith('status:recovered:%s:new' % d) for t in r.tags)
    hist = '\n'.join(s.history)
    a.destroy()
    if got is not None and got != V2:
        which = 'V1 (the version the parity holds)' if got == V1 else 'other bytes'
        return [('(%s) [zero-chain] fix leaves %s/new with %s instead of the recorded version, exit %d, reported recovered=%s (recorded states %s)' % (cfg, d, which, r.rc, rec_tag, kinds),
                 hist + '\n' + '\n'.join(t for t in r.tags if t.split(':')[0] in ('entry', 'hash_unknown', 'fixed', 'status', 'summary', 'unrecoverable'))[:3000])]
    if got is None and r.rc == 0:
        return [('(%s) [zero-chain] %s/new not restored but fix exits 0' % (cfg, d), hist)]
    return None

def lost_parity_chain(exe, root, seed, stats):
    """more failures than parity levels: a file rewritten in place (pending blocks with the hash of the PREVIOUS version as
    past hash) in stripes where the other disks hold nothing, the sync killed (or its range not reaching those stripes),
    then the file AND every parity file are lost.  fix recreates the parity files; whatever it reads from the space it has
    just created is not parity.  It must restore the recorded version or fail, never leave other bytes as recovered"""
    rng = e2e.Rng(seed)
    a = e2e.Arr(root, exe, ndisks=2 + rng.below(2), nparity=2 + rng.below(2), ncontent=1, hashsize=rng.choice([16, 16, 8]), splits=rng.choice([1, 1, 2]))
    s = sim.Sim(a, rng.fork(), weird_names=False)
    bs = a.block
    lead = 1 + rng.below(2)
    for d in a.disks:
        a.write(d, 'A', rng.bytes(bs * lead - rng.below(50)), s.tick())
    nb = 2 + rng.below(4)
    size = nb * bs - rng.below(2) * (1 + rng.below(100))
    V0, V1 = rng.bytes(size), rng.bytes(size)
    d = rng.choice(a.disks)
    a.write(d, 'big', V0, s.tick())
    if s.sync().rc != 0:
        a.destroy(); return None
    how = rng.choice(['kill', 'range', 'new-kill'])
    if how == 'new-kill':
        # a brand-new file instead: pending blocks with the ZERO past hash
        os.unlink(a.path(d, 'big')); s.log('%s/big removed' % d); s.sync()
        a.write(d, 'big', V1, s.tick()); s.log('%s/big created (V1)' % d)
        s.run('sync', '--test-kill-after-sync')
    else:
        with open(a.path(d, 'big'), 'r+b') as f: f.write(V1)
        t = s.tick(); os.utime(a.path(d, 'big'), ns=(t, t)); s.log('%s/big rewritten in place (V1)' % d)
        if how == 'kill': s.run('sync', '--test-kill-after-sync')
        else: s.run('sync', '-B', str(lead))
    if not os.path.exists(a.contents[0]):
        a.destroy(); return None
    dec = fx.decode(a)
    rec = [f for f in dec.files if f['sub'] == b'big' and dec.maps[f['mapping']][0].decode() == d]
    if not dec.ok or not rec or rec[0]['size'] != size:
        a.destroy(); return None
    kinds = ''.join(sorted(set(b[1] for b in rec[0]['blocks'])))
    stats['lost_parity_chain'] = stats.get('lost_parity_chain', 0) + 1
    stats['lost_parity_kinds'] = stats.get('lost_parity_kinds', {}); stats['lost_parity_kinds'][how + ':' + kinds] = stats['lost_parity_kinds'].get(how + ':' + kinds, 0) + 1
    cfg = 'lost-parity-chain ndisks=%d nparity=%d hashsize=%d splits=%d blocks=%d how=%s seed=%d' % (a.ndisks, a.nparity, a.hashsize, a.splits, nb, how, seed)
    p = a.path(d, 'big')
    os.unlink(p); s.log('%s/big lost' % d)
    keep = rng.below(3) == 0      # sometimes the first parity file survives truncated to its leading stripes only
    for l in range(a.nparity):
        for k, pf in enumerate(a.parity_files(l)):
            if not os.path.exists(pf): continue
            if keep and l == 0 and k == 0:
                with open(pf, 'r+b') as f: f.truncate(min(os.path.getsize(pf), lead * bs))
            else:
                os.unlink(pf)
    s.log('all parity files lost' + (' (the first one cut to its first %d blocks)' % lead if keep else ''))
    r = a.cmd('fix')
    got = open(p, 'rb').read() if os.path.isfile(p) else None
    rec_tag = any(t.startswith('status:recovered:%s:big' % d) for t in r.tags)
    hist = '\n'.join(s.history)
    a.destroy()
    if got is not None and got != V1:
        which = 'V0 (the previous version)' if got == V0 else ('zeros' if not any(got) else 'other bytes')
        return [('(%s) [lost-parity-chain] fix leaves %s/big with %s instead of the recorded version, exit %d, reported recovered=%s (recorded states %s)' % (cfg, d, which, r.rc, rec_tag, kinds),
                 hist + '\n' + '\n'.join(t for t in r.tags if t.split(':')[0] in ('entry', 'hash_unknown', 'fixed', 'status', 'summary', 'unrecoverable'))[:3000])]
    if got is None and r.rc == 0:
        return [('(%s) [lost-parity-chain] %s/big not restored but fix exits 0' % (cfg, d), hist)]
    return None

def rehash_chain(exe, root, seed, stats):
    """pending blocks while a hash migration is in progress: F synced with the previous hash function, `rehash` scheduled
    (nothing converted yet, or only part of the array by a partial scrub), F rewritten in place, a sync that does not reach
    its stripes (range) or is killed after the content save, then F lost.  The past hash of the pending blocks is in the
    PREVIOUS hash function and seed; the parity holds V0: fix must give V1 or fail"""
    rng = e2e.Rng(seed)
    a = e2e.Arr(root, exe, ndisks=2 + rng.below(2), nparity=2 + rng.below(2), ncontent=1, hashsize=rng.choice([16, 16, 8]))
    s = sim.Sim(a, rng.fork(), weird_names=False)
    bs = a.block
    lead = 1 + rng.below(2)
    for d in a.disks:
        a.write(d, 'A', rng.bytes(bs * lead - rng.below(50)), s.tick())
    nb = 1 + rng.below(4)
    size = nb * bs - rng.below(2) * (1 + rng.below(100))
    V0, V1 = rng.bytes(size), rng.bytes(size)
    a.write('d1', 'F', V0, s.tick())
    force = rng.choice(['--test-force-murmur3', '--test-force-spooky2'])
    if s.sync(force).rc != 0:
        a.destroy(); return None
    if a.cmd('rehash').rc != 0:
        a.destroy(); return None
    s.log('rehash scheduled')
    if rng.chance(1, 3):
        a.cmd('scrub', '-p', '30', '-o', '0'); s.log('scrub -p 30 (part of the array converted)')
    with open(a.path('d1', 'F'), 'r+b') as f: f.write(V1)
    t = s.tick(); os.utime(a.path('d1', 'F'), ns=(t, t)); s.log('d1/F rewritten in place (V1)')
    how = rng.choice(['range', 'kill'])
    if how == 'range': s.run('sync', '-B', str(lead))
    else: s.run('sync', '--test-kill-after-sync')
    if not os.path.exists(a.contents[0]):
        a.destroy(); return None
    dec = fx.decode(a)
    rec = [f for f in dec.files if f['sub'] == b'F' and dec.maps[f['mapping']][0] == b'd1'] if dec.ok else []
    if not rec or rec[0]['size'] != size:
        a.destroy(); return None
    kinds = ''.join(sorted(set(b[1] for b in rec[0]['blocks'])))
    stats['rehash_chain'] = stats.get('rehash_chain', 0) + 1
    stats['rehash_chain_kinds'] = stats.get('rehash_chain_kinds', {}); stats['rehash_chain_kinds'][how + ':' + kinds] = stats['rehash_chain_kinds'].get(how + ':' + kinds, 0) + 1
    cfg = 'rehash-chain ndisks=%d nparity=%d hashsize=%d blocks=%d first-hash=%s how=%s seed=%d' % (a.ndisks, a.nparity, a.hashsize, nb, force.split('-')[-1], how, seed)
    p = a.path('d1', 'F')
    os.unlink(p); s.log('d1/F lost')
    r = a.cmd('fix')
    got = open(p, 'rb').read() if os.path.isfile(p) else None
    rec_tag = any(t.startswith('status:recovered:d1:F') for t in r.tags)
    hist = '\n'.join(s.history)
    a.destroy()
    if got is not None and got != V1:
        # killed after the parity update: the parity holds V1 and V1 is the right answer; anything else is wrong
        which = 'V0 (the previous version)' if got == V0 else 'other bytes'
        return [('(%s) [rehash-chain] fix leaves d1/F with %s instead of the recorded version, exit %d, reported recovered=%s (recorded states %s)' % (cfg, which, r.rc, rec_tag, kinds),
                 hist + '\n' + '\n'.join(t for t in r.tags if t.split(':')[0] in ('entry', 'hash_unknown', 'fixed', 'status', 'summary', 'unrecoverable'))[:3000])]
    if got is None and r.rc == 0:
        return [('(%s) [rehash-chain] d1/F not restored but fix exits 0' % cfg, hist)]
    return None

def twin_source(exe, root, seed, stats):
    """data taken from ANOTHER file of the array (same size and time-stamp as the lost one): S is a cp -p copy of F, later one
    of its blocks other than the first changes silently; F is lost.  Every block taken from S must match the recorded hash of
    the block it replaces: F comes back with its own bytes (parity still decodes the changed block) or is unrecoverable"""
    rng = e2e.Rng(seed)
    a = e2e.Arr(root, exe, ndisks=2 + rng.below(2), nparity=1 + rng.below(2), ncontent=1, hashsize=rng.choice([16, 16, 8]))
    s = sim.Sim(a, rng.fork(), weird_names=False)
    bs = a.block
    nb = 3 + rng.below(5)
    F = rng.bytes(nb * bs - rng.below(2) * (1 + rng.below(100)))
    t = s.tick()
    td, tn = rng.choice([('d1', 'keep/A-copy.bin'), ('d1', 'keep/A-copy.bin'), ('d2', 'A.bin'), ('d2', 'other.bin')])
    a.write('d1', 'A.bin', F, t); a.write(td, tn, F, t)
    for d in a.disks: a.write(d, 'pad', rng.bytes(bs * (1 + rng.below(2))), s.tick())
    if s.sync().rc != 0:
        a.destroy(); return None
    sp = a.path(td, tn)
    st = os.stat(sp)
    bad = set()
    with open(sp, 'r+b') as f:
        for k in sorted(set(1 + rng.below(nb - 1) for _ in range(1 + rng.below(2)))):
            off = k * bs + rng.below(min(bs, len(F) - k * bs)); f.seek(off); c = f.read(1); f.seek(off); f.write(bytes([c[0] ^ 0x10])); bad.add(k)
    os.utime(sp, ns=(st.st_mtime_ns, st.st_mtime_ns))
    s.log('blocks %s of the twin %s silently changed' % (sorted(bad), sp.replace(a.root, '$A')))
    os.unlink(a.path('d1', 'A.bin')); s.log('d1/A.bin lost')
    if rng.chance(1, 2) and a.nparity >= 1:
        fx.remove_parity(a, 0); s.log('parity level 0 lost as well')
    stats['twin_source'] = stats.get('twin_source', 0) + 1
    r = a.cmd('fix')
    p = a.path('d1', 'A.bin')
    got = open(p, 'rb').read() if os.path.isfile(p) else None
    rec_tag = any(t2.startswith('status:recovered:d1:A.bin') for t2 in r.tags)
    cfg = 'twin-source ndisks=%d nparity=%d hashsize=%d blocks=%d changed=%s seed=%d' % (a.ndisks, a.nparity, a.hashsize, nb, sorted(bad), seed)
    hist = '\n'.join(s.history)
    a.destroy()
    if got is not None and got != F:
        first = next(i for i in range(min(len(got), len(F))) if got[i] != F[i]) if len(got) == len(F) else -1
        return [('(%s) [twin-source] fix leaves d1/A.bin with other bytes than recorded (first difference at byte %d), exit %d, reported recovered=%s' % (cfg, first, r.rc, rec_tag),
                 hist + '\n' + '\n'.join(t2 for t2 in r.tags if t2.split(':')[0] in ('entry', 'hash_import', 'hash_unknown', 'fixed', 'status', 'summary', 'unrecoverable'))[:3000])]
    if got is None and r.rc == 0:
        return [('(%s) [twin-source] d1/A.bin not restored but fix exits 0' % cfg, hist)]
    return None

def directed_known(exe, root, which):
    """the two hand-derived counter-histories (DESIGN section 7), replayed on the binary.
    Returns (violated: bool, text)"""
    a = e2e.Arr(root, exe, ndisks=2, nparity=2, ncontent=1)
    rng = e2e.Rng(7)
    s = sim.Sim(a, rng)
    A0 = b'A' * 1000
    a.write('d1', 'A', A0, s.tick()); a.write('d1', 'K', rng.bytes(1024), s.tick()); a.write('d2', 'B', rng.bytes(1024), s.tick())
    s.sync()
    if which == 'skip':
        new = b'N' * 1000
        a.write('d1', 'A', new, s.tick())
        pb = a.path('d2', 'B')
        s.run('sync', '--test-run', 'mv "%s" "%s.x"' % (pb, pb))
        os.rename(pb + '.x', pb)
    else:
        new = b'N' * 500
        a.write('d1', 'A', new, s.tick())
        s.run('sync', '-S', '1', '-B', '1')
    os.unlink(a.path('d1', 'A'))
    r = a.cmd('fix')
    p = a.path('d1', 'A')
    got = open(p, 'rb').read() if os.path.exists(p) else None
    rec = any(t.startswith('status:recovered:d1:A') for t in r.tags)
    a.destroy()
    violated = rec and got is not None and got != new
    return violated, 'history %s: fix exit %d, d1/A %s, reported recovered=%s' % (which, r.rc, 'holds the OLD version' if got is not None and got != new else 'ok/absent', rec)

def main(tier, seed):
    chk = vlib.Check('C05', 'proof', tier, seed)
    chk.assumptions = ['damage is "detectable" as the property quantifies it: missing/short files and content changes only in blocks with a recorded hash of the recorded version',
                       'recorded version = bytes the harness stored for (disk, path, size, mtime) of the content record']
    ok, log = vlib.ensure_lean_built()
    chk.oblig('lake build', ok, log[-300:])
    hits = vlib.forbidden_tokens()
    chk.oblig('no sorry/admit/axiom/native_decide in library', not hits, '; '.join(hits))
    okA, ax, out = vlib.axioms_audit(STATIC_THEOREMS, ['SnapraidVerif.Props.C05'])
    chk.axioms.update(ax)
    for t in STATIC_THEOREMS:
        chk.oblig('axiom audit: ' + t, ax.get(t) is not None and all(x in vlib.STD_AXIOMS for x in ax[t]), str(ax.get(t)))
    try:
        exe = vlib.build_snapraid()
    except vlib.BuildError as e:
        chk.violation('build of /repo failed: ' + str(e)[:300], str(e), False, 'build'); chk.finish()
    # the machine-checked counter-histories, replayed on the binary
    for which in ('skip', 'length'):
        v, text = directed_known(exe, os.path.join(vlib.scratch(), 'known_' + which), which)
        chk.extra['counter_history_' + which] = text
        if v:
            chk.violation('C05 [%s] pending block rebuilt from un-updated parity reported RECOVERED with the OLD bytes: counter-history C05-%s: %s' % ('chg-length-mismatch' if which == 'length' else 'chg-skip', which, text), text, True, 'known_' + which)
    n = 64 if tier == 'quick' else 600
    stats = {'fixes': 0, 'filters': {}, 'status': {}, 'skipped_syncs': 0}
    def job(i):
        return scenario(exe, os.path.join(vlib.scratch(), 'f%d' % i), seed * 100000 + 30000 + i, stats)
    nrc = 32 if tier == 'quick' else 300
    def job2(i):
        return rep_chain(exe, os.path.join(vlib.scratch(), 'rc%d' % i), seed * 100000 + 35000 + i, stats)
    with ThreadPoolExecutor(vlib.NCPU) as ex:
        res = list(ex.map(job, range(n))) + list(ex.map(job2, range(nrc))) + list(ex.map(lambda i: zero_chain(exe, os.path.join(vlib.scratch(), 'zc%d' % i), seed * 100000 + 36000 + i, stats), range(nrc))) + list(ex.map(lambda i: lost_parity_chain(exe, os.path.join(vlib.scratch(), 'lp%d' % i), seed * 100000 + 37000 + i, stats), range(nrc))) + list(ex.map(lambda i: rehash_chain(exe, os.path.join(vlib.scratch(), 'rh%d' % i), seed * 100000 + 38000 + i, stats), range(nrc))) + list(ex.map(lambda i: twin_source(exe, os.path.join(vlib.scratch(), 'tw%d' % i), seed * 100000 + 39000 + i, stats), range(nrc)))
    k = 0
    for r in res:
        if r:
            k += 1
            if k <= 4:
                chk.violation('C05 ' + r[0][0], r[0][1], True, 'fix')
    for o in chk.obligations:
        if not o[1]:
            chk.violation('C05 static obligation failed: ' + o[0], o[0] + '\n' + o[2], False, 'static')
    chk.evaluations = stats['fixes']
    chk.distinct = stats['fixes']
    chk.rule = ('%d seeded arrays with histories of complete/partial/-S -B/killed/pre-hash syncs, syncs during which a file is moved away or appended (skipped stripes), copy-detected files; then damage on any number of devices (deleted, truncated files, silently changed blocks that carry a recorded hash, lost disks, lost or partly stale parity), an unknown file added; fix with -d / -f dir / -m / no filter; oracle: every selected recorded file has the recorded bytes or is reported unrecoverable with failing exit and summary; nothing reported recovered with other bytes; unselected and unknown files byte- and mtime-identical; plus %d rep-chain histories (a synced file becomes REP by copy detection or pre-hash while a partial sync does not reach it, is rewritten again with another partial sync, then lost: fix must return the recorded version or fail) and as many zero-chain histories (a new file synced into unused parity by a sync killed before the content save, rewritten, its stripes skipped by a sync during which it changes, then lost) and as many lost-parity-chain histories (a file rewritten in place or created, the sync killed or not reaching it, then the file and EVERY parity file lost: fix recreates the parity and must not take what it has just created for parity) and as many rehash-chain histories (a file rewritten in place while a hash migration is pending, the sync not reaching it, the file lost: the past hash of its pending blocks is in the previous hash function)' % (n, nrc))
    chk.samples = [dict(stats)]
    chk.corr['E2E-FIX'] = dict(stats)
    chk.finish()

def replay(path):
    print(open(path).read()[:8000]); return 0
