"""C09  Damaged content files are rejected; content replacement is atomic."""
import os, re, shutil, hashlib, vlib, e2e, sim
from concurrent.futures import ThreadPoolExecutor

STATIC_THEOREMS = [
    'SnapraidVerif.Props.C09.crcBit_inj',
    'SnapraidVerif.Props.C09.crcStep_inj_state',
    'SnapraidVerif.Props.C09.crcStep_inj_byte',
    'SnapraidVerif.Props.C09.crc_detects_byte',
    'SnapraidVerif.Props.C09.crc_field_protects',
    'SnapraidVerif.Save.save_atomic',
    'SnapraidVerif.Save.save_verified_before_rename',
    'SnapraidVerif.Save.run_prefix',
]

def tree_digest(root, skip=()):
    h = hashlib.sha256()
    for dp, dn, fn in sorted(os.walk(root)):
        dn.sort()
        for n in sorted(fn):
            p = os.path.join(dp, n)
            if any(s in p for s in skip):
                continue
            st = os.lstat(p)
            h.update(os.fsencode(os.path.relpath(p, root))); h.update(b'|%d|%d|' % (st.st_size, st.st_mtime_ns))
            if os.path.isfile(p) and not os.path.islink(p):
                with open(p, 'rb') as f:
                    h.update(f.read())
    return h.hexdigest()

def make_array(exe, root, variant, rng):
    """variant 0: format v2 (hash 16, no split); 1: v3 with split parity + hashsize 8; 2: interrupted sync with deleted/pending blocks + links"""
    if variant == 0:
        a = e2e.Arr(root, exe, ndisks=2, nparity=1, hashsize=16, ncontent=1)
    elif variant == 1:
        a = e2e.Arr(root, exe, ndisks=3, nparity=2, hashsize=8, splits=2, ncontent=1)
    else:
        a = e2e.Arr(root, exe, ndisks=3, nparity=3, hashsize=4, ncontent=1)
    s = sim.Sim(a, rng)
    s.populate(3)
    s.sync()
    if variant == 2:
        s.fs_link(); s.fs_dir(); s.fs_random(6)
        s.sync('-B', '2')
    return a, s

SAN = ['-fsanitize=address,undefined', '-fno-sanitize-recover=undefined', '-fno-omit-frame-pointer']

def sweep(exe, root, variant, seed, tier, stats):
    rng = e2e.Rng(seed)
    a, s = make_array(exe, root, variant, rng.fork())
    orig = a.content_bytes(0)
    n = len(orig)
    muts = []
    # truncations
    trs = list(range(n)) if (tier == 'thorough' or n <= 700) else sorted(set(list(range(0, 40)) + list(range(n - 40, n)) + [rng.below(n) for _ in range(200)]))
    for k in trs:
        muts.append(('trunc', k, None))
    offs = list(range(n)) if tier == 'thorough' else sorted(set(list(range(0, 24)) + list(range(n - 8, n)) + [rng.below(n) for _ in range(260)]))
    for o in offs:
        muts.append(('bit', o, 1 << rng.below(8)))
        if tier == 'thorough':
            for b in range(8):
                muts.append(('bit', o, 1 << b))
        muts.append(('set', o, 0x00)); muts.append(('set', o, 0xff)); muts.append(('add', o, 1))
    # multi-byte random damage (exercised, not claimed detected with certainty)
    for _ in range(60):
        muts.append(('multi', rng.below(n), rng.below(1 << 30)))
    # length prefixes of the strings (names, uuids, paths, link targets) set to the boundary values of the decoder's
    # buffers: 127/128/129 and 4095/4096/4097 in the 7-bit encoding, overwriting two bytes or replacing the one-byte prefix
    cands = [o for o in range(n - 2) if orig[o] & 0x80 and 1 <= (orig[o] & 0x7f) <= 80 and o + 1 + (orig[o] & 0x7f) <= n
             and all(32 <= c < 127 for c in orig[o + 1:o + 1 + (orig[o] & 0x7f)])]
    pick = cands if tier == 'thorough' else (cands[:5] + [cands[rng.below(len(cands))] for _ in range(3)] if cands else [])
    for o in sorted(set(pick)):
        for pair in ((0x7f, 0x80), (0x00, 0x81), (0x7f, 0x9f), (0x00, 0xa0)):
            muts.append(('pair', o, pair)); muts.append(('pairins', o, pair))
    problems = []
    cmds = ['status', 'diff', 'list', 'check', 'sync', 'scrub', 'dup']
    reqs, cases = [], []
    base_digest = None
    for kind, o, v in muts:
        b = bytearray(orig)
        if kind == 'trunc':
            b = b[:o]
        elif kind == 'bit':
            b[o] ^= v
        elif kind == 'set':
            if b[o] == v: continue
            b[o] = v
        elif kind == 'add':
            b[o] = (b[o] + 1) & 0xff
        elif kind == 'pair':
            b[o], b[o + 1] = v
        elif kind == 'pairins':
            b[o:o + 1] = bytes(v)
        else:
            r2 = e2e.Rng(v)
            for _ in range(2 + r2.below(6)):
                p = (o + r2.below(64)) % n
                b[p] = r2.below(256)
            if bytes(b) == orig: continue
        b = bytes(b)
        with open(a.contents[0], 'wb') as f:
            f.write(b)
        os.utime(a.contents[0], ns=(1_600_000_000_000_000_000, 1_600_000_000_000_000_000))
        before = tree_digest(a.root, ('content.lock', '/log'))
        cmd = cmds[stats['runs'] % len(cmds)] if tier == 'thorough' or stats['runs'] % 3 == 0 else 'status'
        r = a.cmd(cmd, env={'ASAN_OPTIONS': 'detect_leaks=0:abort_on_error=0', 'UBSAN_OPTIONS': 'print_stacktrace=1'})
        after = tree_digest(a.root, ('content.lock', '/log'))
        stats['runs'] += 1
        stats['by_kind'][kind] = stats['by_kind'].get(kind, 0) + 1
        stats['by_cmd'][cmd] = stats['by_cmd'].get(cmd, 0) + 1
        desc = 'variant=%d %s offset=%d value=%s cmd=%s (content of %d bytes)' % (variant, kind, o, v, cmd, n)
        if 'AddressSanitizer' in r.out or 'runtime error:' in r.out:
            problems.append(('memory-unsafe behaviour on damaged content: ' + desc, r.out[-1500:] + '\ncontent(hex)=' + b.hex()))
        if kind not in ('multi', 'pair', 'pairins'):
            if r.rc == 0:
                problems.append(('damaged content file was LOADED (exit 0): ' + desc, 'content(hex)=' + b.hex() + '\noriginal(hex)=' + orig.hex()))
            if before != after:
                problems.append(('command modified files although the content file is damaged: ' + desc, 'content(hex)=' + b.hex()))
            reqs.append('content-dump %d %s' % (a.block, b.hex())); cases.append(desc)
        else:
            if r.rc == 0 and before != after and cmd in ('status', 'diff', 'list', 'check', 'dup'):
                problems.append(('read-only command modified files on multi-byte damaged content: ' + desc, 'content(hex)=' + b.hex()))
        if len(problems) > 3:
            break
    # the Lean decoder's verdict on the same inputs (crc_detects_byte says: reject)
    rep = vlib.driver_query(reqs) if reqs else []
    for desc, line in zip(cases, rep):
        stats['lean_verdicts'] += 1
        if line != 'reject':
            problems.append(('Lean decoder accepts a single-byte-damaged / truncated content file: ' + desc, line[:2000]))
    a.destroy()
    return problems

def parse_save_log(path, contents):
    """shim log -> list of saves, each a token list for the driver's save-accepts"""
    idx = {c + '.tmp': i for i, c in enumerate(contents)}
    saves, cur = [], []
    for line in open(path, errors='replace'):
        t = line.rstrip('\n').split(' ')
        if len(t) < 3:
            continue
        op, p = t[1], t[2]
        if p not in idx and not (op == 'rename' and p in idx):
            continue
        c = idx[p]
        kv = dict(x.split('=') for x in t[3:] if '=' in x)
        if op == 'create':
            if cur and any(x.startswith('r') for x in cur):
                saves.append(cur); cur = []
            cur.append('c%d' % c)
        elif op == 'write':
            cur.append('w%d:%s' % (c, kv.get('ret', '0')))
        elif op == 'fsync':
            cur.append('f%d' % c)
        elif op == 'close':
            # first close = writer; later closes after open-ro = verification reader
            if ('x%d' % c) not in cur[cur.index('c%d' % c) if ('c%d' % c) in cur else 0:]:
                cur.append('x%d' % c)
        elif op == 'open-ro':
            cur.append('v%d' % c)
        elif op == 'rename':
            cur.append('r%d' % c)
    if cur:
        saves.append(cur)
    return saves

def save_protocol(exe, shim, root, seed, stats):
    rng = e2e.Rng(seed)
    problems = []
    nc = 1 + rng.below(5)
    a = e2e.Arr(root, exe, ndisks=2, nparity=1 + rng.below(2), ncontent=nc, hashsize=rng.choice([16, 8]))
    s = sim.Sim(a, rng.fork()); s.populate(2)
    for step in range(3):
        lg = os.path.join(root, 'sys%d.log' % step)
        cmd, args = rng.choice([('sync', []), ('sync', ['--test-force-autosave-at', '1']), ('scrub', ['-p', 'full']), ('touch', []), ('sync', ['-F'])])
        r = a.cmd(cmd, *args, env={'LD_PRELOAD': shim, 'VERIF_LOG': lg}, uselog=False)
        if os.path.exists(lg):
            saves = parse_save_log(lg, a.contents)
            for sv in saves:
                stats['saves'] += 1
                rep = vlib.driver_query(['save-accepts ' + ' '.join(sv)])[0]
                if rep != 'accepted':
                    problems.append(('content save sequence of `%s %s` with %d copies is not an execution of the proved protocol (%s)' % (cmd, ' '.join(args), nc, rep),
                                     'ops: ' + ' '.join(sv) + '\nlog:\n' + open(lg).read().replace(root, '$A')[:6000]))
                if len([x for x in sv if x.startswith('r')]) != nc and r.rc == 0:
                    problems.append(('save did not rename all %d copies' % nc, ' '.join(sv)))
            os.unlink(lg)
        blobs = [open(c, 'rb').read() for c in a.contents if os.path.exists(c)]
        if r.rc == 0 and (len(blobs) != nc or any(b != blobs[0] for b in blobs)):
            problems.append(('after successful %s the %d content copies are not byte-identical' % (cmd, nc), ''))
        s.fs_random(3)
    a.destroy()
    return problems

def kill_sweep(exe, shim, root, seed, tier, stats):
    """kill at every state-changing call that touches a content file (before/after/mid)"""
    rng = e2e.Rng(seed)
    problems = []
    nc = 1 + rng.below(4)
    a = e2e.Arr(root, exe, ndisks=2, nparity=1, ncontent=nc)
    s = sim.Sim(a, rng.fork()); s.populate(2)
    s.sync()
    s.fs_random(3)
    backup = root + '.bak'
    shutil.copytree(a.root, backup, symlinks=True)
    old = a.content_bytes(0)
    # count calls
    cnt = os.path.join(vlib.scratch(), 'cnt%d' % seed)
    lg = os.path.join(vlib.scratch(), 'klog%d' % seed)
    a.cmd('sync', env={'LD_PRELOAD': shim, 'VERIF_COUNT': cnt, 'VERIF_LOG': lg}, uselog=False)
    total = int(re.search(r'mutating=(\d+)', open(cnt).read()).group(1))
    content_calls = set()
    for line in open(lg, errors='replace'):
        t = line.split(' ')
        if len(t) > 2 and '/content' in line and t[0].isdigit():
            content_calls.add(int(t[0]))
    os.unlink(lg)
    ks = sorted(k for k in content_calls if k >= 1)
    if tier != 'thorough' and len(ks) > 14:
        ks = sorted(set(rng.choice(ks) for _ in range(14)))
    for k in ks:
        for when in ('before', 'after', 'mid'):
            shutil.rmtree(a.root); shutil.copytree(backup, a.root, symlinks=True)
            r = a.cmd('sync', env={'LD_PRELOAD': shim, 'VERIF_KILL': '%d:%s' % (k, when)}, uselog=False)
            stats['kills'] += 1
            if r.rc != -9:
                stats['kill_not_fired'] += 1
                continue
            blobs = [open(c, 'rb').read() if os.path.exists(c) else None for c in a.contents]
            vers = set()
            for i, b in enumerate(blobs):
                if b is None:
                    problems.append(('kill %s call %d of sync: content copy %d vanished' % (when, k, i), '')); continue
                vers.add(b)
                if b == old:
                    continue
                rep = vlib.driver_query(['content-dump %d %s' % (a.block, b.hex())])[0]
                if not rep.startswith('ok '):
                    problems.append(('kill %s call %d of sync: content copy %d is neither the complete old nor a complete new file' % (when, k, i), 'bytes(hex)=' + b.hex()[:4000]))
            # a sync saves the content twice (before touching parity and at the end): during one save
            # the copies are in {version before this save, version of this save}
            if len(vers) > 2:
                problems.append(('kill %s call %d: more than two different versions among the copies' % (when, k), ''))
            r2 = a.cmd('status')
            if r2.rc != 0:
                problems.append(('after kill %s call %d of sync no valid content file can be loaded (status rc=%d)' % (when, k, r2.rc), r2.out[-800:]))
            if problems:
                break
        if problems:
            break
    shutil.rmtree(backup, ignore_errors=True)
    a.destroy()
    return problems

def silent_write_faults(exe, shim, root, seed, tier, stats):
    """the k-th write to the temporary file of one content copy silently stores a flipped bit: the copy must be
    caught by the re-read CRC verification before any rename - a failing command leaves every copy the complete
    old file, a succeeding one leaves all copies identical and loadable"""
    rng = e2e.Rng(seed)
    problems = []
    nc = 2 + rng.below(3)
    a = e2e.Arr(root, exe, ndisks=2, nparity=1, ncontent=nc)
    s = sim.Sim(a, rng.fork(), weird_names=False); s.populate(2 + rng.below(3))
    s.sync()
    s.fs_random(3)
    backup = root + '.bak'
    shutil.copytree(a.root, backup, symlinks=True)
    old = [open(c, 'rb').read() for c in a.contents]
    for ci in range(nc):
        for k in (1, 2):
            shutil.rmtree(a.root); shutil.copytree(backup, a.root, symlinks=True)
            cnt = os.path.join(vlib.scratch(), 'ccnt%d_%d_%d' % (seed, ci, k))
            sub = '/c%d/content.tmp' % ci
            # k == 1: the save made before the parity is touched (the final save is skipped so that its result stays visible)
            extra = ['--test-kill-after-sync'] if k == 1 else []
            r = a.cmd('sync', *extra, env={'LD_PRELOAD': shim, 'VERIF_CORRUPT': '%s:%d' % (sub, k), 'VERIF_COUNT': cnt}, uselog=False)
            fired = os.path.exists(cnt) and 'fired=1' in open(cnt).read()
            stats['silent_write'] = stats.get('silent_write', 0) + 1
            if not fired:
                stats['silent_write_not_fired'] = stats.get('silent_write_not_fired', 0) + 1
                continue
            blobs = [open(c, 'rb').read() if os.path.exists(c) else None for c in a.contents]
            what = 'a flipped bit silently stored by write #%d to the temporary file of content copy %d of %d' % (k, ci, nc)
            if r.rc != 0:
                # the pre-sync save failed its verification: nothing may have been replaced by the damaged file
                for i, b in enumerate(blobs):
                    if b is None or (b != old[i] and not vlib.driver_query(['content-dump %d %s' % (a.block, b.hex())])[0].startswith('ok ')):
                        problems.append(('[unverified-copy-installed] %s: sync fails (exit %d) but content copy %d is %s' % (what, r.rc, i, 'gone' if b is None else 'neither the old file nor a valid new one'), r.out[-600:]))
            else:
                bad = [i for i, b in enumerate(blobs) if b is None or not vlib.driver_query(['content-dump %d %s' % (a.block, b.hex())])[0].startswith('ok ')]
                if bad or len(set(blobs)) != 1:
                    problems.append(('[unverified-copy-installed] %s: sync exits 0 but the copies %s (damaged: %s)' % (what, 'differ' if len(set(blobs)) != 1 else 'are identical', bad), r.out[-600:]))
            if problems: break
        if problems: break
    shutil.rmtree(backup, ignore_errors=True)
    a.destroy()
    return problems

def stale_tmp_links(exe, shim, root, seed, tier, stats):
    """a left-over <content>.tmp that is a symlink or a hard link to the live content file: the new file must still
    be written beside the old one (fresh file), never through the link into the old copy"""
    rng = e2e.Rng(seed)
    problems = []
    nc = 2 + rng.below(2)
    a = e2e.Arr(root, exe, ndisks=2, nparity=1, ncontent=nc)
    s = sim.Sim(a, rng.fork(), weird_names=False); s.populate(2 + rng.below(3))
    s.sync()
    s.fs_random(2)
    backup = root + '.bak'
    shutil.copytree(a.root, backup, symlinks=True)
    old = [open(c, 'rb').read() for c in a.contents]
    for kind in ('symlink', 'hardlink', 'hardlink-kill'):
        shutil.rmtree(a.root); shutil.copytree(backup, a.root, symlinks=True)
        ci = rng.below(nc)
        tmp = a.contents[ci] + '.tmp'
        if kind == 'symlink': os.symlink('content', tmp)
        else: os.link(a.contents[ci], tmp)
        what = 'a left-over content.tmp that is a %s to the live copy %d of %d' % ('symlink' if kind == 'symlink' else 'hard link', ci, nc)
        stats['stale_tmp'] = stats.get('stale_tmp', 0) + 1
        if kind != 'hardlink-kill':
            cmd = rng.choice(['touch', 'sync'])
            r = a.cmd(cmd, uselog=False)
            blobs = [open(c, 'rb').read() if os.path.isfile(c) and not os.path.islink(c) else None for c in a.contents]
            st = a.cmd('status')
            if any(b is None for b in blobs) or st.rc != 0:
                problems.append(('[stale-tmp-link] %s: after %s (exit %d) a content copy is not a regular loadable file any more (status exit %d)' % (what, cmd, r.rc, st.rc), (r.out + st.out)[-600:]))
            elif r.rc == 0 and len(set(blobs)) != 1:
                problems.append(('[stale-tmp-link] %s: %s exits 0 but the copies differ' % (what, cmd), r.out[-400:]))
        else:
            # kill in the middle of the first write to that temporary file
            lg = os.path.join(vlib.scratch(), 'stl%d' % seed)
            a.cmd('sync', env={'LD_PRELOAD': shim, 'VERIF_LOG': lg}, uselog=False)
            k = None
            for line in open(lg, errors='replace'):
                t = line.split(' ')
                if len(t) > 2 and t[1] == 'write' and t[2].endswith('/c%d/content.tmp' % ci): k = int(t[0]); break
            os.unlink(lg)
            shutil.rmtree(a.root); shutil.copytree(backup, a.root, symlinks=True)
            os.link(a.contents[ci], tmp)
            if k is None: continue
            r = a.cmd('sync', env={'LD_PRELOAD': shim, 'VERIF_KILL': '%d:mid' % k}, uselog=False)
            if r.rc != -9: continue
            for i, c in enumerate(a.contents):
                b = open(c, 'rb').read() if os.path.isfile(c) else None
                if b is None or (b != old[i] and not vlib.driver_query(['content-dump %d %s' % (a.block, b.hex())])[0].startswith('ok ')):
                    problems.append(('[stale-tmp-link] %s: sync killed in the middle of the first write to that temporary file leaves content copy %d neither the complete old nor a complete new file' % (what, i), ''))
                    break
        if problems: break
    shutil.rmtree(backup, ignore_errors=True)
    a.destroy()
    return problems

def main(tier, seed):
    chk = vlib.Check('C09', 'proof', tier, seed)
    chk.assumptions = ['"never loaded" is a theorem for any single changed byte only through the CRC (crc_detects_byte) given the parse reaches the N record; a changed structure byte may re-segment the file, acceptance then needs a 4-byte CRC coincidence (probability 2^-32 per case, not excluded by a theorem): every swept case is decided by running the binary and the Lean decoder',
                       'memory safety on damaged input is sanitizer evidence (ASan+UBSan build), not a theorem',
                       'POSIX: rename is atomic, fsync makes preceding writes durable']
    ok, log = vlib.ensure_lean_built()
    chk.oblig('lake build', ok, log[-300:])
    hits = vlib.forbidden_tokens()
    chk.oblig('no sorry/admit/axiom/native_decide in library', not hits, '; '.join(hits))
    okA, ax, out = vlib.axioms_audit(STATIC_THEOREMS, ['SnapraidVerif.Props.C09'])
    chk.axioms.update(ax)
    for t in STATIC_THEOREMS:
        chk.oblig('axiom audit: ' + t, ax.get(t) is not None and all(x in vlib.STD_AXIOMS for x in ax[t]), str(ax.get(t)))
    try:
        exe = vlib.build_snapraid()
        exe_san = vlib.build_snapraid('asan', extra=SAN)
        shim = vlib.build_shim()
    except vlib.BuildError as e:
        chk.violation('build of /repo failed: ' + str(e)[:300], str(e), False, 'build'); chk.finish()
    stats = {'runs': 0, 'by_kind': {}, 'by_cmd': {}, 'lean_verdicts': 0, 'saves': 0, 'kills': 0, 'kill_not_fired': 0}
    jobs = []
    for v in range(3):
        jobs.append(('sweep', v))
    nsave = 6 if tier == 'quick' else 40
    nkill = 3 if tier == 'quick' else 12
    for i in range(nsave): jobs.append(('save', i))
    for i in range(nkill): jobs.append(('kill', i))
    for i in range(3 if tier == 'quick' else 20): jobs.append(('silent', i))
    for i in range(3 if tier == 'quick' else 20): jobs.append(('staletmp', i))
    def run(job):
        kind, i = job
        root = os.path.join(vlib.scratch(), '%s%d' % (kind, i))
        if kind == 'sweep':
            return kind, sweep(exe_san, root, i, seed * 1000 + i, tier, stats)
        if kind == 'save':
            return kind, save_protocol(exe, shim, root, seed * 1000 + 100 + i, stats)
        if kind == 'staletmp':
            return kind, stale_tmp_links(exe, shim, root, seed * 1000 + 400 + i, tier, stats)
        if kind == 'silent':
            return kind, silent_write_faults(exe, shim, root, seed * 1000 + 300 + i, tier, stats)
        return kind, kill_sweep(exe, shim, root, seed * 1000 + 200 + i, tier, stats)
    with ThreadPoolExecutor(vlib.NCPU) as ex:
        res = list(ex.map(run, jobs))
    n = 0
    for kind, probs in res:
        for text, body in probs[:2]:
            n += 1
            if n <= 4:
                chk.violation('C09 %s: %s' % (kind, text), body, True, kind)
    for o in chk.obligations:
        if not o[1]:
            chk.violation('C09 static obligation failed: ' + o[0], o[0] + '\n' + o[2], False, 'static')
    chk.evaluations = stats['runs'] + stats['saves'] + stats['kills']
    chk.distinct = stats['runs']
    chk.rule = ('SWEEP on 3 content shapes (v2; v3 with split parity and 8-byte hashes; interrupted sync with pending/deleted blocks, links, 4-byte hashes): every truncation length (sampled above 700 bytes in quick) and byte offsets x {one bit, 0x00, 0xFF, +1} (thorough: every offset, every bit) + multi-byte damage + string length prefixes set to the buffer boundaries of the decoder (127/128, 4095/4096); ASan+UBSan binary must exit non-zero and modify nothing, Lean decoder must reject. Save protocol: shim call logs of saves with 1..5 copies must be accepted by the proved acceptor. Kill sweep before/after/mid every content-file call of a sync. Silent write faults: a flipped bit stored by the 1st/2nd write to the temporary file of each content copy (2-4 copies) must be caught by the verification before any rename. Stale temporary files that are symlinks / hard links to the live content copy: the save must still write a fresh file beside the old one')
    chk.samples = [dict(stats)]
    chk.corr['SWEEP+SAVE+KILL'] = {k: v for k, v in stats.items()}
    chk.finish()

def replay(path):
    print(open(path).read()[:6000]); return 0
