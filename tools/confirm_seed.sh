#!/bin/bash
# confirm a seeded change: builds, passes `make check`, demo passes on clean tree and fails on changed tree
# usage: confirm_seed.sh <id> [seeddir] ; expects worktree /tmp/wt/<id> with the change applied, clean tree /tmp/wt/base built
id=$1; sd=${2:-/tmp/seed/$id}; wt=/tmp/wt/$id; log=$sd/confirm.log
{
echo "== confirm $id $(date -u +%FT%TZ)"
cd $wt || exit 1
git diff > $sd/patch.current.diff
if ! cmp -s $sd/patch.current.diff $sd/patch.diff; then echo "NOTE: worktree diff differs from patch.diff (using worktree state)"; fi
make -j8 >/dev/null 2>&1; echo "build_rc=$?"
( cd /tmp/wt/base && git -C /tmp/wt/base diff --quiet && echo base_clean=yes )
bash $sd/demo.sh /tmp/wt/base > $sd/demo.clean.out 2>&1; echo "demo_clean_rc=$?"
bash $sd/demo.sh $wt > $sd/demo.changed.out 2>&1; echo "demo_changed_rc=$?"
make check > $sd/makecheck.confirm.out 2>&1; echo "make_check_rc=$?"
tail -2 $sd/makecheck.confirm.out
} > $log 2>&1
