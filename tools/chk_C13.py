"""C13  Results do not depend on thread scheduling or I/O cache depth."""
import os, shutil, vlib, e2e, sim, fixcommon as fx
from concurrent.futures import ThreadPoolExecutor

STATIC_THEOREMS = [
    'SnapraidVerif.Ring.inv_reachable',
    'SnapraidVerif.Props.C13.caller_slot_free_of_collected_reader',
    'SnapraidVerif.Props.C13.rescheduled_slot_is_free',
    'SnapraidVerif.Props.C13.caller_slot_free_of_writers',
    'SnapraidVerif.Props.C13.scheduled_write_slot_is_free',
    'SnapraidVerif.Props.C13.caller_gets_its_own_stripe',
    'SnapraidVerif.Props.C13.writers_in_order',
    'SnapraidVerif.Props.C13.all_written_at_the_end',
    'SnapraidVerif.Props.C13.sleeping_caller_is_woken',
    'SnapraidVerif.Props.C13.no_deadlock',
    'SnapraidVerif.Props.C13.every_schedule_is_finite',
    'SnapraidVerif.Props.C13.maximal_schedule_is_final',
]

NOW = '1700000000'

def save_state(a):
    st = {}
    for p in list(a.contents) + [pf for l in range(a.nparity) for pf in a.parity_files(l)]:
        st[p] = open(p, 'rb').read() if os.path.exists(p) else None
    return st

def restore_state(a, st):
    for p, b in st.items():
        if b is None:
            if os.path.exists(p): os.unlink(p)
        else:
            with open(p, 'wb') as f: f.write(b)

def canon_content(a):
    """content decoded by the Lean decoder, without the file-system free/total block counters (statfs of the
    scratch file system changes while other scenarios run) and without the CRC that covers them"""
    if not os.path.exists(a.contents[0]): return None
    d = e2e.lean_decode([open(a.contents[0], 'rb').read()], a.block)[0][0]
    if not d.ok: return 'undecodable'
    out = []
    for rec in d.raw.split(' | '):
        t = rec.split(' ')
        if t[0] == 'M': t[3] = t[4] = '*'
        elif t[0] in ('P', 'Q'): t[2] = t[3] = '*'
        elif t[0] in ('c', 'C', 'N'): continue      # checksums over the bytes incl. the counters
        out.append(' '.join(t))
    return out

def err_set(res):
    out = set()
    for t in res.tags:
        f = t.split(':')
        if f[0] in ('error', 'parity_error', 'unrecoverable', 'error_io', 'parity_error_io', 'outofparity'):
            # drop the free-text tail after the identifying fields
            out.add(':'.join(f[:4]))
    return out

def check_trace(path, stats):
    """the hook's event trace must be a schedule of the Lean ring model; positions must be handed over in FIFO order"""
    if not os.path.exists(path):
        return None
    lines = [l for l in open(path).read().split('\n') if l]
    os.unlink(path)
    # one command can start the ring more than once (sync: hash phase uses no ring; scrub/sync once) - split at 'S'
    runs = []
    for l in lines:
        if l.startswith('S '): runs.append([])
        if runs: runs[-1].append(l)
    for ev in runs:
        hdr = ev[0].split(' ')
        n, r, w = int(hdr[1]), int(hdr[2]), int(hdr[3])
        sched = []
        caller = []
        for l in ev:
            f = l.split(' ')
            if f[0] == 'SP': sched.append(int(f[2]))
            elif f[0] == 'RN': sched.append(int(f[2])); caller.append(int(f[3]))
        stats['events'] += len(ev); stats['traces'] += 1
        for k, c in enumerate(caller):
            if c != sched[k]:
                return 'ring trace: the %d-th io_read_next hands position %d to the caller, the %d-th scheduled position is %d (N=%d)' % (k + 1, c, k + 1, sched[k], n)
        # C events: the task taken must carry the caller's position
        cur = None
        for l in ev:
            f = l.split(' ')
            if f[0] == 'RN': cur = int(f[3])
            elif f[0] == 'C' and cur is not None and int(f[3]) != cur:
                return 'ring trace: the caller at position %d takes from reader %s a task for position %s' % (cur, f[1], f[3])
            elif f[0] == 'WN' and cur is not None and int(f[2]) != cur:
                return 'ring trace: write scheduled for position %s while the caller is at %d' % (f[2], cur)
        rep = vlib.driver_query(['ring-accept %d %d %d %s' % (n, r, w, '|'.join(l.replace(' ', ',') for l in ev))])[0]
        if not rep.startswith('ok'):
            return 'ring trace not a schedule of the Lean model (N=%d R=%d W=%d): %s' % (n, r, w, rep)
        stats['spurious'] += int(rep.split('spurious=')[1].split(' ')[0])
    return None

def variants(rng):
    v = [(1, None), (3, rng.below(10**6) + 1), (4, rng.below(10**6) + 1), (5 + rng.below(120), rng.below(10**6) + 1), (128, rng.below(10**6) + 1), (3, None)]
    return v

def run_variant(a, shim, op, args, cache, yseed, trace):
    env = {'LD_PRELOAD': shim, 'VERIF_NOW': NOW}
    if yseed is not None:
        env['SNAPRAID_VERIF_YIELD'] = str(yseed)
    if cache != 1:
        env['SNAPRAID_VERIF_TRACE'] = trace
    if os.path.exists(trace): os.unlink(trace)
    return a.cmd(op, '--test-io-cache=%d' % cache, *args, env=env, timeout=180)

def compare_runs(a, shim, s, rng, op, args, stats, cfg, what):
    """same input, every cache depth and perturbed schedules: same exit, same error set, same content and parity bytes"""
    st0 = save_state(a)
    ref = None
    trace = os.path.join(a.root, 'ring.trace')
    for cache, yseed in variants(rng):
        restore_state(a, st0)
        r = run_variant(a, shim, op, args, cache, yseed, trace)
        if r.rc == -999:
            return '[hang] %s with --test-io-cache=%d (yield seed %s) did not terminate within 180 s; %s' % (op, cache, yseed, cfg)
        stats['runs'] += 1
        t = check_trace(trace, stats)
        if t:
            return '[ring-trace] %s --test-io-cache=%d (yield seed %s): %s; %s' % (op, cache, yseed, t, cfg)
        cur = dict(rc=r.rc, errs=err_set(r), content=canon_content(a),
                   parity=[a.parity_bytes(l) for l in range(a.nparity)])
        if ref is None:
            ref = cur; refdesc = 'io-cache=%d' % cache
            continue
        desc = 'io-cache=%d yield=%s' % (cache, yseed)
        if cur['rc'] != ref['rc']:
            return '[exit-differs] %s (%s): exit %d with %s, %d with %s; %s' % (op, what, ref['rc'], refdesc, cur['rc'], desc, cfg)
        if cur['errs'] != ref['errs']:
            return '[errors-differ] %s (%s): error set differs between %s and %s: %s; %s' % (op, what, refdesc, desc, sorted(cur['errs'] ^ ref['errs'])[:4], cfg)
        for l in range(a.nparity):
            if cur['parity'][l] != ref['parity'][l]:
                return '[parity-differs] %s (%s): parity level %d differs between %s and %s; %s' % (op, what, l, refdesc, desc, cfg)
        if cur['content'] != ref['content']:
            recs = [(p[:200], q[:200]) for p, q in zip(ref['content'] or [], cur['content'] or []) if p != q][:2]
            diff = 'records %s; %d/%d records' % (recs, len(ref['content'] or []), len(cur['content'] or []))
            return '[state-differs] %s (%s): content file differs between %s and %s (%s); %s' % (op, what, refdesc, desc, diff, cfg)
    return None

def scenario(exe, shim, root, seed, stats):
    rng = e2e.Rng(seed)
    a = e2e.Arr(root, exe, ndisks=1 + rng.below(4), nparity=1 + rng.below(3), ncontent=1, hashsize=rng.choice([16, 8]))
    s = sim.Sim(a, rng.fork(), weird_names=False)
    s.populate(3 + rng.below(3))
    cfg = 'ndisks=%d nparity=%d seed=%d' % (a.ndisks, a.nparity, seed)
    problem = None
    r = s.sync()
    if r.rc != 0:
        a.destroy(); return None
    # ---- sync of pending changes, with silent errors in already synced blocks of the stripes
    s.fs_random(2 + rng.below(5))
    lay = fx.Layout(a, fx.decode(a))
    blks = [b for b in lay.blocks if b['kind'] == 'b' and os.path.isfile(a.path(b['disk'], os.fsdecode(b['sub'])))
            and os.path.getsize(a.path(b['disk'], os.fsdecode(b['sub']))) == b['file']['size']
            and os.stat(a.path(b['disk'], os.fsdecode(b['sub']))).st_mtime_ns % 10**9 == (b['file']['nsec'] - 1 if b['file']['nsec'] else 0)]
    if blks and rng.chance(1, 2):
        for _ in range(1 + rng.below(2)):
            fx.flip_data_block(a, rng, rng.choice(blks)); stats['silent'] += 1
    # threads vs sequential scan on the same tree (before anything is written); the compared sync runs below scan
    # sequentially so that only the io ring varies (the scan-thread copy race is the known finding C13-scan-copy-race)
    d1 = a.cmd('diff'); d2 = a.cmd('diff', '--test-skip-multi-scan')
    c1 = {k: d1.summary(k) for k in ('equal', 'added', 'removed', 'updated', 'moved', 'copied', 'restored')}
    c2 = {k: d2.summary(k) for k in c1}
    stats['scan_pairs'] += 1
    if (d1.rc, c1) != (d2.rc, c2):
        only_copy = all(c1[k] == c2[k] for k in ('equal', 'removed', 'moved', 'restored'))
        problem = '%s diff with scan threads %s (exit %d), with sequential scan %s (exit %d); %s' % ('[scan-copy-race]' if only_copy else '[scan-order]', c1, d1.rc, c2, d2.rc, cfg)
    if not problem:
        problem = compare_runs(a, shim, s, rng.fork(), 'sync', ['--force-empty', '--force-zero', '--test-skip-multi-scan'], stats, cfg, 'pending changes%s' % (' + silent errors' if stats['silent'] else ''))
    # ---- scrub with files changed since the last sync and silent errors in synced blocks
    if not problem:
        s.fs_random(1 + rng.below(3))
        lay = fx.Layout(a, fx.decode(a))
        blks = [b for b in lay.blocks if b['kind'] == 'b' and os.path.isfile(a.path(b['disk'], os.fsdecode(b['sub'])))
                and os.path.getsize(a.path(b['disk'], os.fsdecode(b['sub']))) == b['file']['size']]
        if blks:
            for _ in range(1 + rng.below(3)):
                fx.flip_data_block(a, rng, rng.choice(blks)); stats['silent'] += 1
        if rng.chance(1, 3) and lay.by_pos:
            fx.flip_parity_block(a, rng, rng.below(a.nparity), rng.choice(sorted(lay.by_pos)))
        problem = compare_runs(a, shim, s, rng.fork(), 'scrub', ['-p', 'full'], stats, cfg, 'unsynced changes + silent errors')
    hist = '\n'.join(s.history)
    a.destroy()
    return (problem, hist) if problem else None

def directed_scan_race(exe, root):
    """KNOWN FINDING C13-scan-copy-race: same tree, two interleavings of the scan threads (forced with the
    scan-delay hook), two different classifications and sync outcomes"""
    rng = e2e.Rng(4242)
    a = e2e.Arr(root, exe, ndisks=2, nparity=1, ncontent=1)
    s = sim.Sim(a, rng.fork(), weird_names=False)
    s.populate(3)
    if s.sync().rc != 0:
        a.destroy(); return None
    d, rel = 'd1', 'base0/f2'
    data = a.read(d, rel); mt = os.stat(a.path(d, rel)).st_mtime_ns
    a.write(d, rel, rng.bytes(len(data)), s.tick())                      # modified in place: new bytes, new stamp
    a.write('d2', 'moved/f2', bytes(b ^ 0x55 for b in data), mt)         # old name/size/stamp, other bytes, on the other disk
    st0 = save_state(a)
    res = []
    for delay in ('d1:250000', 'd2:250000'):
        restore_state(a, st0)
        df = a.cmd('diff', env={'SNAPRAID_VERIF_SCANDELAY': delay})
        sy = a.cmd('sync', env={'SNAPRAID_VERIF_SCANDELAY': delay})
        res.append((delay, df.summary('copied'), df.summary('added'), sy.rc))
    a.destroy()
    if (res[0][1:], ) != (res[1][1:], ):
        return ('[scan-copy-race] d1/base0/f2 modified in place and a file with its old name, size and time-stamp (other bytes) created on d2: '
                'with the scan of d1 delayed diff counts copied=%s added=%s and sync exits %d; with the scan of d2 delayed copied=%s added=%s and sync exits %d'
                % (res[0][1], res[0][2], res[0][3], res[1][1], res[1][2], res[1][3]))
    return None

def early_stop(exe, shim, root, seed, stats):
    """early stop by a signal at some stripe, threaded rings of several depths with seeded yields: whatever the content file
    saved at the stop records as synced must be in the parity (queued parity writes are drained, not dropped), for every
    depth; the follow-up sync and check are clean"""
    import signal
    rng = e2e.Rng(seed)
    a = e2e.Arr(root, exe, ndisks=3, nparity=1 + rng.below(2), ncontent=1)
    s = sim.Sim(a, rng.fork(), weird_names=False)
    for d in a.disks:
        a.write(d, 'old', rng.bytes(1024 * (2 + rng.below(4))), s.tick())
    if s.sync().rc != 0:
        a.destroy(); return None
    for d in a.disks:
        a.write(d, 'big', rng.bytes(1024 * (150 + rng.below(100))), s.tick())
    s.remember()
    backup = root + '.bak'
    shutil.copytree(a.root, backup, symlinks=True)
    out = None
    for cache in (3, 16, 128):
        shutil.rmtree(a.root); shutil.copytree(backup, a.root, symlinks=True)
        k = 40 + rng.below(120)       # a state-changing call in the middle of the parity writes
        env = {'LD_PRELOAD': shim, 'VERIF_SIGNAL': '%d:%d' % (k, signal.SIGINT), 'SNAPRAID_VERIF_YIELD': str(rng.below(10**6) + 1)}
        r = a.cmd('sync', '--test-io-cache=%d' % cache, env=env, timeout=180)
        stats['early_stops'] = stats.get('early_stops', 0) + 1
        if not os.path.exists(a.contents[0]): continue
        pr, st = s.invariant_problems()
        if pr:
            out = ('[early-stop] after a sync stopped by SIGINT at state-changing call %d (ring of %d, exit %d): %s' % (k, cache, r.rc, pr[0]), '\n'.join(pr[:6])); break
        r2 = s.sync()
        c = a.cmd('check')
        if r2.rc == 0 and c.rc != 0:
            out = ('[early-stop] check fails (exit %d) after the sync that follows a SIGINT stop at call %d (ring of %d)' % (c.rc, k, cache), c.out[-400:]); break
    shutil.rmtree(backup, ignore_errors=True)
    a.destroy()
    return out

def main(tier, seed):
    chk = vlib.Check('C13', 'proof', tier, seed)
    chk.assumptions = ['the model`s atomic steps are the critical sections under io_mutex; condition variables are modelled by sleeping flags (a signal with no sleeper is lost, spurious wake-ups are accepted by the trace acceptor and counted)',
                       'what a worker does between two critical sections (pread/pwrite into the slot`s buffers) is not modelled: the theorems state which slot it is in, the harness checks the bytes',
                       'mono-thread mode (io_max = 1) is a different code path without ring: covered by the E2E comparison only',
                       'time is frozen for the compared runs (LD_PRELOAD shim) because the content file records the time of the sync/scrub']
    ok, log = vlib.ensure_lean_built()
    chk.oblig('lake build', ok, log[-300:])
    hits = vlib.forbidden_tokens()
    chk.oblig('no sorry/admit/axiom/native_decide in library', not hits, '; '.join(hits))
    okA, ax, out = vlib.axioms_audit(STATIC_THEOREMS, ['SnapraidVerif.Props.C13'])
    chk.axioms.update(ax)
    for t in STATIC_THEOREMS:
        chk.oblig('axiom audit: ' + t, ax.get(t) is not None and all(x in vlib.STD_AXIOMS for x in ax[t]), str(ax.get(t)))
    try:
        exe = vlib.build_snapraid(); shim = vlib.build_shim()
    except vlib.BuildError as e:
        chk.violation('build of /repo failed: ' + str(e)[:300], str(e), False, 'build'); chk.finish()
    dv = directed_scan_race(exe, os.path.join(vlib.scratch(), 'race'))
    chk.extra['directed_C13_scan_copy_race'] = dv or 'not reproduced'
    if dv:
        chk.violation('C13 ' + dv, dv, True, 'directed_race')
    n = 48 if tier == "quick" else 400
    stats = {'runs': 0, 'traces': 0, 'events': 0, 'spurious': 0, 'silent': 0, 'scan_pairs': 0}
    def job(i):
        return scenario(exe, shim, os.path.join(vlib.scratch(), 'sc%d' % i), seed * 100000 + 95000 + i, stats)
    with ThreadPoolExecutor(max(2, vlib.NCPU // 2)) as ex:
        res = list(ex.map(job, range(n)))
    for i in range(4 if tier == 'quick' else 40):
        res.append(early_stop(exe, shim, os.path.join(vlib.scratch(), 'es%d' % i), seed * 100000 + 96000 + i, stats))
    k = 0
    seen = set()
    for r in res:
        if r:
            text, body = r
            key = text.split('[')[1].split(']')[0] if '[' in text else text[:30]
            if key in seen: continue
            seen.add(key); k += 1
            if k <= 5:
                chk.violation('C13 ' + text, text + '\nhistory:\n' + body, True, 'sched')
    for o in chk.obligations:
        if not o[1]:
            chk.violation('C13 static obligation failed: ' + o[0], o[0] + '\n' + o[2], False, 'static')
    chk.evaluations = stats['runs'] + stats['scan_pairs']
    chk.distinct = stats['traces']
    chk.extra.update({'states': stats['events'], 'explanation': 'the ring protocol is proved for every N >= 3, R, W, M and every interleaving (no bound); every traced run of the binary is replayed on the model; results of sync and scrub compared across cache depths 1, 3, 4, random 5..124, 128 with seeded yields at the hand-over points'})
    chk.rule = ('%d arrays (1-4 disks, 1-3 parities) x {sync of pending changes with silent errors in synced blocks, scrub -p full with unsynced changes, silent data and parity errors} x 6 variants (--test-io-cache 1, 3, 4, random, 128 with seeded yields/sleeps at every hand-over, and 3 unperturbed): same exit status, error set, parity bytes and content bytes (time frozen); every hook trace accepted by the Lean ring model (guards, indices, signal flags) and FIFO on positions; diff with scan threads vs sequential scan; directed replay of the scan-thread copy race; syncs stopped by SIGINT in the middle of the parity writes (rings of 3, 16, 128): what the saved content records as synced is in the parity' % n)
    chk.samples = [dict(stats)]
    chk.corr['E2E-SCHED'] = dict(stats)
    chk.finish()

def replay(path):
    print(open(path).read()[:8000]); return 0
