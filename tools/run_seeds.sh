#!/bin/bash
# Applies every seeded change of /verif/seeded to /repo in turn, runs the quick check of the
# property it breaks at three seeds, and undoes it straight afterwards.  Prints one line per seed.
# (maintenance tool, not registered in MANIFEST; /repo must be clean when it starts)
cd /verif
if [ -n "$(git -C /repo status --porcelain)" ]; then echo "/repo not clean"; exit 2; fi
for d in seeded/C*/; do
  sid=$(basename $d)
  id=${sid:0:3}
  if ! git -C /repo apply --check /verif/$d/patch.diff 2>/dev/null; then echo "$sid patch does not apply"; continue; fi
  git -C /repo apply /verif/$d/patch.diff
  res=""
  for sd in ${SEEDS:-1 2 3}; do
    out=$(VERIF_SEED=$sd ./check $id --tier quick 2>&1)
    rc=$?
    tag=$(echo "$out" | grep -v KNOWN-FINDING | grep -o "\[[a-z0-9-]*\]" | head -1)
    res="$res seed$sd:rc=$rc$tag"
  done
  git -C /repo checkout -- .
  echo "$sid $res"
done
git -C /repo status --short
