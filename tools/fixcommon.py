"""Shared by C01, C04, C05: building arrays with a history, the block layout from the Lean-decoded
content file, damage operations, and oracles over fix/check/scrub results."""
import os, shutil, stat
import e2e, sim, vlib

def build_array(exe, root, rng, clean=True, nparity=None, ndisks=None, weird=True, **kw):
    """array + history; `clean`: ends with a sync after which diff reports nothing"""
    nd = ndisks or 1 + rng.below(4)
    npar = nparity or 1 + rng.below(4 if rng.chance(3, 4) else 6)
    zmode = (npar == 3 and rng.chance(1, 4))
    a = e2e.Arr(root, exe, ndisks=nd, nparity=npar, hashsize=kw.get('hashsize') or rng.choice([16, 16, 8, 4]),
                splits=kw.get('splits') or rng.choice([1, 1, 1, 2, 3]), ncontent=kw.get('ncontent') or 1 + rng.below(3), zmode=zmode)
    s = sim.Sim(a, rng.fork(), weird_names=weird)
    s.track_lengths = bool(kw.get('track'))
    s.populate(2 + rng.below(4))
    force = rng.choice([[], ['--test-force-murmur3'], ['--test-force-spooky2']])
    s.sync(*force)
    # half of the histories are rich in copies with preserved time-stamps, touches and re-touches between partial syncs
    # (provisional hashes that are replaced again before they ever reach the parity)
    s.churn = rng.chance(1, 2)
    for _ in range((2 + rng.below(3)) if s.churn else rng.below(4)):
        s.fs_random(1 + rng.below(5))
        k = rng.below(6)
        if k == 0: s.sync('-B', str(1 + rng.below(3)))
        elif k == 1: s.sync('--test-kill-after-sync')
        elif k == 2: s.sync('-R')
        else: s.sync()
    if clean:
        for _ in range(3):
            r = s.sync()
            d = s.run('diff')
            if r.rc == 0 and d.rc == 0:
                break
        else:
            return None, None
    return a, s

class Layout:
    def __init__(self, a, dec):
        self.dec = dec
        self.bs = dec.block_size
        self.maps = [(m[0].decode('latin-1'), m[1]) for m in dec.maps]
        self.blocks = []     # dict(disk, col, sub, idx, pos, kind, hash, size, file)
        for f in dec.files:
            name, col = self.maps[f['mapping']]
            for idx, (pos, kind, h) in enumerate(f['blocks']):
                self.blocks.append(dict(disk=name, col=col, sub=f['sub'], idx=idx, pos=pos, kind=kind, hash=h, file=f))
        self.by_pos = {}
        for b in self.blocks:
            self.by_pos.setdefault(b['pos'], []).append(b)

def decode(a):
    return e2e.lean_decode([a.content_bytes(0)], a.block)[0][0]

def snapshot(a):
    return a.snapshot()

# ---- damage operations -----------------------------------------------------------------

def flip_data_block(a, rng, b, shape=None):
    """silently change a data block (size and time-stamp kept)"""
    p = a.path(b['disk'], os.fsdecode(b['sub']))
    st = os.lstat(p)
    with open(p, 'rb') as f:
        data = bytearray(f.read())
    lo = b['idx'] * a.block
    hi = min(len(data), lo + a.block)
    if hi <= lo:
        return False
    shape = shape or rng.choice(['bit', 'byte', 'block', 'zero'])
    old = bytes(data[lo:hi])
    if shape == 'bit':
        o = lo + rng.below(hi - lo); data[o] ^= 1 << rng.below(8)
    elif shape == 'byte':
        o = lo + rng.below(hi - lo); data[o] = (data[o] + 1 + rng.below(255)) & 0xff
    elif shape == 'block':
        data[lo:hi] = rng.bytes(hi - lo)
    else:
        data[lo:hi] = bytes(hi - lo)
    if bytes(data[lo:hi]) == old:
        data[lo] ^= 0x80
    with open(p, 'r+b') as f:
        f.write(bytes(data))
    os.utime(p, ns=(st.st_atime_ns, st.st_mtime_ns))
    return True

def flip_parity_block(a, rng, level, pos, shape=None):
    """silently change one parity block (across split files)"""
    off = pos * a.block
    for pf in a.parity_files(level):
        if not os.path.exists(pf):
            continue
        sz = os.path.getsize(pf)
        if off < sz:
            with open(pf, 'r+b') as f:
                f.seek(off); blk = bytearray(f.read(a.block))
                if not blk:
                    return False
                shape = shape or rng.choice(['bit', 'byte', 'block'])
                if shape == 'bit':
                    blk[rng.below(len(blk))] ^= 1 << rng.below(8)
                elif shape == 'byte':
                    o = rng.below(len(blk)); blk[o] = (blk[o] + 1 + rng.below(255)) & 0xff
                else:
                    nb = rng.bytes(len(blk))
                    blk = bytearray(nb if nb != bytes(blk) else bytes(x ^ 1 for x in nb))
                f.seek(off); f.write(bytes(blk))
            return True
        off -= sz
    return False

def wipe_disk(a, d):
    base = a.ddir(d)
    for n in os.listdir(base):
        p = os.path.join(base, n)
        if os.path.isdir(p) and not os.path.islink(p):
            shutil.rmtree(p)
        else:
            os.unlink(p)

def remove_parity(a, level):
    for pf in a.parity_files(level):
        if os.path.exists(pf):
            os.unlink(pf)

# ---- comparison ------------------------------------------------------------------------

def compare_snapshot(a, snap, check_mtime=True):
    """differences between the synced snapshot and the tree now; returns list of strings"""
    now = a.snapshot()
    diffs = []
    stamps = {}
    for k, v in snap.items():
        if v[0] == 'f':
            stamps.setdefault((len(v[1]), v[2]), []).append(k)
    for k, v in snap.items():
        w = now.get(k)
        if w is None:
            diffs.append('%s/%r missing after fix' % k); continue
        if v[0] != w[0]:
            diffs.append('%s/%r changed kind' % k); continue
        if v[0] == 'f':
            if v[1] != w[1]:
                diffs.append('%s/%r has other bytes than the synced ones (len %d vs %d)' % (k[0], k[1], len(w[1]), len(v[1])))
            elif check_mtime and v[2] != w[2] and len(stamps[(len(v[1]), v[2])]) == 1:
                diffs.append('%s/%r time-stamp not restored (%d vs %d)' % (k[0], k[1], w[2], v[2]))
        elif v[0] == 'l':
            if v[1] != w[1]:
                diffs.append('%s/%r link target differs' % k)
    return diffs

def err_tags(res):
    """(data errors, parity errors) reported: sets of (pos, disk, file) and (pos, level)"""
    data, par = set(), set()
    for t in res.tags:
        if t.startswith('error:'):
            p = t.split(':')
            if len(p) >= 4 and p[1].isdigit():
                data.add((int(p[1]), p[2], e2e.unesc_tag(p[3])))
        elif t.startswith('parity_error:'):
            p = t.split(':')
            # only the verdict lines `parity_error:<pos>:<level>: Data error…`; the lines
            # `parity_error:<pos>:<lev>/<lev>:hash|parity: … mismatch` are failed recovery attempts
            if len(p) >= 4 and p[1].isdigit() and '/' not in p[2] and p[3].startswith(' Data error'):
                par.add((int(p[1]), p[2]))
    return data, par

def bad_blocks(a):
    r = a.cmd('status', '-G')
    bad = set()
    for t in r.tags:
        p = t.split(':')
        if p[0] == 'block' and len(p) >= 7 and p[5] == 'bad':
            bad.add(int(p[1]))
    return bad, r
