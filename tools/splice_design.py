"""Rebuilds section 0 of DESIGN.md from ASBUILT.part.md (maintenance tool)."""
import re, json
d=open('/verif/DESIGN.md').read()
part=open('/verif/ASBUILT.part.md').read()
# seed table
rows=['| Seed | Change (one line) | Caught by `./check Cnn` at seeds 1/2/3 |','|---|---|---|']
log={}
for l in open('/verif/seeded/round1_run.log'):
    t=l.split()
    if t and t[0].startswith('C') and len(t[0])==3: log[t[0]]=' '.join(t[1:])
for i in range(1,21):
    cid='C%02d'%i
    m=json.load(open('/verif/seeded/%s/meta.json'%cid))
    rows.append('| %s | %s | %s |' % (cid, m.get('change','').replace('|','/'), log.get(cid,'(not run)')))
part=part.replace('SEED_TABLE_PLACEHOLDER','\n'.join(rows))
if '## 0. As built' in d:
    a=d.index('## 0. As built'); b=d.index('## 1. Approach in one page')
    d=d[:a]+part+d[b:]
else:
    b=d.index('## 1. Approach in one page')
    d=d[:b]+part+d[b:]
d=d.replace("""Status: design only (round 0). No framework code exists yet; this document fixes what will be
built, what each theorem says, how every model is tied to `/repo`'s *current* source on every
run, and what is honestly out of reach of the technique.""","""Status: built. Section 0 records what exists, what was found and what is not proved;
sections 1-11 are the design written before the code (rationale, planned theorem names).
All 20 properties have a registered check; none is listed as not applicable.""")
d=d.replace("Contents\n\n1. Approach in one page","Contents\n\n0. As built: layout, trusted base, per-property level, findings, false alarms, seeded changes, hooks\n1. Approach in one page")
open('/verif/DESIGN.md','w').write(d)
print('ok', len(d.split('\n')))
