"""C19  Move, copy and import shortcuts never accept unverified data."""
import os, shutil, vlib, e2e, sim, fixcommon as fx
from concurrent.futures import ThreadPoolExecutor

STATIC_THEOREMS = [
    'SnapraidVerif.Props.C19.copy_is_provisional',
    'SnapraidVerif.Props.C19.eligible_source',
    'SnapraidVerif.Props.C19.allocate_never_blk',
    'SnapraidVerif.Props.C19.nocopy_drops_provisional',
    'SnapraidVerif.Props.C19.stripe_records_only_hashed',
    'SnapraidVerif.Props.C19.decoy_stops_stripe',
    'SnapraidVerif.Props.C19.provisional_verified_before_synced',
    'SnapraidVerif.Props.C19.prehash_mismatch_writes_nothing',
    'SnapraidVerif.Props.C19.prehashBlock_sound',
    'SnapraidVerif.Props.C19.fetch_sound',
    'SnapraidVerif.Props.C19.fetch_is_recorded',
    'SnapraidVerif.Props.C19.fetch_decoys_none',
    'SnapraidVerif.Props.C19.fetch_complete',
]

def restore(a, backup):
    shutil.rmtree(a.root); shutil.copytree(backup, a.root, symlinks=True)

def make_decoy(rng, data, bs):
    """same length, other content; returns (bytes, style)"""
    d = bytearray(data)
    style = rng.choice(['all', 'last', 'first', 'one-block'])
    if style == 'all':
        for i in range(len(d)): d[i] ^= 0x55
    elif style == 'last':
        d[-1] ^= 1
    elif style == 'first':
        d[0] ^= 0x80
    else:
        nb = (len(d) + bs - 1) // bs
        k = rng.below(nb); off = k * bs + rng.below(min(bs, len(d) - k * bs))
        d[off] ^= 0x10
    return bytes(d), style

def plant(a, s, rng, sources, stats, allow_delete=True):
    """create a file sharing name, size and time-stamp with a recorded file; returns the plant record or None"""
    d, rel, data, mt = rng.choice(sources)
    s.uniq = getattr(s, 'uniq', 0) + 1      # planted paths are never reused: the version store is keyed by (disk, path, size, stamp)
    zero_nsec = (mt % 10**9 == 0)
    others = [x for x in a.disks if x != d]
    where = rng.choice(['other-disk-same-path', 'other-disk-other-dir', 'same-disk-other-dir'])
    if zero_nsec or (not others and where != 'same-disk-other-dir'):
        where = 'other-disk-same-path' if others else None
    if where is None or (where.startswith('other') and not others): return None
    if where == 'other-disk-same-path':
        td, trel = rng.choice(others), rel
    elif where == 'other-disk-other-dir':
        td, trel = rng.choice(others), 'plant%d_%d/%s' % (rng.below(3), s.uniq, os.path.basename(rel))
    else:
        td, trel = d, 'plant%d_%d/%s' % (rng.below(3), s.uniq, os.path.basename(rel))
    p = a.path(td, trel)
    if os.path.lexists(p): return None
    # with parallel disk scanning, whether a source that is itself replaced in the same scan is still seen as a copy
    # source depends on the scan threads (recorded for C13); keep those cases for the sequential-scan arrays
    if (td, trel) in s.removed_sources and '--test-skip-multi-scan' not in a.opts: return None
    par = os.path.dirname(p)
    q = par
    while q != a.ddir(td):
        if os.path.lexists(q) and not os.path.isdir(q): return None
        q = os.path.dirname(q)
    kind = rng.choice(['decoy', 'decoy', 'copy'])
    pdata, style = (make_decoy(rng, data, a.block) if kind == 'decoy' else (data, 'same'))
    a.write(td, trel, pdata, mt)
    removed = False
    if allow_delete and rng.chance(1, 4) and os.path.exists(a.path(d, rel)):
        os.unlink(a.path(d, rel)); removed = True; s.removed_sources.add((d, rel))
    s.log('plant %s (%s) %s/%r <- name/size/stamp of %s/%r%s' % (kind, style, td, trel, d, rel, ' (source deleted)' if removed else ''))
    stats['plants'][kind] = stats['plants'].get(kind, 0) + 1
    stats['where'][where] = stats['where'].get(where, 0) + 1
    nb = (len(data) + a.block - 1) // a.block
    match = [pdata[i * a.block:(i + 1) * a.block] == data[i * a.block:(i + 1) * a.block] for i in range(nb)]
    return dict(disk=td, rel=trel, kind=kind, match=match, src=(d, rel), removed=removed, mt=mt, size=len(pdata))

def stripes_of(dec):
    """pos -> list of (disk, sub, idx, kind)"""
    lay = {}
    maps = [m[0].decode('latin-1') for m in dec.maps]
    for f in dec.files:
        for idx, (pos, kind, h) in enumerate(f['blocks']):
            lay.setdefault(pos, []).append((maps[f['mapping']], f['sub'], idx, kind))
    return lay

def sync_side(exe, a, s, rng, backup, stats, cfg):
    """decoys and true copies seen by scan and sync"""
    out = []
    dec0 = fx.decode(a)
    maps0 = [m[0].decode('latin-1') for m in dec0.maps]
    sources = []
    for f in dec0.files:
        d = maps0[f['mapping']]; rel = os.fsdecode(f['sub'])
        if f['size'] > 0 and os.path.isfile(a.path(d, rel)):
            st = os.stat(a.path(d, rel))
            if st.st_size == f['size']:
                sources.append((d, rel, a.read(d, rel), st.st_mtime_ns))
    if not sources: return out
    plants = []
    for _ in range(1 + rng.below(3)):
        pl = plant(a, s, rng, sources, stats)
        if pl: plants.append(pl)
    if rng.chance(1, 2):
        for _ in range(1 + rng.below(2)): s.fs_create()
    # an ordinary create may have replaced a planted file
    plants = [p for p in plants if os.path.isfile(a.path(p['disk'], p['rel'])) and os.stat(a.path(p['disk'], p['rel'])).st_mtime_ns == p['mt']
              and os.path.getsize(a.path(p['disk'], p['rel'])) == p['size']]
    if not plants: return out
    s.remember()
    pre = rng.chance(1, 3)
    shutil.rmtree(backup); shutil.copytree(a.root, backup, symlinks=True)
    # ---- run 1: the state the scan records (final content write skipped)
    a.cmd('sync', '--test-kill-after-sync', '--force-empty', '--force-zero', opts=a.opts)
    dec1 = fx.decode(a)
    lay1 = stripes_of(dec1)
    pmap = {(p['disk'], os.fsencode(p['rel'])): p for p in plants}
    stats['classes_planted'] = stats.get('classes_planted', {})
    for (dd, sub), p in pmap.items():
        kinds = set(k for pos, bl in lay1.items() for (d2, s2, i2, k) in bl if d2 == dd and s2 == sub)
        key = ''.join(sorted(kinds))
        stats['classes_planted'][key] = stats['classes_planted'].get(key, 0) + 1
        if 'b' in kinds:
            out.append(('(%s) [scan-records-synced] the scan records blocks of the new file %s/%r as synced (BLK) although its data was never read' % (cfg, dd, p['rel']), '\n'.join(s.history)))
            return out
    # ---- model prediction per stripe that sync processes
    deleted_pos = set()
    for m, dd in dec1.deleted.items():
        deleted_pos |= set(dd.keys())
    todo = sorted(pos for pos, bl in lay1.items() if any(k != 'b' for (_, _, _, k) in bl) or pos in deleted_pos)
    spec = []
    anymis = False
    for pos in todo:
        items = []
        for (dd, sub, idx, k) in lay1[pos]:
            p = pmap.get((dd, sub))
            m = 1
            if p is not None and not p['match'][idx]: m = 0
            if m == 0 and k in 'bp': anymis = True
            items.append('%s:%d' % ({'b': 'b', 'p': 'p'}.get(k, 'c'), m))
        if pos in deleted_pos: items.append('c:1')     # a DELETED block: nothing to verify, parity to be rewritten
        spec.append(','.join(items) if items else '-')
    if not spec: return out
    pred = vlib.driver_query(['shortcut-sync %d %s' % (1 if pre else 0, ';'.join(spec))])[0]
    # ---- run 2: the real sync from the same tree
    restore(a, backup)
    par_before = [a.parity_bytes(l) for l in range(a.nparity)]
    r = s.run('sync', *(['-h'] if pre else []), '--force-empty', '--force-zero', opts=a.opts)
    stats['syncs'] += 1
    dec2 = fx.decode(a)
    lay2 = stripes_of(dec2)
    deleted2 = set()
    for m, dd in dec2.deleted.items(): deleted2 |= set(dd.keys())
    done = ''
    for pos in todo:
        bl = lay2.get(pos, [])
        bl1 = sorted((x[0], x[1], x[2]) for x in lay1[pos]); bl2 = sorted((x[0], x[1], x[2]) for x in bl)
        if bl1 != bl2:
            stats['layout_differs'] += 1
            return out
        done += '1' if all(k == 'b' for (_, _, _, k) in bl) and pos not in deleted2 else '0'
    stats['stripes'] += len(todo)
    stats['stripes_stopped'] += pred.count('0')
    desc = 'prehash=%s stripes=%s' % (pre, ';'.join(spec))
    if done != pred:
        i = [j for j in range(len(todo)) if done[j] != pred[j]][0]
        out.append(('(%s) [stripe-verdict] stripe %d (%s) is %s by sync, the Lean model says %s; %s' % (cfg, todo[i], spec[i], 'recorded as synced' if done[i] == '1' else 'left unsynced', 'completed' if pred[i] == '1' else 'stopped (hash of the data differs from the inherited/recorded hash)', desc), '\n'.join(s.history)))
        return out
    if anymis and r.rc == 0:
        out.append(('(%s) [decoy-exit] sync exits 0 although a file with inherited hashes holds other data; %s' % (cfg, desc), r.out[-600:] + '\n' + '\n'.join(s.history)))
        return out
    if not anymis and r.rc != 0:
        out.append(('(%s) [copy-refused] sync fails (exit %d) although every planted file is a true copy; %s' % (cfg, r.rc, desc), r.out[-600:] + '\n' + '\n'.join(s.history)))
        return out
    if pre and anymis:
        par_after = [a.parity_bytes(l) for l in range(a.nparity)]
        for l in range(a.nparity):
            if par_after[l][:len(par_before[l])] != par_before[l] :
                out.append(('(%s) [prehash-parity-touched] pre-hash found a mismatch but parity level %d was modified; %s' % (cfg, l, desc), '\n'.join(s.history)))
                return out
        stats['prehash_stops'] += 1
    # every block recorded as synced holds data with the recorded hash: audit
    ca = a.cmd('check', '-a')
    for t in ca.tags:
        if t.startswith('error:'):
            f = t.split(':')
            try: pos = int(f[1])
            except ValueError: continue
            for (dd, sub, idx, k) in lay2.get(pos, []):
                if dd == f[2] and k == 'b' and e2e.unesc_tag(f[3]) == sub:
                    out.append(('(%s) [synced-wrong-hash] %s/%r block %d is recorded as synced but its data does not have the recorded hash; %s' % (cfg, dd, sub, idx, desc), '\n'.join(s.history)))
                    return out
    probs, st = s.invariant_problems(dec2)
    if probs:
        out.append(('(%s) [c06-after-decoy] %s; %s' % (cfg, probs[0], desc), '\n'.join(probs[:5]) + '\n' + '\n'.join(s.history)))
        return out
    # provisional hashes survive the failed sync and stay provisional: the same sync fails again
    if anymis and rng.chance(1, 2):
        pre2 = rng.chance(1, 2)
        if pre2:
            # other pending additions: with pre-hash the provisional hashes loaded from the content file must stop the
            # WHOLE sync again, before any parity is overwritten
            for _ in range(1 + rng.below(2)): s.fs_create()
            s.remember()
        par0 = [a.parity_bytes(l) for l in range(a.nparity)]
        r2 = s.run('sync', *(['-h'] if pre2 else []), '--force-empty', '--force-zero', opts=a.opts)
        dec3 = fx.decode(a); lay3 = stripes_of(dec3)
        bad = [pos for j, pos in enumerate(todo) if pred[j] == '0' and not pre and all(k == 'b' for (_, _, _, k) in lay3.get(pos, [('', b'', 0, 'c')]))]
        if r2.rc == 0 or bad:
            out.append(('(%s) [second-sync] a second sync after the refused one %s; %s' % (cfg, 'exits 0' if r2.rc == 0 else 'records stripe %d as synced' % bad[0], desc), '\n'.join(s.history)))
            return out
        if pre2:
            par1 = [a.parity_bytes(l) for l in range(a.nparity)]
            for l in range(a.nparity):
                if par1[l][:len(par0[l])] != par0[l]:
                    out.append(('(%s) [prehash-parity-touched] a second sync -h found the provisional hash mismatch again but parity level %d was modified; %s' % (cfg, l, desc), '\n'.join(s.history)))
                    return out
            stats['prehash_stops'] += 1
    # --force-nocopy drops the provisional hashes: the sync proceeds and the result checks
    if rng.chance(2, 3):
        r3 = s.run('sync', '--force-nocopy', '--force-empty', '--force-zero', opts=a.opts)
        c = a.cmd('check')
        if r3.rc != 0 or c.rc != 0:
            out.append(('(%s) [nocopy] sync --force-nocopy exits %d and check %d; %s' % (cfg, r3.rc, c.rc, desc), (r3.out + c.out)[-800:] + '\n' + '\n'.join(s.history)))
            return out
        stats['nocopy'] += 1
        probs, st = s.invariant_problems()
        if probs:
            out.append(('(%s) [c06-after-nocopy] %s; %s' % (cfg, probs[0], desc), '\n'.join(s.history)))
    return out

def fix_side(exe, a, s, rng, backup, stats, cfg):
    """decoys and true copies offered to check/fix through -i and through duplicates on the disks"""
    out = []
    dec0 = fx.decode(a)
    maps0 = [m[0].decode('latin-1') for m in dec0.maps]
    cands = []
    for f in dec0.files:
        d = maps0[f['mapping']]; rel = os.fsdecode(f['sub'])
        if f['size'] > 0 and all(b[1] == 'b' for b in f['blocks']) and os.path.isfile(a.path(d, rel)) and os.path.getsize(a.path(d, rel)) == f['size']:
            cands.append((d, rel))
    if not cands: return out
    snap = a.snapshot()
    d, rel = rng.choice(cands)
    data = a.read(d, rel); mt = os.stat(a.path(d, rel)).st_mtime_ns
    bs = a.block; nb = (len(data) + bs - 1) // bs
    imp = os.path.join(a.root, 'imp'); os.makedirs(imp, exist_ok=True)
    offered = []       # list of per-block match vectors
    n_c = 1 + rng.below(3)
    via = rng.choice(['import', 'array', 'both'])
    for i in range(n_c):
        kind = rng.choice(['decoy', 'decoy', 'copy'])
        pdata, style = (make_decoy(rng, data, bs) if kind == 'decoy' else (data, 'same'))
        if via == 'import' or (via == 'both' and i % 2 == 0):
            p = os.path.join(imp, 'sub%d' % rng.below(2), 'c%d_%s' % (i, os.path.basename(rel)))
            os.makedirs(os.path.dirname(p), exist_ok=True)
            with open(p, 'wb') as f: f.write(pdata)
            os.utime(p, ns=(mt, mt)); where = 'import dir'
        else:
            s.uniq = getattr(s, 'uniq', 0) + 1
            td = rng.choice(a.disks); trel = 'dup%d_%d/n%d' % (rng.below(2), s.uniq, i)
            if os.path.lexists(a.path(td, trel)): continue
            a.write(td, trel, pdata, mt); where = 'array %s/%s' % (td, trel)
        offered.append([pdata[j * bs:(j + 1) * bs] == data[j * bs:(j + 1) * bs] for j in range(nb)])
        s.log('offer %s (%s) with size/stamp of %s/%r in %s' % (kind, style, d, rel, where))
        stats['offers'][kind] = stats['offers'].get(kind, 0) + 1
    snap_new = a.snapshot()
    os.unlink(a.path(d, rel)); s.log('lose %s/%r' % (d, rel))
    parity_gone = rng.chance(2, 3)
    if parity_gone:
        for l in range(a.nparity): fx.remove_parity(a, l)
        s.log('all parity files removed')
    fetchable = all(any(o[j] for o in offered) for j in range(nb)) if offered else False
    args = ['-i', imp] if via in ('import', 'both') else []
    r = s.run('fix', *args)
    stats['fixes'] += 1
    p = a.path(d, rel)
    desc = 'via=%s parity_removed=%s candidates=%s' % (via, parity_gone, [''.join('1' if x else '0' for x in o) for o in offered])
    if os.path.isfile(p):
        got = open(p, 'rb').read()
        if got != data:
            out.append(('(%s) [fix-wrote-decoy] fix leaves %s/%r with bytes that are not the recorded ones (exit %d); %s' % (cfg, d, rel, r.rc, desc), r.out[-600:] + '\n' + '\n'.join(s.history)))
            return out
        stats['recovered'] += 1
    else:
        if r.rc == 0:
            out.append(('(%s) [fix-silent] fix exits 0 but %s/%r is not restored; %s' % (cfg, d, rel, desc), r.out[-600:] + '\n' + '\n'.join(s.history)))
            return out
        stats['unrecoverable'] += 1
    expect = fetchable or not parity_gone
    if expect != os.path.isfile(p):
        out.append(('(%s) [fetch-verdict] %s/%r is %s, the Lean fetch model (block-wise candidates with the recorded hash%s) says %s; %s' % (cfg, d, rel, 'restored' if os.path.isfile(p) else 'not restored', '' if parity_gone else ', parity intact', 'restorable' if expect else 'not restorable', desc), r.out[-600:] + '\n' + '\n'.join(s.history)))
        return out
    # nothing else was modified: the offered files and all other files keep their bytes
    now = a.snapshot()
    for k, v in snap_new.items():
        if k == (d, rel): continue
        w = now.get(k)
        if w is None or (v[0] == 'f' and (w[0] != 'f' or w[1] != v[1])):
            out.append(('(%s) [fix-touched-other] fix modified or removed %s/%r; %s' % (cfg, k[0], k[1], desc), '\n'.join(s.history)))
            return out
    return out

def stamp_side(exe, a, s, rng, stats, cfg):
    """hashes are kept without reading only for a file that keeps inode, size AND time-stamp: a file recorded with a
    whole-second time-stamp and rewritten within the same second (same size, sub-second part now non-zero) must be
    read again: after the sync its recorded hashes are those of the new bytes (check passes, fix gives the new bytes)"""
    out = []
    zs = [(d, rel) for (d, rel) in s.existing_files() if rel.startswith('zero/') and os.path.getsize(a.path(d, rel)) > 0]
    if not zs: return out
    d, rel = rng.choice(zs)
    p = a.path(d, rel); st = os.stat(p)
    newb = rng.bytes(st.st_size)
    inplace = rng.chance(1, 2)
    if inplace:
        with open(p, 'r+b') as f: f.write(newb)
    else:
        os.unlink(p)
        with open(p, 'wb') as f: f.write(newb)
    t = (st.st_mtime_ns // 10**9) * 10**9 + 1 + rng.below(999_999_998)
    os.utime(p, ns=(t, t))
    s.log('same-second rewrite of %s/%r (%s), recorded sub-second part zero' % (d, rel, 'in place' if inplace else 'new inode'))
    stats['same_second'] = stats.get('same_second', 0) + 1
    r = s.run('sync', '--force-empty', '--force-zero', opts=a.opts)
    if r.rc != 0: return out
    c = a.cmd('check')
    if c.rc != 0:
        out.append(('(%s) [stamp-trusted] a file rewritten within the second of its recorded whole-second time-stamp keeps its old hashes: check fails after a successful sync (exit %d)' % (cfg, c.rc), '\n'.join(t for t in c.tags if t.startswith('error'))[:1500] + '\n' + '\n'.join(s.history)))
        return out
    os.unlink(p)
    f = a.cmd('fix')
    got = open(p, 'rb').read() if os.path.isfile(p) else None
    if got != newb:
        out.append(('(%s) [stamp-trusted] after the sync, fix of the rewritten file %s/%r returns %s' % (cfg, d, rel, 'nothing' if got is None else 'other bytes than the ones synced'), '\n'.join(s.history)))
    return out

def scenario(exe, root, seed, stats):
    rng = e2e.Rng(seed)
    hs = rng.choice([16, 16, 8])
    a = e2e.Arr(root, exe, ndisks=1 + rng.below(3), nparity=1 + rng.below(2), ncontent=1, hashsize=hs)
    s = sim.Sim(a, rng.fork(), weird_names=False)
    a.opts = e2e.BASE_OPTS + (['--test-skip-multi-scan'] if rng.chance(1, 2) else [])
    s.removed_sources = set()
    s.populate(3 + rng.below(2))
    # some files with a zero sub-second time-stamp (copy detection then needs the full path)
    for i in range(rng.below(3)):
        d = rng.choice(a.disks)
        a.write(d, 'zero/z%d' % i, rng.bytes(1 + rng.below(4 * a.block)), (s.tick() // 10**9) * 10**9)
    r = s.sync()
    cfg = 'ndisks=%d nparity=%d hashsize=%d scan=%s seed=%d' % (a.ndisks, a.nparity, hs, 'sequential' if len(a.opts) > len(e2e.BASE_OPTS) else 'threads', seed)
    out = []
    if r.rc != 0:
        a.destroy(); return None
    # optionally: sources that are themselves not fully hashed (recorded as CHG by an interrupted sync)
    if rng.chance(1, 3):
        for _ in range(1 + rng.below(2)): s.fs_create()
        s.run('sync', '--test-kill-after-sync')
        stats['pending_sources'] += 1
    backup = root + '.bak'
    shutil.copytree(a.root, backup, symlinks=True)
    s.remember(); base_store = dict(s.store)
    for rnd in range(3):
        side = rng.choice(['sync', 'sync', 'fix', 'stamp'])
        if rnd: restore(a, backup)
        s.removed_sources = set()
        s.store = dict(base_store)      # versions of other rounds are gone with the restore (planted paths can repeat with other bytes)
        s.history.append('--- round %d (%s side), from the synced base' % (rnd, side))
        try:
            if side == 'sync': out = sync_side(exe, a, s, rng.fork(), mk(backup + '.w'), stats, cfg)
            elif side == 'stamp': out = stamp_side(exe, a, s, rng.fork(), stats, cfg)
            else: out = fix_side(exe, a, s, rng.fork(), backup + '.w', stats, cfg)
        finally:
            shutil.rmtree(backup + '.w', ignore_errors=True)
        if out: break
    shutil.rmtree(backup, ignore_errors=True)
    a.destroy()
    return out or None

def mk(p):
    os.makedirs(p, exist_ok=True); return p

def pending_import(exe, root, seed, stats):
    """imported / duplicate data offered for a block that is still PENDING: F synced and a copy of it kept (import directory,
    or a duplicate in the array carrying the new file`s size and stamp), F replaced on its parity positions by a decoy G of the
    same size, the sync left incomplete (range not reaching it, or killed after the content save), G lost.  The hash a
    pending block carries is the hash of what it REPLACES (F), not its own: offered data that matches it is F`s data and
    must never be written under G`s name as recovered"""
    rng = e2e.Rng(seed)
    a = e2e.Arr(root, exe, ndisks=2 + rng.below(2), nparity=2, ncontent=1, hashsize=rng.choice([16, 8]))
    s = sim.Sim(a, rng.fork(), weird_names=False)
    bs = a.block
    lead = 1 + rng.below(2)
    for d in a.disks:
        a.write(d, 'A', rng.bytes(bs * lead), s.tick())
    nb = 2 + rng.below(4)
    size = nb * bs - rng.below(2) * (1 + rng.below(100))
    Fb, Gb = rng.bytes(size), rng.bytes(size)
    a.write('d1', 'F', Fb, s.tick())
    if s.sync().rc != 0:
        a.destroy(); return None
    imp = os.path.join(a.root, 'imp'); os.makedirs(imp, exist_ok=True)
    via = rng.choice(['import', 'duplicate'])
    os.unlink(a.path('d1', 'F')); s.log('d1/F removed')
    tg = s.tick()
    a.write('d1', 'G', Gb, tg); s.log('d1/G created (same size, other bytes)')
    if via == 'import':
        with open(os.path.join(imp, 'F.copy'), 'wb') as f: f.write(Fb)
    else:
        a.write('d2', 'keep/G', Fb, tg); s.log('d2/keep/G: F`s bytes under G`s name, size and time-stamp')
    how = rng.choice(['range', 'kill'])
    if how == 'range': s.run('sync', '-B', str(lead))
    else: s.run('sync', '--test-kill-after-sync')
    if not os.path.exists(a.contents[0]):
        a.destroy(); return None
    dec = fx.decode(a)
    rec = [f for f in dec.files if f['sub'] == b'G' and dec.maps[f['mapping']][0] == b'd1'] if dec.ok else []
    if not rec:
        a.destroy(); return None
    kinds = ''.join(sorted(set(b[1] for b in rec[0]['blocks'])))
    stats['pending_import'] = stats.get('pending_import', 0) + 1
    os.unlink(a.path('d1', 'G')); s.log('d1/G lost')
    r = a.cmd('fix', *(['-i', imp] if via == 'import' else []))
    p = a.path('d1', 'G')
    got = open(p, 'rb').read() if os.path.isfile(p) else None
    rec_tag = any(t.startswith('status:recovered:d1:G') for t in r.tags)
    cfg = 'pending-import ndisks=%d hashsize=%d blocks=%d via=%s sync=%s states=%s seed=%d' % (a.ndisks, a.hashsize, nb, via, how, kinds, seed)
    hist = '\n'.join(s.history)
    a.destroy()
    if got is not None and got != Gb:
        return [('(%s) [pending-import] fix leaves d1/G with %s, exit %d, reported recovered=%s' % (cfg, 'the bytes of F (the file it replaced)' if got == Fb else 'other bytes', r.rc, rec_tag),
                 hist + '\n' + '\n'.join(t for t in r.tags if t.split(':')[0] in ('entry', 'hash_import', 'hash_unknown', 'fixed', 'status', 'summary', 'unrecoverable'))[:3000])]
    if got is None and r.rc == 0:
        return [('(%s) [pending-import] d1/G not restored but fix exits 0' % cfg, hist)]
    return None

def uuid_transition(exe, root, seed, stats):
    """identity by inode is only trusted on the same file system: the content file recorded NO uuid for the disks (first sync
    on a file system that reports none), now the disks report one.  A file with the inode, size and time-stamp of a recorded
    file but another name and other bytes (rewritten in place, renamed, time-stamp restored) must be read again, not taken
    for a move"""
    rng = e2e.Rng(seed)
    a = e2e.Arr(root, exe, ndisks=2, nparity=1, ncontent=1)
    s = sim.Sim(a, rng.fork(), weird_names=False)
    nouuid = [o for o in e2e.BASE_OPTS if o != '--test-fake-uuid']
    data = rng.bytes(a.block * (2 + rng.below(3)) + rng.below(2) * 77)
    a.write('d1', 'a/old.bin', data, s.tick()); a.write('d1', 'keep', rng.bytes(1500), s.tick()); a.write('d2', 'x', rng.bytes(2500), s.tick())
    r = s.sync(opts=nouuid)
    if r.rc != 0:
        a.destroy(); return None
    dec = fx.decode(a)
    if not dec.ok or any(len(m[4]) > 0 for m in dec.maps):
        a.destroy(); return None          # this file system reports a uuid: the transition cannot be staged
    p = a.path('d1', 'a/old.bin'); st = os.stat(p)
    with open(p, 'r+b') as f: f.write(rng.bytes(len(data)))
    os.makedirs(a.path('d1', 'b'), exist_ok=True)
    os.rename(p, a.path('d1', 'b/new.bin'))
    os.utime(a.path('d1', 'b/new.bin'), ns=(st.st_mtime_ns, st.st_mtime_ns))
    s.log('d1/a/old.bin rewritten in place, renamed to b/new.bin, time-stamp restored (same inode, size, stamp; other bytes)')
    stats['uuid_transition'] = stats.get('uuid_transition', 0) + 1
    r2 = s.sync()           # with --test-fake-uuid: the disks now report a uuid
    problem = None
    if r2.rc == 0:
        c = a.cmd('check')
        if c.rc != 0:
            problem = '[uuid-transition] after the stored (empty) uuid of the disks changed, a file with a recorded inode/size/stamp but other bytes was trusted: check fails after a successful sync (exit %d): %s' % (c.rc, [t for t in c.tags if t.startswith('error')][:2])
    hist = '\n'.join(s.history)
    a.destroy()
    return [(problem + ' seed=%d' % seed, problem + '\n' + hist)] if problem else None

def main(tier, seed):
    chk = vlib.Check('C19', 'proof', tier, seed)
    chk.assumptions = ['hash functions are abstract in the theorems (any function D -> H); "other data" is detected up to hash collisions (fetch_is_recorded states the separation hypothesis explicitly)',
                       'decoys are built by the harness from recorded files: same base name, size and time-stamp (zero and non-zero sub-second part), content differing everywhere / in the first / last / one inner byte',
                       'the per-stripe verdict needs the layout the scan produces: it is taken from a first run (--test-kill-after-sync, final content write skipped) on an identical copy of the tree; when the two layouts differ the case is counted and skipped']
    ok, log = vlib.ensure_lean_built()
    chk.oblig('lake build', ok, log[-300:])
    hits = vlib.forbidden_tokens()
    chk.oblig('no sorry/admit/axiom/native_decide in library', not hits, '; '.join(hits))
    okA, ax, out = vlib.axioms_audit(STATIC_THEOREMS, ['SnapraidVerif.Props.C19'])
    chk.axioms.update(ax)
    for t in STATIC_THEOREMS:
        chk.oblig('axiom audit: ' + t, ax.get(t) is not None and all(x in vlib.STD_AXIOMS for x in ax[t]), str(ax.get(t)))
    try:
        exe = vlib.build_snapraid()
    except vlib.BuildError as e:
        chk.violation('build of /repo failed: ' + str(e)[:300], str(e), False, 'build'); chk.finish()
    n = 48 if tier == 'quick' else 500
    stats = {'plants': {}, 'where': {}, 'offers': {}, 'syncs': 0, 'fixes': 0, 'stripes': 0, 'stripes_stopped': 0, 'layout_differs': 0,
             'prehash_stops': 0, 'nocopy': 0, 'recovered': 0, 'unrecoverable': 0, 'pending_sources': 0}
    def job(i):
        return scenario(exe, os.path.join(vlib.scratch(), 'sh%d' % i), seed * 100000 + 96000 + i, stats)
    with ThreadPoolExecutor(vlib.NCPU) as ex:
        res = list(ex.map(job, range(n))) + list(ex.map(lambda i: pending_import(exe, os.path.join(vlib.scratch(), 'pi%d' % i), seed * 100000 + 97000 + i, stats), range(24 if tier == 'quick' else 240))) + list(ex.map(lambda i: uuid_transition(exe, os.path.join(vlib.scratch(), 'ut%d' % i), seed * 100000 + 98000 + i, stats), range(3 if tier == 'quick' else 30)))
    k = 0
    seen = set()
    for r in res:
        if r:
            text, body = r[0]
            key = text.split('[')[1].split(']')[0] if '[' in text else text[:30]
            if key in seen: continue
            seen.add(key); k += 1
            if k <= 5:
                chk.violation('C19 ' + text, text + '\n' + body, True, 'decoy')
    for o in chk.obligations:
        if not o[1]:
            chk.violation('C19 static obligation failed: ' + o[0], o[0] + '\n' + o[2], False, 'static')
    chk.evaluations = stats['stripes'] + stats['fixes']
    chk.distinct = chk.evaluations
    chk.extra['explanation'] = 'theorems over abstract data/hash types for every stripe and candidate list; the executable model (shortcut-sync) is compared stripe by stripe with what sync records, the fetch model with what fix restores'
    chk.rule = ('%d arrays (1-3 disks, 1-2 parities, hash size 16/8, zero and non-zero sub-second stamps, optionally sources left pending by an interrupted sync) x 3 rounds: files planted with the name/size/stamp of recorded files (decoy or true copy; other disk same path / other dir, same disk; source kept or deleted; plus ordinary new files) then sync or sync -h: per-stripe completed/stopped = Lean model, exit status, parity untouched after a pre-hash mismatch, no block recorded as synced fails the hash audit, C06 parity oracle, second sync refuses again, --force-nocopy proceeds and checks; or a recorded file lost (parity removed 2/3) with decoys/true copies offered through -i and on the disks: restored bytes are the recorded ones or fix fails, restorable = Lean fetch verdict, nothing else modified; plus pending-import histories (data matching the hash a PENDING block carries - the hash of what it replaces - offered through -i or as a duplicate)' % n)
    chk.samples = [dict((k2, v) for k2, v in stats.items())]
    chk.corr['E2E-DECOY'] = dict(stats)
    chk.finish()

def replay(path):
    print(open(path).read()[:8000]); return 0
