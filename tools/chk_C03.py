"""C03  Any erasure pattern within the parity count is exactly recoverable."""
import os, vlib, raidcommon

STATIC_THEOREMS = [
    'SnapraidVerif.Mds.ext_cauchy_det_ne_zero',
    'SnapraidVerif.Raid.cauchy_mds',
    'SnapraidVerif.Props.C03.cauchy_all_minors',
    'SnapraidVerif.Props.C03.rec_unique',
    'SnapraidVerif.Props.C03.min_distance',
    'SnapraidVerif.Props.C03.gen_val',
    'SnapraidVerif.Raid.power_mds',
    'SnapraidVerif.Props.C03.power_all_minors',
    'SnapraidVerif.Props.C03.rec_unique_z',
    'SnapraidVerif.Props.C03.min_distance_z',
    'SnapraidVerif.Props.C03.genz_val',
    'SnapraidVerif.Raid.invert_left_inverse',
    'SnapraidVerif.Raid.invert_total',
    'SnapraidVerif.Raid.decode_exact',
    'SnapraidVerif.Props.C03.cauchy_decode_exact',
    'SnapraidVerif.Props.C03.power_decode_exact',
    'SnapraidVerif.Props.C03.decode_with_intact',
    'SnapraidVerif.Props.C03.decode_with_intact_z',
]

def main(tier, seed):
    chk = vlib.Check('C03', 'proof', tier, seed)
    chk.assumptions = [
        'the decoders (raid_rec*, raid_data, raid_check, raid_scan, raid_invert) are not themselves objects of a theorem: the theorems say the surviving blocks determine the lost ones uniquely for every pattern and parity subset (all minors non-singular, distance np+1); that each decoder variant outputs exactly that solution and touches nothing else is the RAID-REC correspondence',
        'z-mode (power matrix) MDS is not proved in Lean (harness only); memory safety is guard-page evidence only',
    ]
    ok, log = vlib.ensure_lean_built()
    chk.oblig('lake build (static library incl. extended-Cauchy MDS theorem)', ok, log[-400:])
    hits = vlib.forbidden_tokens()
    chk.oblig('no sorry/admit/axiom/native_decide/implemented_by/unsafe in library and templates', not hits, '; '.join(hits))
    okA, ax, out = vlib.axioms_audit(STATIC_THEOREMS, ['SnapraidVerif.Props.C03'])
    chk.axioms.update(ax)
    for t in STATIC_THEOREMS:
        chk.oblig('axiom audit: ' + t, ax.get(t) is not None and all(a in vlib.STD_AXIOMS for a in ax[t]), str(ax.get(t)))
    failed_tables = raidcommon.table_obligations(chk)

    try:
        fams, info, outdir, crashed, tail = raidcommon.run_harness(chk, tier, seed, 'tables', 'raid')
        fams2, info2, outdir2, crashed2, tail2 = raidcommon.run_harness(chk, tier, seed, 'rec', 'raid')
    except vlib.BuildError as e:
        chk.violation('build of /repo raid sources failed: ' + str(e)[:300], str(e), found_input=False, name='build')
        chk.finish()
    fams.update(fams2); info.update(info2)
    total = 0
    found_input = False
    for fam, (cases, fails, ff) in sorted(fams.items()):
        chk.corr[fam] = {'cases': cases, 'fail': fails}
        total += cases
        if fails:
            body = open(ff).read() if ff else ''
            first = body.split('\n')[0:2]
            chk.violation('C03 %s: %d of %d cases fail; %s' % (fam, fails, cases, ' '.join(first)[:300]), body[:200000], True, fam)
            found_input = True
    if crashed or crashed2:
        t = tail2 if crashed2 else tail
        chk.violation('raid harness crashed (assert/guard page/signal) in recovery tests: ' + t[-300:].replace('\n', ' | '), t, True, 'crash')
        found_input = True
    n, bad = raidcommon.lean_sampled(outdir2, 'invert')
    chk.corr['lean_invert_model_vs_raid_invert'] = {'cases': n, 'fail': len(bad)}
    total += n
    if bad:
        # classify with the property predicate: is the C inverse really wrong?  V*M = 1 ?
        chk.violation('C03 raid_invert differs from the Lean model of the Gauss-Jordan inversion: ' + bad[0][0][:200],
                      {'request': bad[0][0], 'c_output': bad[0][1], 'lean_invert': bad[0][2]}, True, 'invert')
        found_input = True
    for name in failed_tables:
        if not found_input:
            chk.violation('C03 obligation no longer checks: ' + name, 'theorem/obligation: %s\nno erasure pattern that fails to recover was found by the harness' % name, False, 'oblig')
    bad_static = [o for o in chk.obligations if not o[1] and (o[0].startswith('lake') or o[0].startswith('axiom') or o[0].startswith('no sorry'))]
    for o in bad_static:
        chk.violation('C03 static obligation failed: ' + o[0], o[0] + '\n' + o[2], False, 'static')
    chk.evaluations = total
    chk.distinct = total
    chk.rule = ('decoders int8/ssse3/avx2 x modes cauchy/power x {all (nd<=5 quick, <=8 thorough; np; nr<=np) failure index sets mixing data and parity through raid_rec; '
                'all data index sets x all admissible parity subsets through raid_data with garbage in unused parities; seeded sets for nd in {12,33,64,100,200,250,251}}; '
                'garbage in failed blocks, guard pages, untouched-block comparison; raid_check true-set/one-unlisted, raid_scan minimality, combination enumeration vs binomial, raid_invert vs Lean invert')
    chk.samples = [{'family': k, **v} for k, v in list(chk.corr.items())[:8]]
    chk.extra['cpu'] = info
    chk.finish()

def replay(path):
    print(open(path).read()[:4000])
    return 0
