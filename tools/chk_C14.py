"""C14  Safety interlocks refuse destructive syncs and change nothing."""
import os, shutil, signal, subprocess, time, vlib, e2e, sim, fixcommon as fx, chk_C09
from concurrent.futures import ThreadPoolExecutor

STATIC_THEOREMS = [
    'SnapraidVerif.Props.C14.minParity_le',
    'SnapraidVerif.Props.C14.short_parity_refused',
    'SnapraidVerif.Props.C14.forced_proceeds',
    'SnapraidVerif.Props.C14.empty_rule',
    'SnapraidVerif.Props.C14.force_empty_proceeds',
    'SnapraidVerif.Props.C14.all_missing_refused',
    'SnapraidVerif.Props.C14.lock_exclusive',
    'SnapraidVerif.Props.C14.second_is_refused',
    'SnapraidVerif.Props.C14.lock_counter_unlink',
    'SnapraidVerif.Props.C14.zero_size_refused',
    'SnapraidVerif.Props.C14.zero_rule_ignores_sync_state',
    'SnapraidVerif.Props.C14.force_zero_proceeds',
]

def protected_digest(a):
    """content and parity files that existed, byte for byte"""
    import hashlib
    h = hashlib.sha256()
    for p in list(a.contents) + [pf for l in range(a.nparity) for pf in a.parity_files(l)]:
        if os.path.exists(p):
            with open(p, 'rb') as f:
                h.update(os.fsencode(p)); h.update(f.read())
    return h.hexdigest()

def scenario(exe, shim, root, seed, stats):
    rng = e2e.Rng(seed)
    out = []
    hs = rng.choice([16, 16, 8])
    splits = rng.choice([1, 1, 2])
    a = e2e.Arr(root, exe, ndisks=2 + rng.below(2), nparity=1 + rng.below(3), ncontent=1 + rng.below(2), hashsize=hs, splits=splits)
    s = sim.Sim(a, rng.fork(), weird_names=False)
    s.populate(3 + rng.below(2))
    s.sync()
    if rng.chance(1, 2):
        s.fs_random(2 + rng.below(3))      # ordinary pending changes combined with the trigger
    backup = root + '.bak'
    shutil.copytree(a.root, backup, symlinks=True)
    cfg = 'ndisks=%d nparity=%d hashsize=%d splits=%d seed=%d' % (a.ndisks, a.nparity, hs, splits, seed)
    triggers = ['all-missing', 'all-missing-plus-copy', 'all-rewritten', 'zero-size', 'zero-size-partial', 'short-parity', 'ragged-parity', 'empty-parity', 'blocksize', 'hashsize', 'missing-disk', 'lock']
    rng2 = rng.fork()
    for trig in triggers:
        shutil.rmtree(a.root); shutil.copytree(backup, a.root, symlinks=True)
        a.write_conf()
        override = None
        desc = trig
        if trig == 'all-missing':
            d = rng2.choice(a.disks); fx.wipe_disk(a, d); override = ['--force-empty', '--force-zero']; desc += ' disk ' + d
        elif trig == 'all-missing-plus-copy':
            # every recorded file of the disk is gone, but a copy (same name, size, time-stamp) of a file of ANOTHER
            # disk arrived on it: a copy says nothing about what was on this disk before
            d = rng2.choice(a.disks)
            others = [(dd, rel) for dd, rel in s.existing_files() if dd != d and os.path.getsize(a.path(dd, rel)) > 0]
            if not others: continue
            fx.wipe_disk(a, d)
            for dd, rel in [rng2.choice(others) for _ in range(1 + rng2.below(2))]:
                src = a.path(dd, rel); st = os.stat(src)
                a.write(d, 'copied/' + os.path.basename(rel), open(src, 'rb').read(), st.st_mtime_ns)
            if rng2.chance(1, 2): a.write(d, 'brandnew', rng2.bytes(1500), s.tick())
            override = ['--force-empty', '--force-zero']; desc += ' disk ' + d
        elif trig == 'all-rewritten':
            d = rng2.choice(a.disks)
            files = [(dd, rel) for dd, rel in s.existing_files() if dd == d]
            if not files: continue
            for dd, rel in files:
                p = a.path(dd, rel); data = open(p, 'rb').read()
                os.unlink(p); a.write(dd, rel, data[::-1] if data else b'x', s.tick())
            override = ['--force-empty', '--force-zero']; desc += ' disk ' + d
        elif trig == 'zero-size':
            # a file recorded as non-empty in the content file and still unchanged on disk
            dec0 = fx.decode(a)
            known = set((dec0.maps[f['mapping']][0].decode(), os.fsdecode(f['sub'])) for f in dec0.files
                        if f['size'] > 0 and s.file_version(dec0.maps[f['mapping']][0].decode(), f) is not None)
            files = [(dd, rel) for dd, rel in s.existing_files() if (dd, rel) in known and os.path.getsize(a.path(dd, rel)) > 0
                     and os.stat(a.path(dd, rel)).st_mtime_ns % 10**9 != 0]
            files = [x for x in files if any(f['sub'] == os.fsencode(x[1]) and f['size'] == os.path.getsize(a.path(*x)) for f in dec0.files)]
            if not files: continue
            dd, rel = rng2.choice(files)
            # only meaningful for a file known to the content
            open(a.path(dd, rel), 'wb').close()
            override = ['--force-zero', '--force-empty']; desc += ' %s/%s' % (dd, rel)
        elif trig == 'zero-size-partial':
            # the file was recorded as non-empty by a sync that did NOT complete (partial range, or killed after the content
            # save and before the parity update): some of its blocks are still pending when it turns up with zero size
            dd = rng2.choice(a.disks); rel = 'partial/p%d.bin' % rng2.below(100)
            a.write(dd, rel, rng2.bytes(a.block * (4 + rng2.below(5)) + rng2.below(a.block)), s.tick())
            if rng2.chance(1, 2): a.cmd('sync', '-B', str(1 + rng2.below(3)), '--force-empty', '--force-zero')
            else: a.cmd('sync', '--test-kill-after-sync', '--force-empty', '--force-zero')
            if not os.path.exists(a.contents[0]): continue
            dec1 = fx.decode(a)
            recf = [f for f in dec1.files if dec1.maps[f['mapping']][0].decode() == dd and f['sub'] == os.fsencode(rel) and f['size'] > 0] if dec1.ok else []
            if not recf: continue
            pend = sum(1 for b in recf[0]['blocks'] if b[1] != 'b')
            stats['zero_partial_pending'] = stats.get('zero_partial_pending', 0) + (1 if pend else 0)
            open(a.path(dd, rel), 'wb').close()
            override = ['--force-zero', '--force-empty']; desc += ' %s/%s (%d of %d blocks still pending)' % (dd, rel, pend, len(recf[0]['blocks']))
        elif trig in ('short-parity', 'empty-parity', 'ragged-parity'):
            lev = rng2.below(a.nparity)
            pfs = [p for p in a.parity_files(lev) if os.path.exists(p) and os.path.getsize(p) > a.block]
            if not pfs: continue
            pf = rng2.choice(pfs)
            with open(pf, 'r+b') as f:
                if trig == 'ragged-parity':
                    # only the tail of the LAST block is lost: 1 .. blocksize-1 bytes
                    f.truncate(os.path.getsize(pf) - 1 - rng2.below(a.block - 1))
                else:
                    f.truncate(0 if trig == 'empty-parity' else (os.path.getsize(pf) // a.block // 2) * a.block)
            override = ['-F', '--force-empty', '--force-zero']; desc += ' level %d file %s' % (lev, os.path.basename(pf))
            if trig == 'ragged-parity': override = None      # a parity file that is not a whole number of blocks is refused with or without -F
        elif trig == 'blocksize':
            a.write_conf(blocksize=a.block * 2); desc += ' (config says %d)' % (a.block * 2)
        elif trig == 'hashsize':
            a.write_conf(hashsize=(8 if hs == 16 else 16)); desc += ' (config differs)'
        elif trig == 'missing-disk':
            a.write_conf(disks=a.disks[:-1]); desc += ' (last disk dropped from the configuration)'
        elif trig == 'lock':
            pass
        before = protected_digest(a)
        stats['triggers'][trig] = stats['triggers'].get(trig, 0) + 1
        if trig == 'lock':
            # a first command stops itself (SIGSTOP) while holding the lock; the second must refuse
            first = subprocess.Popen([exe] + e2e.BASE_OPTS + ['-c', a.conf, 'sync', '--force-empty', '--force-zero'],
                                     env=dict(os.environ, LD_PRELOAD=shim, VERIF_SIGNAL='%d:%d' % (2 + rng2.below(4), signal.SIGSTOP)),
                                     stdout=subprocess.PIPE, stderr=subprocess.STDOUT, cwd=a.root)
            stopped = False
            for _ in range(200):
                time.sleep(0.01)
                try:
                    st = open('/proc/%d/stat' % first.pid).read().split(') ')[1][0]
                except Exception:
                    break
                if st == 'T': stopped = True; break
            if not stopped:
                first.kill(); first.wait(); stats['lock_not_stopped'] += 1
                continue
            mid = protected_digest(a)
            cmd2 = rng2.choice(['sync', 'scrub', 'fix', 'status', 'check'])
            r = a.cmd(cmd2)
            after = protected_digest(a)
            # a refused command must not disturb the lock of the running one: a third command is refused as well
            cmd3 = rng2.choice(['sync', 'scrub', 'fix', 'check'])
            r3 = a.cmd(cmd3)
            after3 = protected_digest(a)
            os.kill(first.pid, signal.SIGCONT); first.wait()
            if r3.rc == 0 or 'already in use' not in r3.out or after3 != mid:
                out.append(('(%s) [lock-after-refusal] after %s was refused, %s started while the first sync still holds the lock is %s (exit %d)' % (cfg, cmd2, cmd3, 'NOT refused' if (r3.rc == 0 or 'already in use' not in r3.out) else 'refused but changed content/parity files', r3.rc), r3.out[-500:]))
                break
            if r.rc == 0 or 'already in use' not in r.out:
                out.append(('(%s) %s started while another sync holds the lock is NOT refused (exit %d)' % (cfg, cmd2, r.rc), r.out[-500:]))
            elif after != mid:
                out.append(('(%s) refused %s changed content/parity files' % (cfg, cmd2), ''))
            else:
                r2 = a.cmd('sync', '--force-empty', '--force-zero')
                if r2.rc != 0:
                    out.append(('(%s) after the first command ended the same sync does not proceed (exit %d)' % (cfg, r2.rc), r2.out[-500:]))
            if out: break
            continue
        r = a.cmd('sync')
        after = protected_digest(a)
        stats['refusals'] += 1
        if r.rc == 0:
            tag = '[short-parity-v3]' if trig in ('short-parity', 'empty-parity', 'ragged-parity') and (hs != 16 or splits > 1) else '[%s]' % trig
            out.append(('(%s) %s sync is NOT refused with trigger %s (exit 0)' % (cfg, tag, desc), r.out[-600:]))
            if tag == '[short-parity-v3]':
                continue      # the recorded known finding: go on with the other triggers of this array
            break
        if after != before:
            out.append(('(%s) [%s] refused sync altered a content or parity file (trigger %s)' % (cfg, trig, desc), r.out[-600:]))
            break
        if override is not None:
            r2 = a.cmd('sync', *override)
            if r2.rc != 0 and trig != 'all-rewritten':
                out.append(('(%s) [%s] with the override %s the same sync does not proceed (exit %d)' % (cfg, trig, override, r2.rc), r2.out[-600:]))
                break
            elif r2.rc == 0 and rng2.chance(1, 2):
                c = a.cmd('check')
                if c.rc != 0:
                    out.append(('(%s) [%s] check fails after the overridden sync' % (cfg, trig), c.out[-400:])); break
    shutil.rmtree(backup, ignore_errors=True)
    a.destroy()
    return out or None

def directed_short_parity_v3(exe, root):
    """KNOWN FINDING C14-short-parity-v3, replayed on every run: 2 disks, 1 parity, hashsize 8 (version-3 content),
    parity truncated to half: sync must refuse; returns the violation text or None"""
    rng = e2e.Rng(77)
    a = e2e.Arr(root, exe, ndisks=2, nparity=1, ncontent=1, hashsize=8)
    s = sim.Sim(a, rng.fork(), weird_names=False)
    s.populate(4)
    if s.sync().rc != 0:
        a.destroy(); return None
    pf = a.parity_files(0)[0]
    size = os.path.getsize(pf)
    with open(pf, 'r+b') as f: f.truncate((size // a.block // 2) * a.block)
    before = protected_digest(a)
    r = a.cmd('sync')
    txt = None
    if r.rc == 0:
        txt = '[short-parity-v3] directed replay: parity file truncated from %d to %d bytes on an array with hashsize 8 (version-3 content): sync is NOT refused (exit 0)' % (size, (size // a.block // 2) * a.block)
    a.destroy()
    return txt

def main(tier, seed):
    chk = vlib.Check('C14', 'other', tier, seed)
    chk.assumptions = ['the lock is the kernel`s flock on <content>.lock; "another command running" is a real first snapraid stopped (SIGSTOP via the shim) while it holds the lock',
                       'a parity file that did not exist and is created empty before the refusal is not counted as an alteration (existing files are compared byte for byte)']
    ok, log = vlib.ensure_lean_built()
    chk.oblig('lake build', ok, log[-300:])
    hits = vlib.forbidden_tokens()
    chk.oblig('no sorry/admit/axiom/native_decide in library', not hits, '; '.join(hits))
    okA, ax, out = vlib.axioms_audit(STATIC_THEOREMS, ['SnapraidVerif.Props.C14'])
    chk.axioms.update(ax)
    for t in STATIC_THEOREMS:
        chk.oblig('axiom audit: ' + t, ax.get(t) is not None and all(x in vlib.STD_AXIOMS for x in ax[t]), str(ax.get(t)))
    try:
        exe = vlib.build_snapraid(); shim = vlib.build_shim()
    except vlib.BuildError as e:
        chk.violation('build of /repo failed: ' + str(e)[:300], str(e), False, 'build'); chk.finish()
    dv = directed_short_parity_v3(exe, os.path.join(vlib.scratch(), 'dsp'))
    chk.extra['directed_C14_short_parity_v3'] = dv or 'not reproduced'
    if dv:
        chk.violation('C14 ' + dv, dv, True, 'directed_short_parity')
    n = 24 if tier == 'quick' else 200
    stats = {'triggers': {}, 'refusals': 0, 'lock_not_stopped': 0}
    def job(i):
        return scenario(exe, shim, os.path.join(vlib.scratch(), 'k%d' % i), seed * 100000 + 97000 + i, stats)
    with ThreadPoolExecutor(vlib.NCPU) as ex:
        res = list(ex.map(job, range(n)))
    k = 0
    seen = set()
    for r in res:
        for text, body in (r or []):
            key = text.split('[')[1].split(']')[0] if '[' in text else text[:30]
            if key in seen: continue
            seen.add(key)
            k += 1
            if k <= 5:
                chk.violation('C14 ' + text, body, True, 'lock')
    for o in chk.obligations:
        if not o[1]:
            chk.violation('C14 static obligation failed: ' + o[0], o[0] + '\n' + o[2], False, 'static')
    chk.evaluations = stats['refusals'] + stats['triggers'].get('lock', 0)
    chk.distinct = chk.evaluations
    chk.extra['explanation'] = 'decision rules proved in Lean (empty-disk rule, smallest-parity rule, overrides); each trigger exercised on the binary with byte comparison of content and parity files; lock = kernel flock, exercised with a real stopped first command'
    chk.rule = ('%d arrays x triggers {all files of a disk missing, all rewritten, zero-size file, parity truncated to half / to zero / by less than a block at each level, blocksize / hashsize mismatch, disk dropped from the configuration, lock held by a stopped sync}, alone or combined with ordinary pending changes: sync must exit non-zero with content and parity files byte-identical, and proceed with the override' % n)
    chk.samples = [dict(stats)]
    chk.corr['E2E-LOCK'] = dict(stats)
    chk.finish()

def replay(path):
    print(open(path).read()[:8000]); return 0
