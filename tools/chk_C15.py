"""C15  Scrub checks what its plan says and keeps honest books."""
import os, shutil, vlib, e2e, sim, fixcommon as fx
from concurrent.futures import ThreadPoolExecutor

STATIC_THEOREMS = [
    'SnapraidVerif.Props.C15.bad_always',
    'SnapraidVerif.Props.C15.unused_never',
    'SnapraidVerif.Props.C15.full_all_used',
    'SnapraidVerif.Props.C15.new_iff_justsynced',
    'SnapraidVerif.Props.C15.bad_plan_only_bad',
    'SnapraidVerif.Props.C15.auto_age',
    'SnapraidVerif.Props.C15.auto_oldest_first',
    'SnapraidVerif.Props.C15.countlast_bounded',
    'SnapraidVerif.Props.C15.timelimit_le_recent',
    'SnapraidVerif.Props.C15.countlimit_le',
    'SnapraidVerif.Props.C15.books',
    'SnapraidVerif.Props.C15.auto_bound',
    'SnapraidVerif.Props.C15.scrub_progress',
    'SnapraidVerif.Props.C15.eventually_scrubbed',
    'SnapraidVerif.Props.C15.auto_full_coverage',
]

NOW = 1_700_000_000

def infos_of(dec):
    return [dec.info.get(p) for p in range(dec.blockmax)]

def rewrite_info(a, dec, infos, oldest):
    """write a content file whose per-stripe info is `infos` (list of None | (time, flags))"""
    runs = []
    for inf in infos:
        if inf is None:
            run = (0, 0)
        else:
            run = (inf[1] | 1, inf[0] - oldest)
        if runs and runs[-1][1:] == run:
            runs[-1] = (runs[-1][0] + 1,) + run
        else:
            runs.append((1,) + run)
    req = 'content-setinfo %d %s %d %s' % (a.block, a.content_bytes(0).hex(), oldest, ' '.join('%d:%d:%d' % r for r in runs))
    rep = vlib.driver_query([req])[0]
    if rep in ('reject', 'bad-op'):
        return False
    b = bytes.fromhex(rep)
    for c in a.contents:
        with open(c, 'wb') as f:
            f.write(b)
    return True

def scenario(exe, shim, root, seed, stats):
    rng = e2e.Rng(seed)
    out = []
    a = e2e.Arr(root, exe, ndisks=1 + rng.below(3), nparity=1 + rng.below(2), ncontent=1 + rng.below(2), hashsize=16)
    s = sim.Sim(a, rng.fork(), weird_names=False, links=False)
    s.populate(3 + rng.below(4))
    s.sync()
    pending = set()
    if rng.chance(1, 3):
        # an interrupted / partial sync leaves deleted or pending blocks: their stripes are not synced and
        # whatever scrub finds there is never a reason to mark them bad
        s.fs_delete()
        if rng.chance(1, 2): s.fs_modify()
        s.sync('-B', '1')
    dec = fx.decode(a)
    if not dec.ok or dec.blockmax < 3:
        a.destroy(); return None
    lay = fx.Layout(a, dec)
    for b in lay.blocks:
        if b['kind'] != 'b': pending.add(b['pos'])
    for dd in dec.deleted.values():
        pending |= set(dd)
    stats['pending_stripes'] = stats.get('pending_stripes', 0) + len(pending)
    # synthesize a distribution of last-check times and marks
    day = 86400
    base_times = sorted(set(NOW - rng.below(60) * day - rng.below(3) * 3600 for _ in range(1 + rng.below(6))))
    infos = []
    for pos in range(dec.blockmax):
        if pos not in lay.by_pos and pos not in pending:
            infos.append(None); continue
        t = rng.choice(base_times)
        fl = 0
        if rng.chance(1, 8): fl |= 8          # justsynced (never scrubbed)
        if rng.chance(1, 8): fl |= 2          # an outstanding bad mark (the data is fine: a scrub that selects it verifies and clears it)
        infos.append((t, fl))
    oldest = min(i[0] for i in infos if i)
    if not rewrite_info(a, dec, infos, oldest):
        a.destroy(); return None
    # optionally real damage on some stripes -> bad marks through a first scrub pass are exercised in `seq`
    env = {'LD_PRELOAD': shim, 'VERIF_NOW': str(NOW)}
    chk0 = a.cmd('status', env=env)
    if chk0.rc != 0:
        out.append(('binary rejects the content file with synthesized per-stripe info', chk0.out[-500:]))
        a.destroy(); return out
    backup = root + '.bak'
    shutil.copytree(a.root, backup, symlinks=True)
    for rep in range(4):
        shutil.rmtree(a.root); shutil.copytree(backup, a.root, symlinks=True)
        # damage a few blocks first?  (silent errors -> must be marked bad, time not refreshed)
        damaged = set()
        unsynced = set(pending)
        dmg_blocks = []
        if rng.chance(1, 2):
            for _ in range(1 + rng.below(2)):
                b = rng.choice(lay.blocks)
                if fx.flip_data_block(a, rng, b): damaged.add(b['pos']); dmg_blocks.append(b)
        ufile = None
        changed_pos = set()      # stripes where the unsynced file's own block no longer has the recorded bytes
        par_flipped = set()
        if rng.chance(1, 3):
            # a file changed since the last sync (appended or only touched): differences in its stripes must never be
            # marked, and a stripe is refreshed only if it was verified correct
            d, rel = rng.choice(s.existing_files())
            p = a.path(d, rel)
            oldsize = os.path.getsize(p)
            st = os.lstat(p)
            how = rng.choice(['append', 'touch', 'edit', 'edit-samesec', 'shrink', 'shrink'])
            edit_from = None
            edit_idx = None
            if how == 'append':
                # the recorded extent of the file keeps its bytes (scrub reads the recorded size only)
                with open(p, 'ab') as f: f.write(b'changed-after-sync')
            elif how == 'shrink' and oldsize > 1:
                # the file got shorter (not to a block boundary): its blocks from the cut on cannot be read any more
                newsize = 1 + rng.below(oldsize - 1)
                if newsize % a.block == 0: newsize -= 1
                if newsize <= 0: newsize = 1
                with open(p, 'r+b') as f: f.truncate(newsize)
                os.utime(p, ns=(st.st_atime_ns, st.st_mtime_ns + 5_000_000_003))
                edit_from = newsize // a.block
                stats['shrunk_files'] = stats.get('shrunk_files', 0) + 1
            elif how == 'touch' or oldsize == 0:
                os.utime(p, ns=(st.st_atime_ns, st.st_mtime_ns + 3_000_000_001))
            else:
                off = rng.below(oldsize); edit_idx = off // a.block
                with open(p, 'r+b') as f:
                    f.seek(off); c = f.read(1); f.seek(off); f.write(bytes([c[0] ^ 0x44]))
                if how == 'edit-samesec':
                    # rewritten within the second of the recorded time-stamp, the new stamp has NO sub-second part
                    # (a tool with one-second resolution): still a changed file
                    os.utime(p, ns=(st.st_atime_ns, (st.st_mtime_ns // 10**9) * 10**9))
                    stats['samesec_edits'] = stats.get('samesec_edits', 0) + 1
                else:
                    os.utime(p, ns=(st.st_atime_ns, st.st_mtime_ns + 5_000_000_003))
            ufile = (d, os.fsencode(rel))
            for b in lay.blocks:
                if b['disk'] == d and os.fsdecode(b['sub']) == rel:
                    unsynced.add(b['pos'])
                    if edit_idx is not None and b['idx'] == edit_idx: changed_pos.add(b['pos'])
                    if edit_from is not None and b['idx'] >= edit_from: changed_pos.add(b['pos'])
            # wrong parity in a stripe of the unsynced file (sometimes)
            mine = sorted(b['pos'] for b in lay.blocks if b['disk'] == d and os.fsdecode(b['sub']) == rel)
            if mine and rng.chance(1, 2):
                pp = rng.choice(mine)
                if fx.flip_parity_block(a, rng, rng.below(a.nparity), pp): par_flipped.add(pp)
        both = set(p for p in damaged if p in unsynced)
        # what a selected stripe that holds an unsynced block must look like afterwards
        both_expect = {}
        for pos in both:
            own = [b for b in dmg_blocks if b['pos'] == pos and ufile is not None and (b['disk'], b['sub']) == ufile]
            other = [b for b in dmg_blocks if b['pos'] == pos and not (ufile is not None and (b['disk'], b['sub']) == ufile)]
            both_expect[pos] = 'bad' if other else 'unchanged'
        damaged -= both
        kind = rng.choice(['full', 'new', 'bad', 'pct', 'pct', 'pct', 'default'])
        if kind == 'pct':
            pct = rng.choice([1, 5, 10, 25, 50, 75, 100])
            older = rng.choice([0, 1, 5, 10, 20, 40, 70])
            args = ['-p', str(pct), '-o', str(older)]
            c0 = (dec.blockmax * pct + 99) // 100
            planreq = 'auto %d %d' % (c0, NOW - older * day)
        elif kind == 'default':
            args = []
            c0 = (dec.blockmax * 1 + 11) // 12
            planreq = 'auto %d %d' % (c0, NOW - 10 * day)
        else:
            args = ['-p', kind]
            planreq = '%s 0 0' % kind
        toks = ' '.join('-' if i is None else '%d:%d' % (i[0], i[1]) for i in infos)
        rep_l = vlib.driver_query(['scrub-plan %s %s' % (planreq, toks)])[0]
        cl, tl, ll, bits = rep_l.split(' ')
        sel = [c == '1' for c in bits]
        r = a.cmd('scrub', *args, env=env)
        stats['scrubs'] += 1
        stats['plans'][kind] = stats['plans'].get(kind, 0) + 1
        desc = 'plan=%s args=%s blockmax=%d infos=%s damaged=%s unsynced=%s' % (kind, args, dec.blockmax, toks, sorted(damaged), sorted(unsynced))
        problem = None
        if kind in ('pct', 'default'):
            got = (r.tag('count_limit:'), r.tag('time_limit:'), r.tag('last_limit:'))
            want = (['count_limit:' + cl], ['time_limit:' + tl], ['last_limit:' + ll])
            if got != want:
                problem = 'limits differ: binary %s, model %s' % (got, want)
        after = fx.decode(a)
        if not problem and not after.ok:
            problem = 'content unreadable after scrub'
        if not problem:
            for pos in range(dec.blockmax):
                before_i = infos[pos]
                ai = after.info.get(pos)
                ai = None if ai is None else (ai[1], (2 if ai[2] else 0) | (4 if ai[3] else 0) | (8 if ai[4] else 0))
                if before_i is None:
                    continue
                if pos in pending:
                    # deleted or pending blocks: the parity of the stripe is not expected to match, and nothing scrub finds
                    # there (short of a silent error in a synced block of ANOTHER file) is a reason to mark it bad
                    stats['pending_judged'] = stats.get('pending_judged', 0) + 1
                    if ai is not None and (ai[1] & 2) and not (before_i[1] & 2) and both_expect.get(pos) != 'bad':
                        problem = 'stripe %d holds deleted or pending blocks (its parity is not yet up to date): scrub marked it bad (info before %s, after %s, selected=%s)' % (pos, before_i, ai, sel[pos]); break
                    continue
                if pos in unsynced:
                    stats['unsynced_stripes'] = stats.get('unsynced_stripes', 0) + 1
                    if not sel[pos]:
                        want_i = before_i
                    elif both_expect.get(pos) == 'bad':
                        want_i = (before_i[0], before_i[1] | 2)       # silent error of a SYNCED file in this stripe: a data error
                    elif pos in both or pos in changed_pos or pos in par_flipped:
                        want_i = before_i                             # differences caused by the changed file: not marked, not refreshed
                    else:
                        want_i = (NOW, 0)                             # the blocks still have the recorded bytes: verified
                    if ai != want_i:
                        problem = 'stripe %d holds a block of a file changed since the last sync: info after scrub %s, expected %s (selected=%s, block of the changed file differs=%s, parity wrong=%s, silent error of another file=%s)' % (pos, ai, want_i, sel[pos], pos in changed_pos, pos in par_flipped, both_expect.get(pos)); break
                    continue
                if sel[pos]:
                    stats['selected'] += 1
                    if pos in damaged:
                        want_i = (before_i[0], before_i[1] | 2)
                    else:
                        want_i = (NOW, 0)
                else:
                    want_i = before_i
                if ai != want_i:
                    problem = 'stripe %d: info after scrub %s, model expects %s (selected=%s, damaged=%s)' % (pos, ai, want_i, sel[pos], pos in damaged); break
        if problem:
            out.append(('%s; %s' % (problem, desc[:300]), '%s\n%s\nscrub exit %d\ntags:\n%s' % (problem, desc, r.rc, '\n'.join(t for t in r.tags if t.split(':')[0] in ('count_limit', 'time_limit', 'last_limit', 'error', 'parity_error', 'summary', 'info_time', 'info_count')))))
            break
    shutil.rmtree(backup, ignore_errors=True)
    a.destroy()
    return out or None

def autosave_scrub(exe, shim, root, seed):
    """books across an intermediate autosave: `autosave 1` (GB) with blocks of 8 MiB on 8 disks makes the scrub save the
    content file once half way; whatever it books AFTER that save (refreshed times, cleared never-scrubbed marks, a bad
    mark for a silent error in a late stripe) must be in the content file it leaves, and the follow-up fix -e / scrub -p bad
    must work from it"""
    rng = e2e.Rng(seed)
    nd, kib, nblk = 8, 8192, 32
    a = e2e.Arr(root, exe, ndisks=nd, nparity=1, block_kib=kib, ncontent=1, hashsize=16, autosave=1)
    limit = 10**9 // (nd * a.block)
    T0, T1 = NOW - 30 * 86400, NOW
    for d in a.disks:
        p = a.path(d, 'big_%s.bin' % d)
        with open(p, 'wb') as f:
            for b in range(nblk):
                f.seek(b * a.block); f.write(rng.bytes(24))
            f.truncate(nblk * a.block)
        os.utime(p, ns=(1_600_000_000_000_000_123, 1_600_000_000_000_000_123))
    r = a.cmd('sync', env={'LD_PRELOAD': shim, 'VERIF_NOW': str(T0)}, timeout=600)
    if r.rc != 0:
        a.destroy(); return None
    victim = nblk - 3                      # a stripe processed after the last autosave point
    p = a.path('d1', 'big_d1.bin'); st = os.stat(p)
    with open(p, 'r+b') as f:
        f.seek(victim * a.block + 5); c = f.read(1); f.seek(victim * a.block + 5); f.write(bytes([c[0] ^ 0x40]))
    os.utime(p, ns=(st.st_mtime_ns, st.st_mtime_ns))
    r = a.cmd('scrub', '-p', 'full', env={'LD_PRELOAD': shim, 'VERIF_NOW': str(T1)}, timeout=600)
    dec = fx.decode(a)
    problem = None
    cfg = 'autosave 1 (GB), %d disks, blocks of %d KiB, %d stripes (one autosave after %d), silent error in stripe %d of d1' % (nd, kib, nblk, limit, victim)
    if not dec.ok:
        problem = 'content file not loadable after the scrub'
    elif r.rc == 0:
        problem = 'scrub -p full exits 0 over a silent error'
    else:
        stale = [pos for pos in range(nblk) if pos != victim and (dec.info.get(pos) is None or dec.info[pos][1] != T1 or dec.info[pos][2] or dec.info[pos][4])]
        vi = dec.info.get(victim)
        if stale:
            problem = '[autosave-books] %d stripes verified correct by the scrub are not booked in the content file it leaves (time %s instead of %d, or still marked never-scrubbed): stripes %s' % (len(stale), dec.info.get(stale[0]) and dec.info[stale[0]][1], T1, stale[:8])
        elif vi is None or not vi[2]:
            problem = '[autosave-books] the silent error of stripe %d was reported but the stripe is not marked bad in the content file' % victim
        else:
            f1 = a.cmd('fix', '-e', timeout=600)
            s2 = a.cmd('scrub', '-p', 'bad', env={'LD_PRELOAD': shim, 'VERIF_NOW': str(T1 + 60)}, timeout=600)
            dec2 = fx.decode(a)
            if f1.rc != 0 or s2.rc != 0 or not dec2.ok or any(i[2] for i in dec2.info.values()):
                problem = 'fix -e (exit %d) + scrub -p bad (exit %d) do not clear the bad mark' % (f1.rc, s2.rc)
    a.destroy()
    return ('%s; %s' % (problem, cfg), '%s\n%s\nscrub output tail:\n%s' % (problem, cfg, r.out[-600:])) if problem else None

def main(tier, seed):
    chk = vlib.Check('C15', 'proof', tier, seed)
    chk.assumptions = ['clock frozen by the shim (time() = fixed value) so that ages are exact', 'per-stripe info synthesized by Lean decode -> edit -> Lean encode of a real content file']
    ok, log = vlib.ensure_lean_built()
    chk.oblig('lake build', ok, log[-300:])
    hits = vlib.forbidden_tokens()
    chk.oblig('no sorry/admit/axiom/native_decide in library', not hits, '; '.join(hits))
    okA, ax, out = vlib.axioms_audit(STATIC_THEOREMS, ['SnapraidVerif.Props.C15'])
    chk.axioms.update(ax)
    for t in STATIC_THEOREMS:
        chk.oblig('axiom audit: ' + t, ax.get(t) is not None and all(x in vlib.STD_AXIOMS for x in ax[t]), str(ax.get(t)))
    try:
        exe = vlib.build_snapraid(); shim = vlib.build_shim()
    except vlib.BuildError as e:
        chk.violation('build of /repo failed: ' + str(e)[:300], str(e), False, 'build'); chk.finish()
    n = 48 if tier == 'quick' else 400
    stats = {'scrubs': 0, 'plans': {}, 'selected': 0}
    def job(i):
        return scenario(exe, shim, os.path.join(vlib.scratch(), 'p%d' % i), seed * 100000 + 70000 + i, stats)
    with ThreadPoolExecutor(vlib.NCPU) as ex:
        res = list(ex.map(job, range(n)))
    k = 0
    for r in res:
        if r:
            k += 1
            if k <= 3:
                chk.violation('C15 ' + r[0][0], r[0][1], True, 'plan')
    av = autosave_scrub(exe, shim, os.path.join(vlib.scratch(), 'autosave'), seed * 100000 + 79000)
    stats['autosave_scrub'] = 'violation' if av else 'ok'
    if av:
        chk.violation('C15 ' + av[0], av[1], True, 'autosave')
    for o in chk.obligations:
        if not o[1]:
            chk.violation('C15 static obligation failed: ' + o[0], o[0] + '\n' + o[2], False, 'static')
    chk.evaluations = stats['scrubs']
    chk.distinct = stats['selected']
    chk.rule = ('%d arrays x 4 scrubs: per-stripe last-check times drawn from 1-6 distinct ages within 60 days (+ never-scrubbed marks), optional silent damage and a file changed since the last sync; plans full/new/bad/percentage (1..100 with -o 0..70 days)/default; the binary`s count_limit/time_limit/last_limit tags and the info of EVERY stripe after the scrub (Lean-decoded) must equal the Lean model: selected and verified -> (now, no marks); selected with silent error -> bad, time kept; unselected -> unchanged; unsynced differences never marked; changed-since-sync files incl. same-second rewrites whose new stamp has no sub-second part; one directed scrub that crosses an autosave point (8 MiB blocks, autosave 1) with a silent error after it' % n)
    chk.samples = [dict(stats)]
    chk.corr['PLAN'] = dict(stats)
    chk.finish()

def replay(path):
    print(open(path).read()[:8000]); return 0
