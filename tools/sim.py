"""Scenario machinery on top of e2e.Arr: seeded file-system histories, a version store of every
file version ever visible to a command, and the independent C06 oracle (parity recomputed by
the Lean genSpec from the Lean-decoded content file and the version store)."""
import os, stat, shutil
import e2e, vlib

NAMES = ['a', 'b.txt', 'c d', 'sub/x', 'sub/y z', 'sub/deep/w', 'e:f', 'g\\h', 'i\nj', '\udce9\udcff', 'k*?[', '.hid', 'Zz', 't/u/v/w/x']

def sizes_for(bs):
    return [0, 1, bs - 1, bs, bs + 1, 2 * bs, 2 * bs + 17, 3 * bs - 1, 5 * bs + 3, 7 * bs]

class Sim:
    def __init__(self, arr, rng, weird_names=True, links=True):
        self.arr, self.rng = arr, rng
        self.store = {}        # (disk, rel_bytes, size, mtime_ns) -> bytes
        self.history = []      # textual log of what was done (replay description)
        self.names = NAMES if weird_names else [n for n in NAMES if all(32 < ord(c) < 127 and c not in ':\\*?[' for c in n)]
        self.links = links
        self.clock = 1_600_000_000_000_000_000 + rng.below(10**9)

    # ---- time: every new file version gets a fresh, distinct mtime with non-zero nsec
    def tick(self):
        self.clock += 1_000_000_000 + self.rng.below(999_999_000) + 1
        if self.clock % 1_000_000_000 == 0:
            self.clock += 1
        # boundary sub-second parts: one stamp in eight ends in .999999999 (the largest value the record can hold),
        # one in eight in .000000001 (the smallest that is not "no sub-second part"); the second always advances
        k = self.clock % 8
        if k == 0: self.clock = (self.clock // 1_000_000_000) * 1_000_000_000 + 999_999_999
        elif k == 1: self.clock = (self.clock // 1_000_000_000) * 1_000_000_000 + 1
        return self.clock

    def log(self, s):
        self.history.append(s)

    def pick_file(self):
        """a file to operate on; biased (1/2) towards files with pending (CHG/REP) blocks in the last decoded content"""
        files = self.existing_files()
        if not files:
            return None
        foc = [f for f in getattr(self, 'focus', []) if f in files]
        if foc and self.rng.chance(1, 2):
            return self.rng.choice(foc)
        return self.rng.choice(files)

    def existing_files(self):
        out = []
        for d in self.arr.disks:
            base = self.arr.ddir(d)
            for dp, dn, fn in os.walk(base):
                for n in fn:
                    p = os.path.join(dp, n)
                    if os.path.isfile(p) and not os.path.islink(p):
                        out.append((d, os.path.relpath(p, base)))
        return sorted(out)

    def fs_create(self, d=None, rel=None, size=None):
        a, r = self.arr, self.rng
        d = d or r.choice(a.disks)
        rel = rel or r.choice(self.names)
        p = a.path(d, rel)
        if os.path.isdir(p) and not os.path.islink(p):
            return
        par = os.path.dirname(p)
        # do not create below a regular file
        q = par
        while q != a.ddir(d) and not os.path.exists(q):
            q = os.path.dirname(q)
        if not os.path.isdir(q) or os.path.islink(q):
            return
        if os.path.islink(p):
            os.unlink(p)
        size = r.choice(sizes_for(a.block)) if size is None else size
        a.write(d, rel, r.bytes(size), self.tick())
        self.log('create %s/%r size=%d' % (d, rel, size))

    def fs_modify(self):
        pf = self.pick_file()
        if pf is None:
            return self.fs_create()
        d, rel = pf
        a, r = self.arr, self.rng
        old = a.read(d, rel)
        k = r.below(4)
        if k == 0:      # same-size rewrite, new mtime
            new = r.bytes(len(old))
        elif k == 1:    # append
            new = old + r.bytes(1 + r.below(2 * a.block))
        elif k == 2:    # truncate
            new = old[:r.below(len(old) + 1)]
        else:           # change one block only
            if len(old) == 0:
                new = r.bytes(5)
            else:
                off = r.below(len(old))
                new = old[:off] + bytes([old[off] ^ 0x5a]) + old[off + 1:]
        # write in place (keeps the inode)
        with open(a.path(d, rel), 'r+b') as f:
            f.seek(0); f.write(new); f.truncate(len(new))
        t = self.tick()
        os.utime(a.path(d, rel), ns=(t, t))
        self.log('modify(%d) %s/%r -> size=%d' % (k, d, rel, len(new)))

    def fs_touch(self):
        """new time-stamp, same bytes"""
        pf = self.pick_file()
        if pf is None:
            return
        d, rel = pf
        t = self.tick()
        os.utime(self.arr.path(d, rel), ns=(t, t))
        self.log('touch %s/%r' % (d, rel))

    def fs_delete(self):
        pf = self.pick_file()
        if pf is None:
            return
        d, rel = pf
        if getattr(self, 'resurrect', False):
            p = self.arr.path(d, rel)
            if not hasattr(self, 'graveyard'): self.graveyard = []
            self.graveyard.append((d, rel, self.arr.read(d, rel), os.stat(p).st_mtime_ns))
        os.unlink(self.arr.path(d, rel))
        self.log('delete %s/%r' % (d, rel))

    def fs_resurrect(self):
        """a deleted file comes back with the same bytes (restored from a backup: same or new time-stamp)"""
        g = [x for x in getattr(self, 'graveyard', []) if not os.path.lexists(self.arr.path(x[0], x[1]))]
        if not g:
            return self.fs_create()
        d, rel, data, mt = self.rng.choice(g)
        par = os.path.dirname(self.arr.path(d, rel))
        q = par
        while q != self.arr.ddir(d):
            if os.path.lexists(q) and not os.path.isdir(q): return
            q = os.path.dirname(q)
        same = self.rng.chance(1, 2)
        self.arr.write(d, rel, data, mt if same else self.tick())
        self.log('resurrect %s/%r (same bytes, %s time-stamp)' % (d, rel, 'same' if same else 'new'))

    def fs_wipe_disk(self):
        """remove every file of one data disk (needs --force-empty at the next sync)"""
        d = self.rng.choice(self.arr.disks)
        for dd, rel in self.existing_files():
            if dd == d:
                os.unlink(self.arr.path(d, rel))
        self.log('wipe all files of %s' % d)

    def fs_move(self):
        pf = self.pick_file()
        if pf is None:
            return
        d, rel = pf
        a, r = self.arr, self.rng
        d2 = d if r.chance(1, 2) else r.choice(a.disks)
        rel2 = r.choice(self.names)
        dst = a.path(d2, rel2)
        if os.path.lexists(dst):
            return
        par = os.path.dirname(dst)
        q = par
        while q != a.ddir(d2) and not os.path.exists(q):
            q = os.path.dirname(q)
        if not os.path.isdir(q) or os.path.islink(q):
            return
        os.makedirs(par, exist_ok=True)
        src = a.path(d, rel)
        st = os.stat(src)
        if d2 == d:
            os.rename(src, dst)
        else:
            shutil.copyfile(src, dst)
            os.utime(dst, ns=(st.st_mtime_ns, st.st_mtime_ns))
            os.unlink(src)
        self.log('move %s/%r -> %s/%r' % (d, rel, d2, rel2))

    def fs_copy(self):
        """copy keeping name, size and mtime on another disk (triggers copy detection)"""
        pf = self.pick_file()
        if pf is None:
            return
        d, rel = pf
        a, r = self.arr, self.rng
        others = [x for x in a.disks if x != d]
        if not others:
            return
        d2 = r.choice(others)
        dst = a.path(d2, rel)
        if os.path.lexists(dst):
            return
        par = os.path.dirname(dst)
        q = par
        while q != a.ddir(d2) and not os.path.exists(q):
            q = os.path.dirname(q)
        if not os.path.isdir(q) or os.path.islink(q):
            return
        os.makedirs(par, exist_ok=True)
        src = a.path(d, rel)
        st = os.stat(src)
        shutil.copyfile(src, dst)
        os.utime(dst, ns=(st.st_mtime_ns, st.st_mtime_ns))
        self.log('copy %s/%r -> %s/%r' % (d, rel, d2, rel))

    def fs_copy_over(self):
        """replace an existing file by a copy (new inode, same name, size and time-stamp as the source) of
        the same-named file of another disk: copy detection then gives it provisional (REP) hashes"""
        files = self.existing_files()
        if not files:
            return
        pf = self.pick_file()
        d, rel = pf
        a = self.arr
        others = [x for x in a.disks if x != d and os.path.isfile(a.path(x, rel)) and not os.path.islink(a.path(x, rel))]
        if not others:
            return self.fs_copy()
        d2 = self.rng.choice(others)
        src, dst = a.path(d, rel), a.path(d2, rel)
        st = os.stat(src)
        tmp = dst + '.cptmp'
        shutil.copyfile(src, tmp)
        os.utime(tmp, ns=(st.st_mtime_ns, st.st_mtime_ns))
        os.rename(tmp, dst)
        self.log('copy-over %s/%r -> %s/%r' % (d, rel, d2, rel))

    def fs_link(self):
        a, r = self.arr, self.rng
        d = r.choice(a.disks)
        rel = 'L' + r.choice(['1', '2', 'k/3'])
        p = a.path(d, rel)
        if os.path.lexists(p):
            if os.path.islink(p):
                os.unlink(p)
                os.symlink(r.choice(['a', 'sub/x', '../zz', 'nonexistent']), p)
                self.log('retarget link %s/%r' % (d, rel))
            return
        os.makedirs(os.path.dirname(p), exist_ok=True)
        os.symlink(r.choice(['a', 'sub/x', '/abs/olute', 'nonexistent']), p)
        self.log('symlink %s/%r' % (d, rel))

    def fs_dir(self):
        a, r = self.arr, self.rng
        d = r.choice(a.disks)
        p = a.path(d, r.choice(['E1', 'E2/E3']))
        if os.path.isdir(p):
            try:
                os.rmdir(p); self.log('rmdir %s' % p)
            except OSError:
                pass
        elif not os.path.lexists(p):
            os.makedirs(p); self.log('mkdir %s' % p)

    def fs_random(self, n=1, weights=None):
        ops = [(self.fs_create, 6), (self.fs_modify, 4), (self.fs_delete, 3), (self.fs_move, 2), (self.fs_copy, 2), (self.fs_copy_over, 1), (self.fs_touch, 2)]
        if getattr(self, 'churn', False):
            # pending-churn mode: mostly re-touch what is pending, and create copies (provisional hashes)
            ops = [(self.fs_create, 2), (self.fs_modify, 3), (self.fs_delete, 2), (self.fs_move, 2), (self.fs_copy, 4), (self.fs_copy_over, 4), (self.fs_touch, 5)]
        if self.rng.chance(1, 12):
            ops = ops + [(self.fs_wipe_disk, 2)]
        if self.links and not getattr(self, 'churn', False):
            ops += [(self.fs_link, 1), (self.fs_dir, 1)]
        if getattr(self, 'resurrect', False):
            ops = ops + [(self.fs_delete, 3), (self.fs_resurrect, 5)]
        tot = sum(w for _, w in ops)
        for _ in range(n):
            x = self.rng.below(tot)
            for f, w in ops:
                if x < w:
                    f(); break
                x -= w

    def set_focus(self, dec):
        """remember which files have pending blocks (from a Lean-decoded content file)"""
        self.focus = []
        if dec is None or not dec.ok:
            return
        maps = [m[0].decode('latin-1') for m in dec.maps]
        for f in dec.files:
            if any(k != 'b' for _, k, _ in f['blocks']):
                self.focus.append((maps[f['mapping']], os.fsdecode(f['sub'])))

    # ---- version store --------------------------------------------------------------
    def remember(self):
        for d in self.arr.disks:
            base = self.arr.ddir(d)
            for dp, dn, fn in os.walk(base):
                for n in fn:
                    p = os.path.join(dp, n)
                    st = os.lstat(p)
                    if stat.S_ISREG(st.st_mode):
                        rel = os.path.relpath(p, base).encode('latin-1', 'surrogateescape') if False else os.fsencode(os.path.relpath(p, base))
                        key = (d, rel, st.st_size, st.st_mtime_ns)
                        if key not in self.store:
                            with open(p, 'rb') as f:
                                self.store[key] = f.read()

    def run(self, op, *args, **kw):
        self.remember()
        if getattr(self, 'fake_now', None) is not None:
            # the commands of this history run at increasing, far apart times (frozen clock through the shim):
            # per-stripe scrub/sync times then differ from command to command
            env = dict(kw.get('env') or {})
            env.setdefault('LD_PRELOAD', self.shim)
            env.setdefault('VERIF_NOW', str(self.fake_now))
            kw['env'] = env
            self.fake_now += 3600 * (1 + self.rng.below(72))
        res = self.arr.cmd(op, *args, **kw)
        if op == 'fix':
            # fix may leave a file that carries a RECORDED size and time-stamp with other bytes than the version known under
            # that stamp: it restores the blocks that have a recorded hash, leaves the pending ones as they are on disk and
            # sets the recorded time.  Such a (path, size, stamp) no longer identifies one byte string.
            self.refresh_after_fix(res)
        self.remember()
        self.log('snapraid %s %s -> rc=%d' % (op, ' '.join(args), res.rc))
        if getattr(self, 'track_lengths', False):
            self.update_synced_lengths()
        return res

    def refresh_after_fix(self, res):
        # only the files fix says it wrote
        touched = set()
        for t in res.tags:
            q = t.split(':')
            if q[0] == 'fixed' and len(q) >= 4: touched.add((q[2], e2e.unesc_tag(q[3])))
            elif q[0] == 'status' and len(q) >= 4 and q[1] == 'recovered': touched.add((q[2], e2e.unesc_tag(q[3])))
        for d in self.arr.disks:
            base = self.arr.ddir(d)
            for dp, dn, fn in os.walk(base):
                for n in fn:
                    p = os.path.join(dp, n)
                    st = os.lstat(p)
                    if stat.S_ISREG(st.st_mode):
                        rel = os.fsencode(os.path.relpath(p, base))
                        if (d, rel) not in touched and (d, os.fsdecode(rel)) not in touched: continue
                        key = (d, rel, st.st_size, st.st_mtime_ns)
                        if key in self.store:
                            with open(p, 'rb') as f: cur = f.read()
                            if cur != self.store[key]:
                                # two different byte strings are now known under one (path, size, stamp): which of them a
                                # recorded block means depends on its state (a hashed block: the old bytes, a pending one:
                                # what is on disk).  The harness does not decide: blocks of this version are not judged
                                if not hasattr(self, 'ambiguous'): self.ambiguous = set()
                                self.ambiguous.add(key)
                                self.refreshed = getattr(self, 'refreshed', 0) + 1

    def update_synced_lengths(self):
        """(generator column, position) -> length of the block last recorded as synced there"""
        a = self.arr
        if not os.path.exists(a.contents[0]):
            return
        dec = e2e.lean_decode([a.content_bytes(0)], a.block)[0][0]
        if not dec.ok:
            return
        if not hasattr(self, 'synced_len'):
            self.synced_len = {}
        bs = dec.block_size
        for f in dec.files:
            col = dec.maps[f['mapping']][1]
            for idx, (pos, kind, h) in enumerate(f['blocks']):
                if kind == 'b':
                    self.synced_len[(col, pos)] = min(bs, f['size'] - idx * bs)

    def populate(self, per_disk=4):
        for d in self.arr.disks:
            for i in range(per_disk):
                self.fs_create(d, 'base%d/%s' % (i % 2, 'f%d' % i))

    def sync(self, *args, **kw):
        """sync; when refused by the force-empty / force-zero interlocks (C14) retry with the override"""
        res = self.run('sync', *args, **kw)
        if res.rc != 0 and ('--force-empty' in res.out or '--force-zero' in res.out):
            res = self.run('sync', '--force-empty', '--force-zero', *args, **kw)
        return res

    # ---- the C06 oracle -------------------------------------------------------------
    def file_version(self, disk, frec):
        nsec = frec['nsec']
        if nsec == 0:
            return None      # STAT_NSEC_INVALID
        key = (disk, frec['sub'], frec['size'], frec['sec'] * 1_000_000_000 + (nsec - 1))
        if key in getattr(self, 'ambiguous', ()):
            return None
        return self.store.get(key)

    def invariant_problems(self, dec=None, levels=None, want_blocks=False):
        """C06: returns (problems, stats). Stripes whose allocated blocks are all BLK must have
        parity = gen(synced contents) in every level, parity files long enough; extent
        well-formedness (no shared position, every block mapped, positions increasing)."""
        a = self.arr
        problems = []
        stats = {'stripes': 0, 'synced_stripes': 0, 'checked_levels': 0, 'unknown_version': 0}
        if dec is None:
            dec = e2e.lean_decode([a.content_bytes(0)], a.block)[0][0]
        self.set_focus(dec)
        if not dec.ok:
            return (['content file rejected by the Lean decoder'], stats)
        bs = dec.block_size
        # mapping index -> (disk name, generator column)
        maps = [(m[0].decode('latin-1'), m[1]) for m in dec.maps]
        nd = (max([p for _, p in maps]) + 1) if maps else 0
        # per disk: pos -> (kind, file rec, idx)
        per = {}
        for f in dec.files:
            name, col = maps[f['mapping']]
            dd = per.setdefault(col, {})
            nblk = (f['size'] + bs - 1) // bs
            if len(f['blocks']) != nblk:
                problems.append('file %r has %d mapped blocks, needs %d' % (f['sub'], len(f['blocks']), nblk))
            last = -1
            for idx, (pos, kind, h) in enumerate(f['blocks']):
                if pos in dd:
                    problems.append('position %d of disk %s shared by two files' % (pos, name))
                if pos <= last:
                    problems.append('positions of file %r not increasing at block %d' % (f['sub'], idx))
                last = pos
                dd[pos] = (kind, f, idx, name)
        deleted = {}
        for m, dd in dec.deleted.items():
            name, col = maps[m]
            for pos in dd:
                if pos in per.get(col, {}):
                    problems.append('position %d of disk %s both deleted and used' % (pos, name))
                deleted.setdefault(col, set()).add(pos)
        nlev = a.nparity if levels is None else levels
        par = [a.parity_bytes(l) for l in range(nlev)]
        reqs, expect = [], []
        for pos in range(dec.blockmax):
            stats['stripes'] += 1
            blocks = [per.get(c, {}).get(pos) for c in range(nd)]
            has_del = any(pos in deleted.get(c, ()) for c in range(nd))
            alloc = [b for b in blocks if b is not None]
            if not alloc or has_del or any(b[0] != 'b' for b in alloc):
                continue
            stats['synced_stripes'] += 1
            data = []
            unknown = False
            for b in blocks:
                if b is None:
                    data.append(bytes(bs)); continue
                kind, f, idx, name = b
                v = self.file_version(name, f)
                if v is None:
                    unknown = True; break
                blk = v[idx * bs:(idx + 1) * bs]
                data.append(blk + bytes(bs - len(blk)))
            if unknown:
                stats['unknown_version'] += 1
                continue
            for l in range(nlev):
                if len(par[l]) < (pos + 1) * bs:
                    problems.append('parity level %d too short for synced stripe %d (%d bytes)' % (l, pos, len(par[l])))
            mode = 'power' if (a.zmode and nlev == 3) else 'cauchy'
            reqs.append('genspec %s %d %d %d %s' % (mode, nd, nlev, bs, b''.join(data).hex()))
            expect.append(pos)
        if reqs:
            rep = vlib.driver_query(reqs)
            for pos, line in zip(expect, rep):
                want = line.split(' ')
                for l in range(nlev):
                    got = par[l][pos * bs:(pos + 1) * bs]
                    stats['checked_levels'] += 1
                    if len(got) == bs and got.hex() != want[l]:
                        problems.append('stripe %d recorded as synced but parity level %d differs from gen(synced data)' % (pos, l))
        return problems, stats
