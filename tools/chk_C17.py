"""C17  Parity split over several files behaves as one parity."""
import os, shutil, vlib, e2e, sim, fixcommon as fx
from concurrent.futures import ThreadPoolExecutor

STATIC_THEOREMS = [
    'SnapraidVerif.Props.C17.find_spec',
    'SnapraidVerif.Props.C17.find_total',
    'SnapraidVerif.Props.C17.find_injective',
    'SnapraidVerif.Props.C17.find_no_straddle',
    'SnapraidVerif.Props.C17.fillLoop_le',
    'SnapraidVerif.Props.C17.fillLoop_le_limit',
    'SnapraidVerif.Props.C17.fillLoop_ge',
    'SnapraidVerif.Props.C17.chsize_sum',
    'SnapraidVerif.Props.C17.fixed_split_keeps_size',
]

def leaf_split(leaf, root, seed, stats):
    """parity_create/parity_chsize of the binary vs the Lean chsize, operation by operation"""
    rng = e2e.Rng(seed)
    os.makedirs(root, exist_ok=True)
    ns = 1 + rng.below(8)
    bs = 1024
    limit = rng.choice([0, 3 * bs, 4 * bs + 17, 5000, 8 * bs, 10 * bs - 1, 33333, 100 * bs + 1])
    cap = (limit // bs) * ns if limit else 300
    targets = []
    cur = 0
    LIMS = [0, 3 * bs, 4 * bs + 17, 5000, 8 * bs, 10 * bs - 1, 33333, 100 * bs + 1]
    curlim = [limit]
    for _ in range(10 + rng.below(10)):
        k = rng.below(7)
        if k == 6:
            # space was freed / used up on the disks of the splits: another limit from now on (an unlimited phase
            # after a limited one leaves over-sized files the model does not describe: not generated)
            # (only larger limits: a file that already exceeds a smaller limit is not a state a real file system has)
            bigger = [x for x in LIMS if x > curlim[0]]
            if curlim[0] != 0 and bigger:
                curlim[0] = rng.choice(bigger); targets.append('L%d' % curlim[0])
            continue
        if k == 0: cur = max(0, cur - rng.below(cur + 1))
        elif k == 1: cur = rng.below(cap + 3)
        elif k == 2: targets.append('r'); continue
        else: cur = cur + rng.below(max(2, cap // 3))
        targets.append(str(cur * bs))
    out, rc, err = vlib.leaf_query(leaf, ['split %s %d %d %d %s' % (root, ns, limit, bs, ' '.join(targets))])
    shutil.rmtree(root, ignore_errors=True)
    if not out or out[0].startswith('create-failed'):
        return [('leaf harness could not create the splits: %s %s' % (out, err[-200:]), '')]
    res = out[0].split(' ')
    state = [(0, 0)] * ns            # (recorded size, file size)
    problems = []
    j = 0
    for t in targets:
        if t == 'r':
            j += 1; continue
        if t.startswith('L'):
            limit = int(t[1:]); j += 1; continue
        tok = res[j]; j += 1
        parts = tok.split(':')
        crc = int(parts[0].split('=')[1])
        got = [tuple(int(x) for x in p.split('/')) for p in parts[1:]]
        rep = vlib.driver_query(['split-chsize %d %d 0 %s %s' % (bs, limit, t, ' '.join('%d/%d' % s for s in state))])[0]
        stats['chsize'] += 1
        desc = 'nsplit=%d limit=%d target=%s from=%s' % (ns, limit, t, state)
        if rep.startswith('ok'):
            want = [tuple(int(x) for x in p.split('/')) for p in rep.split(' ')[1:]]
            if crc != 0 or got != want:
                problems.append(('parity_chsize gives rc=%d %s, Lean chsize gives %s; %s' % (crc, got, want, desc), out[0][:2000]))
                break
            # property predicates on the real result
            if sum(g[0] for g in got) != int(t):
                problems.append(('split sizes do not add up to the requested size; %s' % desc, out[0][:2000])); break
            grew = [i for i in range(ns) if got[i][0] > state[i][0]]
            lastused = max([i for i in range(ns) if state[i][0] > 0], default=0)
            if any(i < lastused for i in grew):
                problems.append(('a split before the last used one grew (%s); %s' % (grew, desc), out[0][:2000])); break
            state = want
            stats['ok'] += 1
        else:
            if crc == 0:
                problems.append(('parity_chsize succeeds %s where the Lean model fails; %s' % (got, desc), out[0][:2000])); break
            # failure: recorded sizes stay, files are what they are now
            state = [(state[i][0], got[i][1]) for i in range(ns)]
            stats['fail'] += 1
    return problems

def twin(exe, root, seed, stats):
    """the same history on a split and on an unsplit array: concatenated splits == single parity"""
    rng = e2e.Rng(seed)
    nd = 1 + rng.below(3)
    npar = 1 + rng.below(2)
    nsplit = 2 + rng.below(3)
    limit = rng.choice([6 * 1024, 8 * 1024 + 100, 12 * 1024, 15 * 1024 + 1, 20 * 1024])
    arrs = []
    # the levels need not be split alike: sometimes only some of them are (the last one a single file)
    mixed = npar >= 2 and rng.chance(1, 3)
    for name, splits in (('one', 1), ('split', nsplit)):
        a = e2e.Arr(os.path.join(root, name), exe, ndisks=nd, nparity=npar, ncontent=1, hashsize=16, splits=splits)
        if mixed and splits > 1:
            a.level_split_counts = [nsplit] * (npar - 1) + [1]
            a.write_conf()
        arrs.append(a)
    sims = [sim.Sim(a, e2e.Rng(seed + 1), weird_names=False, links=False) for a in arrs]
    lim = ['--test-parity-limit=%d' % limit]
    problems = []
    def both(f):
        for s in sims: f(s)
    def cmp_parity(when, after_fix=False):
        a1, a2 = arrs
        dec = fx.decode(a2)
        bs = a2.block
        used = set()
        for f in dec.files:
            for pos, kind, h in f['blocks']:
                used.add(pos)
        for lev, tot, free, sp in dec.parity:
            if lev >= npar: continue
            sizes = [x[2] for x in sp]
            p1 = a1.parity_bytes(lev)
            stats['compares'] += 1
            if not after_fix:
                p2 = a2.parity_bytes(lev)
                if p1 != p2:
                    n = min(len(p1), len(p2))
                    off = next((i for i in range(n) if p1[i] != p2[i]), n)
                    return '%s: concatenation of the %d splits of level %d differs from the single-file parity (lengths %d vs %d, first difference at byte %d)' % (when, nsplit, lev, len(p2), len(p1), off)
            else:
                # a fix materialises only the stripes it rewrites (a split may end before its recorded size where the
                # trailing stripes hold no block; the next sync regrows it): compare every stripe that holds a block,
                # read through the recorded split sizes
                files = [open(pf, 'rb').read() if os.path.exists(pf) else b'' for pf in a2.parity_files(lev)]
                for pos in sorted(used):
                    off = pos * bs
                    i = 0
                    while i < len(sizes) and off >= sizes[i]:
                        off -= sizes[i]; i += 1
                    blk = files[i][off:off + bs] if i < len(sizes) else b''
                    if blk != p1[pos * bs:(pos + 1) * bs]:
                        return '%s: stripe %d of level %d read through the split map (split %d offset %d) differs from the single-file parity' % (when, pos, lev, i, off)
            for i, (path, uuid, size) in enumerate(sp):
                pf = a2.parity_files(lev)[i]
                fs = os.path.getsize(pf) if os.path.exists(pf) else 0
                if fs > size or (fs != size and not after_fix):
                    return '%s: split %d of level %d has %d bytes on disk, %d recorded' % (when, i, lev, fs, size)
                if size % bs:
                    return '%s: recorded split size %d not block aligned' % (when, size)
        return None
    npop = 2 + rng.below(3)
    both(lambda s: s.populate(npop))
    for step in range(5 + rng.below(4)):
        # sequential disk scan: with scan threads the copy detection of a file whose source is deleted in the same scan
        # depends on thread order (known finding C13-scan-copy-race) and the twins could allocate differently
        rr = [s.sync(*(lim if s.arr.splits > 1 else []), opts=e2e.BASE_OPTS + ['--test-skip-multi-scan']) for s in sims]
        rcs = [r.rc for r in rr]
        if rcs[1] != 0 and ('lack of space' in rr[1].out or 'Failed to allocate' in rr[1].out or 'Failed to grow' in rr[1].out):
            stats['out_of_space'] = stats.get('out_of_space', 0) + 1
            break       # the simulated disks are full: legitimate refusal
        if rcs[0] != rcs[1]:
            problems.append(('sync exits %d on the split array and %d on the unsplit twin (splits=%d limit=%d)' % (rcs[1], rcs[0], nsplit, limit), rr[1].out[-900:] + '\n---\n' + rr[0].out[-300:] + '\n' + '\n'.join(sims[1].history))); break
        p = cmp_parity('after sync %d' % step)
        if p:
            problems.append((p + ' (splits=%d limit=%d)' % (nsplit, limit), '\n'.join(sims[1].history))); break
        k = rng.below(5)
        if k <= 1 and step > 0:
            # lose one split (or the whole level) and fix
            lev = rng.below(npar); which = rng.below(nsplit)
            pf = arrs[1].parity_files(lev)[which % len(arrs[1].parity_files(lev))]
            if os.path.exists(pf) and os.path.getsize(pf) > 0:
                # the same loss on both twins: the whole level (all its splits / the single file)
                for q in arrs[1].parity_files(lev):
                    if os.path.exists(q): os.unlink(q)
                os.unlink(arrs[0].parity_files(lev)[0])
                r = [a.cmd('fix', *(lim if a.splits > 1 else [])) for a in arrs]
                stats['fixes'] += 1
                p = cmp_parity('after fix of lost level %d' % lev, after_fix=True)
                if p:
                    problems.append((p + ' (splits=%d limit=%d)' % (nsplit, limit), '\n'.join(sims[1].history))); break
        # same file operations on both (same rng stream)
        both(lambda s: s.fs_random(2 + s.rng.below(4)))
    for a in arrs: a.destroy()
    shutil.rmtree(root, ignore_errors=True)
    return problems

def lost_split_dir(exe, root, seed, stats):
    """the splits of a level live in DIFFERENT directories (devices); the directory of one of them - first, middle or last -
    is gone together with a data file: fix --force-device skips the level that cannot be opened and recovers from the
    other level, exactly as it does for a one-file parity whose directory is gone"""
    import shutil
    rng = e2e.Rng(seed)
    nsp = rng.choice([1, 2, 3, 3])
    a = e2e.Arr(root, exe, ndisks=2 + rng.below(2), nparity=2, ncontent=1, splits=nsp)
    pdirs = [os.path.join(a.root, 'pdev%d' % k) for k in range(nsp)]
    for pd in pdirs: os.makedirs(pd, exist_ok=True)
    orig = a.parity_files
    a.parity_files = lambda level: ([os.path.join(pdirs[k], 'parity.%d' % k) for k in range(nsp)] if level == 0 else [os.path.join(a.root, 'par', '2-parity')])
    a.level_split_counts = [nsp, 1]
    a.write_conf()
    s = sim.Sim(a, rng.fork(), weird_names=False)
    s.populate(2 + rng.below(2))
    limit = rng.choice([8 * 1024 + 100, 12 * 1024, 15 * 1024 + 1, 20 * 1024])
    lim = ['--test-parity-limit=%d' % limit] if nsp > 1 else []
    if s.sync(*lim).rc != 0:
        a.destroy(); return None
    used = [k for k in range(nsp) if os.path.exists(a.parity_files(0)[k]) and os.path.getsize(a.parity_files(0)[k]) > 0]
    snap = a.snapshot()
    files = s.existing_files()
    if not files or not used:
        a.destroy(); return None
    d, rel = rng.choice([f for f in files if os.path.getsize(a.path(*f)) > 0] or files)
    os.unlink(a.path(d, rel))
    k = rng.below(nsp)
    shutil.rmtree(pdirs[k])
    r = a.cmd('fix', '--force-device', *lim)
    stats['lost_split_dir'] = stats.get('lost_split_dir', 0) + 1
    now = a.snapshot()
    w = now.get((d, rel)); v = snap.get((d, rel))
    problem = None
    if w is None or w[0] != 'f' or w[1] != v[1]:
        problem = '[lost-split-dir] level 1 of 2 has %d split(s) in separate directories, the directory of split %d (used splits %s) is gone with %s/%r: fix --force-device does not recover the file from the other level (exit %d): %s' % (
            nsp, k, used, d, rel, r.rc, r.out[-200:].replace('\n', ' '))
    hist = '\n'.join(s.history)
    a.destroy()
    return [(problem + ' seed=%d' % seed, problem + '\n' + hist)] if problem else None

def empty_middle_split(exe, root, seed, stats):
    """a split in the MIDDLE that has no room for a single block (its limit is below the block size) while a later split holds
    parity: recorded sizes like 1024/0/1024.  Everything a one-file parity allows must still work: a second sync of changed
    files, check, fix of a lost file"""
    rng = e2e.Rng(seed)
    # --test-parity-limit=L gives split s of level 0 the limit L + (123562341 + s*634542351) % 2^32 % L: search an L (below two
    # blocks) for which some middle split gets < 1 block and its neighbours >= 1 block
    bs = 1024
    def lim(L, sidx): return L + (123562341 + sidx * 634542351) % (1 << 32) % L
    cands = [L for L in range(520, 1000) if lim(L, 0) >= bs and lim(L, 1) < bs and lim(L, 2) >= bs]
    if not cands: return None
    L = rng.choice(cands)
    a = e2e.Arr(root, exe, ndisks=2, nparity=1, ncontent=1, splits=3)
    s = sim.Sim(a, rng.fork(), weird_names=False)
    cap = lim(L, 0) // bs + lim(L, 2) // bs          # blocks that fit in splits 0 and 2
    a.write('d1', 'x', rng.bytes(bs * cap - rng.below(100)), s.tick())
    a.write('d2', 'y', rng.bytes(bs * max(1, cap - 1)), s.tick())
    la = ['--test-parity-limit=%d' % L]
    if s.sync(*la).rc != 0:
        a.destroy(); return None
    sizes = [os.path.getsize(pf) if os.path.exists(pf) else 0 for pf in a.parity_files(0)]
    stats['empty_middle'] = stats.get('empty_middle', 0) + 1
    problem = None
    cfg = 'empty-middle-split limit=%d split sizes after the first sync %s seed=%d' % (L, sizes, seed)
    with open(a.path('d2', 'y'), 'r+b') as f: f.write(rng.bytes(200))
    t = s.tick(); os.utime(a.path('d2', 'y'), ns=(t, t)); s.log('d2/y rewritten in place')
    r2 = s.run('sync', '--force-empty', '--force-zero', *la)
    if r2.rc != 0:
        problem = '[empty-middle-split] the second sync is refused or fails (exit %d): %s' % (r2.rc, r2.out[-200:].replace('\n', ' '))
    else:
        c = a.cmd('check', *la)
        if c.rc != 0: problem = '[empty-middle-split] check fails after the second sync (exit %d)' % c.rc
        else:
            snap = a.snapshot(); os.unlink(a.path('d1', 'x'))
            f = a.cmd('fix', *la)
            if fx.compare_snapshot(a, snap): problem = '[empty-middle-split] a lost file is not rebuilt (fix exit %d)' % f.rc
    hist = '\n'.join(s.history)
    a.destroy()
    return [('%s; %s' % (problem, cfg), problem + '\n' + cfg + '\n' + hist)] if problem else None

def main(tier, seed):
    chk = vlib.Check('C17', 'proof', tier, seed)
    chk.assumptions = ['file system abstracted as "growing a split to t bytes succeeds iff t <= limit" (exactly what --test-parity-limit simulates)',
                       'C01/C06 for split parity are exercised by the C01/C06/C04 checks, which draw split layouts too']
    ok, log = vlib.ensure_lean_built()
    chk.oblig('lake build', ok, log[-300:])
    hits = vlib.forbidden_tokens()
    chk.oblig('no sorry/admit/axiom/native_decide in library', not hits, '; '.join(hits))
    okA, ax, out = vlib.axioms_audit(STATIC_THEOREMS, ['SnapraidVerif.Props.C17'])
    chk.axioms.update(ax)
    for t in STATIC_THEOREMS:
        chk.oblig('axiom audit: ' + t, ax.get(t) is not None and all(x in vlib.STD_AXIOMS for x in ax[t]), str(ax.get(t)))
    try:
        exe = vlib.build_snapraid(); leaf = vlib.build_leaf_harness()
    except vlib.BuildError as e:
        chk.violation('build of /repo failed: ' + str(e)[:300], str(e), False, 'build'); chk.finish()
    nl, nt = (120, 32) if tier == 'quick' else (1500, 300)
    stats = {'chsize': 0, 'ok': 0, 'fail': 0, 'compares': 0, 'fixes': 0}
    jobs = [('leaf', i) for i in range(nl)] + [('twin', i) for i in range(nt)] + [('lsd', i) for i in range(16 if tier == 'quick' else 160)] + [('ems', i) for i in range(4 if tier == 'quick' else 40)]
    def job(j):
        kind, i = j
        root = os.path.join(vlib.scratch(), '%s%d' % (kind, i))
        if kind == 'leaf':
            return leaf_split(leaf, root, seed * 100000 + 80000 + i, stats)
        if kind == 'ems':
            return empty_middle_split(exe, root, seed * 100000 + 97000 + i, stats)
        if kind == 'lsd':
            return lost_split_dir(exe, root, seed * 100000 + 95000 + i, stats)
        return twin(exe, root, seed * 100000 + 90000 + i, stats)
    with ThreadPoolExecutor(vlib.NCPU) as ex:
        res = list(ex.map(job, jobs))
    k = 0
    for r in res:
        if r:
            k += 1
            if k <= 3:
                chk.violation('C17 ' + r[0][0], r[0][1], True, 'split')
    for o in chk.obligations:
        if not o[1]:
            chk.violation('C17 static obligation failed: ' + o[0], o[0] + '\n' + o[2], False, 'static')
    chk.evaluations = stats['chsize'] + stats['compares']
    chk.distinct = stats['chsize']
    chk.rule = ('SPLIT: %d seeded sequences of 10-20 parity_chsize calls (growth, shrink across split boundaries, re-open) on 1..8 real split files with size limits 0, aligned, non-aligned, hit mid-growth; return code, recorded sizes and file sizes compared call by call with the Lean chsize model, plus sum-of-sizes and only-last-used-split-grows predicates. TWIN: %d pairs of arrays with the same history, 2-4 splits with --test-parity-limit vs one file: concatenated splits must be byte-identical to the single parity after every sync and after fix of a lost split; recorded split sizes (Lean-decoded Q records) must equal the file sizes; splits in separate directories, one directory lost with a data file: fix --force-device recovers from the other level' % (nl, nt))
    chk.samples = [dict(stats)]
    chk.corr['SPLIT+TWIN'] = dict(stats)
    chk.finish()

def replay(path):
    print(open(path).read()[:8000]); return 0
