"""C20  Reports and derived views reflect the recorded state faithfully."""
import os, shutil, stat, vlib, e2e, sim, fixcommon as fx
from concurrent.futures import ThreadPoolExecutor

STATIC_THEOREMS = [
    'SnapraidVerif.Props.C20.tag_roundtrip',
    'SnapraidVerif.Props.C20.tag_image',
    'SnapraidVerif.Props.C20.escTag_injective',
    'SnapraidVerif.Props.C20.shell_roundtrip',
    'SnapraidVerif.Props.C20.shell_newline_raw',
    'SnapraidVerif.Props.C20.dup_iff_equal',
    'SnapraidVerif.Props.C20.pool_exact',
    'SnapraidVerif.Props.C20.pool_one_link_per_name',
]

def hx(b):
    return b.hex() if b else '-'

def esc_shell_py(b):
    out = bytearray()
    for c in b:
        if c in b' ~`#$&*()\\|[]{};\'"<>?':
            out.append(0x5c)
        out.append(c)
    return bytes(out)

def esc_sweep(leaf, seed, stats):
    rng = e2e.Rng(seed)
    strs = [bytes([c]) for c in range(1, 256)]
    inter = [10, 13, 58, 92, 32, 39, 34, 42, 63, 91, 93, 36, 96, 126, 97, 255, 128, 110, 100, 114, 47]
    strs += [bytes([a, b]) for a in inter for b in inter]
    strs += [bytes([a, b, c]) for a in inter[:8] for b in inter[:8] for c in inter[:8]]
    for _ in range(300):
        strs.append(bytes(1 + rng.below(255) for _ in range(1 + rng.below(40))))
    reqs = []
    for s in strs:
        reqs.append('esc_tag ' + hx(s)); reqs.append('esc_shell ' + hx(s))
    lean = vlib.driver_query(reqs)
    real, rc, err = vlib.leaf_query(leaf, reqs)
    problems = []
    for q, l, r in zip(reqs, lean, real):
        stats['esc'] += 1
        if l != r:
            problems.append(('%s: binary %s, Lean model %s' % (q, r, l), q)); break
        if q.startswith('esc_tag'):
            out = bytes.fromhex(r) if r != '-' else b''
            src = bytes.fromhex(q.split(' ')[1])
            if b':' in out or b'\n' in out or b'\r' in out:
                problems.append(('esc_tag leaves a raw separator in %r -> %r' % (src, out), q)); break
            if e2e.unesc_tag(out.decode('latin-1')) != src:
                problems.append(('esc_tag(%r) = %r does not decode back' % (src, out), q)); break
    return problems

def views(exe, root, seed, stats):
    rng = e2e.Rng(seed)
    a = e2e.Arr(root, exe, ndisks=2 + rng.below(2), nparity=1, ncontent=1, hashsize=16, pool=True)
    s = sim.Sim(a, rng.fork(), weird_names=True)
    s.populate(2 + rng.below(3))
    # duplicate groups of any size across disks
    for g in range(1 + rng.below(3)):
        data = rng.bytes(rng.choice([1, 1024, 1500, 3000]))
        for k in range(2 + rng.below(3)):
            a.write(rng.choice(a.disks), 'dup%d/copy%d_%d' % (g, k, rng.below(1000)), data, s.tick())
    if seed % 4 == 0:
        # long files (hundreds of blocks): a true pair, and near-duplicates that share size and tail but differ early
        nblk = 257 + rng.below(300)
        big = rng.bytes(nblk * a.block - rng.below(a.block))
        near = bytearray(big); near[rng.below(a.block * 100)] ^= 0x31
        a.write(a.disks[0], 'big/one', big, s.tick()); a.write(a.disks[-1], 'big/two', big, s.tick())
        a.write(rng.choice(a.disks), 'big/near', bytes(near), s.tick())
    for _ in range(3): s.fs_create()
    s.fs_link(); s.fs_link(); s.fs_dir()
    s.sync()
    if rng.chance(1, 2):
        # an interrupted state: pending, deleted blocks, maybe bad marks
        s.fs_random(4)
        s.sync(rng.choice(['-B', '-B', '--test-kill-after-sync']), *(['1'] if True else []) ) if False else s.sync('-B', '1')
    if rng.chance(1, 3) and s.existing_files():
        lay0 = fx.Layout(a, fx.decode(a))
        if lay0.blocks:
            fx.flip_data_block(a, rng, rng.choice(lay0.blocks)); a.cmd('scrub', '-p', 'full')
    dec = fx.decode(a)
    if not dec.ok:
        a.destroy(); return None
    lay = fx.Layout(a, dec)
    maps = [m[0].decode('latin-1') for m in dec.maps]
    problems = []
    # ---- list (standard output): one line per recorded file ending in the shell-escaped name
    r = a.cmd('list', opts=[o for o in e2e.BASE_OPTS if o != '-q'])
    lines = r.out.encode('latin-1').split(b'\n')
    for f in dec.files:
        stats['list_names'] += 1
        want = esc_shell_py(f['sub'])
        n = sum(1 for ln in lines if ln.endswith(b' ' + want) and ln.lstrip().startswith(str(f['size']).encode()))
        if n < 1:
            tag = '[stdout-newline]' if b'\n' in f['sub'] else '[stdout]'
            problems.append(('%s list does not print %r (size %d) as one line of its standard output' % (tag, f['sub'], f['size']), r.out[-1500:]))
            break
    # ---- status: counters and per-stripe dump from the recorded state
    st = a.cmd('status', '-G')
    deleted_pos = set()
    for dd in dec.deleted.values(): deleted_pos |= set(dd)
    unsynced = 0
    for pos in range(dec.blockmax):
        blocks = lay.by_pos.get(pos, [])
        one_valid = bool(blocks)
        one_invalid = any(b['kind'] != 'b' for b in blocks) or pos in deleted_pos
        if one_valid and one_invalid: unsynced += 1
        stats['status_stripes'] += 1
        line = [t for t in st.tags if t.startswith('block:%d:' % pos) or t.startswith('block_noinfo:%d:' % pos)]
        inf = dec.info.get(pos)
        if inf:
            want = 'block:%d:%d:%s:%s:%s:%s' % (pos, inf[1], 'used' if one_valid else '', 'unsynced' if one_invalid else '', 'bad' if inf[2] else '', 'rehash' if inf[3] else '')
        else:
            want = 'block_noinfo:%d:%s:%s' % (pos, 'used' if one_valid else '', 'unsynced' if one_invalid else '')
        if line != [want]:
            problems.append(('status -G reports stripe %d as %r, the recorded state is %r' % (pos, line, want), '')); break
    nbad = sum(1 for i in dec.info.values() if i[2])
    nnew = sum(1 for i in dec.info.values() if i[4])
    if st.summary('has_unsynced') != str(unsynced):
        problems.append(('status reports %s unsynced stripes, the recorded state has %d' % (st.summary('has_unsynced'), unsynced), ''))
    if (st.summary('has_bad') or '').split(':')[0] != str(nbad):
        problems.append(('status reports has_bad=%s, the recorded state has %d bad stripes' % (st.summary('has_bad'), nbad), ''))
    if st.summary('has_unscrubbed') != str(nnew):
        problems.append(('status reports has_unscrubbed=%s, recorded %d' % (st.summary('has_unscrubbed'), nnew), ''))
    # ---- dup: groups of identical content among fully hashed non-empty files (no hash migration here)
    du = a.cmd('dup')
    parent = {}
    def find(x):
        while parent.setdefault(x, x) != x: x = parent[x]
        return x
    for t in du.tags:
        p = t.split(':')
        if p[0] == 'dup' and len(p) >= 5:
            x, y = (p[1], e2e.unesc_tag(p[2])), (p[3], e2e.unesc_tag(p[4]))
            parent[find(x)] = find(y)
    got_groups = {}
    for x in list(parent): got_groups.setdefault(find(x), set()).add(x)
    got = sorted(sorted(g) for g in got_groups.values() if len(g) > 1)
    by_content = {}
    for f in dec.files:
        if f['size'] == 0 or any(b[1] not in ('b', 'p') for b in f['blocks']): continue
        v = s.file_version(maps[f['mapping']], f)
        if v is None: continue
        by_content.setdefault(v, set()).add((maps[f['mapping']], f['sub']))
    want = sorted(sorted(g) for g in by_content.values() if len(g) > 1)
    stats['dup_groups'] += len(want)
    if got != want:
        problems.append(('dup reports groups %r, files with identical recorded contents are %r' % (got[:3], want[:3]), ''))
    # ---- pool: pre-existing stale links, an empty dir and a foreign file
    os.makedirs(os.path.join(a.pool, 'old/dir'), exist_ok=True)
    os.symlink('/nonexistent/stale', os.path.join(a.pool, 'old/stale_link'))
    os.makedirs(os.path.join(a.pool, 'emptydir/x'), exist_ok=True)
    with open(os.path.join(a.pool, 'foreign.txt'), 'w') as f: f.write('keep me')
    def verify_pool(decx, when):
        pr = a.cmd('pool')
        mapsx = [m[0].decode('latin-1') for m in decx.maps]
        links, others, emptydirs = {}, [], []
        for dp, dn, fn in os.walk(a.pool):
            rel = os.path.relpath(dp, a.pool)
            if rel != '.' and not dn and not fn: emptydirs.append(rel)
            for n in fn + [x for x in dn if os.path.islink(os.path.join(dp, x))]:
                p = os.path.join(dp, n)
                if os.path.islink(p): links[os.fsencode(os.path.relpath(p, a.pool))] = os.readlink(p)
                else: others.append(os.path.relpath(p, a.pool))
        recorded = {}
        for f in decx.files:
            recorded.setdefault(f['sub'], set()).add(mapsx[f['mapping']])
        for k, m, sub, lt in decx.links:
            recorded.setdefault(sub, set()).add(mapsx[m])
        stats['pool_links'] += len(recorded)
        if pr.rc != 0:
            problems.append(('pool %s exits %d: %s' % (when, pr.rc, pr.out[-200:]), ''))
        elif set(links) != set(recorded):
            problems.append(('pool directory %s holds links %r (symmetric difference with the recorded files and links)' % (when, sorted(set(links) ^ set(recorded))[:4],), ''))
        else:
            for sub, target in links.items():
                if not any(os.fsencode(target) == os.fsencode(a.ddir(d)) + b'/' + sub for d in recorded[sub]):
                    problems.append(('pool link %r %s points to %r, not to the recorded entry on %s' % (sub, when, target, sorted(recorded[sub])), '')); break
            if 'foreign.txt' not in others:
                problems.append(('pool removed a foreign file', ''))
            if emptydirs:
                problems.append(('pool left empty directories %r' % emptydirs[:3], ''))
    verify_pool(dec, '(first run)')
    # ---- pool again on the populated directory after entries moved to another disk under the same relative name
    if not problems and a.ndisks >= 2:
        moved = 0
        snapx = a.snapshot()
        for (d, rel), v in sorted(snapx.items()):
            if moved >= 4: break
            if v[0] not in ('l', 'f'): continue
            if v[0] == 'f' and not rng.chance(1, 3): continue
            d2 = [x for x in a.disks if x != d and not os.path.lexists(a.path(x, rel))]
            if not d2: continue
            dst = a.path(d2[0], rel)
            q = os.path.dirname(dst); okp = True
            while q != a.ddir(d2[0]):
                if os.path.lexists(q) and not os.path.isdir(q): okp = False
                q = os.path.dirname(q)
            if not okp: continue
            os.makedirs(os.path.dirname(dst), exist_ok=True)
            os.rename(a.path(d, rel), dst); moved += 1
            s.log('move %s/%r -> %s (same relative name)' % (d, rel, d2[0]))
        if moved:
            r = s.sync()
            if r.rc == 0:
                verify_pool(fx.decode(a), '(second run, after %d entries moved to another disk)' % moved)
                stats['pool_reruns'] = stats.get('pool_reruns', 0) + 1
    # ---- pool on an up-to-date pool directory that holds EMPTY directories and not a single stale link (left by hand,
    # by another tool, or by a pool run that died between removing the stale links and cleaning the directories)
    if not problems:
        for e in ('handmade/empty', 'old/2019/empty', 'lonely'):
            os.makedirs(os.path.join(a.pool, e), exist_ok=True)
        s.log('empty directories created in the pool by hand (no stale link present)')
        verify_pool(fx.decode(a), '(run on an up-to-date pool holding only additional empty directories)')
    cfg = 'ndisks=%d seed=%d' % (a.ndisks, seed)
    hist = '\n'.join(s.history)
    a.destroy()
    return [('(%s) %s' % (cfg, t), b + '\nhistory:\n' + hist) for t, b in problems]

def directed_newline(exe, root):
    a = e2e.Arr(root, exe, ndisks=1, nparity=1, ncontent=1)
    a.write('d1', 'a\nb', b'x' * 10)
    a.cmd('sync')
    r = a.cmd('list', opts=[o for o in e2e.BASE_OPTS if o != '-q'])
    lines = r.out.encode('latin-1').split(b'\n')
    ok = any(ln.endswith(b' a\\\nb') or ln.endswith(b" 'a\nb'") for ln in lines) or sum(1 for ln in lines if b'10 ' in ln and ln.rstrip().endswith(b'b')) == 1 and not any(ln == b'b' for ln in lines)
    tagok = any(t.startswith('file:d1:a\\nb:') for t in r.tags)
    a.destroy()
    if any(ln == b'b' for ln in lines):
        return '[stdout-newline] list does not print %r (size 10) as one line of its standard output (directed: the name is split over two lines; log tag unambiguous=%s)' % (b'a\nb', tagok)
    return None

def main(tier, seed):
    chk = vlib.Check('C20', 'proof', tier, seed)
    chk.assumptions = ['POSIX branch of esc_shell; names cannot contain NUL or be empty',
                       'dup is compared with real file contents (harness version store), so HashSep holds on the generated data']
    ok, log = vlib.ensure_lean_built()
    chk.oblig('lake build', ok, log[-300:])
    hits = vlib.forbidden_tokens()
    chk.oblig('no sorry/admit/axiom/native_decide in library', not hits, '; '.join(hits))
    okA, ax, out = vlib.axioms_audit(STATIC_THEOREMS, ['SnapraidVerif.Props.C20'])
    chk.axioms.update(ax)
    for t in STATIC_THEOREMS:
        chk.oblig('axiom audit: ' + t, ax.get(t) is not None and all(x in vlib.STD_AXIOMS for x in ax[t]), str(ax.get(t)))
    try:
        exe = vlib.build_snapraid(); leaf = vlib.build_leaf_harness()
    except vlib.BuildError as e:
        chk.violation('build of /repo failed: ' + str(e)[:300], str(e), False, 'build'); chk.finish()
    dv = directed_newline(exe, os.path.join(vlib.scratch(), 'dnl'))
    chk.extra['directed_C20_newline'] = dv or 'not reproduced'
    if dv:
        chk.violation('C20 ' + dv, dv, True, 'known_newline')
    stats = {'esc': 0, 'list_names': 0, 'status_stripes': 0, 'dup_groups': 0, 'pool_links': 0}
    n = 40 if tier == 'quick' else 400
    jobs = [('esc', 0)] + [('views', i) for i in range(n)]
    def job(j):
        kind, i = j
        if kind == 'esc':
            return esc_sweep(leaf, seed, stats)
        return views(exe, os.path.join(vlib.scratch(), 'v%d' % i), seed * 100000 + 95000 + i, stats)
    with ThreadPoolExecutor(vlib.NCPU) as ex:
        res = list(ex.map(job, jobs))
    k = 0
    seen = set()
    for r in res:
        for text, body in (r or [])[:2]:
            key = text.split(']')[0] if '[' in text else text[:40]
            if key in seen and '[stdout-newline]' in text: continue
            seen.add(key)
            k += 1
            if k <= 5:
                chk.violation('C20 ' + text, body, True, 'views')
    for o in chk.obligations:
        if not o[1]:
            chk.violation('C20 static obligation failed: ' + o[0], o[0] + '\n' + o[2], False, 'static')
    chk.evaluations = sum(v for v in stats.values())
    chk.distinct = stats['esc'] + stats['status_stripes']
    chk.rule = ('ESC: every 1-byte string, all 2-byte strings over 21 interesting bytes, 3-byte strings over 8, 300 random long strings: esc_tag/esc_shell of the binary vs the Lean model + decode-back and no-raw-separator predicates. VIEWS: %d arrays with names of arbitrary bytes, duplicate groups of 2-4 files across disks, links, interrupted syncs, bad marks: list standard output (one line per recorded file), status -G per-stripe dump and counters vs the Lean-decoded content, dup groups vs real contents, pool with stale links / empty dirs / a foreign file pre-existing; pool run again on an up-to-date pool that holds only additional empty directories' % n)
    chk.samples = [dict(stats)]
    chk.corr['E2E-REPORT'] = dict(stats)
    chk.finish()

def replay(path):
    print(open(path).read()[:8000]); return 0
